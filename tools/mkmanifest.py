#!/usr/bin/env python3
"""writes /verif/MANIFEST.json from the table below (kept in one place so it stays valid)"""
import json, os, subprocess

ROOT = os.path.dirname(os.path.dirname(os.path.abspath(__file__)))
props = [json.loads(l) for l in open(os.path.join(ROOT, "properties.jsonl"))]
hook_commits = subprocess.check_output("git -C /repo log --format='%h %s' | grep ' hooks:' | cut -d' ' -f1", shell=True, text=True).split()

# id -> (category, text, note, technique, design_ref)
CLAIMS = {
    "C01": ("proof",
            "Coq: (read path) lookups / scans / seeks on every well-formed tree = the sorted association list, page codec round trip; "
            "(write path, engine model Engine.v) EngineRefines.run_tx_meaning: from a committed state satisfying the strict tree invariant "
            "and the allocation invariant, a completed transaction's committed meaning is the functional semantics sem_tx of its "
            "operations, for every operation list, nested buckets, spill order and tree shape (side conditions: the model's fuels -- paths "
            "< 8, new trees of height <= 64); sem_tx = the handle-based reference machine (SpecPathFacts); the tree invariant is "
            "and the complete invariant (strict trees, allocation, no shared page run) are re-established, so the theorem covers every "
            "history from the empty database at every page size (EngineAllocInv.run_txs_refines_init'); the engine's thresholds and sizes are pinned to the constants generated from the source. The engine MODEL "
            "is tied to the library by correspondence: it must reproduce every committed file page for page, every call is compared with "
            "the extracted reference, every committed file is decoded by the Gallina decoder (inv_check + contents), and the model alone is "
            "searched against the reference over exhaustive shape families with hits replayed on the library.",
            "the refinement theorem is about the engine MODEL (Engine.v); that the model is what the Rust code does is checked by "
            "correspondence, not proved; side conditions of the theorem = the model's fuels; trusted: Coq "
            "kernel + vm_compute, translator gen_consts.py, extraction (ExtrOcamlBasic only), monitor.ml, Rust harness, generators; the "
            "hand-written statements Spec.v / EngineAbs.v / SpecPath.v",
            "Coq refinement theorem for the engine model + page-for-page correspondence model <-> library + differential against the extracted reference", "6/C01, 10, App. K"),
    "C02": ("proof",
            "Coq (CrashFacts): for the commit I/O order the translator reads from write_data, every kill prefix and every power-loss "
            "image (any subset of un-synced writes, torn writes, torn header invalid) selects the old or the new header with all of its "
            "pages intact, given copy-on-write (proved from the page-lifecycle contract, PLFacts.commit_cow, and DISCHARGED for the engine "
            "model: EngineCow.engine_commit_crash_safe shows every commit of Engine.v satisfies the premise, so the crash theorems apply to "
            "every engine transaction); HISTORIES: any number of crashing commit attempts in a row keep a selected header with settled "
            "pages (CrashHistories.crash_history_inv; the target-slot rule is read from write_data by the translator), and at the engine "
            "level the database after any number of crash / reopen rounds reads as the reference after exactly the transactions whose "
            "commit survived, in order (EngineCrashHistories.engine_crash_history); the order and the contract "
            "are tied to the code by strace traces and per-commit contract validation; images built from real bytes are opened by the "
            "library and the model, and on a sample the library recovers, commits once more and that commit's header write is torn too "
            "(second crash).",
            "premise NoTornCollision (torn header is not a valid header) is evaluated on every torn image; fsync/page-cache semantics "
            "of Linux are assumed; strace is the observer",
            "Coq theorem over the generated commit order + strace-validated I/O + crash-image enumeration", "6/C02"),
    "C03": ("proof",
            "Coq (PLFacts/PLProps): in the page-lifecycle machine every accepted event preserves the invariant and no accepted commit "
            "writes into, frees into the free set, or releases a page of a registered reader's snapshot, for every history "
            "(reader_frozen); the real library's hook event stream must be accepted by the extracted machine on every run, and every "
            "open reader is re-dumped after every step against the reference. Engine model with read transactions (EngineR.v, "
            "EngineReaders.snapshot_isolation_init): in every history of transactions / reader begins / reader ends from the empty "
            "database every open reader's pages are unchanged on the current disk and its root still means the contents it began on; "
            "the library's release bound is safe, bound + 2 is refuted by a computed history.",
            "for the page-lifecycle machine the contract (c1-c8) is a premise validated on each real commit; the engine model derives it "
            "from the B+tree code's transliteration, which is tied to the library by the page-for-page correspondence (now also on "
            "histories with open readers)",
            "Coq invariant proof over an executable acceptor + hook-driven trace acceptance", "6/C03, App. E"),
    "C04": ("proof",
            "Coq (ConcFacts): in the thread-level transition system of the lock protocol, for any number of threads and every "
            "schedule, every active reader's snapshot is intact and is the header current when it registered; the pinned protocol "
            "(header read and registration in two steps) is refuted by a 23-step schedule; the GENERATED flag begin_atomic ties the "
            "theorem to the source; scheduled runs of the real library (all <=2-preemption schedules at the coarse yield set for 1 reader "
            "vs 2 writers, sampled beyond) are judged by an oracle on what readers saw and replayed step by step in the extracted system.",
            "the transition system abstracts pages to snapshot ids (release bound / overwrite bound); memory-map validity ('inside the map it "
            "holds') is not modelled; RwLock fairness nondeterministic",
            "Coq invariant proof over an executable LTS + hook-driven schedule enumeration with conformance replay", "6/C04, App. F"),
    "C09": ("proof",
            "Coq (ConcFacts): writer mutual exclusion, a writer's header stays current until it writes its own (no lost update), every "
            "commit increments the header id by one, and deadlock freedom (some unfinished thread can always step) for any number of "
            "threads and every schedule; liveness under fairness is not formalised beyond deadlock freedom; scheduled runs of the real "
            "library incl. file growth with readers holding the map: all threads finish, overlap flag, generations, conformance replay.",
            "std::sync lock semantics assumed; liveness = deadlock freedom only",
            "Coq invariant proof over an executable LTS + scheduled runs with conformance replay", "6/C09, App. F"),
    "C05": ("proof",
            "Coq (PLFacts.partition / accept_inv; CodecFacts; Tree.inv_check): the page-lifecycle invariant gives 'every page below the "
            "high-water mark is exactly one of live / free / pending'; inv_check (extracted, run on EVERY committed file) checks the "
            "partition, key order within and across pages, separator bounds, element bounds; DB::check must agree.",
            "CheckFacts.inv_check_partition proves what an inv_check verdict means (reachable ++ free-list run ++ free ids = a duplicate-free "
            "permutation of [2, num_pages)) for every file; the "
            "(engine model: EngineNoLeak.run_txs_exact_init proves the exact partition -- nothing shared, nothing leaked, free-list record = "
            "the unused pages -- for every reachable state; EngineReadFull: the checker's tree half accepts every engine file image); the Rust "
            "engine itself is not proved to satisfy the contract, it is validated per commit",
            "Coq invariant + proved-codec decoder run on every real committed file", "6/C05"),
    "C06": ("proof",
            "Coq (PLFacts.accept_BeginW_same / accept_Rollback_same; Spec): beginning and abandoning a writer is the identity on the "
            "shared state; in the reference an erroring call leaves the state unchanged by definition and every mutator on a read-only "
            "transaction returns ReadOnlyTx; correspondence: whole-file hash before/after every dropped transaction, reopen, read-only "
            "transaction and erroring call; strace shows no write/fallocate outside commits. Engine model: close + reopen changes neither the "
            "data nor its meaning and is invisible to the next writer (EngineReopen.run_tx_reopen).",
            "file-hash and strace observations are the tie to the code", "Coq lemmas + file-hash / strace differential", "6/C06"),
    "C07": ("proof",
            "Coq, engine model with reads inside a write transaction (model/EngineScan.v: the overlay of materialised nodes over mapped "
            "pages as the tree the cursor walks; proofs/EngineTxScan.v): on every state with well-formed pages, after ANY list of "
            "operations of a write transaction, at ANY nested bucket path, the cursor machine's get / full scan / every range / seek and "
            "the engine's own point lookup answer exactly what the reference answers in sem_tx ops (abs_db st) -- pairs and nested-bucket "
            "markers in key order, leaves the transaction has emptied included, the library's BucketMissing / IncompatibleValue for a path "
            "that is not a bucket (tx_scan_spec, tx_reads_cursor, tx_reads; read_own_put / read_own_delete). The model is tied to the library "
            "by correspondence: every get / scan / seek / range the library answers inside a write transaction is sent to the extracted "
            "model and must be identical (thousands per run), every commit page for page; the full read API is also compared with the "
            "extracted reference after every single mutation; model-side search evaluates the statement on every bucket of exhaustive shape families.",
            "that model/Engine.v + EngineScan.v are what the Rust code does is checked by correspondence, not proved; side conditions = "
            "the model's fuels (op_ok)", "Coq refinement theorem for in-transaction reads + exact model-vs-library correspondence of every in-transaction read", "6/C07, App. K layer 22"),
    "C08": ("proof",
            "Coq (CursorFacts, SearchFacts, SeekFacts): cursor_all, cursor_end / never panics, seek_spec, range_spec (all nine bound "
            "kinds), filters, get_spec for every well-formed tree; the extracted cursor machine is run on the decoded committed files and "
            "must agree call-for-call with the library (tens of thousands of calls per run); legacy machine refuted; on every tree the engine model "
            "commits, after any history and for any bucket, get / scan / range / seek equal the reference (EngineReadBridge.history_read, "
            "EngineReadFull.history_read_full), and so they do inside a write transaction on the overlay, emptied leaves included "
            "(EngineTxScan.tx_reads_cursor).",
            "binary search is Rust's slice::binary_search_by transliterated by hand", "Coq theorems + exact model-vs-library correspondence", "6/C08, App. H"),
    "C10": ("proof",
            "Coq (FreelistFacts, PLFacts, PLProps): the allocator returns the first run of n consecutive free ids and fails only when no "
            "run exists (so the file grows only then); a writer releases pending[u] iff u is older than every registered reader; with no "
            "reader everything is released; pinned pages are retained; reopen keeps free + pending; plateau bound np <= max(np0, 2+2M+K) "
            "for any number of commits under the stated per-commit hypothesis (proved for the contract level; multi-page fragmentation "
            "has no closed bound: there the statement is alloc_complete); the free-list model is replayed event-exact against the library; "
            "long runs must plateau. Engine model (EngineNoLeak, EngineReaders*, EngineReopen): in every state a history of transactions, "
            "reader begins / ends and reopens reaches, the ids recorded on the free-list page are exactly the pages no live node uses "
            "(nothing freed is lost), pages stay pending only while a reader older than their batch is open, the first writer after the "
            "last reader releases every batch, and reopen keeps every free and pending id.",
            "plateau hypothesis grows_only_when_empty follows from alloc_complete only for single-page allocations; fragmentation of "
            "multi-page runs is measured (series in the evidence), not bounded by a theorem",
            "Coq theorems on the transliterated allocator + event-exact replay + long-run high-water series", "6/C10"),
    "C11": ("proof",
            "Coq (CrashFacts/CrashCurrent): for the I/O order and the free-list publication rule the translator reads from the current "
            "source, whichever call of a commit fails (applied, lost or torn), the disk holds exactly the pre or the post state with all "
            "pages intact, and the shared free list the process keeps matches the header the next transaction reads; pinned behaviour "
            "refuted; engine model with contents (EngineFaultHistories.engine_fault_history): after ANY history of failing and successful "
            "commits in one process the database reads as the reference after exactly the commits that are visible, in order, and the "
            "complete engine invariant holds -- a commit that reported an error is entirely there or entirely absent; every write/fsync/fallocate of real commits is made to fail once (strace inject, LD_PRELOAD short-write shim) and "
            "the continued history, check, reopen and decoded files must match one of the two reference timelines.",
            "copy-on-write premise from the page-lifecycle contract (validated per commit); strace / shim are the fault injectors",
            "Coq theorem over generated I/O order and publication rule + exhaustive single-fault injection", "6/C11"),
    "C12": ("proof",
            "Coq (FnvFacts, MetaFacts): FNV-1a step is injective, a single changed byte changes the checksum, so any single-byte damage in "
            "a hashed field / the checksum / the page-type byte invalidates the slot and open selects the other header; every stored field "
            "is hashed (checked against the GENERATED hash_fields); sweep: every offset x 4 values on both slots after 0..n commits + "
            "zeroing + random overwrites, library vs model.",
            "multi-byte damage is covered under the premise 'checksum mismatch' (evaluated), not unconditionally", "Coq theorem over generated layout + exhaustive byte sweep", "6/C12"),
    "C13": ("proof",
            "Coq (ProcFacts): in the process-level transition system of open (any number of processes, any schedule) at most one "
            "process is between flock and close, and for the protocol the source implements (GENERATED flag lock_before_init) no opener "
            "fails, whoever is inside sees an initialised file with every commit made so far, and the lock holder can always move; the "
            "pinned protocol is refuted (panic on a half-created file, AlreadyExists for the losing creator); real processes are forced "
            "into orderings at system-call boundaries with strace delay injection and the system-call word of every open is checked "
            "against the automaton.",
            "flock(2) semantics assumed; a crash between fallocate and the first write of a new file is outside the model",
            "Coq invariant proof over an executable LTS + forced multi-process orderings", "6/C13, App. G"),
    "C14": ("proof",
            "Coq (ApiFlow/ApiFacts): over the public signature table regenerated from nightly rustdoc JSON on every run, every "
            "function's map-pointing results are tied to the borrow of the transaction (receiver borrow, receiver / argument anchors, impl "
            "bounds) or own their bytes (body classification read from the source), no transaction-derived type is Send, DB is Send + Sync + "
            "Clone; the pinned to_bytes and a loosened get_kv are rejected by the same check; the theorem is about jammdb's signatures: "
            "rustc's borrow checker is trusted and is the judge of a generated client corpus whose per-program verdicts must coincide with "
            "the check; programs that compile and carry a value out run in a probe while the file is remapped.",
            "rustc / Rust's soundness trusted; the run-time half (no map read after the transaction ended) is covered only by probe runs; "
            "body classification (owned vs borrowed Bytes) is a syntactic reading of the ToBytes impls",
            "Coq finite check over a generated API table + rustc verdicts on a generated client corpus + probe runs", "6/C14, App. I"),
    "C15": ("proof",
            "Coq (CodecFacts, MetaFacts, CfgFacts): the page decoder inverts the page encoder for every page body and every content of "
            "the uninitialised bytes, the header codec round-trips, sizes / offsets / magic / type codes are pinned against the GENERATED "
            "struct field lists, a recorded page size different from the one given to open is refused; the golden files written once by the "
            "pinned release at 1024 / 4096 / 5000 / 16384 and their legacy-header variants are decoded by the same Gallina functions (the "
            "legacy checksum by the Gallina SHA3-256) and opened, continued and mis-opened with the library on every run.",
            "OldMetaFacts proves the legacy (SHA3-256) header round trip and that legacy / mixed files open on the right header, under the "
            "stated premise that a legacy page is not also a valid current-format header; golden files and python's hashlib are trusted as the record of the old format",
            "Coq codec theorems over generated layout + golden-file differential (library vs Gallina decoder)", "6/C15"),
    "C16": ("translation_validation",
            "The same histories are replayed under the configuration grid (page size x initial pages x strict x populate) and every call "
            "and every committed file's decoded contents must equal the single reference run, so configurations are pairwise equal; strict "
            "mode never rejects; growth runs cross >= 3 extension steps; every builder value 1024..1100 (+ odd large) works or is refused "
            "cleanly in both profiles. Coq (CfgFacts): the builder accepts exactly valid_cfg (from the GENERATED guards) and exactly those "
            "keep every page structure 8-byte aligned; the pinned builder without the alignment guard is refuted; CheckFacts: the model of "
            "DB::check (compared with the library's verdict on every snapshot) accepts every file the file checker accepts; engine model: "
            "EngineCorollaries.page_size_irrelevant (two page sizes, same transactions, same committed contents) and "
            "EngineFileImage.history_inv_check (inv_check and the model of DB::check accept the complete file image of every reachable "
            "state, so strict mode cannot reject the engine's commits).",
            "the equality library = reference per configuration is validated, not proved (inherits C01's unproved write path); page sizes "
            ">= 2^24 and initial files > 80 MB are not exercised",
            "configuration-grid differential against the extracted reference + Coq lemmas on the generated builder guards", "6/C16"),
}

NOT_YET = "check not built yet at this commit (build in progress; see DESIGN.md section 10)"

checks = []
na = []
for p in props:
    pid = p["id"]
    if pid in CLAIMS and os.path.exists(os.path.join(ROOT, "coq", "props", pid + ".v")):
        cat, text, note, tech, ref = CLAIMS[pid]
        checks.append(dict(property_id=pid, quick_cmd="./check %s --tier quick" % pid, thorough_cmd="./check %s --tier thorough" % pid,
                           evidence_file="evidence/%s.json" % pid, replay_cmd_template="./check %s --replay {path}" % pid,
                           engine="coq-model", level_claimed=dict(category=cat, text=text, design_ref="DESIGN.md " + ref),
                           level_note=note, technique=tech))
    else:
        na.append(dict(property_id=pid, reason=NOT_YET))

m = dict(version=1, setup_cmd="./setup",
         hooks=dict(guard="cargo feature verif-hooks",
                    enable="the harness depends on jammdb with features=[\"verif-hooks\"] (cargo build --features hooks in /verif/harness)",
                    baseline_off_cmd="cd /repo && cargo test --workspace --no-fail-fast --offline",
                    source_commits=hook_commits, add_only=True),
         engines=[dict(name="coq-model", path="coq/", serves_properties=[c["property_id"] for c in checks],
                       kind_free_text="Coq 8.16 development: executable Gallina model, reference, theorems; extracted to OCaml "
                                      "(ocaml/monitor) for the correspondence runs against the Rust harness (harness/)")],
         checks=checks, not_applicable=na,
         notes="see DESIGN.md; known_findings.json lists the repaired defects (status fixed: they suppress nothing)")
json.dump(m, open(os.path.join(ROOT, "MANIFEST.json"), "w"), indent=1)
print("claimed:", [c["property_id"] for c in checks], "not yet:", [x["property_id"] for x in na])
