"""C14 correspondence: a corpus of small client programs generated from the public API table; rustc's
verdict on each (error codes from `cargo check --message-format=json`) must equal what the Coq lifetime-flow
check (model/ApiFlow.v over gen/ApiSig.v) says: an anchored result cannot be carried out of its transaction
(rejected with a borrow / lifetime error), an owned result can (accepted, and a probe run shows its bytes do
not change while the file is remapped and its pages are reused)."""
import os, json, re, shutil, subprocess
import vlib

BORROW_CODES = {"E0597", "E0505", "E0515", "E0716", "E0521", "E0499", "E0502", "E0506", "E0713", "E0373", "E0700", "E0310", "E0495", "E0759"}
SEND_CODES = {"E0277"}

PRELUDE = """#![allow(unused)]
use jammdb::*;
use std::ops::Bound;
fn show<T: ?Sized>(_t: &T) {}
fn main() -> Result<(), Error> {
    let db = DB::open("client.db")?;
"""

# recipe: (owner, trait, name) -> (setup statements inside the transaction scope, expression whose value escapes)
# available names: tx (write tx), b (Bucket "b" with key "k" and nested bucket "n")
SETUP = """        let tx = db.tx(true)?;
        let b = tx.get_or_create_bucket("b")?;
        b.put("k", "v")?;
        let _ = b.get_or_create_bucket("n")?;
"""
RECIPES = {
    ("Tx", "", "get_bucket"): ("", 'tx.get_bucket("b")?'),
    ("Tx", "", "create_bucket"): ("", 'tx.create_bucket("c")?'),
    ("Tx", "", "get_or_create_bucket"): ("", 'tx.get_or_create_bucket("c")?'),
    ("Tx", "", "buckets"): ("", "tx.buckets()"),
    ("Bucket", "", "get"): ("", 'b.get("k")'),
    ("Bucket", "", "get_kv"): ("", 'b.get_kv("k")'),
    ("Bucket", "", "put"): ("", 'b.put("k", "w")?'),
    ("Bucket", "", "delete"): ("", 'b.delete("k")?'),
    ("Bucket", "", "get_bucket"): ("", 'b.get_bucket("n")?'),
    ("Bucket", "", "create_bucket"): ("", 'b.create_bucket("m")?'),
    ("Bucket", "", "get_or_create_bucket"): ("", 'b.get_or_create_bucket("m")?'),
    ("Bucket", "", "cursor"): ("", "b.cursor()"),
    ("Bucket", "", "buckets"): ("", "b.buckets()"),
    ("Bucket", "", "kv_pairs"): ("", "b.kv_pairs()"),
    ("Bucket", "", "range"): ("", 'b.range((Bound::Included(&b"a"[..]), Bound::Unbounded))'),
    ("Bucket", "IntoIterator", "into_iter"): ("", "b.into_iter()"),
    ("Cursor", "", "current"): ("let mut c = b.cursor(); c.seek(\"k\");", "c.current()"),
    ("Cursor", "Iterator", "next"): ("let mut c = b.cursor();", "c.next()"),
    ("Cursor", "ToBuckets", "to_buckets"): ("", "b.cursor().to_buckets()"),
    ("Cursor", "ToKVPairs", "to_kv_pairs"): ("", "b.cursor().to_kv_pairs()"),
    ("Range", "Iterator", "next"): ('let mut r = b.range((Bound::Included(&b"a"[..]), Bound::Unbounded));', "r.next()"),
    ("Range", "ToBuckets", "to_buckets"): ("", 'b.range((Bound::Included(&b"a"[..]), Bound::Unbounded)).to_buckets()'),
    ("Range", "ToKVPairs", "to_kv_pairs"): ("", 'b.range((Bound::Included(&b"a"[..]), Bound::Unbounded)).to_kv_pairs()'),
    ("Buckets", "Iterator", "next"): ("let mut it = b.buckets();", "it.next()"),
    ("KVPairs", "Iterator", "next"): ("let mut it = b.kv_pairs();", "it.next()"),
    ("KVPair", "", "key"): ('let kv = b.get_kv("k").unwrap();', "kv.key()"),
    ("KVPair", "", "value"): ('let kv = b.get_kv("k").unwrap();', "kv.value()"),
    ("KVPair", "", "kv"): ('let kv = b.get_kv("k").unwrap();', "kv.kv()"),
    ("KVPair", "Clone", "clone"): ('let kv = b.get_kv("k").unwrap();', "kv.clone()"),
    ("Data", "", "key"): ('let d = b.get("k").unwrap();', "d.key()"),
    ("Data", "", "kv"): ('let d = b.get("k").unwrap();', "d.kv()"),
    ("Data", "Clone", "clone"): ('let d = b.get("k").unwrap();', "d.clone()"),
    ("BucketName", "", "name"): ("let (nm, _) = b.buckets().next().unwrap();", "nm.name()"),
    ("BucketName", "Clone", "clone"): ("let (nm, _) = b.buckets().next().unwrap();", "nm.clone()"),
    ("BucketName", "ToBytes", "to_bytes"): ("let (nm, _) = b.buckets().next().unwrap();", "nm.to_bytes()"),
    ("&BucketName", "ToBytes", "to_bytes"): ("let (nm, _) = b.buckets().next().unwrap();", "(&nm).to_bytes()"),
}

ROUTES = {
    # value kept past the end of the scope that owns the transaction
    "scope": ("    let escaped;\n    {\n%s        %s\n        escaped = %s;\n    }\n    show(&escaped);\n    Ok(())\n}\n"),
    # value kept past commit
    "commit": ("%s        %s\n        let escaped = %s;\n        tx.commit()?;\n    show(&escaped);\n    Ok(())\n}\n"),
}

HAND = {
    # (name, source, expectation: 'borrow' | 'send' | 'ok')
    "tx_outlives_db": ("""#![allow(unused)]
use jammdb::*;
fn main() -> Result<(), Error> {
    let tx = { let db = DB::open("client.db")?; db.tx(false)? };
    let _ = tx.get_bucket("b");
    Ok(())
}
""", "borrow"),
    "key_too_short_lived": ("""#![allow(unused)]
use jammdb::*;
fn main() -> Result<(), Error> {
    let db = DB::open("client.db")?;
    let tx = db.tx(true)?;
    let b = tx.get_or_create_bucket("b")?;
    { let k = String::from("key"); b.put(k.as_str(), "v")?; }
    tx.commit()?;
    Ok(())
}
""", "borrow"),
    "value_too_short_lived": ("""#![allow(unused)]
use jammdb::*;
fn main() -> Result<(), Error> {
    let db = DB::open("client.db")?;
    let tx = db.tx(true)?;
    let b = tx.get_or_create_bucket("b")?;
    { let v = vec![1u8, 2, 3]; b.put("k", &v[..])?; }
    tx.commit()?;
    Ok(())
}
""", "borrow"),
    "tx_to_thread": ("""#![allow(unused)]
use jammdb::*;
fn main() -> Result<(), Error> {
    let db = DB::open("client.db")?;
    let tx = db.tx(false)?;
    std::thread::scope(|s| { s.spawn(|| { let _ = tx.get_bucket("b"); }); });
    Ok(())
}
""", "send"),
    "bucket_to_thread": ("""#![allow(unused)]
use jammdb::*;
fn main() -> Result<(), Error> {
    let db = DB::open("client.db")?;
    let tx = db.tx(false)?;
    let b = tx.get_bucket("b")?;
    std::thread::scope(|s| { s.spawn(move || { let _ = b.get("k"); }); });
    Ok(())
}
""", "send"),
    "kvpair_to_thread": ("""#![allow(unused)]
use jammdb::*;
fn main() -> Result<(), Error> {
    let db = DB::open("client.db")?;
    let tx = db.tx(false)?;
    let b = tx.get_bucket("b")?;
    let kv = b.get_kv("k").unwrap();
    std::thread::scope(|s| { s.spawn(move || { let _ = kv.key().len(); }); });
    Ok(())
}
""", "send"),
    "cursor_to_thread": ("""#![allow(unused)]
use jammdb::*;
fn main() -> Result<(), Error> {
    let db = DB::open("client.db")?;
    let tx = db.tx(false)?;
    let b = tx.get_bucket("b")?;
    let c = b.cursor();
    std::thread::scope(|s| { s.spawn(move || { let _ = c.count(); }); });
    Ok(())
}
""", "send"),
    "ok_basic_usage": ("""#![allow(unused)]
use jammdb::*;
fn main() -> Result<(), Error> {
    let db = DB::open("client.db")?;
    {
        let tx = db.tx(true)?;
        let b = tx.get_or_create_bucket("b")?;
        b.put("k", "v")?;
        let key = String::from("owned-key");
        b.put(key, vec![1u8, 2, 3])?;
        for d in b.cursor() { if let Data::KeyValue(kv) = d { let _ = (kv.key().len(), kv.value().len()); } }
        tx.commit()?;
    }
    let tx = db.tx(false)?;
    let b = tx.get_bucket("b")?;
    let copy: Vec<u8> = b.get_kv("k").unwrap().value().to_vec();
    drop(b);
    drop(tx);
    assert_eq!(copy, b"v");
    Ok(())
}
""", "ok"),
    "ok_db_clone_across_threads": ("""#![allow(unused)]
use jammdb::*;
fn main() -> Result<(), Error> {
    let db = DB::open("client.db")?;
    let db2 = db.clone();
    let h = std::thread::spawn(move || { let tx = db2.tx(true).unwrap(); let b = tx.get_or_create_bucket("t").unwrap(); b.put("a", "b").unwrap(); tx.commit().unwrap(); });
    h.join().unwrap();
    let tx = db.tx(false)?;
    let _ = tx.get_bucket("t")?;
    Ok(())
}
""", "ok"),
    "ok_owned_copy_after_commit": ("""#![allow(unused)]
use jammdb::*;
fn main() -> Result<(), Error> {
    let db = DB::open("client.db")?;
    let tx = db.tx(true)?;
    let b = tx.get_or_create_bucket("b")?;
    b.put("k", "v")?;
    let owned: (Vec<u8>, Vec<u8>) = { let kv = b.get_kv("k").unwrap(); (kv.key().to_vec(), kv.value().to_vec()) };
    drop(b);
    tx.commit()?;
    assert_eq!(owned.0, b"k");
    Ok(())
}
""", "ok"),
}

# probe: the value returned by BucketName::to_bytes kept past its transaction while the file is remapped and
# pages are reused; prints the bytes before / after. An owned copy prints the same bytes twice.
PROBE = """#![allow(unused)]
use jammdb::*;
fn main() -> Result<(), Error> {
    let path = std::env::args().nth(1).unwrap();
    let _ = std::fs::remove_file(&path);
    let db = OpenOptions::new().pagesize(1024).num_pages(8).open(&path)?;
    {
        let tx = db.tx(true)?;
        let b = tx.get_or_create_bucket("parent")?;
        b.get_or_create_bucket("a-nested-bucket-with-a-long-name-0123456789")?;
        tx.commit()?;
    }
    let escaped = {
        let tx = db.tx(false)?;
        let b = tx.get_bucket("parent")?;
        let (nm, _) = b.buckets().next().unwrap();
        %s
    };
    let before: Vec<u8> = escaped.as_ref().to_vec();
    // rewrite everything several times and grow the file (remap), so the old pages are freed and reused
    for round in 0..6u32 {
        let tx = db.tx(true)?;
        let b = tx.get_or_create_bucket("parent")?;
        for i in 0..200u32 { b.put(format!("key-{}-{}", round, i).into_bytes(), vec![round as u8; 3000])?; }
        let _ = b.delete_bucket("a-nested-bucket-with-a-long-name-0123456789");
        tx.commit()?;
    }
    let after: Vec<u8> = escaped.as_ref().to_vec();
    println!("before={:?} after={:?} same={}", String::from_utf8_lossy(&before), String::from_utf8_lossy(&after), before == after);
    Ok(())
}
"""


def api_rows():
    rc, out = vlib.sh([vlib.MONITOR, "api"], timeout=60)
    rows = []
    for ln in out.split("\n"):
        p = ln.split("|")
        if len(p) == 6:
            rows.append(dict(owner=p[0], trait=p[1], name=p[2], anchored=(p[3] == "1"), sensitive_out=(p[4] == "1"), body=p[5]))
    return rows


def build_corpus(crate, rows):
    shutil.rmtree(crate, ignore_errors=True)
    os.makedirs(os.path.join(crate, "src", "bin"))
    open(os.path.join(crate, "Cargo.toml"), "w").write(
        '[package]\nname = "clients"\nversion = "0.1.0"\nedition = "2021"\n\n[workspace]\n\n[dependencies]\njammdb = { path = "%s" }\n' % vlib.REPO)
    shutil.copyfile(os.path.join(vlib.REPO, "Cargo.lock"), os.path.join(crate, "Cargo.lock"))
    os.makedirs(os.path.join(crate, ".cargo"))
    open(os.path.join(crate, ".cargo", "config.toml"), "w").write("[net]\noffline = true\n")
    progs = {}
    uncovered = []
    for r in rows:
        if not r["sensitive_out"]:
            continue
        key = (r["owner"], r["trait"], r["name"])
        if key not in RECIPES:
            if r["trait"] not in ("PartialEq", "From"):
                uncovered.append(key)
            continue
        setup, expr = RECIPES[key]
        for route in ("scope", "commit"):
            if route == "commit" and r["name"] == "into_iter":
                continue
            name = ("esc_%s_%s_%s_%s" % (r["owner"].replace("&", "ref"), r["trait"] or "inh", r["name"], route)).lower()
            if route == "scope":
                body = PRELUDE + ROUTES["scope"] % (SETUP, setup, expr)
            else:
                body = PRELUDE + ROUTES["commit"] % (SETUP.replace("        ", "    "), setup, expr)
            # an owned result may be carried out (and the probe run shows its bytes never change); a borrowed one must be
            # anchored (rejected by rustc when carried out), otherwise it is a dangling pointer waiting to happen
            want = "ok" if (r["body"] == "owned" and r["anchored"]) else ("borrow" if r["anchored"] else "dangerous")
            progs[name] = (body, want, key)
    for name, (src, want) in HAND.items():
        progs[name] = (src, want, None)
    for name, (src, want, key) in progs.items():
        open(os.path.join(crate, "src", "bin", name + ".rs"), "w").write(src)
    return progs, uncovered


def rustc_verdicts(crate):
    env = dict(vlib.ENV, CARGO_TARGET_DIR=os.path.join(vlib.CACHE, "clients-target"))
    p = subprocess.run("cargo check --offline --bins --keep-going --message-format=json 2>/dev/null", shell=True, cwd=crate, env=env,
                       stdout=subprocess.PIPE, text=True, timeout=1200)
    codes = {}
    for ln in p.stdout.split("\n"):
        if not ln.startswith("{"):
            continue
        try:
            m = json.loads(ln)
        except ValueError:
            continue
        if m.get("reason") == "compiler-message" and m["message"].get("level") == "error":
            tgt = m.get("target", {}).get("name")
            code = (m["message"].get("code") or {}).get("code")
            if tgt:
                codes.setdefault(tgt, []).append(code or "error-without-code")
    return codes
