"""History generators (families G1..G6 of DESIGN.md). Every random choice comes from one
random.Random(seed), so a history is reproducible from (family, seed, params)."""
import random


def hx(b):
    if isinstance(b, str):
        b = b.encode()
    return b.hex() if b else "-"


def lk(i, n=200):
    """long key: 'k%03d' padded with 'x' to n bytes (token form p<len>:<hexprefix>)"""
    return "p%d:%s" % (n, ("k%03d" % i).encode().hex())


class H:
    """History builder. Tracks handles only approximately; the reference filters out ops on
    orphaned / unknown handles, so sloppiness here costs coverage, not soundness."""

    def __init__(self):
        self.lines = []
        self.next_tx = 1
        self.next_h = {}

    def emit(self, s):
        self.lines.append(s)

    def begin(self, w=True):
        t = self.next_tx
        self.next_tx += 1
        self.next_h[t] = 1
        self.emit("begin %d %s" % (t, "w" if w else "r"))
        return t

    def newh(self, t):
        h = self.next_h[t]
        self.next_h[t] += 1
        return h

    def bucket(self, kind, t, h, name):
        nh = self.newh(t)
        self.emit("%s %d %d %s %d" % (kind, t, h, name, nh))
        return nh

    def commit(self, t, verify=True):
        self.emit("commit %d" % t)
        self.emit("snap")
        if verify:
            self.emit("check")
            r = self.begin(False)
            self.emit("dump %d" % r)
            self.emit("drop %d" % r)

    def text(self):
        return "\n".join(self.lines) + "\n"


SPECIAL_KEYS = ["-", "00", "ff", "ffff", "00ff", "6b"]
VAL_SIZES = [0, 1, 16, 100, 300, 700, 1500, 5000]


def rval(rng, sizes=VAL_SIZES):
    n = rng.choice(sizes)
    return "r%d:%d" % (n, rng.randrange(256)) if n else "-"


def reads(h, rng, t, bh, keys, full=False):
    """the read API on one bucket handle"""
    h.emit("scan %d %d" % (t, bh))
    if full or rng.random() < 0.5:
        k = rng.choice(keys)
        h.emit("get %d %d %s" % (t, bh, k))
        h.emit("getkv %d %d %s" % (t, bh, k))
        h.emit("seek %d %d %s" % (t, bh, k))
        h.emit("seek %d %d %s" % (t, bh, rng.choice(keys) + "+00"))
        h.emit("seek %d %d %s %d" % (t, bh, rng.choice(keys), rng.randrange(1, 4)))      # a cursor that has already yielded entries
    if full or rng.random() < 0.5:
        kinds = "IEU"
        h.emit("range %d %d %s %s %s %s" % (t, bh, rng.choice(kinds), rng.choice(keys), rng.choice(kinds), rng.choice(keys)))
    if full or rng.random() < 0.3:
        h.emit("buckets %d %d" % (t, bh))
        h.emit("kvpairs %d %d" % (t, bh))
        h.emit("nextint %d %d" % (t, bh))


def g1(seed, ntx=12, nops=25, universe=64, reads_every=True, rollback=0.15, reopen=0.1, long_keys=False, engine=False):
    """uniform ops over a small key universe + special keys; bucket names overlap keys; depth <= 3"""
    rng = random.Random(seed)
    h = H()
    if long_keys:
        keys = [lk(i, rng.choice([120, 200, 300])) for i in range(universe)]
    else:
        keys = [hx("k%03d" % i) for i in range(universe)] + SPECIAL_KEYS + ["r1100:7", "r3000:9"]
    names = [hx("b%d" % i) for i in range(4)] + keys[:6]
    for _ in range(ntx):
        t = h.begin(True)
        handles = []
        top = h.bucket("goc", t, 0, rng.choice(names[:3]))
        handles.append(top)
        for _ in range(nops):
            bh = rng.choice(handles)
            r = rng.random()
            k = rng.choice(keys)
            if r < 0.40:
                h.emit("put %d %d %s %s" % (t, bh, k, rval(rng)))
            elif r < 0.60:
                h.emit("del %d %d %s" % (t, bh, k))
            elif r < 0.70:
                kind = rng.choice(["goc", "goc", "create", "getb"] + ([] if engine else ["getbi"]))
                par = rng.choice([0] + handles)
                nm = rng.choice(names)
                nh = h.bucket(kind, t, par, nm)
                if len(handles) < 8:
                    handles.append(nh)
            elif r < 0.76:
                par = rng.choice([0] + handles)
                h.emit("delb %d %d %s" % (t, par, rng.choice(names)))
            elif r < 0.80:
                h.emit("get %d %d %s" % (t, bh, k))
            else:
                if reads_every and not engine:
                    reads(h, rng, t, bh, keys)
        if rng.random() < 0.3 and not engine:
            h.emit("dump %d" % t)
        if rng.random() < rollback:
            h.emit("drop %d" % t)
        else:
            h.commit(t)
        if rng.random() < reopen:
            h.emit("reopen")
            r = h.begin(False)
            h.emit("dump %d" % r)
            h.emit("drop %d" % r)
    return h.text()


def g2(seed, nkeys=60, keylen=None, rounds=6, per_tx=1):
    """fill, then contiguous range deletes / overwrites / re-inserts: leaf emptying, merges, root collapse"""
    rng = random.Random(seed)
    h = H()
    keylen = keylen or rng.choice([8, 20, 60, 200, 300])
    keys = [lk(i, keylen) for i in range(nkeys)]
    vs = rng.choice([[0, 1, 16], [16, 100, 300], [700, 1500], [0, 5000]])
    t = h.begin(True)
    b = h.bucket("goc", t, 0, hx("b"))
    for i, k in enumerate(keys):
        h.emit("put %d %d %s %s" % (t, b, k, rval(rng, vs)))
        if per_tx and (i + 1) % per_tx == 0 and i + 1 < len(keys) and rng.random() < 0.5:
            h.commit(t, verify=False)
            t = h.begin(True)
            b = h.bucket("getb", t, 0, hx("b"))
    h.commit(t)
    for _ in range(rounds):
        t = h.begin(True)
        b = h.bucket("getb", t, 0, hx("b"))
        lo = rng.randrange(nkeys)
        hi = min(nkeys, lo + rng.randrange(1, max(2, nkeys // 2)))
        mode = rng.random()
        for i in range(lo, hi):
            if mode < 0.6:
                h.emit("del %d %d %s" % (t, b, keys[i]))
            elif mode < 0.8:
                h.emit("put %d %d %s %s" % (t, b, keys[i], rval(rng, vs)))
            else:
                h.emit("del %d %d %s" % (t, b, keys[i]))
                if rng.random() < 0.3:
                    h.emit("put %d %d %s %s" % (t, b, keys[i], rval(rng, vs)))
        reads(h, rng, t, b, keys, full=True)
        if rng.random() < 0.15:
            h.emit("drop %d" % t)
        else:
            h.commit(t)
    return h.text()


def base_tree(h, nkeys, keylen, subs, one_per_tx=True):
    """committed base tree: nkeys long keys (one per transaction => deterministic shape) and
    sub-buckets named k%03ds"""
    keys = [lk(i, keylen) for i in range(nkeys)]
    t = h.begin(True)
    b = h.bucket("goc", t, 0, hx("b"))
    h.commit(t, verify=False)
    for i, k in enumerate(keys):
        t = h.begin(True)
        b = h.bucket("getb", t, 0, hx("b"))
        h.emit("put %d %d %s %s" % (t, b, k, "r8:%d" % i))
        if i in subs:
            s = h.bucket("create", t, b, hx("k%03ds" % i))
            h.emit("put %d %d %s %s" % (t, s, hx("x"), hx("y")))
        if one_per_tx or i == nkeys - 1:
            h.commit(t, verify=False)
        else:
            pass
    return keys


def g3_case(nkeys, keylen, subs, dels, touch, ins, scan_in_tx=True, touch_all=False):
    """one shape case: base tree; one transaction deleting `dels`, touching sub-bucket `touch`,
    inserting at `ins` in {None,'before','middle','after'}; in-transaction scan; commit; verify"""
    h = H()
    keys = base_tree(h, nkeys, keylen, subs)
    t = h.begin(True)
    b = h.bucket("getb", t, 0, hx("b"))
    if touch_all:
        for j in sorted(subs):
            s = h.bucket("getb", t, b, hx("k%03ds" % j))
            if j == touch:
                h.emit("put %d %d %s %s" % (t, s, hx("t"), hx("u")))
    elif touch is not None:
        s = h.bucket("getb", t, b, hx("k%03ds" % touch))
        h.emit("put %d %d %s %s" % (t, s, hx("t"), hx("u")))
    for i in dels:
        h.emit("del %d %d %s" % (t, b, keys[i]))
    if ins == "before":
        h.emit("put %d %d %s %s" % (t, b, hx("a"), hx("v")))
    elif ins == "middle":
        h.emit("put %d %d %s %s" % (t, b, hx("k%03dm" % (nkeys // 2)), hx("v")))
    elif ins == "after":
        h.emit("put %d %d %s %s" % (t, b, hx("z"), hx("v")))
    if scan_in_tx:
        h.emit("scan %d %d" % (t, b))
        h.emit("buckets %d %d" % (t, b))
    h.commit(t)
    h.emit("reopen")
    r = h.begin(False)
    h.emit("dump %d" % r)
    rb = h.bucket("getb", r, 0, hx("b"))
    h.emit("scan %d %d" % (r, rb))
    h.emit("drop %d" % r)
    return h.text()


def g3_ranges(nkeys=24, keylen=200, subs=(3, 6, 11, 17), stride=1):
    """every contiguous deletion range x each touched sub-bucket (and none)"""
    out = []
    for lo in range(0, nkeys, stride):
        for hi in range(lo + 1, nkeys + 1, stride):
            for touch in (None,) + tuple(subs):
                out.append(("g3r n=%d kl=%d del=[%d,%d) touch=%s" % (nkeys, keylen, lo, hi, touch),
                            g3_case(nkeys, keylen, set(subs), range(lo, hi), touch, None)))
    return out


def g3_subsets(nkeys=12, keylen=200, subs=(2, 5, 9), masks=None, touches=None, inss=(None,)):
    out = []
    masks = masks if masks is not None else range(1 << nkeys)
    touches = touches if touches is not None else (None,) + tuple(subs)
    for m in masks:
        dels = [i for i in range(nkeys) if (m >> i) & 1]
        for touch in touches:
            for ins in inss:
                out.append(("g3s n=%d kl=%d mask=%x touch=%s ins=%s" % (nkeys, keylen, m, touch, ins),
                            g3_case(nkeys, keylen, set(subs), dels, touch, ins)))
    return out


def g4(seed, ntx=8, engine=False):
    """nested buckets with bucket deletes at every level inside one transaction"""
    rng = random.Random(seed)
    h = H()
    tops = [hx("T%d" % i) for i in range(3)]
    mids = [hx("M%d" % i) for i in range(3)]
    lows = [hx("L%d" % i) for i in range(2)]
    nk = rng.choice([5, 30, 80])
    kl = rng.choice([8, 60, 200])
    # build
    t = h.begin(True)
    for a in tops:
        ha = h.bucket("goc", t, 0, a)
        for i in range(nk):
            h.emit("put %d %d %s %s" % (t, ha, lk(i, kl), rval(rng, [0, 16, 300])))
        for m in mids:
            hm = h.bucket("goc", t, ha, m)
            for i in range(nk // 2 + 1):
                h.emit("put %d %d %s %s" % (t, hm, lk(i, kl), rval(rng, [0, 16, 1500])))
            for l in lows:
                hl = h.bucket("goc", t, hm, l)
                for i in range(rng.choice([0, 3, 40])):
                    h.emit("put %d %d %s %s" % (t, hl, lk(i, kl), rval(rng, [0, 16])))
    h.commit(t)
    for _ in range(ntx):
        t = h.begin(True)
        opened = {}
        for _ in range(rng.randrange(2, 9)):
            a = rng.choice(tops)
            r = rng.random()
            if r < 0.25:
                h.emit("delb %d 0 %s" % (t, a))
                continue
            ha = h.bucket("goc", t, 0, a)
            m = rng.choice(mids)
            if r < 0.5:
                h.emit("delb %d %d %s" % (t, ha, m))
                continue
            hm = h.bucket("goc", t, ha, m)
            l = rng.choice(lows)
            if r < 0.7:
                h.emit("delb %d %d %s" % (t, hm, l))
                continue
            hl = h.bucket("goc", t, hm, l)
            for _ in range(rng.randrange(1, 6)):
                tgt = rng.choice([ha, hm, hl])
                if rng.random() < 0.6:
                    h.emit("put %d %d %s %s" % (t, tgt, lk(rng.randrange(nk + 5), kl), rval(rng, [0, 16, 300])))
                else:
                    h.emit("del %d %d %s" % (t, tgt, lk(rng.randrange(nk + 5), kl)))
        if not engine:
            h.emit("dump %d" % t)
        if rng.random() < 0.15:
            h.emit("drop %d" % t)
        else:
            h.commit(t)
        if rng.random() < 0.2:
            h.emit("reopen")
    return h.text()


def g5(seed, ntx=8):
    """overflow keys / values: multi-page runs allocated, freed and reused"""
    rng = random.Random(seed)
    h = H()
    keys = [hx("o%02d" % i) for i in range(12)] + ["r1100:3", "r2500:4", "r5000:1"]
    sizes = [0, 900, 1100, 2100, 5000, 9000, 20000]
    for _ in range(ntx):
        t = h.begin(True)
        b = h.bucket("goc", t, 0, hx("big"))
        for _ in range(rng.randrange(1, 8)):
            k = rng.choice(keys)
            if rng.random() < 0.7:
                h.emit("put %d %d %s %s" % (t, b, k, rval(rng, sizes)))
            else:
                h.emit("del %d %d %s" % (t, b, k))
        h.emit("scan %d %d" % (t, b))
        if rng.random() < 0.1:
            h.emit("drop %d" % t)
        else:
            h.commit(t)
        if rng.random() < 0.15:
            h.emit("reopen")
    return h.text()


def g6(seed, steps=40, max_readers=4, nkeys=40, keylen=60):
    """single-threaded interleaving of readers of different ages with committing / rolling-back
    writers that free and reuse pages; every open reader is re-dumped after every step"""
    rng = random.Random(seed)
    h = H()
    keys = [lk(i, keylen) for i in range(nkeys)]
    t = h.begin(True)
    b = h.bucket("goc", t, 0, hx("b"))
    for k in keys:
        h.emit("put %d %d %s %s" % (t, b, k, rval(rng, [16, 100, 300])))
    s = h.bucket("goc", t, b, hx("sub"))
    h.emit("put %d %d %s %s" % (t, s, hx("x"), hx("y")))
    h.commit(t)
    readers = []
    for _ in range(steps):
        r = rng.random()
        if r < 0.25 and len(readers) < max_readers:
            readers.append(h.begin(False))
        elif r < 0.40 and readers:
            x = readers.pop(rng.randrange(len(readers)))
            h.emit("dump %d" % x)
            h.emit("drop %d" % x)
        else:
            t = h.begin(True)
            b = h.bucket("getb", t, 0, hx("b"))
            lo = rng.randrange(nkeys)
            for i in range(lo, min(nkeys, lo + rng.randrange(1, 12))):
                if rng.random() < 0.5:
                    h.emit("put %d %d %s %s" % (t, b, keys[i], rval(rng, [16, 100, 300])))
                else:
                    h.emit("del %d %d %s" % (t, b, keys[i]))
            if rng.random() < 0.2:
                h.emit("delb %d %d %s" % (t, b, hx("sub")))
            elif rng.random() < 0.3:
                s = h.bucket("goc", t, b, hx("sub"))
                h.emit("put %d %d %s %s" % (t, s, lk(rng.randrange(20), 30), rval(rng, [16, 300])))
            if rng.random() < 0.25:
                h.emit("drop %d" % t)
            else:
                h.emit("commit %d" % t)
                h.emit("snap")
                h.emit("check")
        for x in readers:
            h.emit("dump %d" % x)
    for x in readers:
        h.emit("dump %d" % x)
        h.emit("drop %d" % x)
    r = h.begin(False)
    h.emit("dump %d" % r)
    h.emit("drop %d" % r)
    return h.text()


def gmis(seed):
    """misuse / malformed stream: every mutator on a read-only transaction, wrong-kind keys,
    handles of deleted buckets"""
    rng = random.Random(seed)
    h = H()
    t = h.begin(True)
    a = h.bucket("create", t, 0, hx("a"))
    h.emit("put %d %d %s %s" % (t, a, hx("k"), hx("v")))
    s = h.bucket("create", t, a, hx("s"))
    h.emit("put %d %d %s %s" % (t, s, hx("k"), hx("v")))
    h.commit(t)
    r = h.begin(False)
    ra = h.bucket("getb", r, 0, hx("a"))
    for line in ["create %d 0 %s 9" % (r, hx("n")), "goc %d 0 %s 9" % (r, hx("n")), "delb %d 0 %s" % (r, hx("a")),
                 "put %d %d %s %s" % (r, ra, hx("k"), hx("w")), "del %d %d %s" % (r, ra, hx("k")),
                 "create %d %d %s 9" % (r, ra, hx("n")), "goc %d %d %s 9" % (r, ra, hx("s")),
                 "delb %d %d %s" % (r, ra, hx("s")), "getb %d %d %s 8" % (r, ra, hx("s")),
                 "getb %d %d %s 7" % (r, ra, hx("k")), "getb %d %d %s 7" % (r, ra, hx("zz")),
                 "get %d %d %s" % (r, ra, hx("s")), "getkv %d %d %s" % (r, ra, hx("s"))]:
        h.emit(line)
    h.emit("filehash")
    h.emit("commit %d" % r)
    h.emit("filehash")
    t = h.begin(True)
    a = h.bucket("getb", t, 0, hx("a"))
    s = h.bucket("getb", t, a, hx("s"))
    h.emit("put %d %d %s %s" % (t, a, hx("s"), hx("v")))      # kv over bucket
    h.emit("create %d %d %s 9" % (t, a, hx("k")))              # bucket over kv
    h.emit("goc %d %d %s 9" % (t, a, hx("k")))
    h.emit("del %d %d %s" % (t, a, hx("s")))
    h.emit("delb %d %d %s" % (t, a, hx("k")))
    h.emit("delb %d %d %s" % (t, a, hx("nope")))
    h.emit("create %d %d %s 9" % (t, a, hx("s")))
    h.emit("delb %d %d %s" % (t, a, hx("s")))
    for line in ["put %d %d %s %s" % (t, s, hx("k"), hx("w")), "get %d %d %s" % (t, s, hx("k")),
                 "getkv %d %d %s" % (t, s, hx("k")), "del %d %d %s" % (t, s, hx("k")), "scan %d %d" % (t, s),
                 "nextint %d %d" % (t, s), "buckets %d %d" % (t, s), "kvpairs %d %d" % (t, s),
                 "create %d %d %s 9" % (t, s, hx("q")), "goc %d %d %s 9" % (t, s, hx("q")),
                 "getb %d %d %s 9" % (t, s, hx("q")), "delb %d %d %s" % (t, s, hx("q")),
                 "seek %d %d %s" % (t, s, hx("k")), "range %d %d U - U -" % (t, s)]:
        h.emit(line)
    s2 = h.bucket("create", t, a, hx("s"))
    h.emit("put %d %d %s %s" % (t, s2, hx("n"), hx("m")))
    h.emit("put %d %d %s %s" % (t, s, hx("k"), hx("w")))
    h.commit(t)
    return h.text()


def g8(seed, shape="multi"):
    """C08: empty, single-leaf and multi-level buckets; after the commit a read-only transaction
    runs all seeks and bound pairs over universe + gaps + below-min + above-max; the same reads are
    also issued mid-transaction after some deletes (leaf boundaries with absent keys, emptied leaves)."""
    rng = random.Random(seed)
    h = H()
    if shape == "empty":
        nk, kl = 0, 8
    elif shape == "single":
        nk, kl = rng.randrange(1, 7), rng.choice([1, 8, 30])
    else:
        nk, kl = rng.randrange(8, 30), rng.choice([120, 200, 300])
    keys = [lk(2 * i + 1, kl) for i in range(nk)]          # odd ids present, even ids are gaps
    probes = [lk(i, kl) for i in range(0, 2 * nk + 2)] + ["-", "00", "ffff"] + ([keys[0] + "+00"] if keys else [])
    t = h.begin(True)
    b = h.bucket("create", t, 0, hx("b"))
    for i, k in enumerate(keys):
        h.emit("put %d %d %s %s" % (t, b, k, "r6:%d" % i))
        if shape == "multi" and rng.random() < 0.7:
            h.commit(t, verify=False)
            t = h.begin(True)
            b = h.bucket("getb", t, 0, hx("b"))
    if nk and rng.random() < 0.7:
        s = h.bucket("create", t, b, keys[nk // 2] + "+73")
        h.emit("put %d %d %s %s" % (t, s, hx("x"), hx("y")))
    # the extreme keys are sometimes STORED, not only probed: the zero-length key (as a pair or as a nested bucket's name),
    # the smallest non-empty key, a key above every other
    r0 = rng.random()
    if r0 < 0.3:
        h.emit("put %d %d - %s" % (t, b, hx("empty")))
    elif r0 < 0.55:
        s = h.bucket("create", t, b, "-")
        h.emit("put %d %d %s %s" % (t, s, hx("x"), hx("y")))
    if rng.random() < 0.3:
        h.emit("put %d %d 00 %s" % (t, b, hx("zero")))
    if rng.random() < 0.3:
        h.emit("put %d %d ffff %s" % (t, b, hx("top")))
    h.commit(t)

    def all_reads(t, b, sample_pairs):
        h.emit("scan %d %d" % (t, b))
        h.emit("buckets %d %d" % (t, b))
        h.emit("kvpairs %d %d" % (t, b))
        for k in probes:
            h.emit("seek %d %d %s" % (t, b, k))
            if rng.random() < 0.3:
                h.emit("seek %d %d %s %d" % (t, b, k, rng.randrange(1, 6)))       # re-used cursor
            h.emit("get %d %d %s" % (t, b, k))
        bs = probes if len(probes) <= 14 else rng.sample(probes, 14)
        pairs = [(lo, hi) for lo in bs for hi in bs]
        if len(pairs) > sample_pairs:
            pairs = rng.sample(pairs, sample_pairs)
        for lo, hi in pairs:
            for lkd in "IEU":
                for hkd in "IEU":
                    if rng.random() < 0.5:
                        h.emit("range %d %d %s %s %s %s" % (t, b, lkd, lo, hkd, hi))

    r = h.begin(False)
    rb = h.bucket("getb", r, 0, hx("b"))
    all_reads(r, rb, 40)
    h.emit("drop %d" % r)
    # mid-transaction: delete a contiguous run (empties leaves), insert in gaps, read again
    t = h.begin(True)
    b = h.bucket("getb", t, 0, hx("b"))
    if nk:
        lo = rng.randrange(nk)
        for i in range(lo, min(nk, lo + rng.randrange(1, 8))):
            h.emit("del %d %d %s" % (t, b, keys[i]))
        for _ in range(rng.randrange(0, 4)):
            h.emit("put %d %d %s %s" % (t, b, lk(2 * rng.randrange(nk + 1), kl), hx("g")))
    all_reads(t, b, 25)
    h.commit(t)
    r = h.begin(False)
    rb = h.bucket("getb", r, 0, hx("b"))
    all_reads(r, rb, 25)
    h.emit("drop %d" % r)
    return h.text()


def g7(seed, nkeys=None, keylen=None, ntx=4):
    """C07: inside one write transaction, the full read API after every single mutation, over
    committed multi-level trees (long keys => deletes empty whole leaves)"""
    rng = random.Random(seed)
    h = H()
    nkeys = nkeys or rng.choice([6, 14, 24])
    keylen = keylen or rng.choice([8, 120, 200, 300])
    keys = [lk(2 * i + 1, keylen) for i in range(nkeys)]
    gaps = [lk(2 * i, keylen) for i in range(nkeys + 1)]
    t = h.begin(True)
    b = h.bucket("create", t, 0, hx("b"))
    for i, k in enumerate(keys):
        h.emit("put %d %d %s %s" % (t, b, k, "r5:%d" % i))
        if rng.random() < 0.6:
            h.commit(t, verify=False)
            t = h.begin(True)
            b = h.bucket("getb", t, 0, hx("b"))
    for j in (1, nkeys // 2):
        if j < nkeys:
            s = h.bucket("create", t, b, keys[j] + "+73")
            h.emit("put %d %d %s %s" % (t, s, hx("x"), hx("y")))
    h.commit(t)

    def rd(t, b):
        h.emit("scan %d %d" % (t, b))
        k = rng.choice(keys + gaps)
        h.emit("get %d %d %s" % (t, b, k))
        h.emit("getkv %d %d %s" % (t, b, k))
        h.emit("seek %d %d %s" % (t, b, rng.choice(keys + gaps)))
        h.emit("seek %d %d %s %d" % (t, b, rng.choice(keys + gaps), rng.randrange(1, 4)))
        h.emit("range %d %d %s %s %s %s" % (t, b, rng.choice("IEU"), rng.choice(keys + gaps), rng.choice("IEU"), rng.choice(keys + gaps)))
        h.emit("buckets %d %d" % (t, b))
        h.emit("kvpairs %d %d" % (t, b))
        h.emit("nextint %d %d" % (t, b))

    for _ in range(ntx):
        t = h.begin(True)
        b = h.bucket("getb", t, 0, hx("b"))
        mode = rng.random()
        lo = rng.randrange(nkeys)
        n = rng.randrange(1, nkeys)
        for i in range(lo, min(nkeys, lo + n)):
            r = rng.random()
            if mode < 0.5 or r < 0.5:
                h.emit("del %d %d %s" % (t, b, keys[i]))
            elif r < 0.8:
                h.emit("put %d %d %s %s" % (t, b, rng.choice(gaps), rval(rng, [0, 16, 300])))
            else:
                kind = rng.choice(["create", "goc", "delb"])
                nm = keys[rng.randrange(nkeys)] + "+73"
                if kind == "delb":
                    h.emit("delb %d %d %s" % (t, b, nm))
                else:
                    s = h.bucket(kind, t, b, nm)
                    h.emit("put %d %d %s %s" % (t, s, hx("q"), hx("r")))
            rd(t, b)
        h.emit("dump %d" % t)
        if rng.random() < 0.3:
            h.emit("drop %d" % t)
        else:
            h.commit(t)
    return h.text()


def g_c6(seed):
    """C06: rollbacks of large transactions, erroring calls, read-only transactions and reopen,
    with the file's bytes hashed before and after each of them"""
    rng = random.Random(seed)
    h = H()
    kl = rng.choice([20, 120, 200])
    nk = rng.choice([10, 40, 120])
    keys = [lk(i, kl) for i in range(nk)]
    t = h.begin(True)
    for a in ("A", "B"):
        ha = h.bucket("create", t, 0, hx(a))
        for k in keys:
            h.emit("put %d %d %s %s" % (t, ha, k, rval(rng, [0, 16, 300, 1500])))
        for m in ("M", "N"):
            hm = h.bucket("create", t, ha, hx(m))
            for k in keys[: nk // 2]:
                h.emit("put %d %d %s %s" % (t, hm, k, rval(rng, [0, 16])))
    h.commit(t)
    for _ in range(rng.randrange(4, 9)):
        r = rng.random()
        h.emit("filehash")
        if r < 0.45:
            # a large transaction that is abandoned
            t = h.begin(True)
            ha = h.bucket("getb", t, 0, hx(rng.choice("AB")))
            for _ in range(rng.randrange(1, 30)):
                x = rng.random()
                if x < 0.4:
                    h.emit("put %d %d %s %s" % (t, ha, rng.choice(keys) + "+%02x" % rng.randrange(3), rval(rng, [0, 16, 300, 5000])))
                elif x < 0.7:
                    h.emit("del %d %d %s" % (t, ha, rng.choice(keys)))
                elif x < 0.8:
                    h.emit("delb %d %d %s" % (t, ha, hx(rng.choice("MN"))))
                elif x < 0.9:
                    h.emit("delb %d 0 %s" % (t, hx(rng.choice("AB"))))
                else:
                    s = h.bucket("goc", t, ha, hx("new%d" % rng.randrange(3)))
                    h.emit("put %d %d %s %s" % (t, s, hx("k"), rval(rng, [16, 3000])))
            h.emit("dump %d" % t)
            h.emit("drop %d" % t)
            h.emit("filehash=")
        elif r < 0.6:
            # erroring calls change nothing: compare dumps before / after inside one transaction
            t = h.begin(True)
            ha = h.bucket("getb", t, 0, hx("A"))
            h.emit("dump %d" % t)
            for line in ["create %d 0 %s 90" % (t, hx("A")), "getb %d 0 %s 91" % (t, hx("nope")),
                         "delb %d 0 %s" % (t, hx("nope")), "del %d %d %s" % (t, ha, hx("absent")),
                         "put %d %d %s %s" % (t, ha, hx("M"), hx("v")), "create %d %d %s 92" % (t, ha, keys[0]),
                         "del %d %d %s" % (t, ha, hx("M")), "delb %d %d %s" % (t, ha, keys[1]),
                         "goc %d %d %s 93" % (t, ha, keys[2]), "create %d %d %s 94" % (t, ha, hx("M"))]:
                h.emit(line)
            h.emit("dump %d" % t)
            h.emit("drop %d" % t)
            h.emit("filehash=")
        elif r < 0.8:
            x = h.begin(False)
            # handles from every construction site: get_bucket, and the Bucket values yielded by the buckets() iterators
            xa = h.bucket(rng.choice(["getb", "getbi"]), x, 0, hx("A"))
            xm = h.bucket(rng.choice(["getb", "getbi"]), x, xa, hx("M"))
            for line in ["put %d %d %s %s" % (x, xm, hx("k"), hx("v")), "del %d %d %s" % (x, xm, keys[0]),
                         "create %d %d %s 85" % (x, xm, hx("z")), "goc %d %d %s 86" % (x, xm, hx("y")),
                         "delb %d %d %s" % (x, xm, hx("nope")), "scan %d %d" % (x, xm)]:
                h.emit(line)
            for line in ["put %d %d %s %s" % (x, xa, hx("k"), hx("v")), "del %d %d %s" % (x, xa, keys[0]),
                         "create %d %d %s 95" % (x, xa, hx("z")), "goc %d %d %s 96" % (x, xa, hx("M")),
                         "delb %d %d %s" % (x, xa, hx("M")), "create %d 0 %s 97" % (x, hx("Z")),
                         "goc %d 0 %s 98" % (x, hx("Z")), "delb %d 0 %s" % (x, hx("A"))]:
                h.emit(line)
            h.emit("scan %d %d" % (x, xa))
            h.emit("dump %d" % x)
            h.emit(rng.choice(["commit %d", "drop %d"]) % x)
            h.emit("filehash=")
        else:
            h.emit("reopen")
            h.emit("filehash=")
        if rng.random() < 0.5:
            t = h.begin(True)
            ha = h.bucket("getb", t, 0, hx(rng.choice("AB")))
            for _ in range(rng.randrange(1, 6)):
                h.emit("put %d %d %s %s" % (t, ha, rng.choice(keys), rval(rng, [0, 16, 300])))
            h.commit(t)
    return h.text()


def g3_edge(nkeys=16, keylen=200):
    """a sub-bucket only in the first / last leaf; delete every prefix / suffix that leaves that leaf
    untouched (root collapse onto a never-loaded page) while the sub-bucket is modified"""
    out = []
    for sub in (0, nkeys - 1):
        for cut in range(1, nkeys):
            dels = range(cut, nkeys) if sub == 0 else range(0, cut)
            if sub in dels:
                dels = [i for i in dels if i != sub]
            for touch in (None, sub):
                out.append(("g3edge n=%d kl=%d sub=%d cut=%d touch=%s" % (nkeys, keylen, sub, cut, touch),
                            g3_case(nkeys, keylen, {sub}, dels, touch, None)))
    return out


def g3_deep(nkeys=20, keylen=300, every=3, maxlen=8, stride=1):
    """deep trees (300-byte keys: 4 levels with ~20 keys), a nested bucket next to every third key, ALL nested
    buckets opened in the transaction, short contiguous deletes: leaf merge -> branch merge chains"""
    subs = set(range(1, nkeys, every))
    out = []
    for lo in range(0, nkeys, stride):
        for ln in range(1, maxlen + 1):
            hi = min(nkeys, lo + ln)
            dels = [i for i in range(lo, hi)]
            out.append(("g3deep n=%d kl=%d del=[%d,%d) all-subs-open" % (nkeys, keylen, lo, hi),
                        g3_case(nkeys, keylen, subs, dels, None, None, touch_all=True)))
    # the same with gaps: delete i, i+1, skip, i+3, i+4
    for lo in range(0, nkeys - 5):
        dels = [lo, lo + 1, lo + 3, lo + 4]
        out.append(("g3deep n=%d kl=%d del=%s all-subs-open" % (nkeys, keylen, dels),
                    g3_case(nkeys, keylen, subs, dels, None, None, touch_all=True)))
    return out


def g3_mixed(nkeys=20, keylen=300, every=3, one_tx=True, maxlen=7, seed=0):
    """deep trees whose entries are a mix of pairs and nested buckets WITH LONG NAMES (every `every`-th entry is a
    bucket named like a key), built in one transaction (one big spill) or one entry per transaction; then one
    transaction opens every nested bucket and deletes the pairs of a window: leaf merge -> branch right-merge ->
    grandparent left-merge chains with bucket headers re-inserted at commit"""
    out = []
    isb = lambda i: i % every == 1
    for lo in range(0, nkeys):
        for ln in range(2, maxlen + 1):
            hi = min(nkeys, lo + ln)
            h = H()
            t = h.begin(True)
            b = h.bucket("create", t, 0, hx("t"))
            for i in range(nkeys):
                if isb(i):
                    h.bucket("create", t, b, lk(i, keylen))
                else:
                    h.emit("put %d %d %s %s" % (t, b, lk(i, keylen), "r10:%d" % i))
                if not one_tx and i + 1 < nkeys:
                    h.commit(t, verify=False)
                    t = h.begin(True)
                    b = h.bucket("getb", t, 0, hx("t"))
            h.commit(t)
            t = h.begin(True)
            b = h.bucket("getb", t, 0, hx("t"))
            for i in range(nkeys):
                if isb(i):
                    nb = h.bucket("getb", t, b, lk(i, keylen))
                    h.emit("nextint %d %d" % (t, nb))
            for i in range(lo, hi):
                if not isb(i):
                    h.emit("del %d %d %s" % (t, b, lk(i, keylen)))
            h.emit("scan %d %d" % (t, b))
            h.emit("nextint %d %d" % (t, b))
            h.commit(t)
            h.emit("reopen")
            r = h.begin(False)
            h.emit("dump %d" % r)
            rb = h.bucket("getb", r, 0, hx("t"))
            h.emit("scan %d %d" % (r, rb))
            h.emit("nextint %d %d" % (r, rb))
            h.emit("drop %d" % r)
            out.append(("g3mixed n=%d kl=%d every=%d one_tx=%s del=[%d,%d)" % (nkeys, keylen, every, one_tx, lo, hi), h.text()))
    return out


def g10(seed, workload, ntx=300, pin=(100, 150), reopen_every=0):
    """C10: long runs whose live data stays bounded. workload in fixed1 (single-page fixed-size overwrites),
    fixedN (multi-page fixed-size values: freed runs are exactly reusable), var (variable sizes, inserts and
    deletes over a bounded key set), bdel (nested bucket created, filled, deleted). A reader is held open
    during [pin[0], pin[1]) and re-dumped when it closes."""
    rng = random.Random(seed)
    h = H()
    keys = [hx("k%03d" % i) for i in range(40)]
    big = [hx("big%04d" % i) for i in range(400)]
    t = h.begin(True)
    b = h.bucket("create", t, 0, hx("b"))
    for k in keys:
        h.emit("put %d %d %s %s" % (t, b, k, {"fixed1": "r100:1", "fixedN": "r2500:1", "var": "r300:1", "bdel": "r100:1", "bdelN": "r100:1", "bigfree": "r100:1"}[workload]))
    h.emit("commit %d" % t)
    h.emit("snap")
    reader = None
    chain = []          # pin == "chain": overlapping short readers, so that some reader is open at every writer begin
    for i in range(ntx):
        if pin == "chain":
            if i % 20 == 10:
                chain.append((h.begin(False), i + 25))
            for (rd_, until) in list(chain):
                if i >= until:
                    h.emit("dump %d" % rd_)
                    h.emit("drop %d" % rd_)
                    chain.remove((rd_, until))
        elif pin == "shuffle":
            # three readers on three different snapshots, closed oldest, newest, middle; then a pause with no reader
            ph = i % 60
            if ph in (5, 10, 15):
                chain.append((h.begin(False), {5: 30, 15: 35, 10: 40}[ph] + i - ph))
            for (rd_, until) in list(chain):
                if i >= until:
                    h.emit("dump %d" % rd_)
                    h.emit("drop %d" % rd_)
                    chain.remove((rd_, until))
        elif pin and i == pin[0]:
            reader = h.begin(False)
        if pin and pin not in ("chain", "shuffle") and i == pin[1] and reader is not None:
            h.emit("dump %d" % reader)
            h.emit("drop %d" % reader)
            reader = None
        t = h.begin(True)
        b = h.bucket("getb", t, 0, hx("b"))
        if workload == "fixed1":
            for _ in range(5):
                h.emit("put %d %d %s r100:%d" % (t, b, rng.choice(keys), rng.randrange(256)))
        elif workload == "fixedN":
            for _ in range(3):
                h.emit("put %d %d %s r2500:%d" % (t, b, rng.choice(keys), rng.randrange(256)))
        elif workload == "var":
            for _ in range(6):
                k = rng.choice(keys)
                if rng.random() < 0.3:
                    h.emit("del %d %d %s" % (t, b, k))
                else:
                    h.emit("put %d %d %s %s" % (t, b, k, rval(rng, [0, 16, 100, 300, 700, 1500, 3000])))
        elif workload == "bigfree":
            # every other transaction frees several hundred pages at once: the free list itself spans several pages
            if i % 2 == 0:
                for k in big:
                    h.emit("put %d %d %s r700:%d" % (t, b, k, i % 256))
            else:
                for k in big:
                    h.emit("del %d %d %s" % (t, b, k))
        elif workload == "bdelN":
            if i % 2 == 0:
                s = h.bucket("create", t, b, hx("tmp"))
                for j in range(6):
                    h.emit("put %d %d %s r3000:%d" % (t, s, hx("t%02d" % j), j))
                h.emit("put %d %d %s r1500:1" % (t, s, "r1300:5"))
            else:
                h.emit("delb %d %d %s" % (t, b, hx("tmp")))
            h.emit("put %d %d %s r100:%d" % (t, b, rng.choice(keys), rng.randrange(256)))
        else:
            if i % 2 == 0:
                s = h.bucket("create", t, b, hx("tmp"))
                for j in range(20):
                    h.emit("put %d %d %s r100:%d" % (t, s, hx("t%02d" % j), j))
            else:
                h.emit("delb %d %d %s" % (t, b, hx("tmp")))
            h.emit("put %d %d %s r100:%d" % (t, b, rng.choice(keys), rng.randrange(256)))
        h.emit("commit %d" % t)
        h.emit("snap")
        if reopen_every and (i + 1) % reopen_every == 0 and reader is None and not chain:
            h.emit("reopen")
    if reader is not None:
        h.emit("drop %d" % reader)
    for (rd_, until) in chain:
        h.emit("drop %d" % rd_)
    r = h.begin(False)
    h.emit("dump %d" % r)
    h.emit("drop %d" % r)
    h.emit("check")
    return h.text()
