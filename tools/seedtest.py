#!/usr/bin/env python3
"""seedtest.py <dir with patch.diff demo.rs meta.json> <seed id> [checks...]
1. confirms the seeded change in a scratch worktree of /repo HEAD (compiles, suite green, demo fails with /
   passes without); 2. applies it to /repo, runs the given checks (default: the property's own), reverts;
3. stores everything under /verif/seeded/<seed id>/ with the outcome in meta.json."""
import sys, os, json, subprocess, shutil, time, re

ROOT = os.path.dirname(os.path.dirname(os.path.abspath(__file__)))


def sh(cmd, cwd=None, timeout=1800):
    p = subprocess.run(cmd, shell=True, cwd=cwd, stdout=subprocess.PIPE, stderr=subprocess.STDOUT, text=True, errors="replace", timeout=timeout)
    return p.returncode, p.stdout


def main():
    src, sid = sys.argv[1], sys.argv[2]
    checks = sys.argv[3:]
    meta = json.load(open(os.path.join(src, "meta.json")))
    prop = meta.get("property")
    checks = checks or [prop]
    dst = os.path.join(ROOT, "seeded", sid)
    os.makedirs(dst, exist_ok=True)
    for f in ("patch.diff", "demo.rs"):
        shutil.copyfile(os.path.join(src, f), os.path.join(dst, f))
    wt = "/tmp/seedwt"
    sh("git -C /repo worktree remove --force %s" % wt)
    rc, out = sh("git -C /repo worktree add -q %s HEAD" % wt)
    env = "CARGO_TARGET_DIR=/tmp/seedwt-target CARGO_NET_OFFLINE=true"
    ran = []
    try:
        shutil.copyfile(os.path.join(dst, "demo.rs"), os.path.join(wt, "tests", "seed_demo.rs"))
        rc, out = sh("%s cargo test --offline --features verif-hooks --test seed_demo 2>&1 | tail -5" % env, cwd=wt)
        demo_clean = "test result: ok" in out and "0 passed" not in out.split("test result: ok")[-1][:20]
        ran.append("pristine HEAD: demo %s" % ("passes" if demo_clean else "FAILS: " + out[-300:]))
        rc, out = sh("git apply %s" % os.path.join(dst, "patch.diff"), cwd=wt)
        applies = rc == 0
        ran.append("git apply on /repo HEAD: %s" % ("ok" if applies else "FAILED " + out[-300:]))
        suite_ok = demo_fails = builds_hooks = False
        if applies:
            rc, out = sh("%s cargo build --offline --features verif-hooks 2>&1 | tail -3" % env, cwd=wt)
            builds_hooks = "Finished" in out
            rc, out = sh("%s cargo test --offline --no-fail-fast 2>&1 | grep -E '^test result|FAILED|failed|panicked' | head -40" % env, cwd=wt)
            # the demo test is part of this run: it must be the only failing one
            fails = [l for l in out.split("\n") if "FAILED" in l or "failed" in l]
            res = re.findall(r"test result: (\w+)\. (\d+) passed; (\d+) failed", out)
            total_pass = sum(int(x[1]) for x in res)
            total_fail = sum(int(x[2]) for x in res)
            rc2, out2 = sh("%s cargo test --offline --features verif-hooks --test seed_demo 2>&1 | tail -8" % env, cwd=wt)
            demo_fails = "test result: FAILED" in out2 or "panicked" in out2
            rc3, out3 = sh("%s cargo test --offline --no-fail-fast -- --skip zzzz 2>&1 | grep -E '^test result' " % env, cwd=wt)
            # suite without the demo
            os.remove(os.path.join(wt, "tests", "seed_demo.rs"))
            rc4, out4 = sh("%s cargo test --offline --no-fail-fast 2>&1 | grep -E '^test result'" % env, cwd=wt)
            res4 = re.findall(r"test result: (\w+)\. (\d+) passed; (\d+) failed", out4)
            suite_ok = bool(res4) and all(x[0] == "ok" for x in res4) and sum(int(x[1]) for x in res4) >= 93
            ran.append("with the patch: hooks build %s; suite %s (%d passed); demo %s" % (
                "ok" if builds_hooks else "FAILS", "green" if suite_ok else "NOT green", sum(int(x[1]) for x in res4) if res4 else 0,
                "fails" if demo_fails else "PASSES"))
        confirmed = applies and demo_clean and suite_ok and demo_fails and builds_hooks
    finally:
        sh("git -C /repo worktree remove --force %s" % wt)
    detection = {}
    if confirmed:
        rc, out = sh("git -C /repo status --short | grep -v '^??' | head")
        if out.strip():
            print("REPO DIRTY, refusing to apply:", out)
            confirmed = False
        else:
            rc, out = sh("git -C /repo apply %s" % os.path.join(dst, "patch.diff"))
            # evidence files must come from runs on the unchanged tree: keep them aside while the mutant is checked
            evbak = "/tmp/evidence-bak-%d" % os.getpid()
            shutil.rmtree(evbak, ignore_errors=True)
            shutil.copytree(os.path.join(ROOT, "evidence"), evbak)
            try:
                for c in checks:
                    t0 = time.time()
                    rc, out = sh("./check %s --tier quick 2>&1" % c, cwd=ROOT, timeout=3600)
                    viol = [l for l in out.split("\n") if l.startswith("VIOLATION")]
                    why = [l for l in out.split("\n") if l.startswith("# ")]
                    detection[c] = dict(exit=rc, violations=len(viol), first=(why[0][:400] if why else ""), no_input=any("no-failing-input-found" in v for v in viol),
                                        wall_s=round(time.time() - t0, 1))
            finally:
                sh("git -C /repo checkout -- .")
                sh("rm -rf %s/replays/*" % ROOT)
                shutil.rmtree(os.path.join(ROOT, "evidence"), ignore_errors=True)
                shutil.copytree(evbak, os.path.join(ROOT, "evidence"))
                shutil.rmtree(evbak, ignore_errors=True)
    meta.update(dict(confirmed=confirmed, confirmed_how=ran, base_commit=subprocess.check_output("git -C /repo rev-parse --short HEAD", shell=True, text=True).strip(),
                     detection=detection, detected_by=[c for c, v in detection.items() if v["exit"] == 1 and v["violations"] > 0]))
    json.dump(meta, open(os.path.join(dst, "meta.json"), "w"), indent=1)
    print(sid, "confirmed" if confirmed else "NOT CONFIRMED", ran[-1] if ran else "", "detected by", meta["detected_by"], {c: v["first"][:120] for c, v in detection.items()})


if __name__ == "__main__":
    main()
