"""Shared machinery of the checks: build orchestration, proof gate, history execution against the
library + reference, diffing, shrinking, evidence and violation reporting."""
import os, sys, subprocess, json, hashlib, time, shutil, fcntl, re, glob, tempfile
from concurrent.futures import ThreadPoolExecutor

ROOT = os.path.dirname(os.path.dirname(os.path.abspath(__file__)))
REPO = os.environ.get("VERIF_REPO", "/repo")
CACHE = os.path.join(ROOT, ".cache")
TARGET = os.path.join(CACHE, "target")
COQ = os.path.join(ROOT, "coq")
MONITOR = os.path.join(ROOT, "ocaml", "monitor")
ENV = dict(os.environ, CARGO_NET_OFFLINE="true", CARGO_TARGET_DIR=TARGET)
NPROC = 16


def sh(cmd, timeout=600, cwd=None, env=None, inp=None):
    try:
        p = subprocess.run(cmd, shell=isinstance(cmd, str), cwd=cwd, env=env or ENV, input=inp,
                           stdout=subprocess.PIPE, stderr=subprocess.STDOUT, timeout=timeout, text=True,
                           errors="replace")
        return p.returncode, p.stdout
    except subprocess.TimeoutExpired as e:
        out = e.stdout if isinstance(e.stdout, str) else (e.stdout or b"").decode(errors="replace")
        return 124, out + "\nTIMEOUT"


class Lock:
    def __init__(self, name):
        os.makedirs(CACHE, exist_ok=True)
        self.path = os.path.join(CACHE, name + ".lock")

    def __enter__(self):
        self.f = open(self.path, "w")
        fcntl.flock(self.f, fcntl.LOCK_EX)
        return self

    def __exit__(self, *a):
        fcntl.flock(self.f, fcntl.LOCK_UN)
        self.f.close()


# ----------------------------------------------------------------------------------------------
# build
# ----------------------------------------------------------------------------------------------
class Build:
    def __init__(self):
        self.gen_ok = True
        self.gen_msg = ""
        self.coq_ok = True
        self.coq_msg = ""
        self.coq_failed_file = None
        self.extract_ok = True
        self.cargo_ok = True
        self.cargo_msg = ""


def coq_sources_digest():
    h = hashlib.sha256()
    for pat in ("gen/*.v", "model/*.v", "spec/*.v", "extract/*.v"):
        for f in sorted(glob.glob(os.path.join(COQ, pat))):
            h.update(f.encode())
            h.update(open(f, "rb").read())
    h.update(open(os.path.join(ROOT, "ocaml", "monitor.ml"), "rb").read())
    return h.hexdigest()


def build(release=False, hooks=True, need_api=False):
    """regenerate the generated model parts from /repo, rebuild proofs, extraction, harness"""
    b = Build()
    with Lock("build"):
        rc, out = sh([sys.executable, os.path.join(ROOT, "tools", "gen_consts.py")], timeout=60)
        if rc != 0:
            b.gen_ok = False
            b.gen_msg = out.strip()
        # the API table (nightly rustdoc, ~15 s) is regenerated whenever /repo's sources changed since it was last derived
        h = hashlib.sha256()
        for f in sorted(glob.glob(os.path.join(REPO, "src", "*.rs"))) + [os.path.join(REPO, "Cargo.toml")]:
            h.update(f.encode())
            h.update(open(f, "rb").read())
        api_stamp = os.path.join(CACHE, "api.stamp")
        api_out = os.path.join(COQ, "gen", "ApiSig.v")
        cur = h.hexdigest() + hashlib.sha256(open(api_out, "rb").read()).hexdigest() if os.path.exists(api_out) else ""
        if not os.path.exists(api_out) or not os.path.exists(api_stamp) or open(api_stamp).read() != cur:
            rc, out = sh([sys.executable, os.path.join(ROOT, "tools", "gen_api.py")], timeout=600)
            if rc != 0:
                b.gen_ok = False
                b.gen_msg += out.strip()[-2000:]
            elif os.path.exists(api_out):
                open(api_stamp, "w").write(h.hexdigest() + hashlib.sha256(open(api_out, "rb").read()).hexdigest())
        if not os.path.exists(os.path.join(COQ, "Makefile")):
            sh("coq_makefile -f _CoqProject -o Makefile", cwd=COQ)
        rc, out = sh("timeout 1500 make -j%d -k 2>&1 | tail -60" % NPROC, timeout=1600, cwd=COQ)
        # make -k: build everything that can be built; record the first failure
        m = re.search(r'File "\./([^"]+)", line (\d+)[^\n]*\n(Error:?[^\n]*(?:\n[^\n]*){0,6})', out)
        if m or re.search(r"\*\*\* \[[^\]]*\] Error|make: \*\*\*", out):
            b.coq_ok = False
            b.coq_msg = out[-3000:]
            b.coq_failed_file = m.group(1) if m else None
        # extraction + monitor only when the executable model changed
        stamp = os.path.join(CACHE, "extract.stamp")
        dg = coq_sources_digest()
        old = open(stamp).read() if os.path.exists(stamp) else ""
        if dg != old or not os.path.exists(MONITOR):
            rc, out = sh("./build.sh", timeout=900, cwd=os.path.join(ROOT, "ocaml"))
            if rc != 0:
                b.extract_ok = False
                b.coq_msg += "\nEXTRACTION: " + out[-2000:]
            else:
                open(stamp, "w").write(dg)
        # harness against /repo's working tree
        shutil.copyfile(os.path.join(REPO, "Cargo.lock"), os.path.join(ROOT, "harness", "Cargo.lock")) \
            if os.path.exists(os.path.join(REPO, "Cargo.lock")) else None
        feats = "--features hooks" if hooks else ""
        cmds = ["cargo build --offline %s" % feats]
        if release:
            cmds.append("cargo build --offline --release %s" % feats)
        for c in cmds:
            rc, out = sh(c + " 2>&1 | tail -40", timeout=1200, cwd=os.path.join(ROOT, "harness"))
            if "Finished" not in out:
                b.cargo_ok = False
                b.cargo_msg = out[-3000:]
    return b


def harness_bin(profile="debug"):
    return os.path.join(TARGET, profile, "jamm-harness")


# ----------------------------------------------------------------------------------------------
# proof gate
# ----------------------------------------------------------------------------------------------
FORBIDDEN = re.compile(r"\b(Admitted|admit|Axiom|Axioms|Parameter|Parameters|Conjecture|Hypothesis|Variable)\b|Unset\s+Guard|bypass_check|type-in-type|impredicative-set|Admit\s+Obligations|native_compute")
ALLOWED_AXIOMS = set(l.strip() for l in open(os.path.join(COQ, "ASSUMPTIONS.allow")) if l.strip() and not l.startswith("#")) \
    if os.path.exists(os.path.join(COQ, "ASSUMPTIONS.allow")) else set()


def strip_coq_comments(s):
    out = []
    depth = 0
    i = 0
    while i < len(s):
        if s.startswith("(*", i):
            depth += 1
            i += 2
        elif s.startswith("*)", i) and depth > 0:
            depth -= 1
            i += 2
        else:
            if depth == 0:
                out.append(s[i])
            i += 1
    return "".join(out)


def scan_forbidden():
    """Admitted / Axiom / ... anywhere in the development (Section-local Variables/Hypotheses are allowed:
    they are checked to sit inside a Section)."""
    bad = []
    for f in sorted(glob.glob(os.path.join(COQ, "**", "*.v"), recursive=True)):
        src = strip_coq_comments(open(f).read())
        depth = 0
        for ln in src.split("\n"):
            if re.match(r"\s*Section\b", ln):
                depth += 1
            if re.match(r"\s*End\b", ln) and depth > 0:
                depth -= 1
            for m in FORBIDDEN.finditer(ln):
                w = m.group(0)
                if w in ("Hypothesis", "Variable") and depth > 0:
                    continue
                bad.append("%s: %s" % (os.path.relpath(f, COQ), ln.strip()[:120]))
    return bad


def proof_gate(prop, build_status):
    """Compile props/<prop>.v on its own, parse Print Assumptions output, count theorems.
    Returns dict(ok, obligations, discharged, axioms, theorems, msg)."""
    res = dict(ok=True, obligations=0, discharged=0, axioms=[], theorems=[], msg="", checker_cmd="")
    pf = os.path.join(COQ, "props", prop + ".v")
    if not os.path.exists(pf):
        res.update(ok=False, msg="no props file")
        return res
    src = strip_coq_comments(open(pf).read())
    thms = re.findall(r"^\s*(?:Theorem|Lemma|Corollary|Example)\s+([A-Za-z0-9_']+)", src, re.M)
    res["theorems"] = thms
    res["obligations"] = len(thms)
    cmd = "coqc -Q . Jamm props/%s.v" % prop
    res["checker_cmd"] = "cd /verif/coq && make -j16 && " + cmd + "   (Print Assumptions output compared with coq/ASSUMPTIONS.allow; grep for Admitted/Axiom/...)"
    if not build_status.coq_ok or not build_status.gen_ok:
        res.update(ok=False, msg="coq build failed: " + (build_status.gen_msg or build_status.coq_msg)[-1500:])
        return res
    rc, out = sh("timeout 600 " + cmd, timeout=700, cwd=COQ)
    if rc != 0:
        res.update(ok=False, msg="props file does not compile: " + out[-1500:])
        return res
    # Print Assumptions blocks
    closed = len(re.findall(r"Closed under the global context", out))
    axioms = re.findall(r"^([A-Za-z0-9_.']+)\s*:", out, re.M) if "Axioms:" in out else []
    res["axioms"] = sorted(set(axioms))
    not_allowed = [a for a in res["axioms"] if a not in ALLOWED_AXIOMS]
    bad = scan_forbidden()
    if not_allowed:
        res.update(ok=False, msg="assumptions outside the allow-list: %s" % not_allowed)
    elif bad:
        res.update(ok=False, msg="forbidden vernacular: %s" % bad[:5])
    npa = len(re.findall(r"Print Assumptions", src))
    if res["ok"] and npa < 1:
        res.update(ok=False, msg="props file has no Print Assumptions")
    # thorough tier: the independent checker re-checks the property file and everything it depends on
    if res["ok"] and os.environ.get("VERIF_TIER_EFFECTIVE", os.environ.get("VERIF_TIER", "quick")) == "thorough":
        rc2, out2 = sh("timeout 1500 coqchk -silent -o -Q . Jamm Jamm.props.%s" % prop, timeout=1600, cwd=COQ)
        m = re.search(r"\* Axioms:(.*?)\n\s*\n", out2, re.S)
        ax = (m.group(1).strip() if m else "?")
        res["coqchk"] = dict(rc=rc2, axioms=ax,
                             no_type_in_type="type-in-type: <none>" in out2, no_unsafe_fixpoints="unsafe (co)fixpoints: <none>" in out2,
                             no_assumed_positivity="positivity is assumed: <none>" in out2)
        res["checker_cmd"] += " ; coqchk -silent -o -Q . Jamm Jamm.props.%s" % prop
        if rc2 != 0 or ax != "<none>" or not (res["coqchk"]["no_type_in_type"] and res["coqchk"]["no_unsafe_fixpoints"] and res["coqchk"]["no_assumed_positivity"]):
            res.update(ok=False, msg="coqchk: rc=%d axioms=%s %s" % (rc2, ax, out2[-400:]))
    res["discharged"] = len(thms) if res["ok"] else 0
    res["closed"] = closed
    return res


# ----------------------------------------------------------------------------------------------
# running histories
# ----------------------------------------------------------------------------------------------
class RunDir:
    def __init__(self):
        self.path = os.path.join(CACHE, "run-%d" % os.getpid())
        shutil.rmtree(self.path, ignore_errors=True)
        os.makedirs(self.path)
        self.n = 0

    def sub(self):
        self.n += 1
        p = os.path.join(self.path, "%06d" % self.n)
        os.makedirs(p)
        return p

    def cleanup(self):
        shutil.rmtree(self.path, ignore_errors=True)


def opts_args(o):
    a = ["--pagesize", str(o.get("pagesize", 1024)), "--num-pages", str(o.get("num_pages", 32))]
    if o.get("strict"):
        a.append("--strict")
    if o.get("populate"):
        a.append("--populate")
    return a


def run_history(text, opts, d, profile="debug", keep_snaps=False, timeout=120, expect=None, wrap=None, env=None):
    """Run one history: reference (filter + expectations), then the library. Returns a dict with
    'diffs' (list of (index, command, expected, actual)), counts, snapshot paths."""
    os.makedirs(d, exist_ok=True)
    hp = os.path.join(d, "h.txt")
    open(hp, "w").write(text)
    fp, ep, ap = os.path.join(d, "h.f"), os.path.join(d, "h.e"), os.path.join(d, "h.a")
    if expect is None:
        rc, out = sh([MONITOR, "spec", hp, fp, ep], timeout=timeout)
        if rc != 0:
            return dict(error="monitor failed: " + out[-500:], diffs=[], n=0)
    else:
        open(fp, "w").write(text)
        open(ep, "w").write(expect)
    dbp = os.path.join(d, "t.db")
    snapdir = os.path.join(d, "snap")
    os.makedirs(snapdir, exist_ok=True)
    cmd = (wrap or []) + [harness_bin(profile), "run", dbp, fp] + opts_args(opts) + ["--snapdir", snapdir]
    try:
        p = subprocess.run(cmd, stdout=subprocess.PIPE, stderr=subprocess.PIPE, timeout=timeout, text=True, errors="replace", env=env)
        rc, out = p.returncode, p.stdout
    except subprocess.TimeoutExpired as e:
        rc, out = 124, (e.stdout.decode(errors="replace") if e.stdout else "")
    cmds = [l for l in open(fp).read().split("\n") if l.strip() and not l.startswith("#")]
    exp = open(ep).read().split("\n")
    allact = out.split("\n")
    hooks = [l for l in allact if l.startswith("hook:")]
    act = []
    hooks_by_cmd = []          # hooks emitted while executing command i (printed before its result)
    curh = []
    for l in allact:
        if l.startswith("hook:"):
            curh.append(l)
        else:
            act.append(l)
            hooks_by_cmd.append(curh)
            curh = []
    if act and act[-1] == "":
        act.pop()
    diffs = []
    checks_bad = []
    snaps = []
    nontrivial = 0
    for i, c in enumerate(cmds):
        e = exp[i] if i < len(exp) else "?"
        if i >= len(act):
            diffs.append((i, c, e, "<no output: process %s>" % ("timed out (hang)" if rc == 124 else "died rc=%d" % rc)))
            break
        a = act[i]
        if e == "*" or e.startswith("snap= "):
            if a.startswith("check:") and a != "check:ok":
                checks_bad.append((i, c, "check:ok", a))
            if a.startswith("snap:") and not a.startswith("snap:ERR"):
                snaps.append((i, a[5:], e[6:] if e.startswith("snap= ") else None))
            continue
        if a == "badop":
            # produced by the harness itself (unknown transaction / handle), never by the library: the history is malformed at
            # this call (e.g. the shrinker removed the call that made the handle, or an earlier call -- already compared -- was
            # refused); nothing of the library is being compared here
            continue
        if a not in e.split(" || "):
            diffs.append((i, c, e, a))
        if a.startswith("err:") or a.startswith("panic:"):
            nontrivial += 1
    res = dict(diffs=diffs, checks_bad=checks_bad, n=len(cmds), snaps=snaps, rc=rc, act=act, exp=exp, cmds=cmds,
               hooks=hooks, hooks_by_cmd=hooks_by_cmd, nontrivial_results=nontrivial, dir=d, opts=opts)
    return res


def check_snapshots(res, pagesize):
    """Decode every snapshot of this run with the extracted Gallina decoder: inv_check must accept it
    and its logical contents must equal the reference's committed state. Appends to res['checks_bad']."""
    snaps = res.get("snaps") or []
    if not snaps:
        return 0
    rc, out = sh([MONITOR, "inv", str(pagesize)] + [s[1] for s in snaps], timeout=3000)
    lines = [l for l in out.split("\n") if l.strip()]
    byfile = {}
    for l in lines:
        f, _, rest = l.partition(" ")
        byfile[f] = rest
    n = 0
    for (i, f, want) in snaps:
        got = byfile.get(f)
        n += 1
        if got is None:
            res["checks_bad"].append((i, "snap", "decoder output", "monitor produced nothing for %s: %s" % (f, out[-200:])))
            continue
        if not got.startswith("inv:ok "):
            res["checks_bad"].append((i, "snap (inv_check on the committed file)", "inv:ok", got[:200]))
            continue
        if " checkm:ok " not in got[:60]:
            # the model of DB::check must accept what inv_check accepts (CheckFacts: inv_check ok -> check_m ok); the library's own
            # check is compared with it through the `check` commands of the history
            res["checks_bad"].append((i, "snap (model of DB::check on the committed file)", "checkm:ok", got[:200]))
            continue
        if want is not None:
            j = got.find("rootnext=")
            if got[j:] != want:
                res["checks_bad"].append((i, "snap (decoded contents vs reference)", want[:150], got[j:j + 150]))
    res["snap_meta"] = [(i, byfile.get(f, "")[:byfile.get(f, "").find(" rootnext=")]) for (i, f, w) in snaps]
    return n


def first_problem(res):
    if res.get("error"):
        return (0, "-", "-", res["error"])
    probs = sorted(res["diffs"] + res["checks_bad"])
    return probs[0] if probs else None


def run_many(cases, opts_of, rundir, profile="debug", on_result=None, timeout=120, keep=False):
    """cases: list of (label, text). Runs in parallel. Returns list of (label, text, res)."""
    results = []

    def one(c):
        label, text = c
        d = rundir.sub()
        o = opts_of(label) if callable(opts_of) else opts_of
        r = run_history(text, o, d, profile=profile, timeout=timeout)
        r["opts"] = o
        if on_result and not r.get("error"):
            try:
                on_result(label, text, r)
            except Exception as ex:  # oracle bugs must not pass silently
                r["error"] = "oracle exception: %r" % ex
        if not keep:
            shutil.rmtree(d, ignore_errors=True)
        if first_problem(r) is None:
            # long runs carry hundreds of MB of expected / actual lines: nothing more is read from a clean result
            for k in ("act", "exp", "hooks", "hooks_by_cmd"):
                r[k] = []
        return (label, text, r)

    with ThreadPoolExecutor(NPROC) as ex:
        for r in ex.map(one, cases):
            results.append(r)
    return results


def shrink(text, opts, rundir, profile, same_kind, budget_s=60):
    """ddmin over history lines keeping 'still fails in the same way' (same_kind(res) -> bool)."""
    lines = [l for l in text.split("\n") if l.strip()]
    t0 = time.time()
    n = 2
    while len(lines) >= 2 and time.time() - t0 < budget_s:
        chunk = max(1, len(lines) // n)
        reduced = False
        for i in range(0, len(lines), chunk):
            cand = lines[:i] + lines[i + chunk:]
            if not cand:
                continue
            d = rundir.sub()
            r = run_history("\n".join(cand) + "\n", opts, d, profile=profile, timeout=60)
            ok = same_kind(r)
            shutil.rmtree(d, ignore_errors=True)
            if ok:
                lines = cand
                n = max(n - 1, 2)
                reduced = True
                break
            if time.time() - t0 > budget_s:
                break
        if not reduced:
            if chunk == 1:
                break
            n = min(len(lines), n * 2)
    return "\n".join(lines) + "\n"


# ----------------------------------------------------------------------------------------------
# reporting
# ----------------------------------------------------------------------------------------------
def load_known():
    p = os.path.join(ROOT, "known_findings.json")
    if not os.path.exists(p):
        return []
    return json.load(open(p)).get("findings", [])


class Report:
    def __init__(self, prop, tier, seed, level):
        self.prop, self.tier, self.seed, self.level = prop, tier, seed, level
        self.t0 = time.time()
        self.violations = []
        self.known_hits = []
        self.cov = dict(evaluations=0, distinct_nontrivial=0, rule="", samples=[])
        self.assumptions = []
        self.distinct = set()

    def count(self, label, text, nontrivial):
        self.cov["evaluations"] += 1
        if nontrivial:
            self.distinct.add(hashlib.sha1(text.encode()).hexdigest())

    def sample(self, s):
        if len(self.cov["samples"]) < 4:
            self.cov["samples"].append(s if len(str(s)) < 1500 else str(s)[:1500] + "...")

    def violation(self, what, replay_obj, no_input=False):
        """record a violation; replay_obj is JSON-serialisable and written under replays/"""
        os.makedirs(os.path.join(ROOT, "replays"), exist_ok=True)
        blob = json.dumps(replay_obj, indent=1, sort_keys=True)
        hsh = hashlib.sha1(blob.encode()).hexdigest()[:12]
        path = os.path.join(ROOT, "replays", "%s-%s.json" % (self.prop, hsh))
        open(path, "w").write(blob)
        self.violations.append((what, path, no_input))

    def finish(self):
        self.cov["distinct_nontrivial"] = max(self.cov.get("distinct_nontrivial", 0), len(self.distinct))
        ev = dict(property_id=self.prop, tier=self.tier, seed=self.seed, level=self.level,
                  coverage=self.cov, assumptions=self.assumptions, wall_s=round(time.time() - self.t0, 2),
                  violations=len(self.violations))
        os.makedirs(os.path.join(ROOT, "evidence"), exist_ok=True)
        json.dump(ev, open(os.path.join(ROOT, "evidence", self.prop + ".json"), "w"), indent=1)
        for k in self.known_hits:
            print("KNOWN-FINDING: property=%s %s" % (self.prop, k))
        for what, path, no_input in self.violations[:10]:
            print("# %s" % what[:400])
            print("VIOLATION property=%s replay=%s%s" % (self.prop, path, " no-failing-input-found" if no_input else ""))
        sys.stdout.flush()
        return 1 if self.violations else 0


def describe_problem(label, prob):
    i, c, e, a = prob
    return "%s: command #%d `%s` expected `%s` got `%s`" % (label, i, c[:80], e[:120], a[:160])


# ----------------------------------------------------------------------------------------------
# cursor model (Coq, extracted) vs library on the same committed file
# ----------------------------------------------------------------------------------------------
READ_OPS = ("scan", "seek", "range", "get", "buckets", "kvpairs")


def cursor_corr(res, pagesize):
    """For every read call of a read-only transaction whose snapshot file was captured, evaluate the
    Gallina cursor machine on the decoded file and compare with what the library returned.
    Appends disagreements to res['checks_bad']; returns the number of calls compared."""
    cmds, act = res["cmds"], res["act"]
    snap_at = {}                      # command index -> file
    for (i, f, w) in res.get("snaps", []):
        snap_at[i] = f
    cur_snap = None
    txs = {}                          # t -> dict(w, snap, handles{h: path})
    per_snap = {}
    for i, c in enumerate(cmds):
        if i >= len(act):
            break
        w = c.split()
        a = act[i]
        if w[0] == "snap":
            cur_snap = snap_at.get(i)
        elif w[0] in ("commit", "reopen"):
            if w[0] == "commit" and not a.startswith("err:ReadOnly"):
                cur_snap = None
        elif w[0] == "begin" and a == "ok":
            txs[w[1]] = dict(w=(w[2] == "w"), snap=cur_snap, handles={"0": []})
        elif w[0] in ("getb", "goc", "create") and a == "ok" and w[1] in txs:
            t = txs[w[1]]
            if w[2] in t["handles"]:
                t["handles"][w[4]] = t["handles"][w[2]] + [w[3]]
        elif w[0] in READ_OPS and w[1] in txs:
            t = txs[w[1]]
            if t["w"] or t["snap"] is None or w[2] not in t["handles"] or w[2] == "0":
                continue
            path = "/".join(t["handles"][w[2]]) or "/"
            per_snap.setdefault(t["snap"], []).append((i, c, "%s %s %s" % (w[0], path, " ".join(w[3:])), a))
    n = 0
    for snap, ops in per_snap.items():
        opf = snap + ".ops"
        open(opf, "w").write("\n".join(o[2] for o in ops) + "\n")
        rc, out = sh([MONITOR, "cursor", str(pagesize), snap, opf], timeout=300)
        lines = out.split("\n")
        for j, (i, c, o, a) in enumerate(ops):
            m = lines[j] if j < len(lines) else "<none>"
            # the library appends nothing after the items; normalise trailing spaces
            n += 1
            if m.rstrip() != a.rstrip():
                res["checks_bad"].append((i, c + "   [cursor model vs library]", m[:200], a[:200]))
    return n


# ----------------------------------------------------------------------------------------------
# page-lifecycle acceptor + free-list replay (Coq, extracted) over the library's hook events
# ----------------------------------------------------------------------------------------------
def pl_events(res):
    """translate the interleaved hook / command stream of one run into the event lines of `monitor pl`"""
    cmds, act, hbc = res["cmds"], res["act"], res["hooks_by_cmd"]
    snap_at = {i: f for (i, f, w) in res.get("snaps", [])}
    ev = []
    origin = []
    writers = set()
    cur_snap = None
    for i, c in enumerate(cmds):
        if i >= len(act):
            break
        w = c.split()
        for h in (hbc[i] if i < len(hbc) else []):
            _, name, nums, _hx = h.split(":", 3)
            nums = nums.split(",") if nums else []
            if name == "tx_begin":
                wr, txid, nro = nums[0], nums[1], int(nums[2])
                ro = nums[3:3 + nro]
                dump = nums[3 + nro:]
                ev.append("B %s %s %s | %s" % ("w" if wr == "1" else "r", txid, " ".join(ro), " ".join(dump)))
            elif name == "alloc":
                ev.append("A %s %s %s" % (nums[0], nums[1], nums[2]))
            elif name == "free":
                ev.append("F %s %s" % (nums[0], nums[1]))
            elif name == "write_page":
                ev.append("W %s %s" % (nums[0], nums[1]))
            elif name == "publish":
                ev.append("P %s %s %s %s | %s" % (nums[0], nums[1], nums[2], nums[3], " ".join(nums[4:])))
            elif name == "tx_end_ro":
                ev.append("E %s" % nums[0])
            else:
                continue
            origin.append(i)
        a = act[i]
        if w[0] == "begin" and w[2] == "w" and a == "ok":
            writers.add(w[1])
        elif w[0] == "drop" and w[1] in writers:
            writers.discard(w[1])
            ev.append("X"); origin.append(i)
        elif w[0] == "commit" and w[1] in writers:
            writers.discard(w[1])
            if a != "ok":
                ev.append("X"); origin.append(i)
            else:
                cur_snap = None
        elif w[0] == "snap":
            cur_snap = snap_at.get(i)
            if cur_snap:
                ev.append("S %s" % cur_snap); origin.append(i)
        elif w[0] == "reopen":
            writers.clear()
            if cur_snap is None:
                break                      # no current image of the file: tracking stops here
            ev.append("R %s" % cur_snap); origin.append(i)
    return ev, origin


def pl_corr(res, pagesize):
    ev, origin = pl_events(res)
    if not ev:
        return 0
    f = os.path.join(res["dir"], "pl.ev")
    open(f, "w").write("\n".join(ev) + "\n")
    rc, out = sh([MONITOR, "pl", str(pagesize), f], timeout=3000)
    lines = [l for l in out.split("\n") if l.strip()]
    ok = lines and lines[-1].startswith("done")
    rej = [l for l in lines if l.startswith("REJECT")]
    for l in rej[:1]:
        m = re.match(r"REJECT event=(\d+) (.*)", l)
        k = int(m.group(1)) - 1 if m else 0
        i = origin[k] if k < len(origin) else 0
        res["checks_bad"].append((i, res["cmds"][i] + "   [page-lifecycle / free-list model vs library]", "accepted", (m.group(2) if m else l)[:300]))
    if not ok and not rej:
        res["checks_bad"].append((0, "pl", "done", "monitor pl failed: " + out[-300:]))
    return len(ev)


# ----------------------------------------------------------------------------------------------
# the write-path engine model (Coq, extracted), page for page against the library's committed files
# ----------------------------------------------------------------------------------------------
def dump_bucket_paths(text):
    """bucket paths (lists of hex names), parents first, in a harness dump `(kv k v)(bk name next (...)...)`"""
    toks = text.replace("(", " ( ").replace(")", " ) ").split()
    out, stack, i = [], [], 0
    depth_of = []          # paren depth at which each open bucket closes
    depth = 0
    try:
        while i < len(toks):
            t = toks[i]
            if t == "(":
                depth += 1
                if toks[i + 1] == "bk":
                    stack.append(toks[i + 2]); depth_of.append(depth)
                    out.append(list(stack))
                    i += 4          # ( bk name next
                    continue
                i += 1
            elif t == ")":
                if depth_of and depth_of[-1] == depth:
                    stack.pop(); depth_of.pop()
                depth -= 1
                i += 1
            else:
                i += 1
        return out if depth == 0 and not stack else None
    except IndexError:
        return None


def engine_corr(res, pagesize):
    """replays the run's successful write operations in the Gallina engine (model/Engine.v) and compares every
    committed state with the snapshot file: header fields, free-list ids, every reachable page (id, overflow,
    entries). Returns (commits compared, exact). Stops following (without alarm) where the model does not apply:
    a reader open while a writer begins, or sub-buckets opened as a side effect of iteration in a write tx."""
    cmds, act, hbc = res["cmds"], res["act"], res["hooks_by_cmd"]
    snap_at = {i: f for (i, f, w) in res.get("snaps", [])}
    lines = []
    origin = []
    txs = {}
    pending_commit = False
    for i, c in enumerate(cmds):
        if i >= len(act):
            break
        w = c.split()
        a = act[i]
        if w[0] == "begin" and a == "ok":
            if w[2] == "w":
                # read transactions open while the writer begins: the library releases only the batches older than the oldest
                # of them (its id is in the tx_begin hook: [writable, tx id, #readers, reader ids ...]); the model does the same
                # (model/EngineR.v run_tx_r)
                bound = None
                for hk in (hbc[i] if i < len(hbc) else []):
                    if hk.startswith("hook:tx_begin:"):
                        nums = [int(x) for x in hk.split(":")[2].split(",") if x.strip().isdigit()]
                        if len(nums) >= 3 and nums[0] == 1 and nums[2] > 0:
                            bound = min(nums[3:3 + nums[2]])
                if any(not t["w"] for t in txs.values()) and bound is None:
                    break
                txs[w[1]] = dict(w=True, handles={"0": []})
                lines.append("tx" if bound is None else "tx %d" % bound); origin.append(i)
            else:
                txs[w[1]] = dict(w=False, handles={"0": []})
        elif w[0] in ("getb", "goc", "create") and w[1] in txs:
            t = txs[w[1]]
            if a == "ok" and w[2] in t["handles"]:
                t["handles"][w[4]] = t["handles"][w[2]] + [w[3]]
                if t["w"]:
                    lines.append("T %s" % "/".join(t["handles"][w[4]])); origin.append(i)
        elif w[0] == "put" and w[1] in txs and txs[w[1]]["w"] and a.startswith("opt:") and w[2] in txs[w[1]]["handles"]:
            lines.append("P %s %s %s" % ("/".join(txs[w[1]]["handles"][w[2]]) or "/", w[3], w[4])); origin.append(i)
        elif w[0] == "del" and w[1] in txs and txs[w[1]]["w"] and a.startswith("opt:kv") and w[2] in txs[w[1]]["handles"]:
            lines.append("D %s %s" % ("/".join(txs[w[1]]["handles"][w[2]]) or "/", w[3])); origin.append(i)
        elif w[0] == "delb" and w[1] in txs and txs[w[1]]["w"] and a == "ok" and w[2] in txs[w[1]]["handles"]:
            lines.append("X %s %s" % ("/".join(txs[w[1]]["handles"][w[2]]) or "/", w[3])); origin.append(i)
            # handles into the deleted subtree are dead (a bucket re-created under the same name is another object)
            gone = txs[w[1]]["handles"][w[2]] + [w[3]]
            for h in [h for h, pth in txs[w[1]]["handles"].items() if pth[:len(gone)] == gone]:
                del txs[w[1]]["handles"][h]
        elif w[0] in ("kvpairs", "nextint") and w[1] in txs and txs[w[1]]["w"] and w[2] in txs[w[1]]["handles"] and w[2] != "0" \
                and a.split(":")[0] in ("items", "num") and "PANIC" not in a and "ENDLESS" not in a:
            lines.append("%s %s | %s" % ("V" if w[0] == "kvpairs" else "N", "/".join(txs[w[1]]["handles"][w[2]]), a)); origin.append(i)
        elif w[0] in ("get", "scan", "seek", "range") and w[1] in txs and txs[w[1]]["w"] and w[2] in txs[w[1]]["handles"] \
                and w[2] != "0" and a.split(":")[0] in ("opt", "items", "seek") and "PANIC" not in a and "ENDLESS" not in a:
            # reads the library answered INSIDE the write transaction: the model's overlay (model/EngineScan.v: the engine's
            # own search, and the cursor machine on the overlay tree) must give the same answer
            pth = "/".join(txs[w[1]]["handles"][w[2]])
            if w[0] == "get":
                lines.append("G %s %s | %s" % (pth, w[3], a))
            elif w[0] == "scan":
                lines.append("S %s | %s" % (pth, a))
            elif w[0] == "seek":
                lines.append("K %s %s | %s" % (pth, w[3], a))
            else:
                lines.append("R %s %s %s %s %s | %s" % (pth, w[3], w[4], w[5], w[6], a))
            origin.append(i)
        elif w[0] == "buckets" and w[1] in txs and txs[w[1]]["w"] and w[2] in txs[w[1]]["handles"] and a.startswith("items:") \
                and all(x.startswith("bk:") for x in a[6:].split()):
            if w[2] != "0":
                lines.append("B %s | %s" % ("/".join(txs[w[1]]["handles"][w[2]]), a)); origin.append(i)
            # the buckets() iterator of a WRITE transaction opens every nested bucket it passes: one Touch each
            for x in a[6:].split():
                lines.append("T %s" % "/".join(txs[w[1]]["handles"][w[2]] + [x[3:]])); origin.append(i)
        elif w[0] == "dump" and w[1] in txs and txs[w[1]]["w"] and a.startswith("dump:") and "ERR:" not in a:
            # the harness's dump opens every bucket of the tree, parents first
            paths = dump_bucket_paths(a[5:])
            if paths is None:
                break
            for pth in paths:
                lines.append("T %s" % "/".join(pth)); origin.append(i)
        elif w[0] in ("dump", "buckets", "getbi") and w[1] in txs and txs[w[1]]["w"]:
            break
        elif w[0] == "getbi" and w[1] in txs:
            t = txs[w[1]]
            if a == "ok" and w[2] in t["handles"]:
                t["handles"][w[4]] = t["handles"][w[2]] + [w[3]]
        elif w[0] == "commit" and w[1] in txs:
            t = txs.pop(w[1])
            if t["w"]:
                if a != "ok":
                    lines.append("rollback"); origin.append(i)
                else:
                    names = [h.split(":", 3)[3] for h in (hbc[i] if i < len(hbc) else []) if h.startswith("hook:spill_child:")]
                    lines.append("ord " + " ".join(names)); origin.append(i)
                    pending_commit = True
        elif w[0] == "drop" and w[1] in txs:
            t = txs.pop(w[1])
            if t["w"]:
                lines.append("rollback"); origin.append(i)
        elif w[0] == "snap":
            if pending_commit and i in snap_at:
                lines.append("commit %s" % snap_at[i]); origin.append(i)
                pending_commit = False
        elif w[0] == "reopen":
            if pending_commit:
                break
            txs = {}
            lines.append("reopen"); origin.append(i)
        if pending_commit and w[0] in ("begin",) and w[2] == "w":
            break
    if pending_commit:
        # drop the trailing uncompared commit
        while lines and not lines[-1].startswith("commit "):
            lines.pop(); origin.pop()
    if not any(l.startswith("commit ") for l in lines):
        return 0, 0
    f = os.path.join(res["dir"], "engine.txt")
    open(f, "w").write("\n".join(lines) + "\n")
    rc, out = sh([MONITOR, "engine", str(pagesize), f], timeout=600)
    ls = [l for l in out.split("\n") if l.strip()]
    m = re.search(r"done commits=(\d+) exact=(\d+)", ls[-1]) if ls else None
    mr = re.search(r"reads=(\d+) reads_skipped=(\d+)", ls[-1]) if ls else None
    if mr:
        res["engine_reads"] = res.get("engine_reads", 0) + int(mr.group(1))
        res["engine_reads_skipped"] = res.get("engine_reads_skipped", 0) + int(mr.group(2))
    for l in ls:
        if l.startswith("DIFF"):
            mm = re.match(r"DIFF line=(\d+) (.*)", l)
            k = int(mm.group(1)) - 1
            i = origin[k] if k < len(origin) else 0
            if "read inside the write transaction" in mm.group(2) or "on a read" in mm.group(2):
                res["checks_bad"].append((i, res["cmds"][i] + "   [engine model's overlay (model/EngineScan.v) vs the library's answer inside the write transaction]", "identical answer", mm.group(2)[:500]))
            else:
                res["checks_bad"].append((i, res["cmds"][i] + "   [write-path engine model vs the committed file, page for page]", "identical pages", mm.group(2)[:300]))
            break
    if not m and not any(l.startswith("DIFF") for l in ls):
        res["checks_bad"].append((0, "engine", "done", "monitor engine failed: " + out[-300:]))
    return (int(m.group(1)), int(m.group(2))) if m else (0, 0)
