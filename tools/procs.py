"""C13: several processes opening the same database file. strace records the system-call word of
every open (it must be a word of the per-process automaton of model/Proc.v for the protocol the
translator read from the source), and forces orderings by holding one process inside a chosen system
call (inject delay_exit) while others start at chosen offsets."""
import os, re, time, subprocess, random, shutil
import vlib

SYSCALLS = "openat,flock,fallocate,write,fsync,mmap,close"


def start_proc(db, marker, hold_ms, d, inject=None, delay_start_ms=0, P=1024, np_=16):
    st = os.path.join(d, "st_%s.txt" % marker)
    cmd = ["strace", "-f", "-s", "0", "-e", "trace=" + SYSCALLS, "-P", db, "-o", st]
    if inject:
        cmd += ["-e", "inject=%s:delay_exit=%d:when=1" % inject]
    cmd += [vlib.harness_bin("debug"), "proc", db, marker, str(hold_ms), "--pagesize", str(P), "--num-pages", str(np_)]
    if delay_start_ms:
        time.sleep(delay_start_ms / 1000.0)
    p = subprocess.Popen(cmd, stdout=subprocess.PIPE, stderr=subprocess.PIPE, text=True)
    return p, st


def word_of(st_path):
    """the sequence of system calls on the database file during open (up to and including the first mmap)"""
    w = []
    for ln in open(st_path, errors="replace"):
        m = re.match(r"\s*\d+\s+(\w+)\((.*?)\)\s*=\s*(-?\d+)", ln)
        if not m:
            continue
        name, args, ret = m.group(1), m.group(2), int(m.group(3))
        if name == "openat":
            flags = args.split(",")[2].strip() if len(args.split(",")) > 2 else ""
            if "O_RDWR" not in flags:
                continue
            name = "openat_excl" if "O_EXCL" in flags else ("openat_creat" if "O_CREAT" in flags else "openat")
            if ret < 0:
                name += "_failed"
        elif ret < 0:
            name += "_failed"
        w.append(name)
        if name == "mmap":
            break
    return w


def expected_words(lock_first):
    """regular expressions for the open word, per protocol (see model/Proc.v)"""
    if lock_first:
        return [r"openat_creat flock (fallocate write fsync )?mmap"]
    return [r"openat_excl fallocate write fsync flock mmap", r"openat flock mmap"]


def parse_proc(out):
    m = re.search(r"proc (\S+) start=(\d+) opened=(\d+) seen=(\S*) closing=(\d+) result=(.*)", out)
    if not m:
        return None
    return dict(marker=m.group(1), start=int(m.group(2)), opened=int(m.group(3)), seen=[x for x in m.group(4).split(",") if x],
                closing=int(m.group(5)), result=m.group(6).strip())


def scenario(d, plan, existing, P=1024):
    """plan: list of (marker, delay_start_ms, hold_ms, inject or None). Returns (records, words, problems)"""
    db = os.path.join(d, "p.db")
    for f in os.listdir(d):
        os.remove(os.path.join(d, f))
    if existing:
        p, st = start_proc(db, "m0", 0, d)
        p.communicate(timeout=60)
    procs = []
    t0 = time.time()
    for (marker, delay, hold, inject) in plan:
        wait = delay / 1000.0 - (time.time() - t0)
        if wait > 0:
            time.sleep(wait)
        procs.append((marker,) + start_proc(db, marker, hold, d, inject=inject, P=P))
    recs, words, problems = [], [], []
    for marker, p, st in procs:
        try:
            out, err = p.communicate(timeout=60)
        except subprocess.TimeoutExpired:
            p.kill()
            out, err = p.communicate()
            problems.append("process %s did not finish within 60 s (blocked forever?)" % marker)
        r = parse_proc(out)
        if r is None:
            problems.append("process %s produced no result (rc=%s): %s" % (marker, p.returncode, (out + err)[-200:]))
            continue
        recs.append(r)
        if os.path.exists(st):
            words.append((marker, word_of(st)))
    ok = [r for r in recs if r["result"] == "ok"]
    for r in recs:
        if r["result"] != "ok":
            problems.append("process %s: open / commit failed instead of waiting: %s" % (r["marker"], r["result"][:160]))
    ok.sort(key=lambda r: r["opened"])
    prev = ["m0"] if existing else []
    for i, r in enumerate(ok):
        if i > 0 and r["opened"] < ok[i - 1]["closing"]:
            problems.append("processes %s and %s were inside the database at the same time" % (ok[i - 1]["marker"], r["marker"]))
        if sorted(r["seen"]) != sorted(prev):
            problems.append("process %s saw markers %s, expected everything committed before it: %s" % (r["marker"], r["seen"], prev))
        prev = prev + [r["marker"]]
    return recs, words, problems


def plans(tier, rng):
    out = []
    holds = [("openat", 600000), ("fallocate", 600000), ("write", 600000), ("fsync", 600000), ("flock", 600000), ("mmap", 600000)]
    offsets = [0, 150, 350]
    for existing in (False, True):
        for (sc, us) in holds:
            if existing and sc in ("fallocate", "fsync"):
                continue                  # those calls do not occur when the file exists
            for off in offsets:
                out.append((existing, [("a", 0, 50, (sc, us)), ("b", off, 50, None)]))
    # three processes, two of them creators
    for off in ([100] if tier == "quick" else offsets):
        out.append((False, [("a", 0, 100, ("fallocate", 500000)), ("b", off, 50, None), ("c", off + 100, 50, None)]))
        out.append((False, [("a", 0, 50, None), ("b", 0, 50, None), ("c", 0, 50, None)]))
        out.append((True, [("a", 0, 200, None), ("b", off, 100, ("flock", 300000)), ("c", off + 50, 50, None)]))
    if tier != "quick":
        for _ in range(40):
            n = rng.choice([2, 3])
            pl = []
            for i in range(n):
                inj = rng.choice([None, None] + holds)
                pl.append(("p%d" % i, rng.choice([0, 0, 50, 120, 300, 500]), rng.choice([0, 50, 200]), inj))
            out.append((rng.random() < 0.5, pl))
    return out
