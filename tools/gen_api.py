#!/usr/bin/env python3
"""Translator for C14: runs nightly rustdoc (JSON) on /repo and emits coq/gen/ApiSig.v, the table of
every public function / method / trait-impl method of the crate's own types with the lifetime structure
of its signature, plus the auto-trait (Send / Sync) table and, for every ToBytes impl, whether the body
builds an owned value or passes a borrow through (read from the source text)."""
import json, os, re, subprocess, sys

REPO = os.environ.get("VERIF_REPO", "/repo")
_ROOT = os.path.dirname(os.path.dirname(os.path.abspath(__file__)))
OUT = os.path.join(_ROOT, "coq", "gen", "ApiSig.v")
TARGET = os.path.join(_ROOT, ".cache", "doc-target")
LOCAL_TYPES = ["Tx", "Bucket", "Cursor", "Range", "Buckets", "KVPairs", "Data", "KVPair", "BucketName", "Bytes", "DB", "OpenOptions", "Error"]


class GenError(Exception):
    pass


def rustdoc():
    env = dict(os.environ, CARGO_TARGET_DIR=TARGET, CARGO_NET_OFFLINE="true")
    p = subprocess.run("cargo +nightly rustdoc --offline --lib -- -Z unstable-options --output-format json --document-private-items", shell=True, cwd=REPO, env=env,
                       stdout=subprocess.PIPE, stderr=subprocess.STDOUT, text=True, timeout=600)
    f = os.path.join(TARGET, "doc", "jammdb.json")
    if p.returncode != 0 or not os.path.exists(f):
        raise GenError("rustdoc failed: " + p.stdout[-800:])
    return json.load(open(f))


def lt_term(l, self_lt=None):
    if l is None or l == "'_":
        return "LElided"
    if l == "'static":
        return "LStatic"
    return 'LNamed "%s"' % l.lstrip("'")


def comps(t, subst, out):
    """collect (head name, [lifetimes]) for local types and plain references, through any nesting"""
    if isinstance(t, list):
        for x in t:
            comps(x, subst, out)
        return
    if not isinstance(t, dict):
        return
    if "resolved_path" in t:
        rp = t["resolved_path"]
        name = rp["path"].split("::")[-1]
        lts = []
        args = (rp.get("args") or {}).get("angle_bracketed", {}) if rp.get("args") else {}
        for a in args.get("args", []) if args else []:
            if "lifetime" in a:
                lts.append(a["lifetime"])
        if name in LOCAL_TYPES and rp["path"] not in ("bytes::Bytes",):
            out.append((name, lts))
        if args:
            for a in args.get("args", []):
                if "type" in a:
                    comps(a["type"], subst, out)
            for c in args.get("constraints", []):
                comps(c, subst, out)
        return
    if "borrowed_ref" in t:
        br = t["borrowed_ref"]
        out.append(("&", [br.get("lifetime")]))
        comps(br["type"], subst, out)
        return
    if "generic" in t:
        g = t["generic"]
        if g in subst:
            comps(subst[g], {}, out)
        return
    if "qualified_path" in t:
        qp = t["qualified_path"]
        key = "assoc:" + qp["name"]
        st = qp.get("self_type") or {}
        if st.get("generic") == "Self" and key in subst:
            comps(subst[key], subst, out)
        else:
            comps(st, subst, out)
        return
    for v in t.values():
        comps(v, subst, out)


def to_bytes_kind(src, impl_for):
    """classify the body of `impl ToBytes for <impl_for>`: owned / passthrough (borrows from self or hands self on)"""
    m = re.search(r"impl<[^>]*>\s*ToBytes<[^>]*>\s*for\s*%s\s*(?:<[^>{]*>)?\s*\{(.*?)\n\}" % re.escape(impl_for), src, re.S)
    if not m:
        return None
    body = m.group(1)
    if re.search(r"copy_from_slice|Rc::new\(\s*self\s*\)|to_vec\(\)|to_owned\(\)", body):
        return "owned"
    return "passthrough"


def main():
    d = rustdoc()
    idx = d["index"]
    fns = []
    send = {}
    for k, v in idx.items():
        if "impl" not in v["inner"]:
            continue
        im = v["inner"]["impl"]
        if im.get("blanket_impl") is not None:
            continue
        ftype = im["for"]
        owner_comps = []
        comps(ftype, {}, owner_comps)
        owner = None
        if "resolved_path" in ftype:
            owner = ftype["resolved_path"]["path"].split("::")[-1]
        elif "borrowed_ref" in ftype and "resolved_path" in ftype["borrowed_ref"]["type"]:
            owner = "&" + ftype["borrowed_ref"]["type"]["resolved_path"]["path"].split("::")[-1]
        else:
            owner = "<%s>" % list(ftype.keys())[0]
        tr = im["trait"]["path"].split("::")[-1] if im.get("trait") else ""
        base_owner = owner.lstrip("&")
        if not (base_owner in LOCAL_TYPES or tr == "ToBytes"):
            continue                                   # impls of crate-private helper types
        if im.get("is_synthetic"):
            if tr in ("Send", "Sync") and owner in LOCAL_TYPES:
                send[(owner, tr)] = not im.get("is_negative")
            continue
        if tr in ("Debug", "Display", "StructuralPartialEq", "Eq", "Error", "Hash", "PartialOrd", "Ord"):
            continue
        owner_lts = next((l for (n, l) in owner_comps if n == owner.lstrip("&")), [])
        subst = {"Self": ftype}
        for it in im["items"]:
            iv = idx.get(str(it))
            if iv and "assoc_type" in iv["inner"] and iv["inner"]["assoc_type"].get("type"):
                subst["assoc:" + iv["name"]] = iv["inner"]["assoc_type"]["type"]
        # lifetimes that the impl's bounds tie to anchor types (e.g. I: Iterator<Item = Data<'b, 'tx>>)
        bound_comps = []
        comps(im.get("generics", {}).get("params", []), {}, bound_comps)
        comps(im.get("generics", {}).get("where_predicates", []), {}, bound_comps)
        for it in im["items"]:
            iv = idx.get(str(it))
            if not iv or "function" not in iv["inner"]:
                continue
            if tr == "" and iv.get("visibility") != "public":
                continue
            sig = iv["inner"]["function"]["sig"]
            selfk = "SNone"
            ins = []
            for (pname, pty) in sig["inputs"]:
                if pname == "self":
                    if "borrowed_ref" in pty:
                        selfk = "(SRef (%s))" % lt_term(pty["borrowed_ref"].get("lifetime"))
                    else:
                        selfk = "SValue"
                else:
                    comps(pty, subst, ins)
            outs = []
            if sig.get("output"):
                comps(sig["output"], subst, outs)
            fns.append(dict(owner=owner, owner_lts=owner_lts, trait=tr, name=iv["name"], selfk=selfk, ins=ins, outs=outs, bounds=bound_comps))
    # ToBytes bodies
    srcs = {n: open(os.path.join(REPO, "src", n)).read() for n in ("bytes.rs", "data.rs")}
    kinds = {}
    for f in fns:
        if f["trait"] == "ToBytes" and f["name"] == "to_bytes":
            o = f["owner"]
            pat = {"BucketName": r"BucketName", "&BucketName": r"&BucketName", "Bytes": r"Bytes", "&Bytes": r"&Bytes"}.get(o)
            kind = None
            for sname, src in srcs.items():
                if pat:
                    kind = kind or to_bytes_kind(src, pat)
            f["body"] = kind or "n/a"
    if not fns:
        raise GenError("no functions found in rustdoc JSON")

    def cl(cs):
        return "[" + "; ".join('mkComp "%s" [%s]' % (n, "; ".join(lt_term(x) for x in l)) for (n, l) in cs) + "]"

    L = ["(* GENERATED by tools/gen_api.py from nightly rustdoc JSON of %s -- do not edit *)" % REPO,
         "From Coq Require Import List String.", "Import ListNotations. Local Open Scope string_scope.",
         "Inductive lt := LStatic | LNamed (n : string) | LElided.",
         "Inductive self_kind := SNone | SValue | SRef (l : lt).",
         "Record comp := mkComp { c_ty : string; c_lts : list lt }.",
         "Record fn_sig := mkFn { f_owner : string; f_owner_lts : list lt; f_trait : string; f_name : string; f_self : self_kind;",
         "                        f_in : list comp; f_out : list comp; f_bounds : list comp; f_body : string }.",
         "Definition api : list fn_sig := ["]
    rows = []
    for f in sorted(fns, key=lambda f: (f["owner"], f["trait"], f["name"])):
        rows.append('  mkFn "%s" [%s] "%s" "%s" %s %s %s %s "%s"' % (
            f["owner"], "; ".join(lt_term(x) for x in f["owner_lts"]), f["trait"], f["name"], f["selfk"], cl(f["ins"]), cl(f["outs"]), cl(f["bounds"]), f.get("body", "")))
    L.append(";\n".join(rows))
    L.append("].")
    L.append("Definition auto_traits : list (string * string * bool) := [%s]." % "; ".join(
        '("%s", "%s", %s)' % (o, t, "true" if v else "false") for (o, t), v in sorted(send.items())))
    text = "\n".join(L) + "\n"
    old = open(OUT).read() if os.path.exists(OUT) else None
    if old != text:
        open(OUT, "w").write(text)
    return 0


if __name__ == "__main__":
    try:
        sys.exit(main())
    except GenError as e:
        print("GEN-ERROR: %s" % e)
        sys.exit(2)
