/* LD_PRELOAD shim: the N-th write() to the file FAULT_PATH is cut short (FAULT_SHORT bytes really
   written), and the following write() on that descriptor fails with EIO. Used by the C11 check for
   "short write then error". */
#define _GNU_SOURCE
#include <dlfcn.h>
#include <unistd.h>
#include <errno.h>
#include <stdlib.h>
#include <string.h>
#include <stdio.h>
#include <sys/types.h>

static ssize_t (*real_write)(int, const void *, size_t) = 0;
static long counter = 0;
static int armed_fd = -1;
static off_t armed_off = 0;

static int is_target(int fd) {
    const char *want = getenv("FAULT_PATH");
    char p[64], buf[4096];
    if (!want) return 0;
    snprintf(p, sizeof p, "/proc/self/fd/%d", fd);
    ssize_t n = readlink(p, buf, sizeof buf - 1);
    if (n <= 0) return 0;
    buf[n] = 0;
    return strcmp(buf, want) == 0;
}

ssize_t write(int fd, const void *b, size_t n) {
    if (!real_write) real_write = dlsym(RTLD_NEXT, "write");
    if (fd <= 2 || !is_target(fd)) return real_write(fd, b, n);
    if (armed_fd == fd) {
        /* only the CONTINUATION of the truncated write fails (the device is broken at that position);
           a program that never continues the short write is not rescued by a later failure */
        armed_fd = -1;
        if (lseek(fd, 0, SEEK_CUR) == armed_off) { errno = EIO; return -1; }
    }
    counter++;
    const char *ns = getenv("FAULT_WRITE_N");
    if (ns && counter == atol(ns)) {
        const char *ss = getenv("FAULT_SHORT");
        size_t s = ss ? (size_t)atol(ss) : 1;
        if (s >= n) s = n > 1 ? n - 1 : 0;
        if (s == 0) { errno = EIO; return -1; }
        ssize_t r = real_write(fd, b, s);
        armed_fd = fd;
        armed_off = lseek(fd, 0, SEEK_CUR);
        return r;
    }
    return real_write(fd, b, n);
}
