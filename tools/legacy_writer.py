#!/usr/bin/env python3
"""Independent writer of the legacy (<= 0.10) header format: rewrites both header pages of a database file so
that they carry an OldMeta record (same fields, SHA3-256 checksum over their big-endian images).
usage: legacy_writer.py <in.db> <pagesize> <out.db>"""
import sys, struct, hashlib


def rewrite(src, P, dst):
    b = bytearray(open(src, "rb").read())
    for slot in (0, 1):
        base = slot * P + 32
        meta_page, magic, version = struct.unpack_from("<III", b, base)
        pagesize, root_page, next_int, num_pages, freelist_page, tx_id = struct.unpack_from("<QQQQQQ", b, base + 16)
        img = struct.pack(">IIIQQQQQQ", meta_page, magic, version, pagesize, root_page, next_int, num_pages, freelist_page, tx_id)
        digest = hashlib.sha3_256(img).digest()
        b[base + 64:base + 96] = digest
    open(dst, "wb").write(b)


if __name__ == "__main__":
    rewrite(sys.argv[1], int(sys.argv[2]), sys.argv[3])
