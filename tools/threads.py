"""C04 / C09: scheduled multi-thread runs of the library (hook-driven turn scheduler in the harness),
an oracle on what readers / writers observed, and conformance of the arrival trace with the Coq
thread-level transition system (model/Conc.v, extracted; `monitor conc`)."""
import os, re, random, itertools, hashlib
import vlib

YIELDS_ORACLE = ["begin:after_lock", "begin:after_meta", "begin:after_register", "resize:after_wlock", "commit:before_data",
                 "commit:before_header", "commit:after_publish"]
YIELDS_COARSE = ["begin:after_meta", "commit:before_header"]
# known schedules that must always be tried (minimised past failures)
CORPUS = {
    "C04": [("corpus: D10 (reader preempted between header read and registration)", ["r", "w", "w"], [0, 1, 1, 1, 2, 2, 0, 0, 0], YIELDS_COARSE),
            ("corpus: D10 fine-grained", ["r", "w", "w"], [0, 0] + [1] * 7 + [2] * 5 + [0] * 4, YIELDS_ORACLE)],
    "C04b": [],
    "C09": [("corpus: reader between lock and header read while a writer remaps", ["W", "r"], [1] + [0] * 5 + [1] * 3 + [0] * 8, None),
            ("corpus: writer queued behind an open writer", ["w", "w", "r"], [0, 0, 1, 1, 0, 0, 0, 0, 0, 0, 0, 0, 1, 1, 1], None)],
}
CORPUS["C04"].append(("corpus: two readers of one snapshot, one closes, two commits follow", ["r", "r", "w", "w"],
                      [1, 1, 0, 0, 0, 0, 2, 2, 2, 3, 3, 3, 1, 1], YIELDS_COARSE))
CORPUS["C04"].append(("corpus: two readers of different ages, the older stays", ["r", "w", "r", "w", "w"],
                      [0, 0, 1, 1, 1, 2, 2, 3, 3, 3, 4, 4, 4, 0, 0, 2, 2], YIELDS_COARSE))
CORPUS["C04"].append(("corpus: two readers two commits apart, the older stays while two more commits reuse pages", ["r", "w", "w", "r", "w", "w"],
                      [0, 0, 1, 1, 1, 2, 2, 2, 3, 3, 4, 4, 4, 5, 5, 5, 0, 0, 3, 3], YIELDS_COARSE))
CORPUS["C04"].append(("corpus: three readers, each two commits after the previous, closed oldest first", ["r", "w", "w", "r", "w", "w", "r", "w", "w"],
                      [0, 0, 1, 1, 1, 2, 2, 2, 3, 3, 4, 4, 4, 5, 5, 5, 6, 6, 7, 7, 7, 8, 8, 8, 0, 0, 3, 3, 6, 6], YIELDS_COARSE))
# yield points the model can follow step by step (no parking inside the open_ro_txs critical section)
YIELDS_MODEL = ["begin:after_lock", "begin:after_freelist", "begin:after_register", "resize:before_wlock", "resize:after_wlock",
                "resize:after_remap", "commit:before_data", "commit:before_header", "commit:before_sync", "commit:before_publish",
                "commit:after_publish"]


def script_text(threads, sched, yields, init=3):
    return "yield %s\n%sinit %d\nsched %s\n" % (" ".join(yields), "".join("thread %s\n" % t for t in threads), init,
                                                " ".join(str(x) for x in sched))


def schedules(nthreads, max_steps, preemptions, rng, limit):
    """sequences: run thread a for k1 grants, then b for k2 grants, (then c for k3) ... then round-robin"""
    out = []
    ids = list(range(nthreads))
    orders = list(itertools.permutations(ids, min(nthreads, preemptions + 1)))
    if preemptions + 1 > nthreads:
        # more segments than threads: a thread may be resumed (a, b, a, c ...)
        orders = [o for o in itertools.product(ids, repeat=preemptions + 1) if all(x != y for x, y in zip(o, o[1:]))]
    for order in orders:
        for ks in itertools.product(range(0, max_steps + 1), repeat=len(order)):
            if ks[0] == 0:
                continue
            sched = []
            for t, k in zip(order, ks):
                sched += [t] * k
            out.append(sched)
    if len(out) > limit:
        # keep the structured corners and sample the rest
        out = rng.sample(out, limit)
    return out


def parse_output(out):
    res = dict(results={}, events=[], steps=[], stuck=None, overlap=None, commits=None, final=None, check=None, inits=0)
    for ln in out.split("\n"):
        if ln.startswith("result "):
            _, t, rest = ln.split(" ", 2)
            res["results"][int(t)] = rest
        elif ln.startswith("event "):
            res["events"].append(ln)
        elif ln.startswith("step "):
            res["steps"].append(ln)
        elif ln.startswith("STUCK"):
            res["stuck"] = ln
        elif ln.startswith("overlap "):
            res["overlap"] = int(ln.split()[1])
        elif ln.startswith("commits "):
            res["commits"] = int(ln.split()[1])
        elif ln.startswith("final "):
            res["final"] = ln[6:]
        elif ln.startswith("check "):
            res["check"] = ln[6:]
        elif ln.startswith("init writer committed"):
            res["inits"] += 1
    return res


def oracle(threads, init, r, rc):
    """-> list of (property, message)"""
    bad = []
    if rc != 0 and not r["results"]:
        return [("C09", "harness died rc=%s" % rc)]
    if r["stuck"]:
        bad.append(("C09", "threads never finish (deadlock / lost wake-up): %s" % r["stuck"][:200]))
        return bad
    reg = {}
    for e in r["events"]:
        m = re.match(r"event t=(\d+) tx_begin (\d+),(\d+),", e)
        if m and m.group(2) == "0":
            reg[int(m.group(1))] = int(m.group(3))
    nw = sum(1 for t in threads if t in ("w", "W"))
    gens = []
    for t, kind in enumerate(threads):
        txt = r["results"].get(t)
        if txt is None:
            bad.append(("C09", "thread %d produced no result" % t))
            continue
        if kind == "r":
            m = re.match(r"reader completed_before_begin=(\d+) first=(\S+) mid=(\S+) last=(\S+)", txt)
            if not m:
                bad.append(("C04", "reader %d: %s" % (t, txt[:160])))
                continue
            before, a, b, c = int(m.group(1)), m.group(2), m.group(3), m.group(4)
            if not (a == b == c) or not a.startswith("gen="):
                bad.append(("C04", "reader %d saw its snapshot change or a mix of commits: first=%s mid=%s last=%s" % (t, a, b, c)))
                continue
            g = int(a[4:])
            if g < before:
                bad.append(("C04", "reader %d began after %d commits had completed but saw commit %d" % (t, before, g)))
            if t in reg and reg[t] != g:
                bad.append(("C04", "reader %d registered snapshot %d but observed the data of commit %d (not a state committed at its begin)" % (t, reg[t], g)))
        else:
            m = re.match(r"writer committed gen=(\d+)", txt)
            if not m:
                bad.append(("C09", "writer %d: %s" % (t, txt[:160])))
            else:
                gens.append(int(m.group(1)))
    if sorted(gens) != list(range(init + 1, init + 1 + len(gens))) or len(gens) != nw:
        bad.append(("C09", "lost update: writers committed generations %s, expected %s" % (sorted(gens), list(range(init + 1, init + 1 + nw)))))
    if r["overlap"]:
        bad.append(("C09", "two write transactions were open at the same time (overlap flag %d)" % r["overlap"]))
    if r["final"] is not None and r["final"] != "gen=%d" % (init + nw):
        bad.append(("C09", "final counter %s, expected gen=%d" % (r["final"], init + nw)))
    if r["check"] is not None and r["check"] != "ok":
        bad.append(("C05", "check after the threaded run: %s" % r["check"][:160]))
    return bad


def run_script(d, threads, sched, yields, init=3, num_pages=64, timeout_ms=100):
    sp = os.path.join(d, "script.txt")
    open(sp, "w").write(script_text(threads, sched, yields, init))
    # the database file lives on tmpfs: fsync is immediate there, so "did not arrive within the timeout"
    # means blocked on a lock, not waiting for the disk
    shm = "/dev/shm/verif-%d" % os.getpid()
    os.makedirs(shm, exist_ok=True)
    dbp = os.path.join(shm if os.path.isdir("/dev/shm") else d, os.path.basename(d) + ".db")
    if os.path.exists(dbp):
        os.remove(dbp)
    try:
        return _run_script(sp, dbp, num_pages, timeout_ms)
    finally:
        if os.path.exists(dbp):
            os.remove(dbp)


def _run_script(sp, dbp, num_pages, timeout_ms):
    rc, out = vlib.sh([vlib.harness_bin("debug"), "threads", dbp, sp, "--pagesize", "1024", "--num-pages", str(num_pages),
                       "--timeout-ms", str(timeout_ms)], timeout=120)
    return rc, out


def conformance(d, out, threads, yields, atomic):
    """replay the arrival trace in the extracted Coq transition system; returns list of mismatch strings"""
    tp = os.path.join(d, "trace.txt")
    open(tp, "w").write("atomic %d\nyield %s\n%s%s" % (1 if atomic else 0, " ".join(yields), "".join("thread %s\n" % t for t in threads), out))
    rc, o = vlib.sh([vlib.MONITOR, "conc", tp], timeout=60)
    lines = [l for l in o.split("\n") if l.strip()]
    if not lines or not lines[-1].startswith("done"):
        return ["monitor conc failed: %s" % o[-300:]], 0
    mism = [l for l in lines if l.startswith("MISMATCH")]
    m = re.search(r"steps=(\d+)", lines[-1])
    return mism, int(m.group(1)) if m else 0
