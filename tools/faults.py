"""C11: commits under injected I/O faults. Each I/O call a commit issues is made to fail once
(strace inject: error; LD_PRELOAD shim: short write then error; RLIMIT via strace inject on fallocate),
the history continues with further transactions and a reopen, and everything observed must match the
reference timeline in which the failed commit did not happen, or the one in which it did."""
import os, re, random, shutil, subprocess, hashlib
import vlib, gen, crash


def c11_history(rng, ntx_fault=4, grow=False):
    """returns (part1 lines, part2 lines). No orphan / bad ops, so the reference filter is the identity."""
    h = gen.H()
    keys = [gen.lk(i, rng.choice([20, 120])) for i in range(30)]
    t = h.begin(True)
    for a in ("A", "B"):
        ha = h.bucket("create", t, 0, gen.hx(a))
        for k in keys[:15]:
            h.emit("put %d %d %s %s" % (t, ha, k, gen.rval(rng, [0, 16, 300])))
    h.emit("commit %d" % t)
    h.emit("snap")
    n1 = len(h.lines)
    h.emit("reopen")
    for i in range(ntx_fault + 3):
        t = h.begin(True)
        if i in (1, 4):
            # a writable transaction that changes nothing (the usual get_or_create start-up pattern)
            h.bucket("goc", t, 0, gen.hx("A"))
            h.emit("commit %d" % t)
            h.emit("snap")
            h.emit("check")
            continue
        ha = h.bucket("getb", t, 0, gen.hx(rng.choice("AB")))
        for _ in range(rng.randrange(1, 8)):
            x = rng.random()
            if x < 0.6:
                h.emit("put %d %d %s %s" % (t, ha, rng.choice(keys), gen.rval(rng, [0, 16, 300, 1500] + ([9000] if grow else []))))
            elif x < 0.9:
                h.emit("del %d %d %s" % (t, ha, rng.choice(keys[:15])))
            else:
                s = h.bucket("goc", t, ha, gen.hx("s"))
                h.emit("put %d %d %s %s" % (t, s, gen.hx("k%d" % i), gen.hx("v")))
        h.emit("commit %d" % t)
        h.emit("snap")
        h.emit("check")
        r = h.begin(False)
        h.emit("dump %d" % r)
        h.emit("drop %d" % r)
    h.emit("reopen")
    h.emit("check")
    r = h.begin(False)
    h.emit("dump %d" % r)
    h.emit("drop %d" % r)
    return h.lines[:n1], h.lines[n1 + 1:]


def spec_expect(lines, d, name):
    hp = os.path.join(d, name + ".txt")
    open(hp, "w").write("\n".join(lines) + "\n")
    rc, out = vlib.sh([vlib.MONITOR, "spec", hp, hp + ".f", hp + ".e"], timeout=120)
    f = [l for l in open(hp + ".f").read().split("\n") if l.strip()]
    e = open(hp + ".e").read().split("\n")
    return f, e


def run_part(lines, dbp, d, opts, wrap=None, env=None, tag="p"):
    hp = os.path.join(d, tag + ".hist")
    open(hp, "w").write("\n".join(lines) + "\n")
    snapdir = os.path.join(d, tag + ".snap")
    shutil.rmtree(snapdir, ignore_errors=True)
    os.makedirs(snapdir)
    cmd = (wrap or []) + [vlib.harness_bin("debug"), "run", dbp, hp] + vlib.opts_args(opts) + ["--snapdir", snapdir]
    try:
        p = subprocess.run(cmd, stdout=subprocess.PIPE, stderr=subprocess.PIPE, timeout=120, text=True, errors="replace", env=env)
        out = p.stdout
        rc = p.returncode
    except subprocess.TimeoutExpired as e:
        out, rc = (e.stdout.decode(errors="replace") if e.stdout else ""), 124
    act = [l for l in out.split("\n") if not l.startswith("hook:")]
    if act and act[-1] == "":
        act.pop()
    return act, rc


def count_calls(st_path):
    n = dict(write=0, fsync=0, fallocate=0)
    started = False
    for ln in open(st_path, errors="replace"):
        m = re.match(r"\s*\d+\s+(\w+)\(", ln)
        if not m:
            continue
        if m.group(1) == "flock":
            started = True
        if started and m.group(1) in n:
            n[m.group(1)] += 1
    return n


def fault_check(rep, rd, tier, seed, shim=None, P=1024):
    rng = random.Random(seed)
    failed = 0
    runs = 0
    kinds = {}
    reported = set()
    nhist = 3 if tier == "quick" else 30
    for hi in range(nhist):
        grow = (hi % 3 == 2)
        opts = dict(pagesize=P, num_pages=4 if grow else 64)
        part1, part2 = c11_history(rng, grow=grow)
        d = rd.sub()
        base_db = os.path.join(d, "base.db")
        act1, rc1 = run_part(part1, base_db, d, opts, tag="p1")
        full = part1 + ["reopen"] + part2
        f_all, e_all = spec_expect(full, d, "full")
        assert f_all == full, "reference filtered the fault history"
        off = len(part1) + 1
        # recording run: how many calls does part 2 issue
        dbp = os.path.join(d, "t.db")
        shutil.copyfile(base_db, dbp)
        st = os.path.join(d, "st.txt")
        act0, rc0 = run_part(part2, dbp, d, opts, wrap=crash.STRACE + ["-P", dbp, "-o", st], tag="rec")
        exp2 = e_all[off:off + len(part2)]
        bad0 = [(i, part2[i], exp2[i], act0[i] if i < len(act0) else "<none>") for i in range(len(part2))
                if exp2[i] not in ("*",) and not exp2[i].startswith("snap= ") and (i >= len(act0) or act0[i] not in exp2[i].split(" || "))]
        if bad0:
            failed += 1
            rep.violation(vlib.describe_problem("c11 fault-free run", bad0[0]), dict(kind="history", property="C11", history=full, opts=opts, profile="debug"))
            continue
        n = count_calls(st)
        # fault plan
        plan = []
        for sc in ("write", "fsync", "fallocate"):
            idxs = list(range(1, n[sc] + 1))
            if tier == "quick" and len(idxs) > 14:
                idxs = idxs[:8] + rng.sample(idxs[8:], 6)
            for j in idxs:
                plan.append(("strace", sc, j, "EIO" if sc != "fallocate" else "ENOSPC"))
        if shim:
            widx = list(range(1, n["write"] + 1))
            for j in (widx if tier != "quick" else rng.sample(widx, min(8, len(widx)))):
                plan.append(("short", "write", j, rng.choice([1, 8, 100, 512, 1000])))
        if tier != "quick":
            for _ in range(10):     # pairs
                a, b2 = sorted(rng.sample(range(1, n["write"] + 1), 2)) if n["write"] >= 2 else (1, 1)
                plan.append(("strace2", "write", (a, b2), "EIO"))

        # every plan entry gets a directory of its own named after it: the same entry twice (pairs are drawn with replacement)
        # would run two processes on one database file
        plan = list(dict.fromkeys(plan))

        def one(pl):
            how, sc, j, arg = pl
            dd = os.path.join(d, "f_%s_%s_%s" % (how, sc, str(j).replace(" ", "")))
            os.makedirs(dd, exist_ok=True)
            db = os.path.join(dd, "t.db")
            shutil.copyfile(base_db, db)
            env = None
            if how == "strace":
                wrap = ["strace", "-f", "-o", "/dev/null", "-P", db, "-e", "trace=%s" % sc, "-e", "inject=%s:error=%s:when=%d" % (sc, arg, j)]
            elif how == "strace2":
                wrap = ["strace", "-f", "-o", "/dev/null", "-P", db, "-e", "trace=%s" % sc,
                        "-e", "inject=%s:error=%s:when=%d" % (sc, arg, j[0]), "-e", "inject=%s:error=%s:when=%d" % (sc, arg, j[1])]
            else:
                wrap = []
                env = dict(os.environ, LD_PRELOAD=shim, FAULT_PATH=db, FAULT_WRITE_N=str(j), FAULT_SHORT=str(arg))
            act, rc = run_part(part2, db, dd, opts, wrap=wrap, env=env, tag="f")
            return pl, dd, act, rc

        from concurrent.futures import ThreadPoolExecutor
        with ThreadPoolExecutor(vlib.NPROC) as ex:
            results = list(ex.map(one, plan))
        # expectations for every possible failing commit, computed lazily
        cache = {}

        def timelines(ci):
            if ci not in cache:
                t = part2[ci].split()[1]
                pre = part1 + ["reopen"] + part2[:ci] + ["drop %s" % t] + part2[ci + 1:]
                _, e_pre = spec_expect(pre, d, "pre%d" % ci)
                cache[ci] = (e_pre[off:off + len(part2)], exp2)
            return cache[ci]

        for pl, dd, act, rc in results:
            runs += 1
            how, sc, j, arg = pl
            kinds[how + ":" + sc] = kinds.get(how + ":" + sc, 0) + 1
            errs = [i for i, a in enumerate(act) if i < len(part2) and part2[i].startswith("commit") and a != "ok"]
            bad = None
            if len(act) < len(part2):
                bad = "process stopped after %d of %d commands (rc=%d): %s" % (len(act), len(part2), rc, act[-1][:120] if act else "")
            elif not errs:
                # the injected call did not make a commit fail (e.g. a write retried): then nothing may differ
                diffs = [i for i in range(len(part2)) if exp2[i] != "*" and not exp2[i].startswith("snap= ") and act[i] not in exp2[i].split(" || ")]
                if diffs:
                    bad = "no commit reported an error but results differ at `%s`: %s" % (part2[diffs[0]], act[diffs[0]][:100])
            else:
                multi = [i for i in errs if act[i] != "err:Io"]
                if multi:
                    bad = "commit under an injected fault returned `%s` instead of an I/O error" % act[multi[0]][:120]
                else:
                    # one or two failing commits: each must be pre-or-post, consistently, for all later commands
                    cands = [exp2]
                    for ci in errs:
                        cands2 = []
                        for base in cands:
                            e_pre, _ = timelines(ci)
                            cands2.append(base)
                            # "pre" timeline relative to base is only computed for single faults
                            cands2.append(e_pre)
                        cands = cands2
                    okany = False
                    firstdiff = None
                    for cand in cands:
                        diffs = [i for i in range(len(part2)) if i not in errs and cand[i] != "*" and not cand[i].startswith("snap= ")
                                 and act[i] not in cand[i].split(" || ")]
                        chk = [i for i in range(len(part2)) if act[i].startswith("check:") and act[i] != "check:ok"]
                        if not diffs and not chk:
                            okany = True
                            break
                        if firstdiff is None:
                            k = (diffs + chk)[0] if (diffs + chk) else 0
                            firstdiff = (k, part2[k], cand[k][:100], act[k][:140])
                    if not okany and len(errs) == 1:
                        bad = "after the failed commit the database matches neither timeline: `%s` -> `%s`" % (firstdiff[1], firstdiff[3])
                    elif not okany:
                        bad = None      # double faults: only crash-freedom and check:ok are judged
                        chk = [i for i in range(len(part2)) if act[i].startswith("check:") and act[i] != "check:ok"]
                        if chk:
                            bad = "after two failed commits check reports %s" % act[chk[0]][:120]
            # structural soundness of every snapshot taken after the fault
            if not bad:
                snaps = [a[5:] for a in act if a.startswith("snap:") and not a.startswith("snap:ERR")]
                if snaps:
                    rc2, out = vlib.sh([vlib.MONITOR, "inv", str(P)] + snaps, timeout=120)
                    for l in out.split("\n"):
                        if l.strip() and " inv:ok " not in l:
                            bad = "a file committed after the fault is not well-formed: %s" % l.split(" ", 2)[1][:160]
                            break
            rep.count("c11 %s %s %s" % (how, sc, j), "%d %s %s %s" % (hi, how, sc, j), True)
            shutil.rmtree(dd, ignore_errors=True)
            if bad:
                failed += 1
                key = (sc, bad[:40])
                if key in reported or len(reported) >= 3:
                    continue
                reported.add(key)
                rep.violation("fault %s on %s call #%s (%s): %s" % (how, sc, j, arg, bad),
                              dict(kind="io-fault", property="C11", part1=part1, part2=part2, opts=opts, fault=dict(how=how, syscall=sc, when=j, arg=arg),
                                   observed=act[:len(part2)][-40:],
                                   how="run part1 to create the database; run part2 in a fresh process with the given call on the database file failing "
                                       "(strace -P <db> -e inject=<syscall>:error=<arg>:when=<n>, or the LD_PRELOAD shim for short writes)"))
    rep.cov["evaluations"] = runs
    rep.cov["fault_kinds"] = kinds
    return failed
