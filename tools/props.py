"""Per-property checks. Each returns the process exit code (0 / 1)."""
import os, sys, json, time, random, hashlib, shutil
import vlib, gen
from vlib import Report, RunDir, run_many, first_problem, describe_problem, shrink


def env_seed():
    try:
        return int(os.environ.get("VERIF_SEED", "1"))
    except ValueError:
        return 1


# ----------------------------------------------------------------------------------------------
# generic: histories against the reference
# ----------------------------------------------------------------------------------------------
def same_failure(kind):
    def f(r):
        p = first_problem(r)
        if p is None:
            return False
        return classify(p) == kind
    return f


def classify(prob):
    """coarse failure class used by the shrinker and by known-findings matching"""
    i, c, e, a = prob
    if a.startswith("panic:other"):
        return "panic:" + a.split("@")[-1][:40]
    if a.startswith("<no output"):
        return "died"
    if a.startswith("check:"):
        return "check"
    return "diff:" + c.split()[0]


def history_oracle(rep, cases, opts_of, rundir, profiles=("debug",), on_result=None, max_report=3,
                   shrink_budget=45, timeout=120):
    """run cases under each profile; record violations (shrunk) into rep; returns (#cases run, #failed)"""
    failed = 0
    seen_kinds = set()
    for prof in profiles:
        results = run_many(cases, opts_of, rundir, profile=prof, on_result=on_result, timeout=timeout)
        for label, text, r in results:
            nontriv = r.get("n", 0) > 5
            rep.count(label, text, nontriv)
            p = first_problem(r)
            if p is None:
                continue
            failed += 1
            kind = classify(p)
            if kind in seen_kinds or len(seen_kinds) >= max_report:
                continue
            seen_kinds.add(kind)
            o = r.get("opts", {})
            small = shrink(text, o, rundir, prof, same_failure(kind), budget_s=shrink_budget)
            d = rundir.sub()
            r2 = vlib.run_history(small, o, d, profile=prof)
            shutil.rmtree(d, ignore_errors=True)
            p2 = first_problem(r2) or p
            rep.violation(describe_problem(label + " [" + prof + "]", p2),
                          dict(kind="history", property=rep.prop, label=label, profile=prof, opts=o,
                               failure=dict(index=p2[0], command=p2[1], expected=p2[2], actual=p2[3]),
                               history=small.split("\n"),
                               how="./check %s --replay <this file>" % rep.prop))
    return failed


def replay_history(prop, path):
    obj = json.load(open(path))
    b = vlib.build(release=(obj.get("profile") == "release"))
    rd = RunDir()
    try:
        r = vlib.run_history("\n".join(obj["history"]) + "\n", obj.get("opts", {}), rd.sub(), profile=obj.get("profile", "debug"))
        p = first_problem(r)
        if p:
            print(describe_problem("replay", p))
            print("VIOLATION property=%s replay=%s" % (prop, path))
            return 1
        print("replay: no difference")
        return 0
    finally:
        rd.cleanup()


def gate_or_search(rep, prop, b, gate, found_any):
    """proof obligations or build broke: if the oracles found a concrete failing input it has been
    reported already; otherwise report the broken theorem with no-failing-input-found."""
    if gate["ok"] and b.cargo_ok and b.extract_ok:
        return
    if found_any:
        return
    what = []
    if not b.cargo_ok:
        what.append("harness does not build against /repo: " + b.cargo_msg[-600:])
    if not b.gen_ok:
        what.append("translator: " + b.gen_msg)
    if not gate["ok"]:
        what.append("proof gate: " + gate["msg"])
    if not b.extract_ok:
        what.append("extraction failed")
    rep.violation("proof obligation / correspondence no longer checks: " + " | ".join(what)[:600],
                  dict(kind="broken-obligation", property=prop, theorem_file="coq/props/%s.v" % prop,
                       failed_file=b.coq_failed_file, detail=what), no_input=True)


def fill_proof_cov(rep, gate, trusted):
    rep.cov["obligations"] = gate["obligations"]
    rep.cov["discharged"] = gate["discharged"]
    rep.cov["checker_cmd"] = gate["checker_cmd"]
    rep.cov["trusted_base"] = trusted
    rep.cov["theorems"] = gate["theorems"]
    rep.cov["axioms_reported"] = gate["axioms"]


TRUSTED_COMMON = [
    "Coq 8.16.1 kernel incl. vm_compute (no native_compute)",
    "tools/gen_consts.py (translator: constants, repr(C) field lists, hash field order)",
    "extraction via ExtrOcamlBasic only (Extract Inductive bool/option/unit/list/prod/sumbool/sumor); no Extract Constant",
    "ocaml/monitor.ml driver, Rust harness (/verif/harness), python generators/differ",
    "hand-written model files coq/model/*.v and coq/spec/Spec.v are tied to the code only by the correspondence runs",
]


# ----------------------------------------------------------------------------------------------
# C01
# ----------------------------------------------------------------------------------------------
def cases_c01(tier, seed):
    cases = []
    n = 1 if tier == "quick" else 12
    for i in range(30 * n):
        cases.append(("g1 seed=%d" % (seed * 1000 + i), gen.g1(seed * 1000 + i)))
    for i in range(12 * n):
        cases.append(("g1long seed=%d" % (seed * 1000 + i), gen.g1(seed * 1000 + i, universe=24, long_keys=True, nops=18)))
    for i in range(40 * n):
        cases.append(("g2 seed=%d" % (seed * 1000 + i), gen.g2(seed * 1000 + i)))
    for i in range(20 * n):
        cases.append(("g4 seed=%d" % (seed * 1000 + i), gen.g4(seed * 1000 + i)))
    for i in range(10 * n):
        cases.append(("g5 seed=%d" % (seed * 1000 + i), gen.g5(seed * 1000 + i)))
    cases.append(("gmis", gen.gmis(seed)))
    # shape enumeration (G3)
    if tier == "quick":
        rng = random.Random(seed)
        allr = gen.g3_ranges(24, 200, (3, 6, 11, 17))
        cases += rng.sample(allr, 120)
        cases += gen.g3_subsets(12, 200, (2, 5, 9), masks=rng.sample(range(1 << 12), 60), touches=(None, 5))
    else:
        cases += gen.g3_ranges(24, 200, (3, 6, 11, 17))
        cases += gen.g3_ranges(30, 300, (4, 15, 22))
        cases += gen.g3_ranges(40, 40, (4, 15, 22), stride=2)
        cases += gen.g3_subsets(12, 200, (2, 5, 9), inss=(None, "before", "middle", "after"))
    return cases


def opts_c01(label):
    # page size by family: shape families at 1024 (small fan-out), the rest alternate
    h = int(hashlib.sha1(label.encode()).hexdigest(), 16)
    if label.startswith("g3") or label.startswith("g1long"):
        return dict(pagesize=1024, num_pages=32)
    return dict(pagesize=[1024, 4096][h % 2], num_pages=[4, 32][(h // 2) % 2])


def check_c01(tier, seed):
    rep = Report("C01", tier, seed, "proof")
    b = vlib.build(release=True)
    gate = vlib.proof_gate("C01", b)
    rd = RunDir()
    try:
        cases = cases_c01(tier, seed)
        profiles = ("debug", "release") if tier == "thorough" else ("debug",)
        failed = 0
        if b.cargo_ok and b.extract_ok:
            failed = history_oracle(rep, cases, opts_c01, rd, profiles=profiles)
            if tier == "quick":
                failed += history_oracle(rep, cases[::7], opts_c01, rd, profiles=("release",))
        rep.cov["rule"] = ("families G1 (uniform ops, depth<=3), G1-long-keys, G2 (fill + contiguous range deletes), "
                           "G3 (shape enumeration, 200-byte keys @1024), G4 (nested bucket deletes), G5 (overflow), Gmis; "
                           "non-trivial = history with > 5 executed calls; distinct = by hash of the history text")
        rep.sample(dict(label=cases[0][0], history_head=cases[0][1].split("\n")[:12]))
        rep.cov["traces_validated_against_impl"] = rep.cov["evaluations"]
        rep.cov["failed_histories"] = failed
        fill_proof_cov(rep, gate, TRUSTED_COMMON)
        gate_or_search(rep, "C01", b, gate, failed > 0)
        return rep.finish()
    finally:
        rd.cleanup()


CHECKS = {"C01": check_c01}


def main(argv):
    if not argv:
        print("usage: check <Cxx> [--tier quick|thorough] [--replay file]")
        return 2
    prop = argv[0]
    tier = os.environ.get("VERIF_TIER", "quick")
    replay = None
    i = 1
    while i < len(argv):
        if argv[i] == "--tier":
            tier = argv[i + 1]
            i += 1
        elif argv[i] == "--replay":
            replay = argv[i + 1]
            i += 1
        i += 1
    if replay:
        obj = json.load(open(replay))
        if obj.get("kind") == "history":
            return replay_history(prop, replay)
        print("replay kind %s: see the 'how' field of the file" % obj.get("kind"))
        return 2
    if prop not in CHECKS:
        print("no check for %s" % prop)
        return 2
    return CHECKS[prop](tier, env_seed())
