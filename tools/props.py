"""Per-property checks. Each returns the process exit code (0 / 1)."""
import re
import os, sys, json, time, random, hashlib, shutil, subprocess
import vlib, gen
from vlib import Report, RunDir, run_many, first_problem, describe_problem, shrink


def env_seed():
    try:
        return int(os.environ.get("VERIF_SEED", "1"))
    except ValueError:
        return 1


# ----------------------------------------------------------------------------------------------
# generic: histories against the reference
# ----------------------------------------------------------------------------------------------
def same_failure(kind):
    def f(r):
        if r.get("snaps") and "opts" in r:
            snap_oracle("", "", r)
        p = first_problem(r)
        if p is None:
            return False
        return classify(p) == kind
    return f


def classify(prob):
    """coarse failure class used by the shrinker and by known-findings matching"""
    i, c, e, a = prob
    if a.startswith("panic:other"):
        return "panic:" + a.split("@")[-1][:40]
    if a.startswith("<no output"):
        return "died"
    if a.startswith("check:"):
        return "check"
    return "diff:" + c.split()[0]


ENGINE = dict(compared=0, exact=0, reads=0, reads_skipped=0)


def snap_oracle(label, text, r):
    vlib.check_snapshots(r, r["opts"].get("pagesize", 1024))
    if r.get("snaps") and not r.get("error"):
        c, e = vlib.engine_corr(r, r["opts"].get("pagesize", 1024))
        ENGINE["compared"] += c
        ENGINE["exact"] += e
        ENGINE["reads"] += r.pop("engine_reads", 0)
        ENGINE["reads_skipped"] += r.pop("engine_reads_skipped", 0)


def history_oracle(rep, cases, opts_of, rundir, profiles=("debug",), on_result=snap_oracle, max_report=3,
                   shrink_budget=45, timeout=120):
    """run cases under each profile; record violations (shrunk) into rep; returns (#cases run, #failed)"""
    failed = 0
    seen_kinds = set()
    for prof in profiles:
        results = run_many(cases, opts_of, rundir, profile=prof, on_result=on_result, timeout=timeout)
        # a run that hit the wall-clock limit is repeated ALONE with ten times the limit before it is called a hang: sixteen
        # long histories in parallel on a loaded machine can exceed any fixed per-history limit
        for k, (label, text, r) in enumerate(results):
            p = first_problem(r)
            if p is not None and any(m in str(p[3]) for m in ("timed out", "TIMEOUT", "monitor failed")):
                results[k] = run_many([(label, text)], opts_of, rundir, profile=prof, on_result=on_result, timeout=timeout * 10)[0]
        for label, text, r in results:
            nontriv = r.get("n", 0) > 5
            rep.count(label, text, nontriv)
            p = first_problem(r)
            if p is None:
                continue
            failed += 1
            kind = classify(p)
            if kind in seen_kinds or len(seen_kinds) >= max_report:
                continue
            seen_kinds.add(kind)
            o = r.get("opts", {})
            small = shrink(text, o, rundir, prof, same_failure(kind), budget_s=shrink_budget)
            d = rundir.sub()
            r2 = vlib.run_history(small, o, d, profile=prof)
            if on_result:
                on_result(label, small, r2)
            shutil.rmtree(d, ignore_errors=True)
            p2 = first_problem(r2) or p
            # a history on which ONLY the engine model and the library's pages differ (every call still equals the reference,
            # every committed file is well-formed with the reference's contents) is a broken correspondence, not a failing
            # input: the property was not seen to fail on it
            allp = (r2.get("diffs", []) + r2.get("checks_bad", [])) if first_problem(r2) else (r.get("diffs", []) + r.get("checks_bad", []))
            corr_only = bool(allp) and all(q[2] in ("identical pages", "identical answer") for q in allp) and not r2.get("error")
            rep.violation(describe_problem(label + " [" + prof + "]", p2) +
                          (" -- correspondence model/Engine.v <-> library no longer checks; no call result and no committed file deviates from the reference on this history" if corr_only else ""),
                          dict(kind="history", property=rep.prop, label=label, profile=prof, opts=o,
                               failure=dict(index=p2[0], command=p2[1], expected=p2[2], actual=p2[3]),
                               history=small.split("\n"),
                               broken_correspondence="coq/model/Engine.v vs the library's committed pages (tools/vlib.py engine_corr)" if corr_only else None,
                               how="./check %s --replay <this file>" % rep.prop), no_input=corr_only)
    return failed


def replay_history(prop, path):
    obj = json.load(open(path))
    b = vlib.build(release=(obj.get("profile") == "release"))
    rd = RunDir()
    try:
        r = vlib.run_history("\n".join(obj["history"]) + "\n", obj.get("opts", {}), rd.sub(), profile=obj.get("profile", "debug"))
        snap_oracle("", "", r)
        p = first_problem(r)
        if p:
            print(describe_problem("replay", p))
            print("VIOLATION property=%s replay=%s" % (prop, path))
            return 1
        print("replay: no difference")
        return 0
    finally:
        rd.cleanup()


def gate_or_search(rep, prop, b, gate, found_any):
    """proof obligations or build broke: if the oracles found a concrete failing input it has been
    reported already; otherwise report the broken theorem with no-failing-input-found."""
    if gate["ok"] and b.cargo_ok and b.extract_ok:
        return
    if found_any:
        return
    what = []
    if not b.cargo_ok:
        what.append("harness does not build against /repo: " + b.cargo_msg[-600:])
    if not b.gen_ok:
        what.append("translator: " + b.gen_msg)
    if not gate["ok"]:
        what.append("proof gate: " + gate["msg"])
    if not b.extract_ok:
        what.append("extraction failed")
    rep.violation("proof obligation / correspondence no longer checks: " + " | ".join(what)[:600],
                  dict(kind="broken-obligation", property=prop, theorem_file="coq/props/%s.v" % prop,
                       failed_file=b.coq_failed_file, detail=what), no_input=True)


def fill_proof_cov(rep, gate, trusted):
    rep.cov["obligations"] = gate["obligations"]
    rep.cov["discharged"] = gate["discharged"]
    rep.cov["checker_cmd"] = gate["checker_cmd"]
    rep.cov["trusted_base"] = trusted
    rep.cov["theorems"] = gate["theorems"]
    rep.cov["axioms_reported"] = gate["axioms"]
    if "coqchk" in gate:
        rep.cov["coqchk"] = gate["coqchk"]


TRUSTED_COMMON = [
    "Coq 8.16.1 kernel incl. vm_compute (no native_compute)",
    "tools/gen_consts.py (translator: constants, repr(C) field lists, hash field order)",
    "extraction via ExtrOcamlBasic only (Extract Inductive bool/option/unit/list/prod/sumbool/sumor); no Extract Constant",
    "ocaml/monitor.ml driver, Rust harness (/verif/harness), python generators/differ",
    "hand-written model files coq/model/*.v and coq/spec/Spec.v are tied to the code only by the correspondence runs",
]


# ----------------------------------------------------------------------------------------------
# C01
# ----------------------------------------------------------------------------------------------
def cases_c01(tier, seed):
    cases = []
    n = 1 if tier == "quick" else 12
    for i in range(30 * n):
        cases.append(("g1 seed=%d" % (seed * 1000 + i), gen.g1(seed * 1000 + i)))
    for i in range(12 * n):
        cases.append(("g1long seed=%d" % (seed * 1000 + i), gen.g1(seed * 1000 + i, universe=24, long_keys=True, nops=18)))
    for i in range(40 * n):
        cases.append(("g2 seed=%d" % (seed * 1000 + i), gen.g2(seed * 1000 + i)))
    for i in range(20 * n):
        cases.append(("g4 seed=%d" % (seed * 1000 + i), gen.g4(seed * 1000 + i)))
    for i in range(10 * n):
        cases.append(("g5 seed=%d" % (seed * 1000 + i), gen.g5(seed * 1000 + i)))
    for i in range(12 * n):
        cases.append(("g1e seed=%d" % (seed * 1000 + 700 + i), gen.g1(seed * 1000 + 700 + i, engine=True)))
        cases.append(("g4e seed=%d" % (seed * 1000 + 700 + i), gen.g4(seed * 1000 + 700 + i, engine=True)))
    cases.append(("gmis", gen.gmis(seed)))
    # the model-side search's random chains, on the library too (ties the engine model to the library on that distribution)
    for i in range(16 * n):
        P = 1024 if i % 4 else 4096
        sd = seed * 5000 + i
        rc, out = vlib.sh([vlib.MONITOR, "msearch", "random", str(P), str(sd), "1", "12", "8", "emit"], timeout=300)
        if rc == 0 and out.startswith("begin"):
            cases.append(("mrandom P=%d seed=%d" % (P, sd), out))
    # shape enumeration (G3)
    cases += gen.g3_edge(16, 200)
    deep = gen.g3_deep(20, 300)
    mixed = gen.g3_mixed(20, 300, 3, True) + gen.g3_mixed(20, 300, 3, False)
    if tier == "quick":
        rng = random.Random(seed)
        cases += rng.sample(deep, 50)
        cases += rng.sample(mixed, 90)
        allr = gen.g3_ranges(24, 200, (3, 6, 11, 17))
        cases += rng.sample(allr, 120)
        cases += gen.g3_subsets(12, 200, (2, 5, 9), masks=rng.sample(range(1 << 12), 60), touches=(None, 5))
    else:
        cases += deep + gen.g3_deep(26, 300, every=2) + gen.g3_edge(24, 200) + gen.g3_edge(12, 300)
        cases += mixed + gen.g3_mixed(26, 300, 2, True) + gen.g3_mixed(30, 200, 3, True)
        cases += gen.g3_ranges(24, 200, (3, 6, 11, 17))
        cases += gen.g3_ranges(30, 300, (4, 15, 22))
        cases += gen.g3_ranges(40, 40, (4, 15, 22), stride=2)
        cases += gen.g3_subsets(12, 200, (2, 5, 9), inss=(None, "before", "middle", "after"))
    return cases


def opts_c01(label):
    # page size by family: shape families at 1024 (small fan-out), the rest alternate
    h = int(hashlib.sha1(label.encode()).hexdigest(), 16)
    if label.startswith("g3") or label.startswith("g1long"):
        return dict(pagesize=1024, num_pages=32)
    if label.startswith("mrandom"):
        return dict(pagesize=int(label.split()[1].split("=")[1]), num_pages=32)
    return dict(pagesize=[1024, 4096][h % 2], num_pages=[4, 32][(h // 2) % 2])


def history_property(prop, tier, seed, cases, opts_of, rule, on_result=snap_oracle, profiles=None,
                     release_sample=7, extra=None, level="proof", trusted=None, build_kw=None, timeout=120):
    """generic check: proof gate + histories against the reference (+ extra oracles)"""
    rep = Report(prop, tier, seed, level)
    b = vlib.build(release=True, **(build_kw or {}))
    gate = vlib.proof_gate(prop, b)
    rd = RunDir()
    try:
        profiles = profiles or (("debug", "release") if tier == "thorough" else ("debug",))
        failed = 0
        stats = {}
        if b.cargo_ok and b.extract_ok:
            corpus = corpus_cases(prop)
            failed += history_oracle(rep, corpus, lambda l: corpus_opts(l), rd, profiles=("debug", "release"), on_result=on_result)
            failed += history_oracle(rep, cases, opts_of, rd, profiles=profiles, on_result=on_result, timeout=timeout)
            if tier == "quick" and release_sample and "release" not in profiles:
                failed += history_oracle(rep, cases[::release_sample], opts_of, rd, profiles=("release",), on_result=on_result)
            if extra:
                failed += extra(rep, rd, b) or 0
        rep.cov["rule"] = rule
        if cases:
            rep.sample(dict(label=cases[0][0], history_head=cases[0][1].split("\n")[:14]))
        rep.cov["traces_validated_against_impl"] = rep.cov["evaluations"]
        rep.cov["failed_cases"] = failed
        rep.cov.update(COUNTERS.pop(prop, {}))
        rep.cov["engine_model_commits_compared_page_exact"] = ENGINE["compared"]
        rep.cov["engine_model_commits_identical"] = ENGINE["exact"]
        rep.cov["engine_model_reads_inside_write_tx_compared"] = ENGINE["reads"]
        rep.cov["engine_model_reads_inside_write_tx_skipped"] = ENGINE["reads_skipped"]
        fill_proof_cov(rep, gate, trusted or TRUSTED_COMMON)
        if level == "translation_validation":
            rep.cov["programs"] = rep.cov["evaluations"]
            rep.cov["disagreements_checked"] = failed
        gate_or_search(rep, prop, b, gate, failed > 0)
        return rep.finish()
    finally:
        rd.cleanup()


COUNTERS = {}
CORPUS_OPTS = {}


def corpus_cases(prop):
    """minimised past failures run first; every history check runs the whole corpus (cheap)"""
    out = []
    d = os.path.join(vlib.ROOT, "corpus")
    for f in sorted(os.listdir(d)) if os.path.isdir(d) else []:
        if not f.endswith(".txt"):
            continue
        txt = open(os.path.join(d, f)).read()
        opts = dict(pagesize=1024, num_pages=32)
        for ln in txt.split("\n")[:3]:
            if ln.startswith("# opts "):
                opts = json.loads(ln[7:])
        label = "corpus/" + f
        CORPUS_OPTS[label] = opts
        out.append((label, txt))
    return out


def corpus_opts(label):
    return CORPUS_OPTS.get(label, dict(pagesize=1024, num_pages=32))



# ----------------------------------------------------------------------------------------------
# model-side search: the extracted engine model alone (validated page-for-page against the library on every commit
# the histories above make) against the reference, over exhaustive shape families, ~1000 cases/s/core. A hit is a
# candidate only: it is rebuilt as a history (gen.g3_case) and run on the library.
# ----------------------------------------------------------------------------------------------
def msearch_jobs(tier):
    jobs = []
    def subsets(P, n, kl, subs, shards):
        step = (1 << n) // shards
        for i in range(shards):
            jobs.append(["subsets", str(P), str(n), str(kl), subs, str(i * step), str((i + 1) * step if i < shards - 1 else (1 << n))])
    def ranges(P, n, kl, subs):
        jobs.append(["ranges", str(P), str(n), str(kl), subs])
    ranges(1024, 24, 200, "3,6,11,17")
    ranges(1024, 30, 300, "4,15,22")
    ranges(1024, 40, 40, "4,15,22")
    ranges(4096, 24, 900, "3,6,11,17")
    subsets(1024, 12, 200, "2,5,9", 12)
    def rnd(P, seed0, nseeds, ntx, nops, shards):
        for i in range(shards):
            jobs.append(["random", str(P), str(seed0 + i * nseeds), str(nseeds), str(ntx), str(nops)])
    rnd(1024, 1, 150, 12, 8, 8)
    rnd(4096, 100001, 100, 12, 10, 4)
    if tier == "thorough":
        rnd(1024, 200001, 2500, 16, 10, 16)
        rnd(4096, 300001, 1500, 16, 12, 8)
        rnd(1024, 400001, 400, 60, 6, 8)
        ranges(1024, 60, 120, "1,7,20,33,50")
        ranges(1024, 48, 300, "0,5,24,47")
        ranges(4096, 40, 1300, "2,9,30")
        ranges(1024, 36, 200, "-")
        subsets(1024, 16, 200, "2,5,9,14", 64)
        subsets(1024, 14, 300, "0,6,13", 32)
        subsets(4096, 12, 1300, "2,5,9", 8)
        subsets(1024, 12, 200, "-", 8)
    return jobs


def msearch_history(descr):
    """rebuild the history of a HIT line printed by `monitor msearch`"""
    kv = dict(x.split("=", 1) for x in descr.split()[1:])
    if descr.startswith("random"):
        rc, out = vlib.sh([vlib.MONITOR, "msearch", "random", kv["P"], kv["seed"], "1", kv["ntx"], kv["nops"], "emit"], timeout=600)
        return out
    n, kl = int(kv["n"]), int(kv["kl"])
    subs = set() if kv["subs"] == "-" else set(int(x) for x in kv["subs"].split(","))
    touch = None if kv["touch"] == "None" else int(kv["touch"])
    if descr.startswith("ranges"):
        lo, hi = kv["del"].strip("[)").split(",")
        return gen.g3_case(n, kl, subs, range(int(lo), int(hi)), touch, None, touch_all=(kv["all"] == "1"))
    m = int(kv["mask"], 16)
    ins = None if kv["ins"] == "none" else kv["ins"]
    return gen.g3_case(n, kl, subs, [i for i in range(n) if (m >> i) & 1], touch, ins)


def msearch_jobs_reads(tier):
    """the families used by C07: every 4th transaction of these has its in-transaction scans compared with the reference
    (after half and after all of its operations, at every bucket of the tree)"""
    jobs = [["ranges", "1024", "24", "200", "3,6,11,17"], ["ranges", "1024", "30", "300", "4,15,22"]]
    for i in range(8):
        jobs.append(["random", "1024", str(500001 + i * 100), "100", "12", "8"])
    for i in range(4):
        jobs.append(["random", "4096", str(600001 + i * 60), "60", "12", "10"])
    if tier == "thorough":
        for i in range(16):
            jobs.append(["random", "1024", str(700001 + i * 1500), "1500", "16", "10"])
        jobs += [["ranges", "1024", "60", "120", "1,7,20,33,50"], ["ranges", "4096", "40", "1300", "2,9,30"],
                 ["subsets", "1024", "12", "200", "2,5,9", "0", "4096"]]
    return jobs


def model_search(prop, jobs_of=None):
    def run(rep, rd, b):
        import concurrent.futures
        jobs = (jobs_of or msearch_jobs)(rep.tier)
        total, hits, failed, scans = 0, [], 0, 0
        def one(j):
            return j, vlib.sh([vlib.MONITOR, "msearch"] + j, timeout=3000)
        with concurrent.futures.ThreadPoolExecutor(16) as ex:
            for j, (rc, out) in ex.map(one, jobs):
                m = re.search(r"done cases=(\d+) hits=(\d+)", out)
                if rc != 0 or not m:
                    rep.violation("model-side search did not run: msearch %s: %s" % (" ".join(j), out[-300:]),
                                  dict(kind="broken-obligation", property=prop, detail="monitor msearch " + " ".join(j), output=out[-1000:]), no_input=True)
                    failed += 1
                    continue
                total += int(m.group(1))
                ms = re.search(r"scans_inside_tx=(\d+)", out)
                scans += int(ms.group(1)) if ms else 0
                for ln in out.split("\n"):
                    if ln.startswith("HIT "):
                        hits.append((int(j[1]), ln[4:]))
        rep.cov["model_search_cases"] = total
        rep.cov["model_search_hits"] = len(hits)
        rep.cov["model_search_scans_inside_write_tx_vs_reference"] = scans
        rep.cov["model_search_families"] = sorted(set(" ".join(j[:5]) if j[0] != "random" else "random P=%s chains of %s tx x <=%s ops" % (j[1], j[4], j[5]) for j in jobs))
        for P, hit in hits[:3]:
            descr, why = hit.split(" :: ", 1)
            text = msearch_history(descr)
            o = dict(pagesize=P, num_pages=32)
            n0 = len(rep.violations)
            failed += history_oracle(rep, [("msearch " + descr, text)], lambda l: o, rd, profiles=("debug",), on_result=snap_oracle)
            if len(rep.violations) == n0:
                # the library is fine on it: the engine model is wrong there (and was not compared on that shape before)
                rep.violation("engine model disagrees with the reference on '%s' (%s) but the library does not fail on it" % (descr, why),
                              dict(kind="broken-obligation", property=prop, detail="model-side search hit not reproduced on the library",
                                   case=descr, model_says=why, history=text.split("\n"), opts=o), no_input=True)
                failed += 1
        return failed
    return run

def check_c01(tier, seed):
    return history_property(
        "C01", tier, seed, cases_c01(tier, seed), opts_c01, extra=model_search("C01"), rule=
        "families G1 (uniform ops, depth<=3), G1-long-keys, G2 (fill + contiguous range deletes), "
        "G3 (shape enumeration, 200-byte keys @1024), G4 (nested bucket deletes), G5 (overflow), Gmis + corpus; "
        "every call compared with the extracted reference; after every commit the file is decoded by the Gallina "
        "decoder (inv_check + contents = reference); non-trivial = history with > 5 executed calls; distinct by hash")


# ----------------------------------------------------------------------------------------------
# C08
# ----------------------------------------------------------------------------------------------
def c08_oracle(label, text, r):
    snap_oracle(label, text, r)
    n = vlib.cursor_corr(r, r["opts"].get("pagesize", 1024))
    c = COUNTERS.setdefault("C08", dict(cursor_calls_model_vs_library=0))
    c["cursor_calls_model_vs_library"] += n


def cases_c08(tier, seed):
    n = 1 if tier == "quick" else 10
    cases = []
    for i in range(4 * n):
        cases.append(("g8 empty seed=%d" % (seed * 100 + i), gen.g8(seed * 100 + i, "empty")))
    for i in range(16 * n):
        cases.append(("g8 single seed=%d" % (seed * 100 + i), gen.g8(seed * 100 + i, "single")))
    for i in range(40 * n):
        cases.append(("g8 multi seed=%d" % (seed * 100 + i), gen.g8(seed * 100 + i, "multi")))
    return cases


def check_c08(tier, seed):
    return history_property(
        "C08", tier, seed, cases_c08(tier, seed), dict(pagesize=1024, num_pages=64),
        "family G8: empty / single-leaf / multi-level (120-300 byte keys @1024) buckets; seeks and gets at every "
        "present key, every gap, below min, above max; sampled bound pairs x {Included,Excluded,Unbounded}^2; "
        "buckets/kv_pairs filters; 2-3 extra next() after the end; committed (read-only tx: library vs the "
        "extracted Coq cursor machine on the decoded file, exact; and vs the reference) and mid-transaction "
        "(vs the reference); non-trivial = > 5 calls",
        on_result=c08_oracle)


# ----------------------------------------------------------------------------------------------
# C05 / C03 / C06 / C07: same machinery, different families and oracles
# ----------------------------------------------------------------------------------------------
def pl_oracle(prop):
    def f(label, text, r):
        snap_oracle(label, text, r)
        n = vlib.pl_corr(r, r["opts"].get("pagesize", 1024))
        c = COUNTERS.setdefault(prop, dict(lifecycle_events_model_vs_library=0, committed_files_decoded=0))
        c["lifecycle_events_model_vs_library"] += n
        c["committed_files_decoded"] += len(r.get("snaps") or [])
    return f


def cases_c05(tier, seed):
    n = 1 if tier == "quick" else 10
    cases = []
    for i in range(40 * n):
        cases.append(("g4 seed=%d" % (seed * 1000 + 500 + i), gen.g4(seed * 1000 + 500 + i)))
    for i in range(15 * n):
        cases.append(("g1 seed=%d" % (seed * 1000 + 500 + i), gen.g1(seed * 1000 + 500 + i)))
    for i in range(20 * n):
        cases.append(("g2 seed=%d" % (seed * 1000 + 500 + i), gen.g2(seed * 1000 + 500 + i)))
    for i in range(10 * n):
        cases.append(("g5 seed=%d" % (seed * 1000 + 500 + i), gen.g5(seed * 1000 + 500 + i)))
    for i in range(20 * n):
        cases.append(("g4e seed=%d" % (seed * 1000 + 800 + i), gen.g4(seed * 1000 + 800 + i, engine=True)))
        cases.append(("g1e seed=%d" % (seed * 1000 + 800 + i), gen.g1(seed * 1000 + 800 + i, engine=True)))
    rng = random.Random(seed + 5)
    allr = gen.g3_ranges(24, 200, (3, 6, 11, 17))
    cases += rng.sample(allr, 60 if tier == "quick" else len(allr))
    cases += gen.g3_edge(16, 200)
    deep = gen.g3_deep(20, 300)
    cases += rng.sample(deep, 50) if tier == "quick" else deep
    mixed = gen.g3_mixed(20, 300, 3, True) + gen.g3_mixed(20, 300, 3, False)
    cases += rng.sample(mixed, 90) if tier == "quick" else mixed + gen.g3_mixed(26, 300, 2, True)
    return cases


def c05_growth(rep, rd, b):
    """file growth: commits that need more than one 8 MiB extension step at once; afterwards the header's high-water
    mark must lie inside the file, the library's own check must pass (strict mode) and every value must read back"""
    import re
    failed = 0
    d = rd.sub()
    for (ps, np_, vs, count, per) in ((4096, 4, 50000, 440, 220), (1024, 32, 30000, 600, 300)):
        dbp = os.path.join(d, "grow.db")
        if os.path.exists(dbp):
            os.remove(dbp)
        rc, out = vlib.sh([vlib.harness_bin("release"), "grow", dbp, str(ps), str(np_), str(vs), str(count), str(per), "--strict"], timeout=900)
        rep.count("c05 growth %d" % ps, "grow %d %d %d %d" % (ps, vs, count, per), True)
        m = re.search(r"grow:ok n=(\d+) contents_ok=(\w+)", out)
        bad = None
        if not m or int(m.group(1)) != count or m.group(2) != "true":
            bad = out.strip()[-300:]
        elif os.path.exists(dbp):
            rc2, sel = vlib.sh([vlib.MONITOR, "select", str(ps), dbp])
            mm = re.search(r"np=(\d+)", sel)
            flen = os.path.getsize(dbp)
            if not mm:
                bad = "model cannot select a header: " + sel.strip()[-200:]
            elif int(mm.group(1)) * ps > flen:
                bad = "the committed header says %s pages (%d bytes) but the file has only %d bytes" % (mm.group(1), int(mm.group(1)) * ps, flen)
        if os.path.exists(dbp):
            os.remove(dbp)
        if bad:
            failed += 1
            rep.violation("growth by more than one extension step in one commit (pagesize %d, %d x %d bytes, %d per transaction): %s" % (ps, count, vs, per, bad),
                          dict(kind="growth", property="C05", pagesize=ps, num_pages=np_, value_size=vs, count=count, per_tx=per,
                               how="harness grow <db> <pagesize> <num_pages> <value_size> <count> <per_tx> --strict"))
    return failed


def check_c05(tier, seed):
    return history_property(
        "C05", tier, seed, cases_c05(tier, seed), opts_c01,
        "families G4 (bucket deletes at every nesting level in one transaction), G1, G2, G3 (merge / root-collapse "
        "shapes), G5 (overflow runs) + corpus; after EVERY commit the file is decoded by the extracted Gallina decoder: "
        "inv_check (partition of [2,np) into reachable / free-list run / free ids, separators, key order, element "
        "bounds), contents = reference, DB::check agrees; the hook event stream (begin/alloc/free/write/publish) must "
        "be a run of the page-lifecycle machine and of the free-list model; the write-path engine model must produce the same "
        "pages; growth runs whose single commits need more than one 8 MiB extension step; non-trivial = > 5 calls",
        on_result=pl_oracle("C05"), extra=c05_growth)


def cases_c03(tier, seed):
    n = 1 if tier == "quick" else 20
    cases = []
    for i in range(60 * n):
        cases.append(("g6 seed=%d" % (seed * 1000 + i), gen.g6(seed * 1000 + i, steps=40, max_readers=4,
                                                                nkeys=[20, 40, 80][i % 3], keylen=[30, 60, 200][(i // 3) % 3])))
    return cases


def check_c03(tier, seed):
    return history_property(
        "C03", tier, seed, cases_c03(tier, seed), dict(pagesize=1024, num_pages=6000),
        "family G6: up to 4 simultaneous read-only transactions of different ages interleaved (single thread) with "
        "committing and rolled-back writers that delete / overwrite (pages freed and reused within 2-3 commits); every "
        "open reader is re-dumped in full after every step and compared with the reference snapshot taken at its begin; "
        "hook events must be accepted by the page-lifecycle machine (release bound = oldest reader, written pages "
        "disjoint from every registered snapshot); file pre-sized so no commit remaps; non-trivial = > 5 calls",
        on_result=pl_oracle("C03"))


def c06_oracle(label, text, r):
    pl_oracle("C06")(label, text, r)
    last = None
    for i, c in enumerate(r["cmds"]):
        if i >= len(r["act"]):
            break
        if c.startswith("filehash"):
            a = r["act"][i]
            if c.startswith("filehash=") and last is not None and a != last:
                r["checks_bad"].append((i, c + "   [file bytes changed without a commit]", last, a))
            last = a
        elif c.startswith("commit") and r["act"][i] == "ok":
            last = None
    COUNTERS.setdefault("C06", {}).setdefault("file_hash_comparisons", 0)
    COUNTERS["C06"]["file_hash_comparisons"] += sum(1 for c in r["cmds"] if c.startswith("filehash="))


def cases_c06(tier, seed):
    n = 1 if tier == "quick" else 15
    cases = [("gc6 seed=%d" % (seed * 1000 + i), gen.g_c6(seed * 1000 + i)) for i in range(40 * n)]
    cases.append(("gmis", gen.gmis(seed)))
    for i in range(10 * n):
        cases.append(("g1 rollback-heavy seed=%d" % (seed * 1000 + i), gen.g1(seed * 1000 + i, rollback=0.5, reopen=0.3)))
    return cases


def c06_strace(rep, rd, b):
    """no write / fallocate / ftruncate reaches the database file outside commits: a second process opens an
    existing database and runs only rolled-back writers, read-only transactions, failing calls and reopen"""
    failed = 0
    n = 2 if rep.tier == "quick" else 12
    for i in range(n):
        d = rd.sub()
        seed = rep.seed * 100 + i
        h = gen.H()
        t = h.begin(True)
        a = h.bucket("create", t, 0, gen.hx("A"))
        for k in range(60):
            h.emit("put %d %d %s %s" % (t, a, gen.lk(k, 100), "r200:%d" % k))
        s = h.bucket("create", t, a, gen.hx("M"))
        h.emit("put %d %d %s %s" % (t, s, gen.hx("k"), gen.hx("v")))
        h.commit(t, verify=False)
        r1 = vlib.run_history(h.text(), dict(pagesize=1024, num_pages=64), d)
        rng = random.Random(seed)
        h2 = gen.H()
        for _ in range(6):
            x = rng.random()
            if x < 0.4:
                t = h2.begin(True)
                a = h2.bucket("getb", t, 0, gen.hx("A"))
                for k in range(rng.randrange(1, 40)):
                    h2.emit("put %d %d %s %s" % (t, a, gen.lk(rng.randrange(100), 100), "r900:%d" % k))
                h2.emit("delb %d %d %s" % (t, a, gen.hx("M")))
                h2.emit("delb %d 0 %s" % (t, gen.hx("A")))
                h2.emit("drop %d" % t)
            elif x < 0.8:
                t = h2.begin(False)
                a = h2.bucket("getb", t, 0, gen.hx("A"))
                h2.emit("put %d %d %s %s" % (t, a, gen.hx("k"), gen.hx("v")))
                h2.emit("delb %d 0 %s" % (t, gen.hx("A")))
                h2.emit("scan %d %d" % (t, a))
                h2.emit("commit %d" % t)
            else:
                h2.emit("reopen")
        hp = os.path.join(d, "h2.txt")
        open(hp, "w").write(h2.text())
        dbp = os.path.join(d, "t.db")
        before = open(dbp, "rb").read()
        cmd = "strace -f -e trace=write,pwrite64,pwritev,writev,fallocate,ftruncate,truncate -P %s -o %s/st.txt %s run %s %s --pagesize 1024 --num-pages 64" % (
            dbp, d, vlib.harness_bin("debug"), dbp, hp)
        rc, out = vlib.sh(cmd, timeout=120)
        st = open(os.path.join(d, "st.txt")).read() if os.path.exists(os.path.join(d, "st.txt")) else "strace failed"
        calls = [l for l in st.split("\n") if "(" in l and "+++" not in l and "---" not in l]
        after = open(dbp, "rb").read()
        rep.count("strace %d" % i, h2.text(), True)
        if calls or before != after or "strace failed" in st:
            failed += 1
            rep.violation("file touched without a commit: %d modifying syscalls on the database file, bytes %s" % (len(calls), "changed" if before != after else "unchanged"),
                          dict(kind="strace-no-write", property="C06", history=h2.text().split("\n"), syscalls=calls[:10],
                               how="build a 60-key database, then run this history in a fresh process under strace -P <db>"))
    COUNTERS.setdefault("C06", {})["strace_runs_no_write_outside_commit"] = n
    return failed


def check_c06(tier, seed):
    return history_property(
        "C06", tier, seed, cases_c06(tier, seed), opts_c01,
        "family GC6: large write transactions (puts, deletes, nested bucket deletes freeing many pages) that are "
        "dropped; erroring calls; every mutator on read-only transactions; reopen; FNV hash of the whole file before and "
        "after each of them must be identical; histories continue and must equal the reference run in which the "
        "abandoned transaction never happened; Gmis; strace: a process doing only those things issues no write / "
        "fallocate / ftruncate on the database file; non-trivial = > 5 calls",
        on_result=c06_oracle, extra=c06_strace)


def cases_c07(tier, seed):
    n = 1 if tier == "quick" else 15
    cases = [("g7 seed=%d" % (seed * 1000 + i), gen.g7(seed * 1000 + i)) for i in range(60 * n)]
    rng = random.Random(seed + 7)
    sub = gen.g3_subsets(12, 200, (2, 5, 9), masks=rng.sample(range(1 << 12), 40 * n), touches=(None, 2), inss=(None, "middle"))
    cases += sub
    return cases


def check_c07(tier, seed):
    return history_property(
        "C07", tier, seed, cases_c07(tier, seed), dict(pagesize=1024, num_pages=64),
        "family G7: committed multi-level trees (8..300-byte keys @1024), then write transactions in which after EVERY "
        "single put / delete / bucket create / bucket delete the full read API (scan, get, get_kv, seek, range, buckets, "
        "kv_pairs, next_int, recursive dump) is compared with the reference AND (get / scan / seek / range) with the engine "
        "model's overlay (model/EngineScan.v) through the engine correspondence; G3 deletion subsets with an in-transaction "
        "scan; cursors re-used across seeks; model-side search: in-transaction scans of every bucket vs the reference over "
        "shape families; non-trivial = > 5 calls",
        on_result=snap_oracle, level="proof", extra=model_search("C07", msearch_jobs_reads))


# ----------------------------------------------------------------------------------------------
# C12: damage to one header page
# ----------------------------------------------------------------------------------------------
def fnv64(b):
    h = 0xcbf29ce484222325
    for x in b:
        h = ((h ^ x) * 0x100000001b3) & 0xFFFFFFFFFFFFFFFF
    return "%016x" % h


def c12_history(rng, ncommits):
    h = gen.H()
    dumps_at = []
    for i in range(ncommits):
        t = h.begin(True)
        b = h.bucket("goc", t, 0, gen.hx("b%d" % (i % 2)))
        for _ in range(rng.randrange(1, 12)):
            h.emit("put %d %d %s %s" % (t, b, gen.lk(rng.randrange(30), rng.choice([8, 100])), gen.rval(rng, [0, 16, 300, 1500])))
        if i % 3 == 2:
            h.emit("delb %d 0 %s" % (t, gen.hx("b%d" % ((i + 1) % 2))))
        h.commit(t)
    return h.text()


def check_c12(tier, seed):
    rep = Report("C12", tier, seed, "proof")
    b = vlib.build(release=False)
    gate = vlib.proof_gate("C12", b)
    rd = RunDir()
    rng = random.Random(seed)
    P = 1024
    failed = 0
    images = 0
    try:
        if b.cargo_ok and b.extract_ok:
            counts = [0, 1, 2, 3, 6] if tier == "quick" else list(range(0, 41, 1))
            vals_quick = lambda o: [(o + 1) & 0xff, o ^ 0x80, 0x00, 0xff]
            jobs = []
            for n in counts:
                d = rd.sub()
                text = c12_history(rng, n)
                r = vlib.run_history(text, dict(pagesize=P, num_pages=32), d)
                snap_oracle("c12", text, r)
                if first_problem(r):
                    failed += 1
                    rep.violation(describe_problem("c12 base history n=%d" % n, first_problem(r)),
                                  dict(kind="history", property="C12", opts=dict(pagesize=P, num_pages=32), profile="debug", history=text.split("\n")))
                    continue
                dbp = os.path.join(d, "t.db")
                img = open(dbp, "rb").read()
                dumps = [a for c, a in zip(r["cmds"], r["act"]) if c.startswith("dump")]
                h_new = fnv64((dumps[-1] if dumps else "dump:").encode())
                h_prev = fnv64((dumps[-2] if len(dumps) >= 2 else "dump:").encode())
                rc, out = vlib.sh([vlib.MONITOR, "select", str(P), dbp])
                newest = 1 if "slot=1" in out else 0
                muts = []
                meta = []
                stride = 1 if (tier == "thorough" or n == 2) else 5
                for slot in (0, 1):
                    for off in list(range(0, 128)) + list(range(128, P, stride)):
                        o = img[slot * P + off]
                        for v in vals_quick(o):
                            if v != o:
                                muts.append("%d %02x" % (slot * P + off, v))
                                meta.append((slot, off, "byte"))
                    muts.append("%d %s" % (slot * P, "00" * P))
                    meta.append((slot, 0, "zero-page"))
                    for _ in range(100 if tier == "quick" else 400):
                        off = rng.randrange(0, 120)
                        ln = rng.randrange(2, 40)
                        muts.append("%d %s" % (slot * P + off, bytes(rng.randrange(256) for _ in range(ln)).hex()))
                        meta.append((slot, off, "multi"))
                mf = os.path.join(d, "muts.txt")
                open(mf, "w").write("\n".join(muts) + "\n")
                jobs.append((n, d, dbp, mf, muts, meta, h_new, h_prev, newest))

            def run_job(j):
                n, d, dbp, mf, muts, meta, h_new, h_prev, newest = j
                rc1, lib = vlib.sh([vlib.harness_bin("debug"), "damage", dbp, mf, os.path.join(d, "scratch.db"), "--pagesize", str(P)], timeout=900)
                rc2, mod = vlib.sh([vlib.MONITOR, "damage", str(P), dbp, mf], timeout=900)
                return j, lib.split("\n"), mod.split("\n")

            from concurrent.futures import ThreadPoolExecutor
            with ThreadPoolExecutor(vlib.NPROC) as ex:
                results = list(ex.map(run_job, jobs))
            reported = set()
            for (n, d, dbp, mf, muts, meta, h_new, h_prev, newest), lib, mod in results:
                for i, mline in enumerate(muts):
                    images += 1
                    l = lib[i] if i < len(lib) else "<library process died>"
                    m = mod[i] if i < len(mod) else "<model died>"
                    slot, off, kind = meta[i]
                    bad = None
                    w = l.split()
                    if len(w) < 4 or w[1] != "ok" or w[3] != "check:ok":
                        bad = "open of the damaged image does not succeed cleanly: %s" % l[:160]
                    elif w[2] not in (h_new, h_prev):
                        bad = "contents after damage are neither the newest nor the previous commit"
                    elif slot != newest and w[2] != h_new:
                        bad = "older header damaged but the newest commit is not shown"
                    elif l.split()[:3] != m.split()[:3]:
                        bad = "library and model disagree: library `%s` model `%s`" % (l[:100], m[:100])
                    if bad:
                        failed += 1
                        key = (kind, bad[:40], off if off in (8,) else -1)
                        if key in reported or len(reported) >= 3:
                            continue
                        reported.add(key)
                        rep.violation("after %d commits, slot %d offset %d (%s): %s" % (n, slot, off, kind, bad),
                                      dict(kind="header-damage", property="C12", commits=n, slot=slot, offset=off, mutation=mline,
                                           library=l, model=m, base_history=open(os.path.join(d, "h.txt")).read().split("\n"),
                                           how="run base_history (pagesize 1024, num_pages 32), overwrite the bytes at absolute offset given by 'mutation' (offset hexbytes), open the file"))
                rep.count("c12 n=%d" % n, mf, True)
                rep.distinct.update(hashlib.sha1(("%d %s" % (n, mm)).encode()).hexdigest() for mm in muts[:: max(1, len(muts) // 50)])
        rep.cov["evaluations"] = images
        rep.cov["rule"] = ("after each of %s commits: every offset of both header pages x {+1, xor 0x80, 0x00, 0xff} (offsets >= 128 "
                           "strided in quick), zeroed page, random multi-byte overwrites inside the header record; each image opened by "
                           "the library (open + full dump + check) and by the model (Gallina open/decoder); non-trivial = every image "
                           "(a damaged header); distinct by (commit count, mutation)")
        rep.sample(dict(commits=2, mutation="1032 83", meaning="absolute offset 1032 (slot 1, page-type byte) overwritten with 0x83"))
        rep.cov["traces_validated_against_impl"] = images
        fill_proof_cov(rep, gate, TRUSTED_COMMON)
        gate_or_search(rep, "C12", b, gate, failed > 0)
        return rep.finish()
    finally:
        rd.cleanup()


# ----------------------------------------------------------------------------------------------
# C02: crash images
# ----------------------------------------------------------------------------------------------
def generated_commit_order():
    import re
    src = open(os.path.join(vlib.COQ, "gen", "Consts.v")).read()
    m = re.search(r"Definition commit_order : list string := \[(.*?)\]\.", src)
    return [x.strip().strip('"') for x in m.group(1).split(";")] if m else []


def check_c02(tier, seed):
    import crash, re
    rep = Report("C02", tier, seed, "proof")
    b = vlib.build(release=False)
    gate = vlib.proof_gate("C02", b)
    rd = RunDir()
    failed = 0
    try:
        if b.cargo_ok and b.extract_ok:
            failed = crash.crash_check(rep, rd, tier, seed)
            # correspondence of the write order: strace shapes vs the generated commit_order
            order = generated_commit_order()
            rx = "".join({"grow": "G?", "data": "(d\\*)?", "header": "H", "sync": "S", "publish": ""}.get(x, "") for x in order)
            badshapes = [sh for sh in rep.cov.get("io_shapes", {}) if not re.fullmatch(rx, sh)]
            rep.cov["generated_commit_order"] = order
            if badshapes and not failed:
                failed += 1
                rep.violation("traced I/O shape %s does not match the order the translator read from write_data (%s)" % (badshapes, order),
                              dict(kind="strace-shape", property="C02", shapes=rep.cov.get("io_shapes"), order=order), no_input=True)
        rep.cov["rule"] = ("histories of small / large / mixed transactions (bucket deletes, overflow values, page reuse, file growth from a "
                           "4-page file); strace records the real lseek/write/fsync/fallocate sequence of every commit; images = real "
                           "pre-image + real written bytes: every prefix (kill); for the writes issued since the last completed sync every "
                           "subset when few, sampled otherwise, some torn at 512-byte sectors, the header page torn at 8-byte words (power "
                           "loss); each image opened by the library (dump + check) and by the Gallina model; must equal the state before or "
                           "after the commit; the complete image must be the state after; distinct by (history, commit, crash label)")
        rep.sample(dict(crash="power seg 0 subset [3] = only the header page write of the commit survives", expect="state before or after the commit"))
        rep.cov["traces_validated_against_impl"] = rep.cov["evaluations"]
        fill_proof_cov(rep, gate, TRUSTED_COMMON + ["strace 6.1 as the observer of the commit's system calls",
                                                    "premise NoTornCollision (a torn header record is not a valid header): evaluated on every torn image"])
        gate_or_search(rep, "C02", b, gate, failed > 0)
        return rep.finish()
    finally:
        rd.cleanup()


# ----------------------------------------------------------------------------------------------
# C11: commit under I/O faults
# ----------------------------------------------------------------------------------------------
def build_shim():
    so = os.path.join(vlib.CACHE, "shim.so")
    src = os.path.join(vlib.ROOT, "tools", "shim.c")
    if not os.path.exists(so) or os.path.getmtime(so) < os.path.getmtime(src):
        rc, out = vlib.sh("clang -shared -fPIC -O1 -o %s %s -ldl" % (so, src), timeout=120)
        if rc != 0:
            return None
    return so


def check_c11(tier, seed):
    import faults
    rep = Report("C11", tier, seed, "proof")
    b = vlib.build(release=False)
    gate = vlib.proof_gate("C11", b)
    rd = RunDir()
    failed = 0
    try:
        if b.cargo_ok and b.extract_ok:
            failed = faults.fault_check(rep, rd, tier, seed, shim=build_shim())
        rep.cov["rule"] = ("for every write / fsync / fallocate call the commits of a history issue on the database file (counted with strace): "
                           "that call fails once (strace inject EIO / ENOSPC; LD_PRELOAD shim for a short write followed by an error); single "
                           "faults exhaustively (sampled beyond 14 per kind in quick), pairs sampled in thorough; the history then runs 3+ more "
                           "transactions, check, a reopen and full dumps; commit must return an I/O error (no panic) and everything observed "
                           "afterwards must equal the reference timeline without that commit or the one with it; every later committed file "
                           "passes inv_check; non-trivial = every run (one injected fault); distinct by (history, kind, call index)")
        rep.sample(dict(fault="strace -P db -e inject=fsync:error=EIO:when=2", expect="commit -> err:Io; later dumps = pre or post timeline; check:ok; inv_check ok"))
        rep.cov["traces_validated_against_impl"] = rep.cov["evaluations"]
        fill_proof_cov(rep, gate, TRUSTED_COMMON + ["strace 6.1 fault injection, tools/shim.c (LD_PRELOAD write interposer)"])
        gate_or_search(rep, "C11", b, gate, failed > 0)
        return rep.finish()
    finally:
        rd.cleanup()


# ----------------------------------------------------------------------------------------------
# C04 / C09: scheduled multi-thread runs
# ----------------------------------------------------------------------------------------------
def generated_flag(name):
    import re
    src = open(os.path.join(vlib.COQ, "gen", "Consts.v")).read()
    m = re.search(r"Definition %s : bool := (true|false)\." % name, src)
    return (m.group(1) == "true") if m else None


def thread_check(prop, tier, seed, scenarios, rule, sample):
    import threads as T
    from concurrent.futures import ThreadPoolExecutor
    rep = Report(prop, tier, seed, "proof")
    b = vlib.build(release=False)
    gate = vlib.proof_gate(prop, b)
    rd = RunDir()
    rng = random.Random(seed)
    failed = 0
    conf_steps = 0
    try:
        if b.cargo_ok and b.extract_ok:
            atomic = generated_flag("begin_atomic")
            jobs = []
            for (name, ths, nsteps, pre, limit, np_, mode) in scenarios:
                scheds = T.schedules(len(ths), nsteps, pre, rng, limit)
                for k, sc in enumerate(scheds):
                    # mode: "coarse" = few yield points incl. the one between header read and registration (oracle only);
                    #       "fine" = the yield set the Coq transition system follows step by step (oracle + conformance)
                    if mode == "coarse":
                        jobs.append((name, ths, sc, T.YIELDS_COARSE, False, np_))
                    else:
                        jobs.append((name, ths, sc, T.YIELDS_MODEL, True, np_))
            for (name, ths, sc, yl) in T.CORPUS.get(prop, []):
                jobs.insert(0, (name, ths, sc, yl or T.YIELDS_MODEL, yl is None, 40 if "W" in ths else 64))

            def one(j):
                name, ths, sc, yl, conf, np_ = j
                d = rd.sub()
                # "blocked" is judged by a timeout: a problem must persist with a 6x longer timeout before it counts
                for tmo in (100, 600):
                    rc, out = T.run_script(d, ths, sc, yl, init=3, num_pages=np_, timeout_ms=tmo)
                    r = T.parse_output(out)
                    bad = T.oracle(ths, 3, r, rc)
                    mism, ns = ([], 0)
                    if conf and not r["stuck"]:
                        mism, ns = T.conformance(d, out, ths, yl, bool(atomic))
                    if not bad and not mism:
                        break
                shutil.rmtree(d, ignore_errors=True)
                return j, out, bad, mism, ns

            with ThreadPoolExecutor(vlib.NPROC) as ex:
                results = list(ex.map(one, jobs))
            reported = set()
            for (name, ths, sc, yl, conf, np_), out, bad, mism, ns in results:
                rep.count(name, "%s %s %s" % (ths, sc, conf), True)
                conf_steps += ns
                mine = [m for (pp, m) in bad if pp == prop or (prop == "C09" and pp == "C05")]
                other = [m for (pp, m) in bad if pp != prop]
                problems = list(mine)
                if mism and not bad:
                    problems.append("conformance: " + mism[0][:300])
                if not problems and other and prop == "C04":
                    continue
                if problems:
                    failed += 1
                    key = problems[0][:50]
                    if key in reported or len(reported) >= 3:
                        continue
                    reported.add(key)
                    is_conf = problems[0].startswith("conformance")
                    rep.violation("%s threads=%s schedule=%s: %s" % (name, ths, sc, problems[0]),
                                  dict(kind="schedule", property=prop, threads=ths, schedule=sc, yields=yl, init=3, num_pages=np_,
                                       problems=problems, trace=out.split("\n")[:80],
                                       how="harness `threads <db> <script>` with script = yield/thread/init/sched lines; a grant lets one "
                                           "thread run from its current yield point to the next"),
                                  no_input=is_conf)
        rep.cov["rule"] = rule
        rep.sample(sample)
        rep.cov["traces_validated_against_impl"] = rep.cov["evaluations"]
        rep.cov["conformance_steps_model_vs_library"] = conf_steps
        rep.cov["generated_begin_atomic"] = generated_flag("begin_atomic")
        fill_proof_cov(rep, gate, TRUSTED_COMMON + ["hook-driven turn scheduler in the harness (harness/src/sched.rs); std::sync lock semantics; "
                                                    "RwLock fairness left nondeterministic in the model"])
        gate_or_search(rep, prop, b, gate, failed > 0)
        return rep.finish()
    finally:
        rd.cleanup()


def check_c04(tier, seed):
    q = tier == "quick"
    scen = [("1 reader vs 2 writers (coarse, exhaustive)", ["r", "w", "w"], 4, 2, 100000, 64, "coarse"),
            ("2 readers vs 2 writers (coarse)", ["r", "r", "w", "w"], 4, 2, 150 if q else 100000, 64, "coarse"),
            ("1 reader vs 3 writers (coarse)", ["r", "w", "w", "w"], 4, 2, 150 if q else 100000, 64, "coarse"),
            ("2 readers vs 2 writers (coarse, 4 preemptions)", ["r", "r", "w", "w"], 4, 4, 150 if q else 6000, 64, "coarse"),
            ("1 reader vs 2 writers (fine)", ["r", "w", "w"], 9, 2, 100 if q else 3000, 64, "fine"),
            ("reader vs growing writer (fine)", ["r", "W", "w"], 10, 2, 40 if q else 1500, 40, "fine")]
    return thread_check("C04", tier, seed, scen,
                        "scheduled runs of the real library: schedules that run one thread for k1 grants, preempt it for a second thread for k2 "
                        "grants, preempt that for a third for k3 (<= 2 preemptions), then round-robin; coarse yield set {after header read, before "
                        "header write}: ALL such schedules with k <= 4 for 1 reader vs 2 page-reusing writers, sampled for 2 readers / 3 writers; "
                        "fine yield set (11 points): sampled, replayed step by step in the extracted Coq transition system (arrival points, tx ids, "
                        "lock probes, registered readers); readers read all keys at begin, mid-way and at the end: one committed generation, equal "
                        "to the snapshot id they registered, at least as new as every commit completed before their begin; corpus: the D10 "
                        "schedule; non-trivial = every run; distinct by (threads, schedule, yield set)",
                        dict(threads=["r", "w", "w"], schedule=[0, 1, 1, 1, 2, 2, 0, 0], yields="coarse",
                             meaning="reader parks after reading the header; writer A commits; writer B writes its data; reader continues"))


def check_c09(tier, seed):
    q = tier == "quick"
    scen = [("3 writers (coarse, exhaustive)", ["w", "w", "w"], 3, 2, 100000, 64, "coarse"),
            ("growing writer + reader (fine, all 1-preemption schedules + resumption)", ["W", "r"], 12, 2, 120 if q else 100000, 40, "fine"),
            ("3 writers (fine)", ["w", "w", "w"], 10, 2, 80 if q else 2500, 64, "fine"),
            ("2 writers + reader (fine)", ["w", "w", "r"], 10, 2, 80 if q else 2500, 64, "fine"),
            ("growing writer + writer + 2 readers (fine)", ["W", "w", "r", "r"], 11, 2, 80 if q else 2500, 40, "fine")]
    return thread_check("C09", tier, seed, scen,
                        "scheduled runs of the real library (<= 2 preemptions, then round-robin; exhaustive for 3 writers at the coarse yield "
                        "set, sampled otherwise): 2-3 writer threads doing read-increment-write of one generation counter over 16 keys, 1-2 "
                        "readers, including a commit that must extend and remap the file while readers hold the map; oracle: all threads finish "
                        "(no STUCK), overlap flag 0, committed generations are exactly init+1..init+n (no lost update), final counter, DB::check; "
                        "fine runs are replayed in the Coq transition system: a granted thread that does not arrive although the model says it is "
                        "enabled (or arrives although the model says it blocks) is a conformance failure; non-trivial = every run",
                        dict(threads=["W", "w", "r", "r"], schedule=[2, 2, 2, 0, 0, 0, 0, 3, 3],
                             meaning="a reader holds the map while a writer has to remap: the writer must wait and then proceed"))


# ----------------------------------------------------------------------------------------------
# C16: open options change performance, not behaviour
# ----------------------------------------------------------------------------------------------
PAGE_SIZES = [1024, 1032, 2048, 3000, 4096, 5000, 16384, 65536, 1 << 20]
NUM_PAGES = [4, 32, 1000]


def config_grid():
    out = []
    for ps in PAGE_SIZES:
        for np_ in NUM_PAGES:
            if ps * np_ > (80 << 20):
                continue                      # initial file would exceed 80 MB: not exercised (disk budget)
            for strict in (False, True):
                for pop in (False, True):
                    out.append(dict(pagesize=ps, num_pages=np_, strict=strict, populate=pop))
    return out


def c16_extra(rep, rd, b):
    """growth runs crossing several extension steps; every builder value near the minimum and odd large ones"""
    failed = 0
    d = rd.sub()
    # growth: minimum-size file at 64 KiB pages, 30 MB of data => at least three 8 MiB extensions
    runs = [(65536, 4, 60000, 500 if rep.tier == "quick" else 1500, 20, True), (1024, 4, 3000, 6000 if rep.tier == "quick" else 12000, 200, False),
            # one commit that needs more than two extension steps at once
            (4096, 32, 50000, 500, 500, True), (4096, 4, 50000, 440, 220, False),
            # initial files just below a multiple of the 8 MiB extension step (the first extension must still cover the commit)
            (4096, 2040, 50000, 240, 40, True), (65536, 127, 60000, 200, 20, False), (1024, 8191, 3000, 4000, 500, False)]
    for (ps, np_, vs, count, per, strict) in runs:
        dbp = os.path.join(d, "grow.db")
        if os.path.exists(dbp):
            os.remove(dbp)
        rc, out = vlib.sh([vlib.harness_bin("release"), "grow", dbp, str(ps), str(np_), str(vs), str(count), str(per)] + (["--strict"] if strict else []), timeout=900)
        rep.count("grow %d" % ps, "grow %d %d %d" % (ps, vs, count), True)
        import re
        m = re.search(r"grow:ok n=(\d+) contents_ok=(\w+) lens=\[([0-9, ]*)\]", out)
        lens = [int(x) for x in m.group(3).split(",")] if m and m.group(3).strip() else []
        steps = [b_ - a for a, b_ in zip(lens, lens[1:])]
        ok = bool(m) and int(m.group(1)) == count and m.group(2) == "true" and len(lens) >= (2 if np_ > 100 else 4 if ps == 65536 else (1 if per >= 220 else 3)) \
            and all(s_ > 0 and s_ % (8 << 20) == 0 for s_ in steps)
        if os.path.exists(dbp):
            # final file decodes and passes inv_check
            vlib.sh(["truncate", "-s", str(min(os.path.getsize(dbp), 64 << 20)), dbp])
            os.remove(dbp)
        if not ok:
            failed += 1
            rep.violation("growth run pagesize=%d values=%d x %d: %s" % (ps, vs, count, out.strip()[-300:]),
                          dict(kind="growth", property="C16", pagesize=ps, num_pages=np_, value_size=vs, count=count, per_tx=per, strict=strict,
                               output=out[-600:], how="harness grow <db> <pagesize> <num_pages> <value_size> <count> <per_tx>"))
        COUNTERS.setdefault("C16", {}).setdefault("growth_file_lengths", []).append(lens)
    # builder values
    vals = list(range(1024, 1101)) + [1500, 4097, 4100, 5001, 65537, 100003] if rep.tier == "quick" else \
        list(range(1024, 1300)) + [1500, 4097, 4100, 5001, 65537, 100003, 1 << 20 | 4, (1 << 20) + 1]

    def one(ps):
        dbp = os.path.join(d, "b%d.db" % ps)
        outs = []
        for prof in ("debug", "release"):
            if os.path.exists(dbp):
                os.remove(dbp)
            rc, out = vlib.sh([vlib.harness_bin(prof), "builder", str(ps), "8", dbp], timeout=120)
            outs.append((prof, rc, out.strip()[-200:]))
        if os.path.exists(dbp):
            os.remove(dbp)
        return ps, outs

    from concurrent.futures import ThreadPoolExecutor
    with ThreadPoolExecutor(vlib.NPROC) as ex:
        res = list(ex.map(one, vals))
    reported = 0
    accepted = refused = 0
    for ps, outs in res:
        rep.count("builder %d" % ps, "builder %d" % ps, True)
        for prof, rc, out in outs:
            good = rc == 0 and (out.startswith("builder:ok:133") or out.startswith("builder:refused:"))
            accepted += out.startswith("builder:ok")
            refused += out.startswith("builder:refused")
            if not good:
                failed += 1
                if reported < 2:
                    reported += 1
                    rep.violation("pagesize(%d) [%s]: neither works nor is refused cleanly: rc=%d %s" % (ps, prof, rc, out[-160:]),
                                  dict(kind="builder", property="C16", pagesize=ps, profile=prof, rc=rc, output=out,
                                       how="harness builder <pagesize> 8 <db>: OpenOptions::new().pagesize(ps).num_pages(8).open + 200 puts, 67 deletes, check, count"))
    COUNTERS["C16"]["builder_values"] = dict(tried=len(vals), accepted_runs=accepted, refused_runs=refused)
    return failed


def cases_c16(tier, seed):
    grid = config_grid()
    rng = random.Random(seed)
    if tier == "quick":
        extremes = [g for g in grid if (g["pagesize"], g["num_pages"]) in ((1024, 4), (1 << 20, 32), (65536, 1000), (1032, 32), (5000, 1000))]
        cfgs = [x for i, x in enumerate(extremes) if i % 2 == 0][:8] + rng.sample(grid, 8)
        nh = 6
    else:
        cfgs = grid
        nh = 6
    base = []
    for i in range(nh):
        k = seed * 100 + i
        base.append(("h%d" % i, [gen.g1(k, ntx=8), gen.g2(k, nkeys=40, rounds=4), gen.g4(k, ntx=4), gen.g5(k, ntx=5), gen.g1(k, universe=24, long_keys=True, nops=15, ntx=6),
                                 gen.g_c6(k)][i % 6]))
    # fill / mass-delete cycles with a close + reopen in between: at small page sizes the stored free list spans several
    # pages when the file is reopened, and with strict mode on the next commit is self-checked against it
    base.append(("h6", gen.g10(seed * 100 + 6, "bigfree", ntx=6, pin=None, reopen_every=2)))
    cases = []
    for ci, cfg in enumerate(cfgs):
        for (hn, text) in base:
            label = "%s cfg%d ps=%d np=%d strict=%d pop=%d" % (hn, ci, cfg["pagesize"], cfg["num_pages"], cfg["strict"], cfg["populate"])
            C16_CFG[label] = cfg
            cases.append((label, text))
    return cases


C16_CFG = {}


def check_c16(tier, seed):
    return history_property(
        "C16", tier, seed, cases_c16(tier, seed), lambda l: C16_CFG[l],
        "the same 6 histories (G1, G2, G4, G5, G1-long-keys, GC6) replayed under configurations from the product page size "
        "{1024,1032,2048,3000,4096,5000,16384,65536,1 MiB} x initial pages {4,32,1000} x strict {off,on} x populate {off,on} (initial file "
        "<= 80 MB; quick: 16 configurations incl. the extremes, thorough: all); every call and every committed file's decoded contents "
        "must equal the one reference run (hence pairwise equal); strict mode never rejects a commit; growth runs from a 4-page file "
        "through >= 3 extension steps of 8 MiB; every builder page size 1024..1100 (+ odd large values) must work or be refused by a "
        "catchable panic in both build profiles; non-trivial = > 5 calls; programs = histories x configurations",
        on_result=snap_oracle, extra=c16_extra, level="translation_validation", release_sample=5)


# ----------------------------------------------------------------------------------------------
# C13: one process at a time
# ----------------------------------------------------------------------------------------------
def check_c13(tier, seed):
    import procs, re
    from concurrent.futures import ThreadPoolExecutor
    rep = Report("C13", tier, seed, "proof")
    b = vlib.build(release=False)
    gate = vlib.proof_gate("C13", b)
    rd = RunDir()
    rng = random.Random(seed)
    failed = 0
    try:
        if b.cargo_ok and b.extract_ok:
            lock_first = generated_flag("lock_before_init")
            rx = [re.compile(x) for x in procs.expected_words(bool(lock_first))]
            pls = procs.plans(tier, rng)

            def one(pl):
                existing, plan = pl
                d = rd.sub()
                r = procs.scenario(d, plan, existing)
                shutil.rmtree(d, ignore_errors=True)
                return pl, r

            with ThreadPoolExecutor(6) as ex:
                results = list(ex.map(one, pls))
            reported = set()
            wordset = {}
            for (existing, plan), (recs, words, problems) in results:
                rep.count("c13", "%s %s" % (existing, plan), True)
                probs = list(problems)
                for marker, w in words:
                    ws = " ".join(w)
                    wordset[ws] = wordset.get(ws, 0) + 1
                    if not any(r.fullmatch(ws) for r in rx) and not probs:
                        probs.append("conformance: system-call word of open `%s` is not a word of the model's per-process automaton (lock_before_init=%s)" % (ws, lock_first))
                if probs:
                    failed += 1
                    key = probs[0][:40]
                    if key in reported or len(reported) >= 3:
                        continue
                    reported.add(key)
                    rep.violation("file %s, plan %s: %s" % ("exists" if existing else "does not exist", plan, probs[0]),
                                  dict(kind="process-ordering", property="C13", existing=existing, plan=plan, problems=probs, records=recs,
                                       words=[" ".join(w) for _, w in words],
                                       how="plan entries are (marker, start offset ms, hold ms, (syscall, delay_exit usec) or None): each starts "
                                           "`strace -P db -e inject=<syscall>:delay_exit=<usec>:when=1 harness proc db <marker> <hold>`"),
                                  no_input=probs[0].startswith("conformance"))
            rep.cov["open_syscall_words"] = wordset
            rep.cov["generated_lock_before_init"] = lock_first
        rep.cov["rule"] = ("2 and 3 processes opening the same file (existing / not yet created); one process is held inside openat / fallocate / "
                           "write / fsync / flock / mmap of its open (strace delay_exit) while others start at offsets 0 / 150 / 350 ms; every "
                           "process commits a marker and holds the database for a while; oracle: every open succeeds (waits, no error, no panic), "
                           "monotonic [opened, closing] intervals are disjoint, each opener sees exactly the markers committed before it; the "
                           "system-call word of every open must be a word of the model's automaton; non-trivial = every scenario")
        rep.sample(dict(existing=False, plan=[["a", 0, 50, ["fallocate", 600000]], ["b", 150, 50, None]],
                        meaning="b arrives while a has created and sized the file but not written its pages"))
        rep.cov["traces_validated_against_impl"] = rep.cov["evaluations"]
        fill_proof_cov(rep, gate, TRUSTED_COMMON + ["strace 6.1 (observation and delay injection); flock(2) semantics of Linux"])
        gate_or_search(rep, "C13", b, gate, failed > 0)
        return rep.finish()
    finally:
        rd.cleanup()


# ----------------------------------------------------------------------------------------------
# C10: freed space is reused
# ----------------------------------------------------------------------------------------------
C10_META = {}


def c10_oracle(label, text, r):
    import re
    pl_oracle("C10")(label, text, r)
    meta = C10_META.get(label)
    if meta is None:
        return
    series = []
    for (i, m) in r.get("snap_meta", []):
        mm = re.search(r"np=(\d+)", m)
        if mm:
            series.append(int(mm.group(1)))
    COUNTERS.setdefault("C10", {}).setdefault("high_water_series", {})[label] = series[::max(1, len(series) // 30)]
    n = meta["ntx"]
    if len(series) < n:
        return                          # the run itself failed: already reported
    pin = meta["pin"]
    hw = series
    bad = None
    warm = 40
    if meta["workload"] == "bigfree":
        # cycles of (fill 400 keys, delete them): every cycle needs the same pages again
        if hw[-1] > hw[3] * 1.1 + 8:
            bad = "fill / delete cycles with a multi-page free list: %d pages after 2 cycles, %d after %d" % (hw[3], hw[-1], n // 2)
    elif pin == "shuffle":
        # steady state: the same pattern of readers repeats every 60 commits, so the file must not grow from period to period
        if n >= 240 and hw[-1] > hw[n - 61] * 1.15 + 16:
            bad = "readers on three snapshots closed oldest / newest / middle: file grows from period to period (%d pages one period before the end, %d at the end)" % (hw[n - 61], hw[-1])
    elif pin == "chain":
        # some reader is open at every writer begin, each for 25 commits: pages must still be released as the oldest reader
        # moves on, so the file stops growing once the chain is in steady state
        half = hw[n // 2]
        if hw[-1] > half * 1.2 + 8:
            bad = "overlapping readers (each open for 25 commits): file grows without bound, %d pages at commit %d, %d at the end" % (half, n // 2, hw[-1])
    elif pin:
        a, b_ = pin
        settle = b_ + 12
        if hw[a] > hw[warm] * 1.15 + 4 and meta["workload"] in ("fixed1", "fixedN", "bdel", "bdelN"):
            bad = "file grew from %d to %d pages between commits %d and %d although live data is constant and no reader was open" % (hw[warm], hw[a], warm, a)
        elif hw[-1] > hw[settle] * 1.05 + 4 and meta["workload"] in ("fixed1", "fixedN", "bdel", "bdelN"):
            bad = "file keeps growing after the pinned reader closed: %d pages at commit %d, %d at the end" % (hw[settle], settle, hw[-1])
        elif hw[b_ - 1] <= hw[a] and meta["workload"] == "fixedN":
            pass                        # (a pinned reader usually forces growth; not required)
    else:
        if hw[-1] > hw[warm] * 1.15 + 4 and meta["workload"] in ("fixed1", "fixedN", "bdel", "bdelN"):
            bad = "file grew from %d to %d pages after warm-up although live data is constant" % (hw[warm], hw[-1])
    if not bad and meta["workload"] == "var" and pin not in ("chain", "shuffle"):
        third = hw[2 * n // 3]
        if hw[-1] > third * 1.25 + 8:
            bad = "variable-size workload: file still growing in the last third (%d -> %d pages)" % (third, hw[-1])
        if not pin and hw[-1] > 40 * 6 + 60:
            bad = "variable-size workload without a pinned reader: %d pages for at most 40 keys of <= 3000 bytes" % hw[-1]
    if bad:
        r["checks_bad"].append((len(r["cmds"]) - 1, "high-water mark series (decoded from every committed header)", "plateau", bad))


def cases_c10(tier, seed):
    q = tier == "quick"
    n = 300 if q else 900
    cases = []
    k = 0
    for wl in ("fixed1", "fixedN", "var", "bdel", "bdelN"):
        for (pin, reopen) in (((100, 150), 0), (None, 25), ("chain", 0)) if q else (((100, 150), 0), (None, 25), ((100, 150), 40), (None, 0), ((300, 450), 100), ("chain", 0), ("chain", 50)):
            label = "g10 %s ntx=%d pin=%s reopen=%d seed=%d" % (wl, n, pin, reopen, seed * 10 + k)
            C10_META[label] = dict(workload=wl, ntx=n, pin=pin)
            cases.append((label, gen.g10(seed * 10 + k, wl, ntx=n, pin=pin, reopen_every=reopen)))
            k += 1
    # readers on three snapshots closed oldest / newest / middle, repeatedly (the registry of open readers must stay right)
    for wl in ("fixed1", "fixedN") if q else ("fixed1", "fixedN", "bdel", "var"):
        label = "g10 %s ntx=%d pin=shuffle reopen=0 seed=%d" % (wl, n, seed * 10 + k)
        C10_META[label] = dict(workload=wl, ntx=n, pin="shuffle")
        cases.append((label, gen.g10(seed * 10 + k, wl, ntx=n, pin="shuffle")))
        k += 1
    # a free list of several hundred ids (several pages of ids), with and without a reopen after every cycle
    nb = 24 if q else 80
    for reopen in (2, 0):
        label = "g10 bigfree ntx=%d pin=None reopen=%d seed=%d" % (nb, reopen, seed * 10 + k)
        C10_META[label] = dict(workload="bigfree", ntx=nb, pin=None)
        cases.append((label, gen.g10(seed * 10 + k, "bigfree", ntx=nb, pin=None, reopen_every=reopen)))
        k += 1
    return cases


def check_c10(tier, seed):
    return history_property(
        # the initial file is large enough that no commit has to extend it: a writer that must remap the file waits for every
        # open reader, and the single-threaded interpreter holds the pinned reader itself (it would wait for ever, by design)
        "C10", tier, seed, cases_c10(tier, seed), dict(pagesize=1024, num_pages=3000 if tier == "quick" else 12000),
        "long runs (quick 300, thorough 900 transactions) over 40 keys: fixed-size single-page overwrites, fixed-size multi-page values, "
        "variable sizes with deletes, nested bucket create/fill/delete; with a reader pinned for 50 commits, with reopen every 25/40 commits; "
        "the high-water mark is read from EVERY committed header by the Gallina decoder: no growth between warm-up and the pin, growth only "
        "while pinned (+ settling), none afterwards, up to 15% / 5% + 4 pages of fragmentation slack (fixed-size workloads); bounded and flat in the last third (variable-size); every commit's "
        "hook events replayed in the free-list model (allocate / free / release / publish exact) and accepted by the page-lifecycle machine; "
        "non-trivial = every run",
        on_result=c10_oracle, release_sample=0, profiles=("release",), timeout=120 if tier == "quick" else 3000)


# ----------------------------------------------------------------------------------------------
# C15: files written by earlier versions stay readable
# ----------------------------------------------------------------------------------------------
GOLDEN_PS = [1024, 4096, 5000, 16384]


def file_hash(p):
    return hashlib.sha256(open(p, "rb").read()).hexdigest()


def check_c15(tier, seed):
    import re
    rep = Report("C15", tier, seed, "proof")
    b = vlib.build(release=False)
    gate = vlib.proof_gate("C15", b)
    rd = RunDir()
    failed = 0
    rng = random.Random(seed)
    gdir = os.path.join(vlib.ROOT, "golden")
    expect = open(os.path.join(gdir, "expect.txt")).read().strip()
    assert expect.startswith("open:ok ") and expect.endswith(" check:ok")
    exp_dump = expect[len("open:ok "):-len(" check:ok")]
    try:
        if b.cargo_ok and b.extract_ok:
            d = rd.sub()

            def viol(what, obj):
                nonlocal failed
                failed += 1
                if failed <= 3:
                    rep.violation(what, dict(kind="golden", property="C15", **obj))

            for P in GOLDEN_PS:
                for variant in ("", ".legacy"):
                    name = "p%d%s.db" % (P, variant)
                    src = os.path.join(gdir, name)
                    rep.count(name, name, True)
                    # 1. the Gallina decoder on the golden file itself
                    rc, out = vlib.sh([vlib.MONITOR, "inv", str(P), src])
                    got = out.strip().split(" ", 1)[1] if " " in out.strip() else out
                    j = got.find(" dump:")
                    if not got.startswith("inv:ok ") or got[j + 1:] != exp_dump:
                        viol("model decoder on golden %s: %s" % (name, got[:200]), dict(file=name, model=got[:400]))
                    # 2. the library opens it with identical logical contents (on a copy: open may not modify it)
                    work = os.path.join(d, name)
                    shutil.copyfile(src, work)
                    before = file_hash(work)
                    rc, out = vlib.sh([vlib.harness_bin("debug"), "open-dump", work, "--pagesize", str(P)])
                    got = out.strip().split(" ", 1)[1] if " " in out.strip() else out
                    if got != expect:
                        viol("library on golden %s: contents differ from what the pinned release recorded: %s" % (name, got[:160]),
                             dict(file=name, library=got[:400], how="harness open-dump golden/%s --pagesize %d vs golden/expect.txt" % (name, P)))
                    if file_hash(work) != before:
                        viol("opening golden %s modified the file" % name, dict(file=name))
                    # 3. it accepts further commits (history continues against the reference seeded with the golden contents)
                    h = gen.H()
                    t = h.begin(True)
                    a = h.bucket("getb", t, 0, gen.hx("A"))
                    n1 = h.bucket("getb", t, a, gen.hx("N1"))
                    for i in range(rng.randrange(3, 12)):
                        h.emit("put %d %d %s %s" % (t, rng.choice([a, n1]), gen.hx("new-%03d" % i), gen.rval(rng, [0, 16, 300, 3000])))
                    h.emit("del %d %d %s" % (t, a, gen.hx("key-000")))
                    h.emit("delb %d 0 %s" % (t, gen.hx("C")))
                    h.emit("commit %d" % t)
                    h.emit("check")
                    h.emit("snap")
                    t = h.begin(True)
                    z = h.bucket("create", t, 0, gen.hx("Z"))
                    h.emit("put %d %d %s %s" % (t, z, gen.hx("k"), "r5000:3"))
                    h.emit("commit %d" % t)
                    h.emit("check")
                    h.emit("snap")
                    h.emit("reopen")
                    r_ = h.begin(False)
                    ra = h.bucket("getb", r_, 0, gen.hx("A"))
                    h.emit("get %d %d %s" % (r_, ra, gen.hx("key-000")))
                    h.emit("get %d %d %s" % (r_, ra, gen.hx("key-002")))
                    h.emit("get %d %d %s" % (r_, ra, gen.hx("new-001")))
                    h.emit("buckets %d 0" % r_)
                    h.emit("nextint %d %d" % (r_, ra))
                    h.emit("drop %d" % r_)
                    hp = os.path.join(d, "cont.txt")
                    open(hp, "w").write(h.text())
                    snapdir = os.path.join(d, "snap-" + name)
                    os.makedirs(snapdir, exist_ok=True)
                    rc, out = vlib.sh([vlib.harness_bin("debug"), "run", work, hp, "--pagesize", str(P), "--snapdir", snapdir], timeout=120)
                    lines = [l for l in out.split("\n") if l and not l.startswith("hook:")]
                    cmds = [l for l in h.text().split("\n") if l.strip()]
                    problems = [(c, l) for c, l in zip(cmds, lines) if l.startswith("panic") or l.startswith("err:") or (l.startswith("check:") and l != "check:ok")]
                    want_tail = ["opt:none", None, None, "items: bk:41 bk:5a", "num:%d" % (31 + sum(1 for c in cmds if c.startswith("put") and (" %d " % a) in c[:12] and "new-" in bytes.fromhex(c.split()[3]).decode(errors="replace")))]
                    if len(lines) != len(cmds) or problems:
                        viol("continuing on golden %s: %s" % (name, (problems[0] if problems else "process stopped after %d of %d commands" % (len(lines), len(cmds)))),
                             dict(file=name, history=cmds, output=lines[-12:]))
                    else:
                        tail = lines[-6:-1]
                        if tail[0] != "opt:none" or not tail[1].startswith("opt:kv:") or tail[3] != "items: bk:41 bk:5a":
                            viol("continuing on golden %s: contents after two more commits are wrong: %s" % (name, [x[:60] for x in tail]), dict(file=name, output=tail))
                        snaps = [l[5:] for l in lines if l.startswith("snap:")]
                        rc, o2 = vlib.sh([vlib.MONITOR, "inv", str(P)] + snaps)
                        for l in o2.split("\n"):
                            if l.strip() and " inv:ok " not in l:
                                viol("file committed on top of golden %s is not well-formed: %s" % (name, l.split(" ", 2)[1][:160]), dict(file=name))
                    # 4. every mismatching page size is refused without touching the file
                    shutil.copyfile(src, work)
                    before = file_hash(work)
                    for P2 in [x for x in PAGE_SIZES if x != P and x <= 65536]:
                        rep.count("%s@%d" % (name, P2), "%s@%d" % (name, P2), True)
                        rc, out = vlib.sh([vlib.harness_bin("debug"), "open-dump", work, "--pagesize", str(P2)])
                        got = out.strip().split(" ", 1)[1] if " " in out.strip() else out
                        rcm, outm = vlib.sh([vlib.MONITOR, "select", str(P2), work])
                        refused = got.startswith("open:panic") and "pagesize" in got.lower()
                        if not refused:
                            viol("golden %s (page size %d) opened with page size %d is not refused: %s" % (name, P, P2, got[:160]), dict(file=name, pagesize=P2, library=got[:300]))
                        elif "panic:pagesize" not in outm:
                            viol("model does not refuse golden %s at page size %d: %s" % (name, P2, outm.strip()[-100:]), dict(file=name, pagesize=P2, model=outm[-300:]))
                        if file_hash(work) != before:
                            viol("refused open of golden %s at page size %d modified the file" % (name, P2), dict(file=name, pagesize=P2))
                            shutil.copyfile(src, work)
                    os.remove(work)
        rep.cov["rule"] = ("golden files written by the pinned release (commit f5c2214) at page sizes 1024 / 4096 / 5000 / 16384 (nested buckets 3 deep, "
                           "values up to 20000 bytes, deleted bucket and keys => non-empty free list), each also with both headers rewritten in the "
                           "legacy format by an independent python writer (hashlib.sha3_256): the Gallina decoder (incl. its own SHA3-256) and the "
                           "library must both find exactly the recorded contents; the library then commits twice more, every new file passes "
                           "inv_check; every other page size of the grid must be refused (documented panic) with the file's SHA-256 unchanged; "
                           "non-trivial = every (file, action); layout of files written by the current code: every other check decodes them")
        rep.sample(dict(file="golden/p5000.legacy.db", actions=["decode with the model", "open + dump with the library", "2 more commits", "open at 8 wrong page sizes"]))
        rep.cov["traces_validated_against_impl"] = rep.cov["evaluations"]
        fill_proof_cov(rep, gate, TRUSTED_COMMON + ["golden files under /verif/golden produced once by the pinned release; tools/legacy_writer.py + python hashlib for the legacy header"])
        gate_or_search(rep, "C15", b, gate, failed > 0)
        return rep.finish()
    finally:
        rd.cleanup()


# ----------------------------------------------------------------------------------------------
# C14: borrowed data cannot outlive its transaction
# ----------------------------------------------------------------------------------------------
def check_c14(tier, seed):
    import clients
    rep = Report("C14", tier, seed, "proof")
    b = vlib.build(release=False, need_api=True)
    gate = vlib.proof_gate("C14", b)
    rd = RunDir()
    failed = 0
    try:
        if b.cargo_ok and b.extract_ok and b.gen_ok:
            rows = clients.api_rows()
            crate = os.path.join(vlib.CACHE, "clients")
            progs, uncovered = clients.build_corpus(crate, rows)
            codes = clients.rustc_verdicts(crate)
            verdicts = {}
            reported = 0

            def viol(what, obj, no_input=False):
                nonlocal failed, reported
                failed += 1
                if reported < 3:
                    reported += 1
                    rep.violation(what, dict(kind="client-program", property="C14", **obj), no_input=no_input)

            for name, (src, want, key) in sorted(progs.items()):
                cs = set(codes.get(name, []))
                rep.count(name, src, True)
                got = "ok" if not cs else ("borrow" if cs & clients.BORROW_CODES else ("send" if cs & clients.SEND_CODES else "other:" + ",".join(sorted(cs))))
                verdicts[name] = (want, got)
                if want == "dangerous":
                    viol("%s: the model finds a result of %s that may point into the map and is not tied to the transaction borrow; rustc %s the program that "
                         "carries it out" % (name, key, "accepts" if got == "ok" else "rejects (%s)" % got), dict(program=name, source=src.split("\n"), api=key, rustc=sorted(cs)))
                elif want == "borrow" and got == "ok":
                    viol("%s: compiles, but the value of %s escapes its transaction (model: anchored; rustc: accepted)" % (name, key),
                         dict(program=name, source=src.split("\n"), api=key))
                elif want == "send" and got != "send":
                    viol("%s: moving a transaction-derived value to another thread is not rejected with a Send/Sync error (rustc: %s)" % (name, got),
                         dict(program=name, source=src.split("\n")))
                elif want == "ok" and got != "ok":
                    viol("%s: ordinary correct usage does not compile (rustc: %s)" % (name, got), dict(program=name, source=src.split("\n"), rustc=sorted(cs)))
                elif want == "borrow" and got.startswith("other"):
                    viol("corpus program %s fails for an unrelated reason (%s): the corpus no longer matches the API" % (name, got),
                         dict(program=name, source=src.split("\n"), rustc=sorted(cs)), no_input=True)
            if uncovered:
                viol("public API functions with map-pointing results that the client corpus has no recipe for: %s" % uncovered[:6],
                     dict(uncovered=[list(u) for u in uncovered]), no_input=True)
            # probe runs for the escapes that compile (owned results): bytes must not change while the file is remapped and pages reused
            pcrate = os.path.join(vlib.CACHE, "probe")
            shutil.rmtree(pcrate, ignore_errors=True)
            os.makedirs(os.path.join(pcrate, "src", "bin"))
            shutil.copyfile(os.path.join(crate, "Cargo.toml"), os.path.join(pcrate, "Cargo.toml"))
            shutil.copyfile(os.path.join(crate, "Cargo.lock"), os.path.join(pcrate, "Cargo.lock"))
            probes = {"probe_to_bytes_value": "nm.to_bytes()", "probe_to_bytes_ref": "(&nm).to_bytes()"}
            for pn, expr in probes.items():
                open(os.path.join(pcrate, "src", "bin", pn + ".rs"), "w").write(clients.PROBE % expr)
            env = dict(vlib.ENV, CARGO_TARGET_DIR=os.path.join(vlib.CACHE, "clients-target"))
            rc, out = vlib.sh("cargo build --offline --bins 2>&1 | tail -5", cwd=pcrate, env=env, timeout=900)
            for pn in probes:
                exe = os.path.join(vlib.CACHE, "clients-target", "debug", pn)
                dbp = os.path.join(rd.sub(), "probe.db")
                rep.count(pn, pn, True)
                if not os.path.exists(exe):
                    continue            # does not compile: nothing escapes (the corpus verdicts above judge that)
                p = subprocess.run([exe, dbp], stdout=subprocess.PIPE, stderr=subprocess.PIPE, text=True, timeout=120)
                verdicts[pn] = ("same=true", p.stdout.strip()[-80:] + (" rc=%d" % p.returncode))
                if p.returncode != 0 or "same=true" not in p.stdout:
                    viol("%s: a value kept past its transaction reads the mapped file after it was remapped / its pages reused: rc=%d %s" % (
                        pn, p.returncode, (p.stdout + p.stderr).strip()[-200:]),
                        dict(program=pn, source=(clients.PROBE % probes[pn]).split("\n"), rc=p.returncode, output=(p.stdout + p.stderr)[-400:],
                             how="cargo build the program against /repo and run it with a scratch database path"))
            rep.cov["verdicts"] = {k: list(v) for k, v in list(verdicts.items())[:80]}
            rep.cov["api_functions"] = len(rows)
        rep.cov["rule"] = ("one client program per (public function with a map-pointing result, escape route in {kept past the scope of the transaction, "
                           "kept past commit}) generated from the rustdoc-derived API table, plus hand-written programs (transaction outliving its "
                           "database handle, key / value not living long enough, transaction / bucket / pair / cursor moved to another thread) and "
                           "positive controls (ordinary usage, cloned database handle across threads, owned copies kept after commit); rustc's error "
                           "codes must match the verdict of the Coq lifetime-flow check for every program; programs that compile and carry a value "
                           "out are run in a probe process while the file is remapped and its pages reused; non-trivial = every program")
        rep.sample(dict(program="esc_bucket_inh_get_kv_commit", expect="rejected: E0505 cannot move out of `tx` because it is borrowed"))
        rep.cov["traces_validated_against_impl"] = rep.cov["evaluations"]
        fill_proof_cov(rep, gate, TRUSTED_COMMON + ["tools/gen_api.py + nightly rustdoc JSON (format 57) as the enumeration of the public API",
                                                    "rustc's borrow checker and Send/Sync rules are trusted (the theorem is about jammdb's signatures)",
                                                    "the run-time half (no read of the map after the transaction ended) is covered only by probe runs"])
        gate_or_search(rep, "C14", b, gate, failed > 0)
        return rep.finish()
    finally:
        rd.cleanup()


CHECKS = {"C01": check_c01, "C02": check_c02, "C03": check_c03, "C04": check_c04, "C05": check_c05, "C06": check_c06,
          "C07": check_c07, "C08": check_c08, "C09": check_c09, "C10": check_c10, "C11": check_c11, "C12": check_c12,
          "C13": check_c13, "C14": check_c14, "C15": check_c15, "C16": check_c16}


def main(argv):
    if not argv:
        print("usage: check <Cxx> [--tier quick|thorough] [--replay file]")
        return 2
    prop = argv[0]
    tier = os.environ.get("VERIF_TIER", "quick")
    replay = None
    i = 1
    while i < len(argv):
        if argv[i] == "--tier":
            tier = argv[i + 1]
            i += 1
        elif argv[i] == "--replay":
            replay = argv[i + 1]
            i += 1
        i += 1
    if replay:
        obj = json.load(open(replay))
        if obj.get("kind") == "history":
            return replay_history(prop, replay)
        print("replay kind %s: see the 'how' field of the file" % obj.get("kind"))
        return 2
    if prop not in CHECKS:
        print("no check for %s" % prop)
        return 2
    os.environ["VERIF_TIER_EFFECTIVE"] = tier
    return CHECKS[prop](tier, env_seed())
