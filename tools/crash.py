"""C02 / C11 tooling: record the real I/O of every commit with strace, synthesise crash images from
the real pre-image and the real written bytes, open each image with the library and with the model."""
import os, re, random, hashlib
import vlib, gen


def fnv64(b):
    h = 0xcbf29ce484222325
    for x in b:
        h = ((h ^ x) * 0x100000001b3) & 0xFFFFFFFFFFFFFFFF
    return "%016x" % h


STRACE = ["strace", "-f", "-s", "0", "-e", "trace=lseek,write,pwrite64,fsync,fdatasync,fallocate,ftruncate,flock,openat,close"]


def parse_strace(path, P):
    """-> list of commits; a commit is a list of ops ('w', off, len) | ('s',) | ('f', newlen)"""
    commits, cur, off = [], [], 0
    started = False
    dbfd = None
    for ln in open(path, errors="replace"):
        m = re.match(r"\s*\d+\s+(\w+)\((.*)\)\s*=\s*(-?\d+)", ln)
        if not m:
            continue
        name, args, ret = m.group(1), m.group(2), int(m.group(3))
        if name == "flock":
            started = True
            dbfd = args.split(",")[0].strip()
            cur = []
            continue
        if not started or (name != "close" and args.split(",")[0].strip() != dbfd):
            continue
        if name == "lseek":
            off = int(args.split(",")[1])
        elif name == "write":
            ln_ = int(args.split(",")[-1])
            cur.append(("w", off, ln_))
            off += ln_
        elif name == "pwrite64":
            a = args.split(",")
            cur.append(("w", int(a[-1]), int(a[-2])))
        elif name in ("fsync", "fdatasync"):
            if any(o[0] == "w" and o[1] == 0 and o[2] == 4 * P for o in cur):
                cur = []          # initialisation of a new file (4 pages written at offset 0): not a commit
                continue
            cur.append(("s",))
            ws = [o for o in cur if o[0] == "w"]
            if ws and ws[-1][1] in (0, P) and ws[-1][2] == P and cur[-2][0] == "w" and cur[-2] == ws[-1]:
                commits.append(cur)
                cur = []
        elif name == "fallocate":
            cur.append(("f", int(args.split(",")[-1])))
        elif name == "close" and args.strip() == dbfd:
            started = False
    return commits


def c02_history(rng, ncommits, kind):
    h = gen.H()
    h.emit("snap")
    keys = [gen.lk(i, rng.choice([8, 60, 200])) for i in range(40)]
    for i in range(ncommits):
        t = h.begin(True)
        b = h.bucket("goc", t, 0, gen.hx("b%d" % (0 if kind == "bigfree" and i < 2 else rng.randrange(2))))
        r = rng.random()
        if kind == "bigfree" and i < 2:
            # a free list that spans several pages: two 80-page values, committed, then deleted; the later (small) commits
            # rewrite a multi-page free-list record whose page count does not change
            for j in range(2):
                if i == 0:
                    h.emit("put %d %d %s %s" % (t, b, gen.hx("big%d" % j), "r80000:%d" % (j + 1)))
                else:
                    h.emit("del %d %d %s" % (t, b, gen.hx("big%d" % j)))
            h.emit("commit %d" % t)
            h.emit("snap")
            r_ = h.begin(False)
            h.emit("dump %d" % r_)
            h.emit("drop %d" % r_)
            continue
        if kind in ("small", "bigfree"):
            n = rng.randrange(1, 4)
        elif kind == "large":
            n = rng.randrange(10, 40)
        else:
            n = rng.randrange(1, 12)
        for _ in range(n):
            x = rng.random()
            if x < 0.6:
                h.emit("put %d %d %s %s" % (t, b, rng.choice(keys), gen.rval(rng, [0, 16, 300, 1500, 3000])))
            elif x < 0.85:
                h.emit("del %d %d %s" % (t, b, rng.choice(keys)))
            elif x < 0.93:
                s = h.bucket("goc", t, b, gen.hx("s%d" % rng.randrange(2)))
                h.emit("put %d %d %s %s" % (t, s, rng.choice(keys), gen.rval(rng, [16, 300])))
            else:
                h.emit("delb %d %d %s" % (t, b, gen.hx("s%d" % rng.randrange(2))))
        if rng.random() < 0.1:
            h.emit("delb %d 0 %s" % (t, gen.hx("b%d" % rng.randrange(2))))
        h.emit("commit %d" % t)
        h.emit("snap")
        r_ = h.begin(False)
        h.emit("dump %d" % r_)
        h.emit("drop %d" % r_)
    return h.text()


def image_mutations(rng, ops, pre, post, P, tier, cur_slot_off):
    """mutation lines (patch lists) + a label for each; first element of the returned list is the empty
    patch (crash before anything), last is the complete commit"""
    def patch(o, sectors=None, data=None):
        _, off, ln = o
        data = post[off:off + ln] if data is None else data
        if len(data) < ln:
            data = data + b"\0" * (ln - len(data))
        if sectors is None:
            return ["%d %s" % (off, data.hex())]
        out = []
        for s in sectors:
            lo = s * 512
            hi = min(ln, lo + 512)
            if lo < ln:
                out.append("%d %s" % (off + lo, data[lo:hi].hex()))
        return out

    segs, cur = [], []
    for o in ops:
        if o[0] == "s":
            segs.append(cur)
            cur = []
        elif o[0] == "w":
            cur.append(o)
    if cur:
        segs.append(cur)
    writes = [o for o in ops if o[0] == "w"]
    muts = []
    # process kill: every prefix
    for k in range(len(writes) + 1):
        muts.append(("kill prefix %d/%d" % (k, len(writes)), sum((patch(o) for o in writes[:k]), [])))
    # power loss: earlier segments applied, any subset of the segment in flight
    done = []
    budget = 60 if tier == "quick" else 600
    for j, seg in enumerate(segs):
        base = sum((patch(o) for o in done), [])
        n = len(seg)
        if n == 0:
            continue
        if n <= (6 if tier == "quick" else 10):
            subsets = [[i for i in range(n) if (m >> i) & 1] for m in range(1 << n)]
        else:
            subsets = [[i for i in range(n) if i != x] for x in range(n)] + [[x] for x in range(n)]
            subsets += [sorted(rng.sample(range(n), rng.randrange(1, n))) for _ in range(budget)]
            subsets.append([n - 1])
        if len(subsets) > budget * 2:
            keep = [s for s in subsets if (n - 1) in s and len(s) < n][:budget] + rng.sample(subsets, budget)
            subsets = keep
        for sub in subsets:
            ps = list(base)
            label = "power seg %d subset %s" % (j, sub)
            torn = None
            if sub and rng.random() < 0.3:
                cands = [i for i in sub if seg[i][2] > 512 and not (seg[i][1] in (0, P) and seg[i][2] == P)]
                if cands:
                    torn = rng.choice(cands)
            for i in sub:
                if i == torn:
                    nsec = (seg[i][2] + 511) // 512
                    secs = sorted(rng.sample(range(nsec), rng.randrange(1, nsec)))
                    ps += patch(seg[i], sectors=secs)
                    label += " torn(%d: sectors %s)" % (i, secs)
                else:
                    ps += patch(seg[i])
            muts.append((label, ps))
        # torn header (8-byte words): everything else of this segment applied
        hdr = [o for o in seg if o[1] in (0, P) and o[2] == P]
        if hdr:
            ho = hdr[0]
            others = sum((patch(o) for o in seg if o is not ho), [])
            old = pre[ho[1]:ho[1] + P]
            new = post[ho[1]:ho[1] + P]
            masks = []
            for bnd in range(1, 14):
                masks.append([w < bnd for w in range(16)])
                masks.append([w >= bnd for w in range(16)])
            for _ in range(24 if tier == "quick" else 400):
                masks.append([rng.random() < 0.5 for _ in range(16)])
            for mk in masks:
                mix = bytearray(old)
                for w in range(16):
                    if mk[w]:
                        mix[8 * w:8 * w + 8] = new[8 * w:8 * w + 8]
                mix[128:] = new[128:] if rng.random() < 0.5 else old[128:]
                muts.append(("power seg %d torn header words %s" % (j, "".join("n" if x else "o" for x in mk)),
                             base + others + ["%d %s" % (ho[1], bytes(mix).hex())]))
        done += seg
    muts.append(("complete", sum((patch(o) for o in writes), [])))
    return muts


def crash_check(rep, rd, tier, seed, P=1024):
    """returns number of failing images"""
    rng = random.Random(seed)
    failed = 0
    nhist = 8 if tier == "quick" else 60
    images = 0
    second_images = 0
    commits_seen = 0
    order_shapes = {}
    reported = set()
    jobs = []
    for hi in range(nhist):
        kind = ["small", "large", "mixed", "bigfree"][hi % 4]
        ncommits = (5 if tier == "quick" else 10) + (2 if kind == "bigfree" else 0)
        text = c02_history(rng, ncommits, kind)
        d = rd.sub()
        st = os.path.join(d, "st.txt")
        dbp = os.path.join(d, "t.db")
        npages = [32, 64, 4, 400][hi % 4]          # 4 => the file must grow (extension path)
        r = vlib.run_history(text, dict(pagesize=P, num_pages=npages), d, wrap=STRACE + ["-P", dbp, "-o", st], timeout=300)
        vlib.check_snapshots(r, P)
        if vlib.first_problem(r):
            failed += 1
            rep.violation(vlib.describe_problem("c02 base history", vlib.first_problem(r)),
                          dict(kind="history", property=rep.prop, opts=dict(pagesize=P, num_pages=npages), profile="debug", history=text.split("\n")))
            continue
        commits = parse_strace(st, P)
        snaps = [f for (_, f, _) in r["snaps"]]
        dumps = [a for c, a in zip(r["cmds"], r["act"]) if c.startswith("dump")]
        ok_commits = sum(1 for c, a in zip(r["cmds"], r["act"]) if c.startswith("commit") and a == "ok")
        if len(commits) != ok_commits or len(snaps) != ok_commits + 1 or len(dumps) != ok_commits:
            failed += 1
            rep.violation("I/O trace does not segment into the commits of the history: %d traced, %d committed (write order / sync placement changed?)" % (len(commits), ok_commits),
                          dict(kind="strace-shape", property=rep.prop, history=text.split("\n"), traced=[str(c)[:300] for c in commits[:3]]), no_input=True)
            continue
        hashes = [fnv64(b"dump:")] + [fnv64(x.encode()) for x in dumps]
        for ci, ops in enumerate(commits):
            commits_seen += 1
            shape = "".join({"w": "d", "s": "S", "f": "G"}[o[0]] if not (o[0] == "w" and o[1] in (0, P) and o[2] == P) else "H" for o in ops)
            shape = re.sub(r"d+", "d*", shape)
            order_shapes[shape] = order_shapes.get(shape, 0) + 1
            pre = open(snaps[ci], "rb").read()
            post = open(snaps[ci + 1], "rb").read()
            if len(pre) > (1 << 20) or len(post) > (2 << 20):
                if rng.random() < 0.7:
                    continue                      # big (grown) images: sample to bound the cost
            muts = image_mutations(rng, ops, pre, post, P, tier, None)
            if len(post) > (1 << 20):
                muts = muts[:6] + rng.sample(muts, min(len(muts), 30)) + muts[-1:]
            mf = os.path.join(d, "muts%d.txt" % ci)
            open(mf, "w").write("\n".join(" ".join(ps) if ps else "0 -" for (_, ps) in muts) + "\n")
            # a second crash right after the recovery from the first: on these images the harness makes one more commit and
            # tears ITS header write too (harness `damage --second`); torn-header images first, they are the ones after
            # which the two header pages are not simply "older / newer"
            torn = [k for k, (lb, _) in enumerate(muts) if "torn header" in lb]
            sec = set(rng.sample(torn, min(len(torn), 12 if tier == "quick" else 80)))
            sec.update([0, len(muts) - 1])
            sec.update(rng.sample(range(len(muts)), min(len(muts), 4 if tier == "quick" else 30)))
            if len(post) > (1 << 20):
                sec = set(list(sorted(sec))[:4])
            open(mf + ".second", "w").write("\n".join(str(k) for k in sorted(sec)) + "\n")
            jobs.append((d, snaps[ci], mf, muts, hashes[ci], hashes[ci + 1], text, ci, npages))

    def run_job(j):
        d, base, mf, muts, hpre, hpost, text, ci, npages = j
        rc1, lib = vlib.sh([vlib.harness_bin("debug"), "damage", base, mf, mf + ".scratch.db", "--pagesize", str(P), "--num-pages", str(npages), "--second", mf + ".second"], timeout=1200)
        rc2, mod = vlib.sh([vlib.MONITOR, "damage", str(P), base, mf], timeout=1200)
        return j, lib.split("\n"), mod.split("\n")

    from concurrent.futures import ThreadPoolExecutor
    with ThreadPoolExecutor(vlib.NPROC) as ex:
        results = list(ex.map(run_job, jobs))
    for (d, base, mf, muts, hpre, hpost, text, ci, npages), lib, mod in results:
        for i, (label, ps) in enumerate(muts):
            images += 1
            l = lib[i] if i < len(lib) else "<library process died>"
            m = mod[i] if i < len(mod) else "<model died>"
            w = l.split()
            bad = None
            if len(w) < 4 or w[1] != "ok" or w[3] != "check:ok":
                bad = "reopening the crash image does not succeed cleanly: %s" % l[:200]
            elif w[2] not in (hpre, hpost):
                bad = "crash image shows neither the state before nor the state after the commit"
            elif label == "complete" and w[2] != hpost:
                bad = "commit returned success but its effects are not in the file"
            elif w[:3] != m.split()[:3] or ("check:ok" in l) != ("check:ok" in m):
                bad = "library and model disagree on the image: library `%s` model `%s`" % (l[:90], m[:90])
            sc = [x for x in w if x.startswith("second:")]
            if sc:
                second_images += int(sc[0].split(":")[2]) if sc[0].startswith("second:ok:") else 1
                if not bad and not sc[0].startswith("second:ok"):
                    bad = "after recovering from this crash image, one more commit and a second crash during its header write: %s" % sc[0][7:]
            if bad:
                failed += 1
                key = (label.split()[0] + label.split()[1] if " " in label else label, bad[:30])
                if key in reported or len(reported) >= 3:
                    continue
                reported.add(key)
                rep.violation("commit #%d, %s: %s" % (ci + 1, label, bad),
                              dict(kind="crash-image", property=rep.prop, commit=ci + 1, crash=label, patches=[p[:120] for p in ps][:12],
                                   library=l, model=m, history=text.split("\n"), opts=dict(pagesize=P, num_pages=npages),
                                   how="run the history; take the file as it was before commit #N (snap N-1); apply the patches "
                                       "(absolute offset, bytes taken from the file after the commit); open the image"))
        rep.count("c02 %s commit %d" % (os.path.basename(d), ci), mf, True)
        rep.distinct.update(hashlib.sha1((d + label).encode()).hexdigest() for (label, _) in muts)
    rep.cov["evaluations"] = images
    rep.cov["commits_traced"] = commits_seen
    rep.cov["second_crash_images_after_recovery"] = second_images
    rep.cov["io_shapes"] = order_shapes
    return failed
