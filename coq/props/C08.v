(* C08 -- cursors, seeks and ranges return the right entries in order.
   Property theorems only; proofs live in proofs/CursorFacts.v (and proofs/SeekFacts.v). *)
From Coq Require Import List NArith.
From Jamm Require Import Bytes Codec Tree Spec Cursor CursorFacts.
Import ListNotations.

(* a cursor yields every entry of its bucket exactly once, in tree order (= ascending key order on a
   well-formed tree); empty leaves left by deletes inside a transaction are skipped *)
Theorem C08_cursor_all : forall t, no_empty_branch t = true ->
  scan t = CVal (map Cursor.to_item (flatten t)).
Proof. exact cursor_all. Qed.
Print Assumptions C08_cursor_all.

(* calling next() again after the end is harmless: None forever, never a panic (both build profiles:
   the repaired machine has no usize subtraction) *)
Theorem C08_cursor_end : forall t, no_empty_branch t = true -> forall m, exists c_end,
  run (length (flatten t) + m) (S (nodes t)) (new_cursor t)
  = CVal (c_end, map (fun e => Some (Cursor.to_item e)) (flatten t) ++ repeat None m).
Proof. exact cursor_end. Qed.
Print Assumptions C08_cursor_end.

Theorem C08_never_panics : forall t, no_empty_branch t = true -> forall c,
  reachable (S (nodes t)) t c -> next (S (nodes t)) c <> CPanic.
Proof. exact cursor_never_panics. Qed.
Print Assumptions C08_never_panics.

(* the pinned (pre-repair) machine violates the property: kept so a regression is recognised *)
Theorem C08_legacy_debug_refuted : forall F, exists c1,
  next_legacy true (S F) (new_cursor (TL 3%N 0%N [])) = CVal (c1, None) /\
  next_legacy true (S F) c1 = CPanic.
Proof. exact next_legacy_debug_refuted. Qed.
Print Assumptions C08_legacy_debug_refuted.
