(* C08 -- cursors, seeks and ranges return the right entries in order.
   Property theorems only; proofs live in proofs/CursorFacts.v (and proofs/SeekFacts.v). *)
From Coq Require Import List NArith.
From Jamm Require Import Bytes Codec Tree Spec Cursor CursorFacts.
Import ListNotations.

(* a cursor yields every entry of its bucket exactly once, in tree order (= ascending key order on a
   well-formed tree); empty leaves left by deletes inside a transaction are skipped *)
Theorem C08_cursor_all : forall t, no_empty_branch t = true ->
  scan t = CVal (map Cursor.to_item (flatten t)).
Proof. exact cursor_all. Qed.
Print Assumptions C08_cursor_all.

(* calling next() again after the end is harmless: None forever, never a panic (both build profiles:
   the repaired machine has no usize subtraction) *)
Theorem C08_cursor_end : forall t, no_empty_branch t = true -> forall m, exists c_end,
  run (length (flatten t) + m) (S (nodes t)) (new_cursor t)
  = CVal (c_end, map (fun e => Some (Cursor.to_item e)) (flatten t) ++ repeat None m).
Proof. exact cursor_end. Qed.
Print Assumptions C08_cursor_end.

Theorem C08_never_panics : forall t, no_empty_branch t = true -> forall c,
  reachable (S (nodes t)) t c -> next (S (nodes t)) c <> CPanic.
Proof. exact cursor_never_panics. Qed.
Print Assumptions C08_never_panics.

(* the pinned (pre-repair) machine violates the property: kept so a regression is recognised *)
Theorem C08_legacy_debug_refuted : forall F, exists c1,
  next_legacy true (S F) (new_cursor (TL 3%N 0%N [])) = CVal (c1, None) /\
  next_legacy true (S F) c1 = CPanic.
Proof. exact next_legacy_debug_refuted. Qed.
Print Assumptions C08_legacy_debug_refuted.

From Jamm Require Import SearchFacts SeekFacts.

(* seek reports whether the key exists and positions iteration at that key or, if it is absent, at an
   immediate neighbour (its predecessor or its successor) so that every later entry follows in order *)
Theorem C08_seek_spec : forall t k, wf_tree t = true ->
  let items := map Cursor.to_item (flatten t) in
  exists ex l, seek_scan t k = (ex, CVal l) /\
    (ex = true <-> In k (map lent_key (flatten t))) /\
    (ex = true -> l = from_succ k items) /\
    (ex = false -> l = from_pred k items \/ l = from_succ k items).
Proof. exact seek_spec. Qed.
Print Assumptions C08_seek_spec.

(* a range scan yields exactly the entries within its bounds, for all nine combinations of bound kinds
   (reversed bounds give the empty list because the filter is empty) *)
Theorem C08_range_spec : forall t lo hi, wf_tree t = true ->
  range_scan t lo hi = CVal (filter (fun i => in_bounds lo hi (item_key i)) (map Cursor.to_item (flatten t))).
Proof. exact range_spec. Qed.
Print Assumptions C08_range_spec.

(* the bucket-only and pair-only iterators filter the cursor's output without skipping or duplicating *)
Theorem C08_buckets_spec : forall t, wf_tree t = true ->
  cur_map (filter is_bucket_item) (scan t) = CVal (filter is_bucket_item (map Cursor.to_item (flatten t))).
Proof. exact buckets_spec. Qed.
Theorem C08_pairs_spec : forall t, wf_tree t = true ->
  cur_map (filter is_pair_item) (scan t) = CVal (filter is_pair_item (map Cursor.to_item (flatten t))).
Proof. exact pairs_spec. Qed.
Print Assumptions C08_pairs_spec.

(* point lookups are association in the flattened (sorted) entry list *)
Theorem C08_get_spec : forall t k, wf_tree t = true ->
  Cursor.get t k = option_map Cursor.to_item (find (fun e => beq (lent_key e) k) (flatten t)).
Proof. exact get_spec. Qed.
Print Assumptions C08_get_spec.

(* ---- on every tree the engine model commits (any history, any bucket), not only on trees assumed well-formed: the cursor
   machine's get / scan / every range / seek agree with the reference (EngineReadBridge.history_read, quoted in full in
   props/C01.v as C01_committed_data_reads_back_as_reference). The read-path specifications hold without the equal-height
   conjunct of wf_tree (NH.*_nh), which is what the engine's invariant provides. ---- *)
From Jamm Require EngineReadBridge.
Theorem C08_read_specs_without_height : forall t k, EngineReadBridge.NH.wf_tree_nh t = true ->
  Cursor.get t k = option_map Cursor.to_item (find (fun e => beq (lent_key e) k) (flatten t)).
Proof. exact EngineReadBridge.NH.get_spec_nh. Qed.
Print Assumptions C08_read_specs_without_height.

(* ---- and INSIDE a write transaction (model/EngineScan.v: the overlay of materialised nodes over mapped pages as the tree
   the cursor walks, leaves emptied by the transaction included): after any operations, at any nested bucket path, the
   cursor machine's get / scan / every range / seek = the reference's answers ---- *)
From Jamm Require Engine EngineAbs EnginePathFacts EngineScan EngineTxScan.
Theorem C08_inside_write_tx : forall st ops path o x es, EnginePathFacts.db_pages_wf st ->
  Forall (EnginePathFacts.op_ok (Engine.d_disk st)) ops ->
  Spec.get_at path (EngineAbs.sem_tx ops (EngineAbs.abs_db st)) = Some (Spec.SBucket o x es) ->
  let b := Spec.SBucket o x es in
  (forall k, EngineScan.tx_cget st ops path k = Engine.Ok (EngineReadBridge.ref_get b k)) /\
  EngineScan.tx_scan st ops path = Engine.Ok (CVal (Spec.items_of b)) /\
  (forall lo hi, EngineScan.tx_range st ops path lo hi =
     Engine.Ok (CVal (filter (fun i => Spec.in_bounds lo hi (Spec.item_key i)) (Spec.items_of b)))) /\
  (forall k, exists l, EngineScan.tx_seek st ops path k = Engine.Ok (EngineReadBridge.ref_found b k, CVal l) /\
     if EngineReadBridge.ref_found b k then l = Spec.from_succ k (Spec.items_of b)
     else l = Spec.from_pred k (Spec.items_of b) \/ l = Spec.from_succ k (Spec.items_of b)).
Proof. exact EngineTxScan.tx_reads_cursor. Qed.
Print Assumptions C08_inside_write_tx.
