(* placeholder until the C08 theorems land *)
From Jamm Require Import Cursor.
Lemma c08_placeholder : True. Proof. exact I. Qed.
Print Assumptions c08_placeholder.
