(* C13 -- only one process at a time has the database open.
   Model: model/Proc.v, the process-level transition system of OpenOptions::open at system-call granularity, for
   ANY number of processes and ANY schedule. The GENERATED flag Consts.lock_before_init says which protocol the
   source implements; the system-call word of every real open is checked against the automaton on every run. *)
From Coq Require Import List.
From Jamm Require Import Consts Proc ProcFacts.
Import ListNotations.

(* two openers are never inside the database at the same time (either protocol) *)
Theorem C13_one_inside : forall lf c n s0 s,
  s0 = pinit n \/ s0 = pinit_existing c n -> preachable lf s0 s -> one_inside s.
Proof. exact C13_mutex. Qed.
Print Assumptions C13_one_inside.

(* repaired protocol: no opener fails (no AlreadyExists, no panic on a half-created file) ... *)
Theorem C13_nobody_fails : forall c n s0 s,
  s0 = pinit n \/ s0 = pinit_existing c n -> preachable true s0 s -> nobody_failed s.
Proof. exact C13_no_failure. Qed.
Print Assumptions C13_nobody_fails.

(* ... whoever is inside sees an initialised file holding every commit made so far ... *)
Theorem C13_sees_everything : forall c n s0 s,
  s0 = pinit n \/ s0 = pinit_existing c n -> preachable true s0 s -> sees_all s.
Proof. exact C13_sees_all. Qed.
Print Assumptions C13_sees_everything.

(* ... and a waiting opener is never stuck: the lock holder can always move *)
Theorem C13_no_deadlock : forall c n s0 s,
  s0 = pinit n \/ s0 = pinit_existing c n -> preachable true s0 s ->
  p_all_done s = false -> exists i s', pstep true s i = Some s'.
Proof. exact C13_progress. Qed.
Print Assumptions C13_no_deadlock.

Theorem C13_source_locks_first : lock_before_init = true.
Proof. reflexivity. Qed.

(* the pinned protocol (create and initialise, then lock) violates the property *)
Theorem C13_pinned_refuted_thm : ~ (forall s, preachable false (pinit 2) s -> nobody_failed s).
Proof. exact C13_pinned_refuted. Qed.
Print Assumptions C13_pinned_refuted_thm.
