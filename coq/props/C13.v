(* placeholder until the C13 theorems land *)
Lemma c13_placeholder : True. Proof. exact I. Qed.
Print Assumptions c13_placeholder.
