(* C12 -- damage to one header page falls back to the other. *)
From Coq Require Import List NArith String.
From Coq.Strings Require Import Byte.
From Jamm Require Import Bytes Fnv Consts CLayout Meta FnvFacts MetaFacts.
Import ListNotations.
Local Open Scope N_scope.

(* the checksum covers every stored field: pinned against the GENERATED hash_fields / struct layout, so
   dropping a field from hash_self (or adding an unhashed field to Meta) breaks these two lemmas *)
Theorem C12_hash_covers_all_fields :
  forallb field_hashed ["meta_page";"magic";"version";"pagesize";"root.root_page";"root.next_int";"num_pages";"freelist_page";"tx_id"]%string = true.
Proof. exact hash_covers_all_fields. Qed.
Theorem C12_stored_fields :
  CLayout.field_names "Meta" = ["meta_page";"magic";"version";"pagesize";"root.root_page";"root.next_int";"num_pages";"freelist_page";"tx_id";"hash"]%string.
Proof. exact stored_fields_pinned. Qed.

(* FNV-1a: one changed byte anywhere in the input always changes the 64-bit checksum *)
Theorem C12_fnv_one_byte : forall (pre suf : bytes) (b1 b2 : byte), b1 <> b2 ->
  fnv (pre ++ b1 :: suf) <> fnv (pre ++ b2 :: suf).
Proof. exact fnv_one_byte. Qed.
Print Assumptions C12_fnv_one_byte.

(* every single-byte change at every offset of a header page: the slot becomes invalid exactly when the
   byte is significant (a hashed field, the checksum, the page-type byte), is unchanged otherwise; never a
   panic when open() checks the page type (ct = true: the repaired code; the GENERATED flag
   Consts.meta_checks_page_type says which one the source is) *)
Theorem C12_damage_one_byte : forall ct P m off b,
  meta_wf m -> meta_end <= P -> off < P ->
  let pg := encode_meta_page P (with_hash m) in
  nth_error pg (N.to_nat off) <> Some b ->
  read_slot ct (damage pg off b) =
    if significant ct off then SlotInvalid
    else if (off =? off_pg_type) then SlotPanic
    else SlotValid (with_hash m).
Proof. exact damage_one_byte. Qed.
Print Assumptions C12_damage_one_byte.

(* opening after the damage: the other header's state if the byte was significant, no change otherwise *)
Theorem C12_open_after_damage : forall P m0 m1 (slot : bool) off b,
  meta_wf m0 -> meta_wf m1 -> meta_end <= P -> off < P -> m_psz m0 = P -> m_psz m1 = P ->
  let pg0 := encode_meta_page P (with_hash m0) in let pg1 := encode_meta_page P (with_hash m1) in
  let d := fun pg => damage pg off b in
  nth_error (if slot then pg1 else pg0) (N.to_nat off) <> Some b ->
  select_slots P (read_slot true (if slot then pg0 else d pg0)) (read_slot true (if slot then d pg1 else pg1)) =
    if significant true off then SelMeta (with_hash (if slot then m0 else m1))
    else select_slots P (SlotValid (with_hash m0)) (SlotValid (with_hash m1)).
Proof. exact open_after_damage. Qed.
Print Assumptions C12_open_after_damage.

(* the source at hand is the repaired one (generated) *)
Theorem C12_source_checks_page_type : meta_checks_page_type = true.
Proof. reflexivity. Qed.

(* ==== END TO END with copy-on-write (engine model + byte level): take the file of a reachable state, commit one more transaction
   (the file is UPDATED in place: written page runs, new free-list run, new header in the other slot), then destroy the new header
   (any content that does not validate; C12_* above: any single significant byte). Opening the result returns the PREVIOUS
   header with its free ids and free-list run; the executable file checker and the model of the library's own check accept the
   file; and every bucket of the previous commit reads back the reference contents -- nothing the lost transaction wrote
   touched a page the previous commit uses. (`writes_fit` / `phys_ok` / `tree_fits`: decidable physical limits.) ==== *)
From Jamm Require Bytes Spec Codec Tree CheckM Engine EngineAbs EnginePathFacts EngineRefines EngineCow EngineReadBridge EngineFileImage EngineReopen EngineFallback.
Theorem C12_engine_fallback_reads_previous_commit : forall (st : Engine.db) (ops : list Engine.op) (ord : list Bytes.bytes)
    (st' : Engine.db) (pad : N -> Byte.byte) (P : N) (other : list Byte.byte),
  EngineReopen.db_inv st -> Forall (EnginePathFacts.op_ok (Engine.d_disk st)) ops ->
  Engine.run_tx st ops ord = Engine.Ok st' -> EngineRefines.readable st' ->
  EngineFileImage.tree_fits P st -> EngineFileImage.phys_ok P st -> EngineFileImage.phys_ok P st' ->
  List.length other = N.to_nat P ->
  exists w : list (N * (N * Engine.ndata)),
    EngineCow.tx_cow st st' w /\
    (EngineFallback.writes_fit P st w ->
     forall pg' : list Byte.byte, List.length pg' = N.to_nat P -> Meta.read_slot true pg' = Meta.SlotInvalid ->
     let rd := Codec.reader_of (EngineFallback.damaged_image pad P (EngineFileImage.file_image pad P st other) st st' w pg') in
     Tree.open_db rd P = Codec.Ok (EngineFallback.opened_of P st) /\
     Tree.inv_check rd P = Codec.Ok tt /\ CheckM.check_m rd P = Codec.Ok tt /\
     (forall path : list Bytes.bytes,
      match Spec.get_at path (EngineAbs.abs_db st) with
      | Some (Spec.SBucket o x es) =>
          exists (r : N) (t : Tree.tree),
            EngineReadBridge.BytesLevel.root_at_b rd P (Engine.d_root st) path = Some r /\
            Tree.build_tree Engine.fuel0 rd P r = Codec.Ok t /\
            EngineReadBridge.NH.wf_tree_nh t = true /\ EngineReadBridge.cursor_agrees t (Spec.SBucket o x es)
      | _ => EngineReadBridge.BytesLevel.root_at_b rd P (Engine.d_root st) path = None
      end)).
Proof. exact EngineFallback.run_tx_fallback. Qed.
Print Assumptions C12_engine_fallback_reads_previous_commit.
