(* placeholder until the C12 theorems land *)
Lemma c12_placeholder : True. Proof. exact I. Qed.
Print Assumptions c12_placeholder.
