(* C16 -- open options change performance, not behaviour.
   The reference (spec/Spec.v) has no configuration parameter at all: "the same history gives the same results
   under every configuration" is, on the model side, the statement that the library equals the reference under
   every configuration -- validated by replaying histories under the configuration grid (translation
   validation), not proved (it inherits C01's unproved write path).
   Proved here: which configurations the builder accepts (from the GENERATED guards) and that exactly those keep
   every in-place page structure aligned; the pinned builder (no alignment guard) is refuted. *)
From Coq Require Import NArith Bool.
From Jamm Require Import Bytes Consts Meta CfgFacts.
Local Open Scope N_scope.

Theorem C16_builder_accepts : forall P n, builder_accepts P n = true <-> valid_cfg P n.
Proof. exact builder_accepts_iff. Qed.
Print Assumptions C16_builder_accepts.

Theorem C16_source_guards : min_pagesize = 1024 /\ pagesize_align = 8 /\ min_num_pages = 4.
Proof. exact source_guards. Qed.

Theorem C16_aligned : forall P n pid, valid_cfg P n ->
  (pid * P + off_pg_id) mod 8 = 0 /\ (pid * P + off_pg_count) mod 8 = 0 /\
  (pid * P + off_pg_overflow) mod 8 = 0 /\ (pid * P + payload_off) mod 8 = 0.
Proof. exact header_fields_aligned. Qed.
Print Assumptions C16_aligned.

Theorem C16_unaligned_refuted : exists P pid, 1024 <= P /\ P mod 8 <> 0 /\ (pid * P) mod 8 <> 0.
Proof. exact unaligned_pagesize_refuted. Qed.
Print Assumptions C16_unaligned_refuted.

(* ---- strict mode: the library's own consistency check (DB::check, modelled by CheckM.check_m and compared with
   the library's verdict on every snapshot) accepts every file the model's file checker accepts -- so switching
   strict mode on can never turn a valid commit into an error. *)
From Jamm Require Import Codec Tree CheckM CheckFacts.
Theorem C16_strict_never_rejects_valid : forall rd P, inv_check rd P = Ok tt -> check_m rd P = Ok tt.
Proof. exact inv_check_implies_check_m. Qed.
Print Assumptions C16_strict_never_rejects_valid.

(* ---- the page size, at the level of the engine model: two engines configured with different page sizes and fed the same
   transactions commit the same contents (both equal the reference's, by the refinement theorem of C01). `txs_ok'` carries
   only the side conditions that reflect the model's fuels (paths < 8, trees of height <= 64). ---- *)
From Jamm Require Engine EngineAbs EngineRefines EngineAllocInv EngineCorollaries.
Theorem C16_page_size_irrelevant : forall P1 P2 txs st1 st2, 0 < P1 -> 0 < P2 ->
  EngineAllocInv.txs_ok' (Engine.init_db P1) txs -> EngineAllocInv.txs_ok' (Engine.init_db P2) txs ->
  EngineRefines.run_txs (Engine.init_db P1) txs = Engine.Ok st1 ->
  EngineRefines.run_txs (Engine.init_db P2) txs = Engine.Ok st2 ->
  EngineAbs.abs_db st1 = EngineAbs.abs_db st2.
Proof. exact EngineCorollaries.page_size_irrelevant. Qed.
Print Assumptions C16_page_size_irrelevant.

(* ---- strict mode on the engine's files: the model of DB::check accepts the complete image of every state a history reaches
   (quoted in full as C05_file_checker_accepts_every_engine_file); here the freshly initialised file, at every page size ---- *)
From Jamm Require Bytes Codec Tree Meta CheckM Engine EngineFileImage.
Theorem C16_strict_accepts_fresh_file : forall (pad : N -> Byte.byte) (P : N), Meta.meta_end <= P -> 4 * P < 2 ^ 64 ->
  let F := EngineFileImage.file_image pad P (Engine.init_db P) (Meta.encode_meta_page P (Meta.init_meta P 1)) in
  Tree.inv_check (Codec.reader_of F) P = Codec.Ok tt /\ CheckM.check_m (Codec.reader_of F) P = Codec.Ok tt.
Proof. exact EngineFileImage.init_file_checked. Qed.
Print Assumptions C16_strict_accepts_fresh_file.

(* ---- and what a write transaction READS does not depend on the page size either: after the same committed transactions,
   after any operations so far, at any bucket path, get / full scan / every range / seek of a present key answer the same
   under two page sizes (for an absent key the property lets seek land on either neighbour: that does depend on where the
   leaves are cut, and is compared against both alternatives) ---- *)
From Coq Require Import List.
From Jamm Require Spec EnginePathFacts EngineReadBridge EngineScan EngineCfgReads.
Theorem C16_reads_page_size_irrelevant : forall P1 P2 txs st1 st2 ops path o x es, 0 < P1 -> 0 < P2 ->
  EngineAllocInv.txs_ok' (Engine.init_db P1) txs -> EngineAllocInv.txs_ok' (Engine.init_db P2) txs ->
  EngineRefines.run_txs (Engine.init_db P1) txs = Engine.Ok st1 ->
  EngineRefines.run_txs (Engine.init_db P2) txs = Engine.Ok st2 ->
  Forall (EnginePathFacts.op_ok (Engine.d_disk st1)) ops -> Forall (EnginePathFacts.op_ok (Engine.d_disk st2)) ops ->
  Spec.get_at path (EngineAbs.sem_tx ops (EngineAbs.abs_db st1)) = Some (Spec.SBucket o x es) ->
  EngineScan.tx_scan st1 ops path = EngineScan.tx_scan st2 ops path /\
  (forall k, EngineScan.tx_cget st1 ops path k = EngineScan.tx_cget st2 ops path k) /\
  (forall lo hi, EngineScan.tx_range st1 ops path lo hi = EngineScan.tx_range st2 ops path lo hi) /\
  (forall k, EngineReadBridge.ref_found (Spec.SBucket o x es) k = true ->
             EngineScan.tx_seek st1 ops path k = EngineScan.tx_seek st2 ops path k).
Proof. exact EngineCfgReads.reads_page_size_irrelevant. Qed.
Print Assumptions C16_reads_page_size_irrelevant.
