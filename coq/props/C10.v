(* C10 -- freed space is reused: file growth is bounded by live data.
   (i) the allocator (model/Freelist.v = freelist.rs transliterated, replayed against the library's alloc / free /
       publish events on every run) finds a run whenever one exists: the file grows ONLY when no run fits;
   (ii) pages become reusable exactly when no registered reader can still need them, also across reopen;
   (iii) plateau: with no reader pinned, the high-water mark is bounded by two generations of live data. *)
From Coq Require Import List NArith.
From Jamm Require Import Bytes PL Freelist PLFacts PLProps FreelistFacts.
Import ListNotations.
Local Open Scope N_scope.

(* allocation is sound (the run is free, consecutive, the FIRST such run, and exactly it is removed) ... *)
Theorem C10_alloc_sound : forall fr n p fr', asc fr -> ge2 fr -> 0 < n -> fl_allocate fr n = Some (p, fr') ->
  (forall i, i < n -> In (p + i) fr) /\
  (forall x, In x fr' <-> In x fr /\ ~ (p <= x < p + n)) /\ asc fr' /\
  (forall q, (forall i, i < n -> In (q + i) fr) -> p <= q).
Proof. exact alloc_sound. Qed.
Print Assumptions C10_alloc_sound.

(* ... and complete: the file is extended only when the free set holds no run of the requested length *)
Theorem C10_alloc_complete : forall fr n, asc fr -> ge2 fr -> 0 < n -> fl_allocate fr n = None ->
  ~ exists q, forall i, i < n -> In (q + i) fr.
Proof. exact alloc_complete. Qed.
Print Assumptions C10_alloc_complete.

(* a beginning writer releases pending[u] iff u is older than every registered reader (and than itself) *)
Theorem C10_release_exact : forall s t f1 p1, writer_view s = (t, f1, p1) ->
  forall u ps, In (u, ps) (pend s) ->
    (u < min_reader s t -> incl ps f1) /\ (min_reader s t <= u -> In (u, ps) p1).
Proof. exact release_exact. Qed.
Print Assumptions C10_release_exact.

(* with no reader open, everything freed by earlier commits is reusable by the next writer *)
Theorem C10_release_all_without_readers : forall s t f1 p1, PLInv s -> readers s = [] -> writer_view s = (t, f1, p1) ->
  p1 = [] /\ (forall x, In x f1 <-> In x (free s) \/ In x (pend_all (pend s))).
Proof. exact release_all_no_readers. Qed.

(* while a reader pins a snapshot its pages are retained ... *)
Theorem C10_pinned_retained : forall s r L t f1 p1, PLInv s -> In (r, L) (readers s) -> writer_view s = (t, f1, p1) ->
  forall x, In x L -> ~ In x f1.
Proof. exact pinned_retained. Qed.

(* ... and close + reopen keeps every free and pending page reusable *)
Theorem C10_reopen_keeps : forall s f s', accept s (EReopen f) = Some s' ->
  forall x, In x (free s') <-> In x (free s) \/ In x (pend_all (pend s)).
Proof. exact reopen_keeps. Qed.
Print Assumptions C10_reopen_keeps.

(* plateau: no reader, commits grow the file only when the writer's free list is exhausted (what C10_alloc_complete
   gives for single-page allocations), live data <= M pages, <= K pages allocated-and-freed inside one transaction:
   the high-water mark never exceeds max(initial, 2 + 2M + K), whatever the number of transactions *)
Theorem C10_plateau : forall M K es s s', PLInv s -> readers s = [] -> accept_all s es = Some s' ->
  run_ok (plateau_hyp M K) s es -> np s' <= N.max (np s) (2 + 2 * M + K).
Proof. exact plateau. Qed.
Print Assumptions C10_plateau.

(* ---- the engine model: nothing freed is ever lost. In every state a history reaches, the ids recorded on the free-list page are
   EXACTLY the pages below the high-water mark that no reachable node and not the free-list run itself occupies -- so every page a
   transaction frees is available to a later transaction's allocator (which takes the first fitting run: C10_alloc_sound /
   _complete above), and the file can only grow when no recorded run fits. ---- *)
From Jamm Require Engine EngineRefines EngineOwnDefs EngineAllocInv EngineNoLeakDefs EngineNoLeak.
Theorem C10_engine_no_page_is_lost : forall st : Engine.db, EngineNoLeak.db_exact_rec st ->
  forall x : N, In x (Engine.d_flids st) <->
    ((2 <= x)%N /\ (x < Engine.d_np st)%N) /\ ~ In x (EngineRefines.live_of st (EngineOwnDefs.Rof st)).
Proof. exact EngineNoLeak.flids_exact. Qed.
Print Assumptions C10_engine_no_page_is_lost.

(* ---- with read transactions (EngineR.v): pages freed while a reader is open stay pending, never lost; as soon as no reader is
   open the next writer releases EVERY pending batch into its free list; and along every history with readers the free-list
   record stays exactly the set of unused pages ---- *)
From Jamm Require PL EngineR EngineReadersInv EngineReaders EngineReadersExact.
Theorem C10_engine_reuse_when_no_reader : forall (k : N) (cur : Engine.db) (ops : list Engine.op) (ord : list Bytes.bytes),
  EngineReadersInv.db_okr cur ->
  EngineR.bound_k k (cur, nil) = (Engine.d_tx cur + 1)%N /\
  EngineR.step_k k (cur, nil) (EngineR.Tx ops ord) =
    Engine.bind (Engine.run_tx cur ops ord) (fun st' : Engine.db => Engine.Ok (st', nil)) /\
  EngineR.begin_w_r cur (EngineR.bound_k k (cur, nil)) = Engine.begin_w cur /\
  Engine.pending (Engine.begin_w cur) = nil /\
  (forall x : N, In x (Engine.d_free cur) \/ In x (PL.pend_all (Engine.d_pending cur)) ->
     In x (Engine.free (Engine.begin_w cur))).
Proof. exact EngineReaders.reuse_when_no_reader. Qed.
Print Assumptions C10_engine_reuse_when_no_reader.

Theorem C10_engine_no_page_is_lost_with_readers : forall (k P : N) (es : list EngineR.hstep) (h' : EngineR.hstate),
  (k <= 1)%N -> (0 < P)%N -> EngineReaders.hist_ok k (Engine.init_db P, nil) es ->
  EngineR.run_hist_k k (Engine.init_db P, nil) es = Engine.Ok h' ->
  EngineNoLeak.db_exact_rec (fst h') /\
  (forall x : N, In x (Engine.d_flids (fst h')) <->
     ((2 <= x)%N /\ (x < Engine.d_np (fst h'))%N) /\ ~ In x (EngineRefines.live_of (fst h') (EngineOwnDefs.Rof (fst h')))).
Proof. exact EngineReadersExact.hist_exact_init. Qed.
Print Assumptions C10_engine_no_page_is_lost_with_readers.

(* ---- close + reopen in the engine model: the free list rebuilt from the free-list page holds every id that was free or
   pending (nothing freed before the close is lost), and histories of transactions and reopens keep the exact partition ---- *)
From Jamm Require Spec EngineAbs EngineSpillDepth EngineReopen.
Theorem C10_engine_reopen_keeps_every_reusable_page : forall st : Engine.db, EngineNoLeak.flids_ok st ->
  forall x : N, In x (Engine.d_free (Engine.reopen_db st)) <->
                In x (Engine.d_free st) \/ In x (PL.pend_all (Engine.d_pending st)).
Proof. exact EngineReopen.reopen_free_all. Qed.
Print Assumptions C10_engine_reopen_keeps_every_reusable_page.

Theorem C10_engine_histories_with_reopen : forall (P : N) (hs : list EngineReopen.hop) (st' : Engine.db),
  (0 < P)%N -> EngineReopen.hops_ok (Engine.init_db P) hs ->
  EngineReopen.run_hops (Engine.init_db P) hs = Engine.Ok st' ->
  EngineNoLeak.db_exact_rec st' /\ EngineSpillDepth.db_okd st' /\ EngineReadersInv.db_okr st' /\
  EngineAbs.abs_db st' = EngineReopen.sem_hops hs (Spec.SBucket 0 0 nil) /\
  (forall x : N, In x (Engine.d_flids st') <->
     ((2 <= x)%N /\ (x < Engine.d_np st')%N) /\ ~ In x (EngineRefines.live_of st' (EngineOwnDefs.Rof st'))).
Proof. exact EngineReopen.run_hops_exact_init. Qed.
Print Assumptions C10_engine_histories_with_reopen.
