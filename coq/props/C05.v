(* C05 -- every committed file is well-formed and accounts for each page exactly once.
   (i) page accounting: invariant of the page-lifecycle machine over every accepted history;
   (ii) the byte-level decoder used by the file checker inv_check is the inverse of the encoder (codec);
   (iii) inv_check itself (model/Tree.v) is executable and is run on every committed file. *)
From Coq Require Import List NArith.
From Jamm Require Import Bytes Codec PL PLFacts PLProps CodecFacts.
Import ListNotations.

Theorem C05_invariant_reachable : forall es s, accept_all init_pl es = Some s -> PLInv s.
Proof. exact reachable_inv. Qed.
Print Assumptions C05_invariant_reachable.

(* each page in [2, np) is exactly one of: live (reachable or free-list run), free, pending *)
Theorem C05_partition : forall s, PLInv s -> forall x, (2 <= x < np s)%N ->
  (In x (live s) /\ ~ In x (free s) /\ ~ In x (pend_all (pend s))) \/
  (~ In x (live s) /\ In x (free s) /\ ~ In x (pend_all (pend s))) \/
  (~ In x (live s) /\ ~ In x (free s) /\ In x (pend_all (pend s))).
Proof. exact partition. Qed.
Print Assumptions C05_partition.

Theorem C05_no_duplicates : forall s, PLInv s ->
  NoDup (live s) /\ NoDup (free s) /\ NoDup (pend_all (pend s)).
Proof. exact partition_NoDup. Qed.

(* numeric form: the high-water mark is exactly 2 + #live + #free + #pending *)
Theorem C05_page_count : forall s, PLInv s ->
  np s = (2 + card (live s) + card (free s) + card (pend_all (pend s)))%N.
Proof. exact page_count. Qed.
Print Assumptions C05_page_count.

(* the decoder inverts the encoder for every page body and every content of the uninitialised bytes, and
   (decode_page returns Bad otherwise) every element lies inside its page run *)
Theorem C05_codec : forall pad P pid over b rd,
  (0 < P)%N -> (pid < 2^64)%N -> (over < 2^64)%N -> body_ok b -> (body_size b < 2^64)%N ->
  (body_size b <= (over + 1) * P)%N ->
  reads_buffer rd (pid * P) (encode_page pad pid over b) ->
  decode_page rd P pid = Ok (mkPhdr pid (body_type b) (body_count b) over, b).
Proof. exact codec_page. Qed.
Print Assumptions C05_codec.

(* ---- what "inv_check = Ok" (the executable file checker run on every committed file) MEANS, for every file:
   the pages reachable from the root, the free-list page run and the recorded free ids are pairwise disjoint and
   together are exactly pages 2 .. num_pages-1 -- so the per-file verdict the checks print is this statement. *)
From Coq Require Import Permutation.
From Jamm Require Import Meta Tree CheckM CheckFacts.
Theorem C05_inv_check_means_partition : forall rd P, inv_check rd P = Ok tt ->
  exists o reach, open_db rd P = Ok o /\ (4 <= m_np (o_meta o))%N /\
    bucket_pages (N.to_nat (m_np (o_meta o))) rd P (m_np (o_meta o)) (m_root (o_meta o)) = Ok reach /\
    covers rd P [m_root (o_meta o)] reach /\
    Permutation (reach ++ o_flrun o ++ o_free o) (seqN 2 (N.to_nat (m_np (o_meta o) - 2))) /\
    NoDup (reach ++ o_flrun o ++ o_free o).
Proof. exact inv_check_partition. Qed.
Print Assumptions C05_inv_check_means_partition.

(* ---- the engine model: every state a history of transactions reaches from the empty database satisfies the strict tree
   invariant (sorted keys inside their separators' intervals, separator = first key of its page, no page named twice in a
   bucket), the allocation invariant (free and pending ids inside [2, num_pages), disjoint from every reachable page run --
   overflow pages included -- and from the free-list run), and no two reachable nodes or the free-list run share a page.
   `txs_ok'` carries only the model's fuels. This is C05's "each page exactly one of reachable / free list / free" for the
   model, minus completeness (no leak), which is checked per file by inv_check. ---- *)
From Jamm Require Bytes Spec Engine EngineAbs EnginePathFacts EngineTxInvFacts EngineRefines EngineOwnDefs EngineAllocInv EngineCorollaries.
Theorem C05_engine_states_well_formed : forall P txs st', (0 < P)%N -> EngineAllocInv.txs_ok' (Engine.init_db P) txs ->
  EngineRefines.run_txs (Engine.init_db P) txs = Engine.Ok st' ->
  EngineTxInvFacts.db_strict st' /\ EngineRefines.alloc_ok st' (EngineOwnDefs.Rof st') /\
  NoDup (EngineRefines.live_of st' (EngineOwnDefs.Rof st')) /\ EngineOwnDefs.pend_le st'.
Proof. exact EngineCorollaries.reachable_states_ok. Qed.
Print Assumptions C05_engine_states_well_formed.

(* ==== C05 for the engine model, in full: every state a history of transactions reaches from the empty database accounts for each
   page of [2, num_pages) EXACTLY once -- it is in the run of a reachable node or in the free-list run (pairwise disjoint, no page
   shared: C05_engine_states_well_formed), or it is a free id, or a pending id; nothing is leaked; and the ids recorded on the
   free-list page are exactly the pages that are not live. ==== *)
From Jamm Require EngineNoLeakDefs EngineNoLeak.
Theorem C05_engine_exact_partition : forall (P : N) (txs : list (list Engine.op * list Bytes.bytes)) (st' : Engine.db),
  (0 < P)%N -> EngineAllocInv.txs_ok' (Engine.init_db P) txs ->
  EngineRefines.run_txs (Engine.init_db P) txs = Engine.Ok st' ->
  EngineNoLeakDefs.db_exact st' /\ EngineAbs.abs_db st' = EngineRefines.sem_txs txs (Spec.SBucket 0 0 nil).
Proof. exact EngineNoLeak.run_txs_exact_init. Qed.
Print Assumptions C05_engine_exact_partition.

Theorem C05_engine_exact_partition_step : forall (st : Engine.db) (ops : list Engine.op) (ord : list Bytes.bytes) (st' : Engine.db),
  EngineNoLeakDefs.db_exact st -> Forall (EnginePathFacts.op_ok (Engine.d_disk st)) ops ->
  Engine.run_tx st ops ord = Engine.Ok st' -> EngineRefines.readable st' -> EngineNoLeak.db_exact_rec st'.
Proof. exact EngineNoLeak.run_tx_exact_rec. Qed.
Print Assumptions C05_engine_exact_partition_step.

Theorem C05_engine_free_list_records_exactly_the_unused_pages : forall st : Engine.db, EngineNoLeak.db_exact_rec st ->
  forall x : N, In x (Engine.d_flids st) <->
    ((2 <= x)%N /\ (x < Engine.d_np st)%N) /\ ~ In x (EngineRefines.live_of st (EngineOwnDefs.Rof st)).
Proof. exact EngineNoLeak.flids_exact. Qed.
Print Assumptions C05_engine_free_list_records_exactly_the_unused_pages.

(* ---- the per-file checker's tree verdict accepts every file image the engine model produces: Tree.bucket_wf (the tree half of
   inv_check: shape, separators, key order, equal depth, element bounds), run with exactly the fuels inv_check passes, on the
   encoded bytes of any reachable state ---- *)
From Jamm Require Codec Tree EngineSpillDepth EngineReadBridge EngineReadFull.
Theorem C05_file_checker_accepts_engine_files : forall st pad rd P, EngineSpillDepth.db_okd st -> (0 < P)%N ->
  EngineReadBridge.BytesLevel.file_encodes pad rd P (Engine.d_disk st) (EngineOwnDefs.Rof st) ->
  Tree.bucket_wf (N.to_nat (Engine.d_np st)) rd P (Engine.d_np st) (Engine.d_root st) = Codec.Ok true.
Proof. exact EngineReadFull.FileChecker.state_bucket_wf. Qed.
Print Assumptions C05_file_checker_accepts_engine_files.

(* ==== the loop closed: the COMPLETE file image of any state a history reaches (header page with checksum, free-list page run
   holding the recorded ids, every tree page encoded, any padding bytes, an older or invalid header in the other slot) passes the
   executable file checker inv_check -- the very function the checks run on every file the real library commits -- and the model
   of the library's own DB::check. Hypotheses besides the history's side conditions: `tree_fits` / `phys_ok` (each node fits its
   page run, the free-list page run is large enough for its ids, 64-bit field bounds: decidable, and what inv_check's element
   bounds verify per file) and `other_ok` on the other header slot. ==== *)
From Jamm Require CheckM EngineFileImage.
Theorem C05_file_checker_accepts_every_engine_file : forall (P0 : N) (txs : list (list Engine.op * list Bytes.bytes)) (st' : Engine.db)
    (pad : N -> Byte.byte) (P : N) (other : Bytes.bytes),
  (0 < P0)%N -> EngineAllocInv.txs_ok' (Engine.init_db P0) txs ->
  EngineRefines.run_txs (Engine.init_db P0) txs = Engine.Ok st' ->
  EngineFileImage.tree_fits P st' -> EngineFileImage.phys_ok P st' -> EngineFileImage.other_ok P st' other ->
  Tree.inv_check (Codec.reader_of (EngineFileImage.file_image pad P st' other)) P = Codec.Ok tt /\
  CheckM.check_m (Codec.reader_of (EngineFileImage.file_image pad P st' other)) P = Codec.Ok tt.
Proof. exact EngineFileImage.history_inv_check. Qed.
Print Assumptions C05_file_checker_accepts_every_engine_file.

(* the same for the file UPDATED IN PLACE by a commit (the previous file with the written runs, the new free-list run and the new
   header spliced in -- what the library actually does), step by step: the updated file holds the new state and passes both
   checkers, and the conclusion re-establishes the premises for the next commit *)
From Jamm Require EngineCow EngineReopen EngineFallback EngineCarried.
Theorem C05_file_updated_in_place_stays_checked : forall (st : Engine.db) (ops : list Engine.op) (ord : list Bytes.bytes)
    (st' : Engine.db) (pad : N -> Byte.byte) (P : N) (F : list Byte.byte),
  EngineReopen.db_inv st -> Forall (EnginePathFacts.op_ok (Engine.d_disk st)) ops ->
  Engine.run_tx st ops ord = Engine.Ok st' -> EngineRefines.readable st' ->
  EngineFileImage.phys_ok P st -> EngineFileImage.phys_ok P st' -> EngineFileImage.tree_fits P st' ->
  List.length F = N.to_nat (Engine.d_np st * P) -> EngineFallback.holds pad P F st ->
  exists w : list (N * (N * Engine.ndata)),
    EngineCow.tx_cow st st' w /\ EngineFallback.carried st st' w /\ EngineReopen.db_inv st' /\
    (EngineFallback.writes_fit P st w ->
     let C := EngineFallback.commit_image pad P F st st' w in
     EngineFallback.holds pad P C st' /\ List.length C = N.to_nat (Engine.d_np st' * P) /\
     Tree.inv_check (Codec.reader_of C) P = Codec.Ok tt /\ CheckM.check_m (Codec.reader_of C) P = Codec.Ok tt).
Proof. exact EngineCarried.run_tx_commit_checked. Qed.
Print Assumptions C05_file_updated_in_place_stays_checked.
