(* placeholder until the C05 theorems land *)
Lemma c05_placeholder : True. Proof. exact I. Qed.
Print Assumptions c05_placeholder.
