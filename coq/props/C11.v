(* C11 -- a commit that reports an I/O error neither corrupts nor half-applies.
   Model: model/Crash.v fault_image (the k-th call of the commit's I/O sequence fails: applied, lost or
   torn; earlier calls applied) + mem_after (which shared free list the process keeps), for the I/O order and
   the publication rule the translator reads from the CURRENT source. *)
From Coq Require Import List NArith.
From Jamm Require Import Bytes Consts PL Crash CrashFacts CrashCurrent.
Import ListNotations.

(* on disk: exactly the pre-transaction state or exactly the post-transaction state, with all of its pages
   intact; in memory: the shared free list matches the header the next transaction will read *)
Theorem C11_fault : forall d cur newh t written, commit_setting d cur newh t written ->
  publish_on_visible_header = true ->
  forall k f, let img := fault_image t newh (negb (current_slot d)) d (commit_io written) k f in
  pre_or_post d cur newh t written img /\
  mem_consistent img cur newh (mem_after publish_on_visible_header false img newh).
Proof. exact fault_mem_current. Qed.
Print Assumptions C11_fault.

(* the source at hand publishes on the error path too (generated) *)
Theorem C11_source_publishes_on_visible : publish_on_visible_header = true.
Proof. exact current_publishes_on_visible. Qed.

(* the pinned behaviour violates the property: final sync fails after the header is visible *)
Theorem C11_pinned_refuted :
  exists d cur newh t written k f, commit_setting d cur newh t written /\
    let img := fault_image t newh (negb (current_slot d)) d (commit_io written) k f in
    select img = Some newh /\ mem_after false false img newh = MemOld.
Proof. exact fault_mem_pinned_refuted. Qed.
Print Assumptions C11_pinned_refuted.
