(* C11 -- a commit that reports an I/O error neither corrupts nor half-applies.
   Model: model/Crash.v fault_image (the k-th call of the commit's I/O sequence fails: applied, lost or
   torn; earlier calls applied) + mem_after (which shared free list the process keeps), for the I/O order and
   the publication rule the translator reads from the CURRENT source. *)
From Coq Require Import List NArith.
From Jamm Require Import Bytes Consts PL Crash CrashFacts CrashCurrent.
Import ListNotations.

(* on disk: exactly the pre-transaction state or exactly the post-transaction state, with all of its pages
   intact; in memory: the shared free list matches the header the next transaction will read *)
Theorem C11_fault : forall d cur newh t written, commit_setting d cur newh t written ->
  publish_on_visible_header = true ->
  forall k f, let img := fault_image t newh (negb (current_slot d)) d (commit_io written) k f in
  pre_or_post d cur newh t written img /\
  mem_consistent img cur newh (mem_after publish_on_visible_header false img newh).
Proof. exact fault_mem_current. Qed.
Print Assumptions C11_fault.

(* the source at hand publishes on the error path too (generated) *)
Theorem C11_source_publishes_on_visible : publish_on_visible_header = true.
Proof. exact current_publishes_on_visible. Qed.

(* the pinned behaviour violates the property: final sync fails after the header is visible *)
Theorem C11_pinned_refuted :
  exists d cur newh t written k f, commit_setting d cur newh t written /\
    let img := fault_image t newh (negb (current_slot d)) d (commit_io written) k f in
    select img = Some newh /\ mem_after false false img newh = MemOld.
Proof. exact fault_mem_pinned_refuted. Qed.
Print Assumptions C11_pinned_refuted.

(* ---- histories at the ENGINE level, with contents: the process does not crash. Some call of a commit's I/O sequence fails
   (the failing call applied, lost or torn), commit reports an error, and the SAME process goes on: from the new engine state
   when the image shows the new header (the library publishes the transaction's free list exactly then: the generated flag),
   from the old one -- in-memory free list untouched, no reopen -- otherwise; successful commits in between. After ANY such
   history the disk selects the final state's header with every page it needs settled, the complete engine invariant holds,
   and the database reads as the reference after EXACTLY the commits that are visible, in order: a commit that reported an
   error is either entirely there or entirely absent. ---- *)
From Jamm Require Engine EngineAbs EngineReopen EngineCow EngineCrashHistories EngineFaultHistories.
Theorem C11_engine_fault_histories : forall st0 cd0 l surv stf cdf,
  EngineFaultHistories.fault_run st0 cd0 l surv stf cdf -> EngineCrashHistories.Sim st0 cd0 -> EngineReopen.db_inv st0 ->
  EngineCrashHistories.Sim stf cdf /\ EngineReopen.db_inv stf /\
  EngineAbs.abs_db stf = EngineCrashHistories.sem_survivors surv (EngineAbs.abs_db st0).
Proof. exact EngineFaultHistories.engine_fault_history. Qed.
Print Assumptions C11_engine_fault_histories.

Theorem C11_engine_fault_histories_exist : forall l st cd, EngineCrashHistories.Sim st cd -> EngineReopen.db_inv st ->
  EngineFaultHistories.steps_okE st l -> exists surv stf cdf, EngineFaultHistories.fault_run st cd l surv stf cdf.
Proof. exact EngineFaultHistories.fault_run_total. Qed.
Print Assumptions C11_engine_fault_histories_exist.

(* which continuation the process takes is the one its memory is in: the generated publication rule *)
Theorem C11_memory_follows_image : forall st cd st' w k f, EngineCrashHistories.Sim st cd ->
  EngineCrashHistories.is_write_set st st' w ->
  let img := EngineFaultHistories.fault_img st st' w cd k f in
  let m := mem_after publish_on_visible_header false img (EngineCow.eng_header st') in
  (select img = Some (EngineCow.eng_header st') -> m = MemNew) /\
  (select img = Some (EngineCow.eng_header st) -> m = MemOld).
Proof. exact EngineFaultHistories.fault_memory_follows_image. Qed.
Print Assumptions C11_memory_follows_image.

(* a failure before the header write is invisible; a failure of the final sync leaves the commit visible *)
Theorem C11_fault_before_header_is_lost : forall st st' w cd k f,
  (k <= List.length (EngineCow.tx_written st st' w))%nat ->
  select (EngineFaultHistories.fault_img st st' w cd k f) = select cd.
Proof. exact EngineFaultHistories.fault_before_header_is_lost. Qed.
Theorem C11_fault_after_header_is_visible : forall st st' w cd k f,
  (List.length (EngineCow.tx_written st st' w) + 2 <= k)%nat ->
  EngineFaultHistories.fault_img st st' w cd k f = EngineFaultHistories.done_img st st' w cd.
Proof. exact EngineFaultHistories.fault_after_header_is_visible. Qed.
Print Assumptions C11_fault_after_header_is_visible.
Check EngineFaultHistories.ExFault.fail_then_retry. Check EngineFaultHistories.ExFault.two_faults.

(* ---- the whole alphabet in one history (EngineMixedHistories): completed commits, commits that report an I/O error (the
   process goes on), power losses during a commit followed by a reopen, clean reopens, and write transactions that are
   dropped without commit, in ANY order and number: the disk selects the final state's header with settled pages, the
   complete engine invariant holds, and the database reads as the reference after exactly the commits that survived, in
   order (an in-order sub-list of the commit-like events: `mixed_run_survivors`); a run exists whenever the model accepts
   the transactions on every continuation (`mixed_run_total`). ---- *)
From Jamm Require EngineAbs EngineReopen EngineCrashHistories EngineMixedHistories.
Theorem C11_engine_mixed_histories : forall st0 cd0 l surv stf cdf,
  EngineMixedHistories.mixed_run st0 cd0 l surv stf cdf -> EngineCrashHistories.Sim st0 cd0 -> EngineReopen.db_inv st0 ->
  EngineCrashHistories.Sim stf cdf /\ EngineReopen.db_inv stf /\
  EngineAbs.abs_db stf = EngineCrashHistories.sem_survivors surv (EngineAbs.abs_db st0).
Proof. exact EngineMixedHistories.engine_mixed_history. Qed.
Print Assumptions C11_engine_mixed_histories.
Check EngineMixedHistories.mixed_run_survivors. Check EngineMixedHistories.mixed_run_total. Check EngineMixedHistories.ExMixed.every_kind.
