(* C01 -- committed data reads back exactly as a reference ordered map would.
   PROVED (for all trees / pages / keys / operation lists / spill orders, no bound):
     read half  -- on every well-formed tree, point lookups, full scans, seeks and range scans return what the sorted association
                   list of its entries (= the reference map's view) returns; the page decoder inverts the page encoder;
     write half -- for the ENGINE MODEL (coq/model/Engine.v, the write path of the library transliterated: overlay nodes, put / delete /
                   nested buckets, rebalance, spill, free list, commit): C01_engine_history_refines_reference and
                   C01_engine_transaction_refines_and_keeps_invariant at the end of this file -- every history of transactions from the
                   empty database commits the reference's contents and re-establishes the complete invariant. Side conditions: the
                   model's fuels only (paths shorter than 8 buckets, trees of height <= 64, nesting <= 16, deleted trees < 100000 pages).
                   The theorems named C01_partial_* are the layers the proof is assembled from (each a statement of its own).
   NOT PROVED, CHECKED ON EVERY RUN: that Engine.v is what the Rust code does. That tie is the correspondence: the extracted engine
     must reproduce every file the library commits page for page (10 k commits per quick run), its thresholds and sizes are pinned to
     the constants the translator reads from the source (C01_engine_constants_from_source), every library call is compared with the
     extracted reference machine (= sem_tx, C01_reference_machine_is_sem_tx), and every committed file is decoded by the Gallina
     decoder (inv_check + contents = reference). *)
From Coq Require Import List NArith.
From Coq Require Import Permutation.
From Jamm Require Import Bytes Codec Tree Spec Cursor SearchFacts CursorFacts SeekFacts CodecFacts.
From Jamm Require Engine EngineAbs SpecPath EngineFacts EngineMergeFacts EngineModifyFacts EnginePathFacts EngineSpillFacts SpecPathFacts EngineRebalanceFacts EngineBridgeFacts EnginePins EngineTxInvFacts EngineSpillBucketFacts EngineRefines EngineOwnDefs EngineOwnSpill EngineAllocInv EngineDepth EngineNoPanic EngineSpillDepth EngineReadBridge EngineReadFull.
From Jamm Require Consts CLayout.
From Coq Require String.
Import Coq.Strings.String.StringSyntax. Delimit Scope string_scope with string.
Import ListNotations.

Theorem C01_partial_get : forall t k, wf_tree t = true ->
  Cursor.get t k = option_map Cursor.to_item (find (fun e => beq (lent_key e) k) (flatten t)).
Proof. exact get_spec. Qed.
Print Assumptions C01_partial_get.

Theorem C01_partial_scan : forall t, wf_tree t = true -> scan t = CVal (map Cursor.to_item (flatten t)).
Proof. exact scan_spec. Qed.
Print Assumptions C01_partial_scan.

Theorem C01_partial_codec : forall pad P pid over b rd,
  (0 < P)%N -> (pid < 2^64)%N -> (over < 2^64)%N -> body_ok b -> (body_size b < 2^64)%N ->
  (body_size b <= (over + 1) * P)%N ->
  reads_buffer rd (pid * P) (encode_page pad pid over b) ->
  decode_page rd P pid = Ok (mkPhdr pid (body_type b) (body_count b) over, b).
Proof. exact codec_page. Qed.
Print Assumptions C01_partial_codec.

(* ---- write half, node level (tier B, first layer): the engine model's leaf operations, merge and Engine.split.
   Engine.v is compared page-for-page with the library on every commit the checks run; these theorems say that its
   node-level steps are the reference map's steps on the node's sorted entry list. The lift to whole transactions
   (cursor descent + rebalance + spill over the tree) is NOT proved: that is why the property stays C01_partial. *)
Theorem C01_partial_engine_search_is_cursor_search : forall keys t,
  Engine.bsearch keys t = (let '(b, i) := Cursor.bsearch keys t in (b, N.of_nat i)).
Proof. exact EngineFacts.bsearch_agree. Qed.
Print Assumptions C01_partial_engine_search_is_cursor_search.

Theorem C01_partial_leaf_insert_refines : forall l e, sorted_keys (map Engine.lkey l) = true ->
  EngineFacts.assoc (Engine.leaf_insert l e) = Spec.ainsert (Engine.lkey e) e (EngineFacts.assoc l) /\ sorted_keys (map Engine.lkey (Engine.leaf_insert l e)) = true.
Proof. exact (fun l e H => conj (EngineFacts.leaf_insert_assoc l e H) (EngineFacts.leaf_insert_sorted l e H)). Qed.
Print Assumptions C01_partial_leaf_insert_refines.

Theorem C01_partial_leaf_delete_refines : forall l k, sorted_keys (map Engine.lkey l) = true ->
  EngineFacts.assoc (Engine.leaf_delete l k) = Spec.aremove k (EngineFacts.assoc l) /\ sorted_keys (map Engine.lkey (Engine.leaf_delete l k)) = true.
Proof. exact (fun l k H => conj (EngineFacts.leaf_delete_assoc l k H) (EngineFacts.leaf_delete_sorted l k H)). Qed.
Print Assumptions C01_partial_leaf_delete_refines.

Theorem C01_partial_merge_keeps_entries : forall l1 l2,
  sorted_keys (map Engine.lkey l1) = true -> sorted_keys (map Engine.lkey l2) = true ->
  EngineFacts.lkeys_below l2 l1 \/ EngineFacts.lkeys_below l1 l2 ->
  exists m, Engine.merge_data (Engine.Leaves l1) (Engine.Leaves l2) = Engine.Ok (Engine.Leaves m) /\
            sorted_keys (map Engine.lkey m) = true /\ Permutation m (l1 ++ l2) /\
            (EngineFacts.lkeys_below l2 l1 -> m = l2 ++ l1) /\ (EngineFacts.lkeys_below l1 l2 -> m = l1 ++ l2).
Proof. exact EngineFacts.merge_data_leaves. Qed.
Print Assumptions C01_partial_merge_keeps_entries.

Theorem C01_partial_split_keeps_entries : forall s d d0 rest, Engine.split s d = (d0, rest) ->
  concat (map EngineFacts.ents_of (d0 :: rest)) = EngineFacts.ents_of d /\ Forall (fun p => Engine.is_leaf p = Engine.is_leaf d) (d0 :: rest).
Proof. exact EngineFacts.split_concat. Qed.
Print Assumptions C01_partial_split_keeps_entries.

(* rebalance, one step: a child that does not need merging is only re-attached (nothing freed, nothing allocated) ... *)
Theorem C01_partial_merge_step_noop : forall d par k s,
  Engine.needs_merging s k = false ->
  Engine.try_merge d par k s = Engine.Ok (Engine.set_kids par (Engine.replace_kid (Engine.n_kids par) k), s).
Proof. exact EngineMergeFacts.try_merge_noop. Qed.
Print Assumptions C01_partial_merge_step_noop.

(* ... and merging a child into its materialised left sibling removes exactly its branch entry, frees exactly its
   page, and leaves the entries the transaction sees below the parent a permutation of what they were (with
   C01_partial_merge_keeps_entries: the same list, since both sides are sorted) *)
Theorem C01_partial_merge_step_left : forall fuel d par k s es ok idx kq q sb md ko par' s',
  Engine.needs_merging s k = true -> Engine.n_data par = Engine.Branches es -> (0 < Engine.dlen (Engine.n_data k))%N ->
  Engine.n_orig k = Some ok -> Engine.bsearch (map fst es) ok = (true, idx) -> (0 < idx)%N ->
  Engine.nthN es (idx - 1) = Some (kq, q) -> Engine.find_kid q (Engine.n_kids par) = Some sb ->
  Engine.merge_data (Engine.n_data sb) (Engine.n_data k) = Engine.Ok md ->
  Engine.nthN es idx = Some (ko, Engine.n_page k) ->
  Engine.find_kid (Engine.n_page k) (Engine.n_kids par) = Some k ->
  NoDup (map snd es) -> NoDup (map Engine.n_seq (Engine.n_kids par)) ->
  (forall x, In x (Engine.n_kids k) -> ~ In (Engine.n_page x) (EngineMergeFacts.dpages (Engine.n_data sb))) ->
  (forall x, In x (Engine.n_kids sb) -> ~ In (Engine.n_page x) (EngineMergeFacts.dpages (Engine.n_data k))) ->
  Engine.try_merge d par k s = Engine.Ok (par', s') ->
  Permutation (EngineMergeFacts.view_leaves fuel d par') (EngineMergeFacts.view_leaves fuel d par).
Proof. exact EngineMergeFacts.try_merge_left_view. Qed.
Print Assumptions C01_partial_merge_step_left.

(* ---- write half, tree level: put / delete on a whole (overlay) tree are the reference's insert / remove on its
   sorted entry list, keep it well-formed, and touch nothing of the transaction state but a counter ---- *)
Theorem C01_partial_put_refines : forall d b l k v s b' s',
  EngineModifyFacts.bucket_wf d b -> EngineModifyFacts.bucket_view d b l ->
  Engine.b_put d b k v s = Engine.Ok (b', s') ->
  exists l', EngineModifyFacts.bucket_wf d b' /\ EngineModifyFacts.bucket_view d b' l' /\
    EngineFacts.assoc l' = Spec.ainsert k (Engine.LKv k v) (EngineFacts.assoc l) /\
    Engine.b_next b' = (match Spec.alookup k (EngineFacts.assoc l) with None => Engine.b_next b + 1 | Some _ => Engine.b_next b end)%N /\
    EngineModifyFacts.same_but_seqc s s'.
Proof. exact EngineModifyFacts.b_put_refines. Qed.
Print Assumptions C01_partial_put_refines.

Theorem C01_partial_delete_refines : forall d b l k s b' s',
  EngineModifyFacts.bucket_wf d b -> EngineModifyFacts.bucket_view d b l ->
  Engine.b_delete d b k s = Engine.Ok (b', s') ->
  exists l', EngineModifyFacts.bucket_wf d b' /\ EngineModifyFacts.bucket_view d b' l' /\
    EngineFacts.assoc l' = Spec.aremove k (EngineFacts.assoc l) /\ Engine.b_next b' = Engine.b_next b /\
    EngineModifyFacts.same_but_seqc s s'.
Proof. exact EngineModifyFacts.b_delete_refines. Qed.
Print Assumptions C01_partial_delete_refines.

(* ---- write half, transaction level (before commit): the whole sequence of path-addressed operations of a write
   transaction -- nested buckets opened, created and deleted on the way -- leaves an overlay whose meaning is the
   functional semantics sem_tx of those operations applied to the committed meaning abs_db; run_tx is then exactly
   `commit` of that overlay. Side condition op_ok: paths shorter than 8, deleted trees below 100000 pages (the model's
   fuels; without it the statement is false: C01_unrestricted_statement_refuted). ---- *)
Theorem C01_partial_ops_refine : forall (st : Engine.db) (ops : list Engine.op) (ord : list Bytes.bytes),
  EnginePathFacts.db_pages_wf st -> Forall (EnginePathFacts.op_ok (Engine.d_disk st)) ops ->
  exists (root' : Engine.bucket) (s' : Engine.txs),
    Engine.run_tx st ops ord = Engine.commit st root' s' ord /\
    EnginePathFacts.ovl_wf (Engine.d_disk st) root' /\
    EnginePathFacts.OvlAbs (Engine.d_disk st) root' (EngineAbs.sem_tx ops (EngineAbs.abs_db st)) /\
    EnginePathFacts.tx_frees (Engine.begin_w st) s'.
Proof. exact EnginePathFacts.run_tx_ops. Qed.
Print Assumptions C01_partial_ops_refine.

Theorem C01_unrestricted_statement_refuted : forall db_wf : Engine.db -> Prop,
  db_wf (Engine.init_db 4096) -> ~ EngineAbs.run_tx_refines_unrestricted_stmt db_wf.
Proof. exact EnginePathFacts.run_tx_refines_stmt_false. Qed.
Print Assumptions C01_unrestricted_statement_refuted.

(* ---- the functional semantics IS the handle-based reference machine the library is compared with, call by call ---- *)
Theorem C01_reference_machine_is_sem_tx : forall (c : Spec.snode) (ops : list Engine.op), SpecPathFacts.wf c ->
  Spec.strip (Spec.t_root (SpecPath.p_tx (fold_left SpecPath.path_step ops (SpecPath.pinit c)))) =
  EngineAbs.sem_tx ops (Spec.strip c).
Proof. exact SpecPathFacts.path_machine_plain. Qed.
Print Assumptions C01_reference_machine_is_sem_tx.

(* ---- spill: writing a well-formed overlay tree out (split, fresh pages, new root levels) stores exactly the entries
   the transaction saw, on pages that were free, without touching any page it keeps; stated against ANY later write
   set w' of the same transaction that agrees on the pages written here ---- *)
Theorem C01_partial_spill_root : forall (fuel : nat) (d : Engine.disk) (keep live : list N) (f : nat)
    (n : Engine.node) (s : Engine.txs) (p : N) (s' : Engine.txs),
  EngineSpillFacts.fresh_inv live s ->
  Engine.n_data n = Engine.Leaves nil \/ EngineSpillFacts.swf fuel d keep None None n ->
  Engine.spill_root f n s = Engine.Ok (p, s') ->
  exists (alloc dead good : list N) (lv : nat),
    EngineSpillFacts.frame live s s' alloc dead /\
    (forall q : N, In q good -> In q alloc) /\ In p good /\ (lv <= f)%nat /\
    (forall x : N, EngineSpillFacts.old_run n x -> In x dead) /\
    (forall L : list N, (forall x : N, In x L -> In x live) -> EngineSpillFacts.old_in L n ->
       forall x : N, In x dead -> (In x L \/ In x alloc) /\ ~ In x good) /\
    (forall (w' : list (N * (N * Engine.ndata))) (P : N),
       EngineSpillFacts.wr_agree good (Engine.wr s') w' ->
       (forall x : N, In x keep -> EngineSpillFacts.wr_get w' x = None) ->
       forall F : nat, (lv + EngineSpillFacts.ndepth n + fuel <= F)%nat ->
       EngineAbs.page_ents F (EngineSpillFacts.apply_wr w' P d) p = EngineMergeFacts.view_leaves fuel d n).
Proof. exact EngineSpillFacts.spill_root_spec. Qed.
Print Assumptions C01_partial_spill_root.

(* ---- rebalance: on an overlay satisfying the strict invariant (every opened bucket: EngineRebalanceFacts.Deep), the
   whole rebalance pass (merges, removals of emptied nodes, root collapse, in every opened bucket) leaves each bucket's
   view list exactly as it was, keeps it well-formed, and touches nothing of the transaction state that decides
   allocation (free list, high-water mark, written pages) ---- *)
Theorem C01_partial_rebalance_keeps_view : forall (f fv : nat) (d : Engine.disk) (s : Engine.txs) (b : Engine.bucket)
    (l : list Engine.leafent) (vs : list (Bytes.bytes * EngineRebalanceFacts.bview)) (b' : Engine.bucket) (s' : Engine.txs),
  EngineRebalanceFacts.Deep fv d s b (EngineRebalanceFacts.BV l vs) ->
  Engine.rebalance f d b s = Engine.Ok (b', s') ->
  EngineModifyFacts.bucket_view d b' l /\ EngineModifyFacts.bucket_wf d b' /\
  Engine.b_next b' = Engine.b_next b /\ map fst (Engine.b_subs b') = map fst vs /\
  Engine.free s' = Engine.free s /\ Engine.np s' = Engine.np s /\ Engine.wr s' = Engine.wr s /\ Engine.txid s' = Engine.txid s.
Proof. exact EngineRebalanceFacts.rebalance_bucket_view. Qed.
Print Assumptions C01_partial_rebalance_keeps_view.

(* ---- spill of one bucket's tree, in the vocabulary of the overlay views: the page returned as the new root holds,
   on the final disk of the transaction, exactly the view list ---- *)
Theorem C01_partial_spill_bucket_root : forall (d : Engine.disk) (keep live : list N) (h : nat) (b : Engine.bucket)
    (n : Engine.node) (l : list Engine.leafent) (f : nat) (s : Engine.txs) (p : N) (s' s'' : Engine.txs) (a2 d2 : list N),
  Engine.b_rootn b = Some n -> EngineModifyFacts.bucket_wf d b -> EngineModifyFacts.BucketView d h b l ->
  EngineBridgeFacts.root_ready d keep n -> EngineSpillFacts.fresh_inv live s ->
  (forall x : N, In x keep -> In x live) ->
  (forall x : N, In x keep -> EngineSpillFacts.wr_get (Engine.wr s) x = None) ->
  Engine.spill_root f n s = Engine.Ok (p, s') ->
  exists (alloc dead : list N) (lv : nat),
    EngineSpillFacts.frame live s s' alloc dead /\ In p alloc /\ ~ In p live /\ (lv <= f)%nat /\
    (EngineSpillFacts.frame (alloc ++ live) s' s'' a2 d2 ->
     forall (P : N) (F : nat), (lv + EngineSpillFacts.ndepth n + h <= F)%nat ->
     EngineAbs.page_ents F (EngineSpillFacts.apply_wr (Engine.wr s'') P d) p = l).
Proof. exact EngineBridgeFacts.spill_bucket_root_view. Qed.
Print Assumptions C01_partial_spill_bucket_root.

(* ---- the tie of the engine model's thresholds and sizes to the source: the literals of model/Engine.v equal the
   constants the translator reads from /repo on this run ---- *)
Theorem C01_engine_constants_from_source :
  (Consts.min_keys = 2 /\ Consts.merge_div = 4 /\ Consts.fill_num = 1 /\ Consts.fill_den = 2 /\ Consts.split_min_mult = 2 /\
   CLayout.sizeof "Page"%string = 40 /\ CLayout.sizeof "LeafElement"%string = 32 /\ CLayout.sizeof "BranchElement"%string = 24 /\
   CLayout.sizeof "BucketMeta"%string = 16)%N.
Proof. exact EnginePins.engine_constants_pinned. Qed.
Print Assumptions C01_engine_constants_from_source.

(* ---- a whole transaction up to the start of spill: from a strict committed state, the operations leave an overlay
   meaning sem_tx ops (abs_db st) that satisfies the strict invariant in every opened bucket; rebalance then succeeds,
   keeps every view, and leaves the overlay ready to be spilled ---- *)
Theorem C01_partial_tx_until_spill : forall (st : Engine.db) (ops : list Engine.op) (ord : list Bytes.bytes) (st' : Engine.db),
  EngineTxInvFacts.db_strict st -> Forall (EnginePathFacts.op_ok (Engine.d_disk st)) ops ->
  Engine.run_tx st ops ord = Engine.Ok st' ->
  exists (root' : Engine.bucket) (s' : Engine.txs) (b1 : Engine.bucket) (s1 : Engine.txs) (fv : nat) (v : EngineRebalanceFacts.bview),
    EnginePathFacts.tx_fold st ops (Engine.root_bucket st, Engine.begin_w st) = Engine.Ok (root', s') /\
    EnginePathFacts.ovl_wf (Engine.d_disk st) root' /\
    EnginePathFacts.OvlAbs (Engine.d_disk st) root' (EngineAbs.sem_tx ops (EngineAbs.abs_db st)) /\
    EnginePathFacts.tx_frees (Engine.begin_w st) s' /\
    EngineTxInvFacts.SDeep (Engine.d_disk st) s' root' /\
    Engine.rebalance Engine.fuel0 (Engine.d_disk st) root' s' = Engine.Ok (b1, s1) /\
    EngineRebalanceFacts.Deep fv (Engine.d_disk st) s' root' v /\
    EngineRebalanceFacts.Deep fv (Engine.d_disk st) s1 b1 v /\
    EngineTxInvFacts.RDeep fv (Engine.d_disk st) s1 b1 v /\
    EngineRebalanceFacts.tx_frame s' s1 /\ Engine.b_next b1 = Engine.b_next root'.
Proof. exact EngineTxInvFacts.run_tx_rebalance_ready. Qed.
Print Assumptions C01_partial_tx_until_spill.

(* ---- commit: spilling a ready overlay (nested buckets, any spill order) and writing the free list yields a state
   whose committed meaning is the overlay's meaning; the new free-list run overlaps neither the new tree nor a live page ---- *)
Theorem C01_partial_commit_meaning : forall (st : Engine.db) (b : Engine.bucket) (s : Engine.txs) (ord : list Bytes.bytes)
    (st' : Engine.db) (b1 : Engine.bucket) (s1 : Engine.txs) (keep live : list N) (m : Spec.snode),
  Engine.rebalance Engine.fuel0 (Engine.d_disk st) b s = Engine.Ok (b1, s1) ->
  EngineSpillFacts.fresh_inv live s1 ->
  (forall x : N, In x keep -> In x live) ->
  (forall x : N, In x keep -> EngineSpillFacts.wr_get (Engine.wr s1) x = None) ->
  EngineSpillBucketFacts.SReady (Engine.d_disk st) keep b1 ->
  EnginePathFacts.OvlAbs (Engine.d_disk st) b1 m ->
  Engine.commit st b s ord = Engine.Ok st' ->
  exists (r nx : N) (s2 : Engine.txs) (ord' : list Bytes.bytes) (alloc dead : list N),
    Engine.spill_bucket Engine.fuel0 (Engine.d_disk st) b1 s1 ord = Engine.Ok (r, nx, s2, ord') /\
    EngineSpillFacts.frame live s1 s2 alloc dead /\
    Engine.d_root st' = r /\ Engine.d_next st' = nx /\ nx = Spec.b_next m /\
    (In r alloc \/ r = Engine.b_root_page b1) /\
    (forall x : N, (Engine.d_fl st' <= x /\ x < Engine.d_fl st' + Engine.d_fln st')%N -> ~ In x (alloc ++ live)) /\
    EngineSpillBucketFacts.Mean (Engine.d_disk st') (Engine.d_root st') (Engine.d_next st') m /\
    (EngineSpillBucketFacts.cpres 16 (Engine.d_disk st') (Engine.d_root st') -> EngineAbs.abs_db st' = m).
Proof. exact EngineSpillBucketFacts.commit_meaning. Qed.
Print Assumptions C01_partial_commit_meaning.

(* ==== THE TIER-B THEOREM (engine model, one transaction): from a committed state satisfying the strict tree invariant and the
   allocation invariant (db_ok), a transaction that the engine completes yields a state whose meaning is the functional
   semantics of its operations -- for every operation list within the model's fuels (op_ok), every spill order, every tree
   shape -- provided the NEW state's trees fit the reading fuel (readable: height <= 64, nesting <= 16; decidable, and
   evaluated on every state the model-side search visits). The functional semantics is the handle-based reference machine
   (C01_reference_machine_is_sem_tx). What ties the engine MODEL to the library is the page-for-page correspondence. ==== *)
Theorem C01_engine_transaction_refines_reference : forall (st : Engine.db) (ops : list Engine.op) (ord : list Bytes.bytes) (st' : Engine.db),
  EngineRefines.db_ok st -> Forall (EnginePathFacts.op_ok (Engine.d_disk st)) ops ->
  Engine.run_tx st ops ord = Engine.Ok st' -> EngineRefines.readable st' ->
  EngineAbs.abs_db st' = EngineAbs.sem_tx ops (EngineAbs.abs_db st).
Proof. exact EngineRefines.run_tx_meaning. Qed.
Print Assumptions C01_engine_transaction_refines_reference.

(* the strict tree invariant is re-established by every transaction ... *)
Theorem C01_engine_strict_invariant_kept : forall (st : Engine.db) (ops : list Engine.op) (ord : list Bytes.bytes) (st' : Engine.db),
  EngineRefines.db_ok st -> Forall (EnginePathFacts.op_ok (Engine.d_disk st)) ops ->
  Engine.run_tx st ops ord = Engine.Ok st' -> EngineRefines.readable st' -> EngineTxInvFacts.db_strict st'.
Proof. exact EngineRefines.run_tx_strict. Qed.
Print Assumptions C01_engine_strict_invariant_kept.

(* ==== ... and so is the allocation invariant (EngineAllocInv, on top of an ownership invariant carried through the operations,
   rebalance and nested spill): the complete invariant db_okz = strict trees + free / pending ids disjoint from every reachable
   page run (overflow pages included) and from the free-list run + no page run shared + page 0 unused. One transaction: ==== *)
Theorem C01_engine_transaction_refines_and_keeps_invariant : forall (st : Engine.db) (ops : list Engine.op) (ord : list Bytes.bytes) (st' : Engine.db),
  EngineOwnSpill.db_okz st -> Forall (EnginePathFacts.op_ok (Engine.d_disk st)) ops ->
  Engine.run_tx st ops ord = Engine.Ok st' -> EngineRefines.readable st' ->
  EngineOwnSpill.db_okz st' /\ EngineAbs.abs_db st' = EngineAbs.sem_tx ops (EngineAbs.abs_db st).
Proof. exact EngineAllocInv.run_tx_refines'. Qed.
Print Assumptions C01_engine_transaction_refines_and_keeps_invariant.

(* ==== every history of transactions from the empty database, at every page size: the committed meaning is the reference's.
   The only side conditions (txs_ok') are the model's fuels: op_ok of each operation and `readable` of each state. ==== *)
Theorem C01_engine_history_refines_reference : forall (P : N) (txs : list (list Engine.op * list Bytes.bytes)) (st' : Engine.db),
  (0 < P)%N -> EngineAllocInv.txs_ok' (Engine.init_db P) txs ->
  EngineRefines.run_txs (Engine.init_db P) txs = Engine.Ok st' ->
  EngineOwnSpill.db_okz st' /\ EngineAbs.abs_db st' = EngineRefines.sem_txs txs (Spec.SBucket 0 0 nil).
Proof. exact EngineAllocInv.run_txs_refines_init'. Qed.
Print Assumptions C01_engine_history_refines_reference.

Theorem C01_target_statement_holds : EngineAbs.run_tx_refines_stmt EngineAllocInv.db_wf' EnginePathFacts.op_ok.
Proof. exact EngineAllocInv.run_tx_refines_stmt_holds'. Qed.
Print Assumptions C01_target_statement_holds.

(* ==== no panic: on a state satisfying the complete invariant AND uniform leaf depth (re-established by every transaction, holds
   initially), a transaction ends in Ok or in one of three Err values that are artefacts of the model (fuel; a spill-order oracle
   that is not a permutation of the opened dirty buckets) -- never in one of the library's panic / assert / unwrap sites.
   Without uniform depth it is false (EngineDepth/CexDepth: a strict search tree with a leaf beside a branch makes rebalance
   merge a leaf into a branch: "incompatible data types"); that state is proved unreachable. ==== *)
Theorem C01_engine_transaction_never_panics : forall (st : Engine.db) (ops : list Engine.op) (ord : list Bytes.bytes),
  EngineOwnSpill.db_okz st -> EngineDepth.db_depth st -> Forall (EnginePathFacts.op_ok (Engine.d_disk st)) ops ->
  (exists st' : Engine.db, Engine.run_tx st ops ord = Engine.Ok st') \/
  Engine.run_tx st ops ord = Engine.Err EngineNoPanic.fuel_err \/
  Engine.run_tx st ops ord = Engine.Err EngineNoPanic.ord_err1 \/
  Engine.run_tx st ops ord = Engine.Err EngineNoPanic.ord_err2.
Proof. exact EngineNoPanic.run_tx_result. Qed.
Print Assumptions C01_engine_transaction_never_panics.

Theorem C01_engine_history_never_panics : forall (P : N) (txs : list (list Engine.op * list Bytes.bytes)) (msg : String.string),
  (0 < P)%N -> EngineAllocInv.txs_ok' (Engine.init_db P) txs ->
  EngineRefines.run_txs (Engine.init_db P) txs <> Engine.Panic msg.
Proof. exact EngineSpillDepth.run_txs_no_panic_init. Qed.
Print Assumptions C01_engine_history_never_panics.

Theorem C01_engine_invariant_with_depth_kept : forall (st : Engine.db) (ops : list Engine.op) (ord : list Bytes.bytes) (st' : Engine.db),
  EngineSpillDepth.db_okd st -> Forall (EnginePathFacts.op_ok (Engine.d_disk st)) ops ->
  Engine.run_tx st ops ord = Engine.Ok st' -> EngineRefines.readable st' -> EngineSpillDepth.db_okd st'.
Proof. exact EngineSpillDepth.run_tx_okd. Qed.
Print Assumptions C01_engine_invariant_with_depth_kept.

(* ==== END TO END (engine model + read path): after ANY history of transactions from the empty database, at any page size, for
   ANY bucket reached by a path of names, the cursor machine of the read path (point lookup, full scan, every range, seek), run on
   the tree decoded from the engine's committed pages, answers exactly what the reference map answers after the same history;
   and a path that is not a bucket in the reference is not one in the file. (cursor_agrees bundles get / scan / range / seek.) ==== *)
Theorem C01_committed_data_reads_back_as_reference : forall (P : N) (txs : list (list Engine.op * list Bytes.bytes)) (st' : Engine.db),
  (0 < P)%N -> EngineAllocInv.txs_ok' (Engine.init_db P) txs ->
  EngineRefines.run_txs (Engine.init_db P) txs = Engine.Ok st' ->
  forall path : list Bytes.bytes,
  match Spec.get_at path (EngineRefines.sem_txs txs (Spec.SBucket 0 0 nil)) with
  | Some (Spec.SBucket o x es) =>
      exists (r : N) (t : Tree.tree),
        EngineReadBridge.root_at (Engine.d_disk st') (Engine.d_root st') path = Some r /\
        EngineReadBridge.bucket_tree (Engine.d_disk st') r = Some t /\
        EngineReadBridge.NH.wf_tree_nh t = true /\ EngineReadBridge.cursor_agrees t (Spec.SBucket o x es)
  | _ => EngineReadBridge.root_at (Engine.d_disk st') (Engine.d_root st') path = None
  end.
Proof. exact EngineReadBridge.history_read. Qed.
Print Assumptions C01_committed_data_reads_back_as_reference.

(* the same on BYTES: the file image made of the encoded pages (any padding bytes), decoded by the Gallina page decoder;
   `page_fits` (each node fits its page run; fields below 2^64) is decidable and is what inv_check's element bounds check per file *)
Theorem C01_committed_bytes_read_back_as_reference : forall (P0 : N) (txs : list (list Engine.op * list Bytes.bytes)) (st' : Engine.db)
    (pad : N -> Byte.byte) (P : N),
  (0 < P0)%N -> EngineAllocInv.txs_ok' (Engine.init_db P0) txs ->
  EngineRefines.run_txs (Engine.init_db P0) txs = Engine.Ok st' -> (0 < P)%N ->
  (forall (p : N) (a : Engine.apage), In p (EngineOwnDefs.Rof st') ->
     Engine.dget (Engine.d_disk st') p = Some a -> EngineReadBridge.BytesLevel.page_fits P p a) ->
  let rd := Codec.reader_of (EngineReadBridge.BytesLevel.image pad P (Engine.d_disk st') (EngineOwnDefs.Rof st')
                               (Bytes.zeros (N.to_nat (Engine.d_np st' * P)))) in
  forall path : list Bytes.bytes,
  match Spec.get_at path (EngineRefines.sem_txs txs (Spec.SBucket 0 0 nil)) with
  | Some (Spec.SBucket o x es) =>
      exists (r : N) (t : Tree.tree),
        EngineReadBridge.BytesLevel.root_at_b rd P (Engine.d_root st') path = Some r /\
        Tree.build_tree Engine.fuel0 rd P r = Codec.Ok t /\
        EngineReadBridge.NH.wf_tree_nh t = true /\ EngineReadBridge.cursor_agrees t (Spec.SBucket o x es)
  | _ => EngineReadBridge.BytesLevel.root_at_b rd P (Engine.d_root st') path = None
  end.
Proof. exact EngineReadBridge.BytesLevel.history_image_read. Qed.
Print Assumptions C01_committed_bytes_read_back_as_reference.

Theorem C01_put_then_get : forall (P : N) (txs : list (list Engine.op * list Bytes.bytes)) (ops : list Engine.op)
    (ord path : list Bytes.bytes) (k v : Bytes.bytes) (st' : Engine.db) (m' : Spec.snode),
  let hist := (txs ++ (ops ++ Engine.Put path k v :: nil, ord) :: nil)%list in
  (0 < P)%N -> EngineAllocInv.txs_ok' (Engine.init_db P) hist ->
  EngineRefines.run_txs (Engine.init_db P) hist = Engine.Ok st' ->
  EngineAbs.sem_at path (EngineAbs.sem_put k v) (EngineAbs.sem_tx ops (EngineRefines.sem_txs txs (Spec.SBucket 0 0 nil))) = Some m' ->
  (forall b : Spec.snode, Spec.get_at path m' = Some b -> EngineReadBridge.ref_get b k <> Some (Spec.IBk k)) ->
  exists (r : N) (t : Tree.tree),
    EngineReadBridge.root_at (Engine.d_disk st') (Engine.d_root st') path = Some r /\
    EngineReadBridge.bucket_tree (Engine.d_disk st') r = Some t /\ Cursor.get t k = Some (Spec.IKv k v).
Proof. exact EngineReadBridge.put_then_get_kv. Qed.
Print Assumptions C01_put_then_get.

(* the same with the FULL read-path invariant Tree.wf_tree (equal leaf depth included: uniform depth is an engine invariant) *)
Theorem C01_committed_trees_fully_well_formed_and_read_back : forall (P : N) (txs : list (list Engine.op * list Bytes.bytes)) (st' : Engine.db),
  (0 < P)%N -> EngineAllocInv.txs_ok' (Engine.init_db P) txs ->
  EngineRefines.run_txs (Engine.init_db P) txs = Engine.Ok st' ->
  forall path : list Bytes.bytes,
  match Spec.get_at path (EngineRefines.sem_txs txs (Spec.SBucket 0 0 nil)) with
  | Some (Spec.SBucket o x es) =>
      exists (r : N) (t : Tree.tree),
        EngineReadBridge.root_at (Engine.d_disk st') (Engine.d_root st') path = Some r /\
        EngineReadBridge.bucket_tree (Engine.d_disk st') r = Some t /\
        Tree.wf_tree t = true /\ EngineReadBridge.cursor_agrees t (Spec.SBucket o x es)
  | _ => EngineReadBridge.root_at (Engine.d_disk st') (Engine.d_root st') path = None
  end.
Proof. exact EngineReadFull.history_read_full. Qed.
Print Assumptions C01_committed_trees_fully_well_formed_and_read_back.
