(* C01 -- committed data reads back exactly as a reference ordered map would.
   What is PROVED here (for all trees / pages / keys, no bound): the read half --
     on every well-formed tree, point lookups, full scans, seeks and range scans return what the sorted
     association list of its entries (= the reference map's view) returns; and the page decoder inverts
     the page encoder.
   What is NOT proved (C01_partial, see DESIGN.md 6/C01 and 10): that put / delete / rebalance / spill
     produce a well-formed tree with the reference's contents. That half is validated per commit: the
     extracted decoder + inv_check + "contents = reference" run on every file the library commits, and
     every call's result is compared with the extracted reference. *)
From Coq Require Import List NArith.
From Jamm Require Import Bytes Codec Tree Spec Cursor SearchFacts CursorFacts SeekFacts CodecFacts.
Import ListNotations.

Theorem C01_partial_get : forall t k, wf_tree t = true ->
  Cursor.get t k = option_map Cursor.to_item (find (fun e => beq (lent_key e) k) (flatten t)).
Proof. exact get_spec. Qed.
Print Assumptions C01_partial_get.

Theorem C01_partial_scan : forall t, wf_tree t = true -> scan t = CVal (map Cursor.to_item (flatten t)).
Proof. exact scan_spec. Qed.
Print Assumptions C01_partial_scan.

Theorem C01_partial_codec : forall pad P pid over b rd,
  (0 < P)%N -> (pid < 2^64)%N -> (over < 2^64)%N -> body_ok b -> (body_size b < 2^64)%N ->
  (body_size b <= (over + 1) * P)%N ->
  reads_buffer rd (pid * P) (encode_page pad pid over b) ->
  decode_page rd P pid = Ok (mkPhdr pid (body_type b) (body_count b) over, b).
Proof. exact codec_page. Qed.
Print Assumptions C01_partial_codec.
