(* placeholder until the C01 theorems land *)
From Jamm Require Import Spec.
Lemma c01_placeholder : True. Proof. exact I. Qed.
Print Assumptions c01_placeholder.
