(* placeholder until the C02 theorems land *)
Lemma c02_placeholder : True. Proof. exact I. Qed.
Print Assumptions c02_placeholder.
