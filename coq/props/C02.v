(* C02 -- a crash at any instant leaves the previous or the new commit, never a mix.
   Model: model/Crash.v (page-granular disk, two header slots, the commit's I/O sequence built from the
   order of write_data's steps as the translator reads it from the CURRENT source: Consts.commit_order).
   Premises visible in the statements: the commit setting (select = cur, copy-on-write: no written page is
   live in cur, the new snapshot = written pages + kept pages) -- copy-on-write is proved of the
   page-lifecycle machine (PLFacts.commit_cow) and validated per real commit; a torn header is not a valid
   header (NoTornCollision, evaluated on every torn image by the crash check). *)
From Coq Require Import List NArith String.
From Jamm Require Import Bytes Consts PL Crash CrashFacts CrashCurrent PLFacts.
Import ListNotations.

(* process kill: any prefix of the I/O sequence *)
Theorem C02_kill : forall d cur newh t written, commit_setting d cur newh t written ->
  forall n, pre_or_post d cur newh t written
    (run_prefix t newh (negb (current_slot d)) d (commit_io written) n).
Proof. exact C02_kill_current. Qed.
Print Assumptions C02_kill.

(* power loss: calls before the last completed sync applied; every later issued write independently applied,
   lost or torn (a torn data page is garbage, a torn header is invalid) *)
Theorem C02_power : forall d cur newh t written, commit_setting d cur newh t written ->
  forall n fates, pre_or_post d cur newh t written
    (power_image t newh (negb (current_slot d)) d (commit_io written) n fates).
Proof. exact power_current. Qed.
Print Assumptions C02_power.

(* once commit has returned (whole sequence issued, final sync completed) its effects survive *)
Theorem C02_durable : forall d cur newh t written, commit_setting d cur newh t written ->
  let ios := commit_io written in forall fates,
  let img := power_image t newh (negb (current_slot d)) d ios (List.length ios) fates in
  select img = Some newh /\ intact (orig_new d t written) img newh.
Proof. exact durable_current. Qed.
Print Assumptions C02_durable.

(* the pinned order (no sync between data and header) violates the property: witness by computation *)
Theorem C02_power_pinned_refuted : exists d cur newh t written n fates, commit_setting d cur newh t written /\
  let img := power_image t newh (negb (current_slot d)) d (commit_io_of pinned_order written) n fates in
  select img = Some newh /\ ~ intact (orig_new d t written) img newh /\ ~ pre_or_post d cur newh t written img.
Proof. exact C02_power_refuted. Qed.

(* the copy-on-write premise, from the page-lifecycle machine *)
Theorem C02_cow_premise : forall s w nf npd l' np' tx' s', PLInv s ->
  accept s (ECommit w nf npd l' np' tx') = Some s' ->
  (forall x, In x w -> ~ In x (live s)) /\
  (forall x, In x (live s) -> In x (live s') \/ In x (pend_all (pend s'))).
Proof. exact commit_cow. Qed.
Print Assumptions C02_cow_premise.

(* the premises are satisfiable *)
Example C02_setting_inhabited : commit_setting ex_d ex_cur ex_newh 2 [4%N; 5%N].
Proof. exact ex_setting. Qed.
