(* C02 -- a crash at any instant leaves the previous or the new commit, never a mix.
   Model: model/Crash.v (page-granular disk, two header slots, the commit's I/O sequence built from the
   order of write_data's steps as the translator reads it from the CURRENT source: Consts.commit_order).
   Premises visible in the statements: the commit setting (select = cur, copy-on-write: no written page is
   live in cur, the new snapshot = written pages + kept pages) -- copy-on-write is proved of the
   page-lifecycle machine (PLFacts.commit_cow) and validated per real commit; a torn header is not a valid
   header (NoTornCollision, evaluated on every torn image by the crash check). *)
From Coq Require Import List NArith String.
From Jamm Require Import Bytes Consts PL Crash CrashFacts CrashCurrent PLFacts.
Import ListNotations.

(* process kill: any prefix of the I/O sequence *)
Theorem C02_kill : forall d cur newh t written, commit_setting d cur newh t written ->
  forall n, pre_or_post d cur newh t written
    (run_prefix t newh (negb (current_slot d)) d (commit_io written) n).
Proof. exact C02_kill_current. Qed.
Print Assumptions C02_kill.

(* power loss: calls before the last completed sync applied; every later issued write independently applied,
   lost or torn (a torn data page is garbage, a torn header is invalid) *)
Theorem C02_power : forall d cur newh t written, commit_setting d cur newh t written ->
  forall n fates, pre_or_post d cur newh t written
    (power_image t newh (negb (current_slot d)) d (commit_io written) n fates).
Proof. exact power_current. Qed.
Print Assumptions C02_power.

(* once commit has returned (whole sequence issued, final sync completed) its effects survive *)
Theorem C02_durable : forall d cur newh t written, commit_setting d cur newh t written ->
  let ios := commit_io written in forall fates,
  let img := power_image t newh (negb (current_slot d)) d ios (List.length ios) fates in
  select img = Some newh /\ intact (orig_new d t written) img newh.
Proof. exact durable_current. Qed.
Print Assumptions C02_durable.

(* the pinned order (no sync between data and header) violates the property: witness by computation *)
Theorem C02_power_pinned_refuted : exists d cur newh t written n fates, commit_setting d cur newh t written /\
  let img := power_image t newh (negb (current_slot d)) d (commit_io_of pinned_order written) n fates in
  select img = Some newh /\ ~ intact (orig_new d t written) img newh /\ ~ pre_or_post d cur newh t written img.
Proof. exact C02_power_refuted. Qed.

(* the copy-on-write premise, from the page-lifecycle machine *)
Theorem C02_cow_premise : forall s w nf npd l' np' tx' s', PLInv s ->
  accept s (ECommit w nf npd l' np' tx') = Some s' ->
  (forall x, In x w -> ~ In x (live s)) /\
  (forall x, In x (live s) -> In x (live s') \/ In x (pend_all (pend s'))).
Proof. exact commit_cow. Qed.
Print Assumptions C02_cow_premise.

(* the premises are satisfiable *)
Example C02_setting_inhabited : commit_setting ex_d ex_cur ex_newh 2 [4%N; 5%N].
Proof. exact ex_setting. Qed.

(* ---- the premise `commit_setting` is not only satisfiable: it HOLDS for every commit of the engine model (coq/model/Engine.v, the
   library's write path, tied to the library page for page) -- the pages a transaction writes, overflow pages and the new free-list
   run included, come from the free list or from beyond the high-water mark and are disjoint from everything the previous header
   reaches. So the three crash theorems above apply to every transaction of the engine: any kill point, any power-loss image, any
   single failing call leaves the previous or the new commit, and a completed commit is durable. ---- *)
From Jamm Require Engine EnginePathFacts EngineRefines EngineOwnDefs EngineOwnSpill EngineCow.
Theorem C02_engine_commits_are_crash_safe : forall (st : Engine.db) (ops : list Engine.op) (ord : list Bytes.bytes) (st' : Engine.db),
  EngineOwnSpill.db_okz st -> Forall (EnginePathFacts.op_ok (Engine.d_disk st)) ops ->
  Engine.run_tx st ops ord = Engine.Ok st' -> EngineRefines.readable st' ->
  exists w : list (N * (N * Engine.ndata)),
    EngineCow.tx_cow st st' w /\
    (forall cd : Crash.disk, Crash.select cd = Some (EngineCow.eng_header st) ->
     let cur := EngineCow.eng_header st in let newh := EngineCow.eng_header st' in
     let t := Engine.d_tx st' in let wrt := EngineCow.tx_written st st' w in
     let tgt := negb (Crash.current_slot cd) in let ios := Crash.commit_io wrt in
     (forall (n : nat) (fates : nat -> Crash.fate),
        CrashFacts.pre_or_post cd cur newh t wrt (Crash.power_image t newh tgt cd ios n fates)) /\
     (forall fates : nat -> Crash.fate,
        let img := Crash.power_image t newh tgt cd ios (List.length ios) fates in
        Crash.select img = Some newh /\ Crash.intact (CrashFacts.orig_new cd t wrt) img newh) /\
     (forall (k : nat) (f : Crash.fate),
        CrashFacts.pre_or_post cd cur newh t wrt (Crash.fault_image t newh tgt cd ios k f))).
Proof. exact EngineCow.engine_commit_crash_safe. Qed.
Print Assumptions C02_engine_commits_are_crash_safe.

Theorem C02_engine_writes_only_free_pages : forall (st : Engine.db) (ops : list Engine.op) (ord : list Bytes.bytes) (st' : Engine.db),
  EngineOwnSpill.db_okz st -> Forall (EnginePathFacts.op_ok (Engine.d_disk st)) ops ->
  Engine.run_tx st ops ord = Engine.Ok st' ->
  exists w : list (N * (N * Engine.ndata)),
    Engine.d_disk st' = EngineSpillFacts.apply_wr w (Engine.d_psz st) (Engine.d_disk st) /\
    (forall x : N, EngineCow.written st st' w x ->
       ((Engine.d_np st <= x)%N \/ In x (Engine.free (Engine.begin_w st))) /\
       ~ In x (EngineRefines.live_of st (EngineOwnDefs.Rof st)) /\ (2 <= x)%N /\ (x < Engine.d_np st')%N).
Proof. exact EngineCow.run_tx_writes_from_free. Qed.
Print Assumptions C02_engine_writes_only_free_pages.

(* ---- histories: ANY NUMBER of commit attempts in a row, each cut by a power loss (any point, any fate of every un-synced
   write, torn header included), each starting from what the previous crash left. The invariant -- a header is selected and
   every page it needs holds what its own or an earlier transaction wrote -- survives every attempt; what is selected is
   the initial header or the header of one of the attempts; the target slot, evaluated on the disk as the crash left it,
   is never the slot of the only valid header (the rule is read from write_data by the translator:
   Consts.header_target_other_than_current). ---- *)
From Jamm Require CrashHistories.
Theorem C02_any_number_of_crashes : forall l d, CrashHistories.hist_inv d -> CrashHistories.attempts_ok d l ->
  CrashHistories.hist_inv (CrashHistories.run_attempts d l).
Proof. exact CrashHistories.crash_history_inv. Qed.
Print Assumptions C02_any_number_of_crashes.

Theorem C02_history_selects_a_committed_header : forall l d cur0, select d = Some cur0 -> CrashHistories.hist_inv d ->
  CrashHistories.attempts_ok d l ->
  exists h, select (CrashHistories.run_attempts d l) = Some h /\ (h = cur0 \/ In h (map CrashHistories.a_newh l)).
Proof. exact CrashHistories.crash_history_selects. Qed.
Print Assumptions C02_history_selects_a_committed_header.

Theorem C02_target_slot_rule_from_source : header_target_other_than_current = true.
Proof. exact CrashHistories.header_target_pinned. Qed.

(* writing the slot with the lower RAW tx id instead (validity ignored) loses every header in two crashes: computed *)
Theorem C02_other_target_rule_refuted :
  select CrashHistories.ex_two = Some (mkHeader 5 [4%N]) /\
  select (write_slot CrashHistories.ex_two false SInvalid) = None /\
  select (write_slot CrashHistories.ex_two (negb (current_slot CrashHistories.ex_two)) SInvalid) = Some (mkHeader 5 [4%N]).
Proof. exact CrashHistories.two_crashes_other_rule_loses_all. Qed.
Print Assumptions C02_other_target_rule_refuted.

(* ---- histories at the ENGINE level, with contents: a transaction runs, the power fails at any point of its commit (any
   fate of every un-synced write), the machine restarts and reopens the file on whatever header the crashed disk selects,
   the next transaction runs from there -- any number of times. `crash_run` follows the branch the image dictates (the
   attempt is lost: the previous state reopened; or durable: the new state). Whatever the cuts: the final disk selects the
   final engine state's header with every page it needs settled, the complete engine invariant holds, and the database
   reads as the reference after EXACTLY the transactions whose commit survived, in order -- never a mix. A run exists for
   every attempt list whose transactions the model accepts (totality), and an attempt that issued its whole I/O sequence
   survives. ---- *)
From Jamm Require EngineAbs EngineReopen EngineCrashHistories.
Theorem C02_engine_crash_histories : forall st0 cd0 l surv stf cdf,
  EngineCrashHistories.crash_run st0 cd0 l surv stf cdf -> EngineCrashHistories.Sim st0 cd0 -> EngineReopen.db_inv st0 ->
  EngineCrashHistories.Sim stf cdf /\ EngineReopen.db_inv stf /\
  EngineAbs.abs_db stf = EngineCrashHistories.sem_survivors surv (EngineAbs.abs_db st0).
Proof. exact EngineCrashHistories.engine_crash_history. Qed.
Print Assumptions C02_engine_crash_histories.

Theorem C02_engine_crash_histories_exist : forall l st cd, EngineCrashHistories.Sim st cd -> EngineReopen.db_inv st ->
  EngineCrashHistories.attempts_okE st l -> exists surv stf cdf, EngineCrashHistories.crash_run st cd l surv stf cdf.
Proof. exact EngineCrashHistories.crash_run_total. Qed.
Print Assumptions C02_engine_crash_histories_exist.

Check EngineCrashHistories.engine_attempt_complete. Check EngineCrashHistories.crash_run_survivors.
Check EngineCrashHistories.ExCrash.two_crashes. Check EngineCrashHistories.ExCuts.lost_cut. Check EngineCrashHistories.ExCuts.durable_cut.

(* ---- the whole alphabet in one history (EngineMixedHistories): completed commits, commits that report an I/O error (the
   process goes on), power losses during a commit followed by a reopen, clean reopens, and write transactions that are
   dropped without commit, in ANY order and number: the disk selects the final state's header with settled pages, the
   complete engine invariant holds, and the database reads as the reference after exactly the commits that survived, in
   order (an in-order sub-list of the commit-like events: `mixed_run_survivors`); a run exists whenever the model accepts
   the transactions on every continuation (`mixed_run_total`). ---- *)
From Jamm Require EngineAbs EngineReopen EngineCrashHistories EngineMixedHistories.
Theorem C02_engine_mixed_histories : forall st0 cd0 l surv stf cdf,
  EngineMixedHistories.mixed_run st0 cd0 l surv stf cdf -> EngineCrashHistories.Sim st0 cd0 -> EngineReopen.db_inv st0 ->
  EngineCrashHistories.Sim stf cdf /\ EngineReopen.db_inv stf /\
  EngineAbs.abs_db stf = EngineCrashHistories.sem_survivors surv (EngineAbs.abs_db st0).
Proof. exact EngineMixedHistories.engine_mixed_history. Qed.
Print Assumptions C02_engine_mixed_histories.
Check EngineMixedHistories.mixed_run_survivors. Check EngineMixedHistories.mixed_run_total. Check EngineMixedHistories.ExMixed.every_kind.
