(* C04 -- snapshot isolation holds under every thread schedule.
   Model: model/Conc.v, the thread-level transition system of the lock protocol at the library's yield points,
   for ANY number of reader / writer threads and ANY schedule (reachable = reflexive-transitive closure of step).
   The flag Consts.begin_atomic (GENERATED from Tx::new) says which protocol the source implements; the real
   library's scheduled runs are replayed step by step in this system on every check. *)
From Coq Require Import List.
From Jamm Require Import Consts Conc ConcFacts.
Import ListNotations.

(* every active reader's snapshot is intact: no writer has released-and-overwritten its pages *)
Theorem C04_snapshots_intact : forall c0 ts s, initial_threads ts -> reachable true (init c0 ts) s -> snapshots_ok s.
Proof. exact C04_snapshots. Qed.
Print Assumptions C04_snapshots_intact.

(* the snapshot a reader registers is the header current at that moment, hence at least as new as every commit
   whose header was written before (cur never decreases) *)
Theorem C04_snapshot_fresh : forall c0 ts s_before s i s' t, initial_threads ts ->
  reachable true (init c0 ts) s_before -> reach_from true s_before s -> step true s i = Some s' ->
  nth_error (threads s) i = Some t -> t_pc t = RFl ->
  exists t', nth_error (threads s') i = Some t' /\ t_hdr t' = cur s /\ cur s_before <= t_hdr t'.
Proof. exact C04_fresh. Qed.
Print Assumptions C04_snapshot_fresh.

(* the source at hand reads the header inside the registration critical section (generated) *)
Theorem C04_source_begin_atomic : begin_atomic = true.
Proof. reflexivity. Qed.

(* the pinned protocol (header read and registration in two steps) violates the property:
   1 reader, 2 writers, the 23-step schedule ex_sched *)
Theorem C04_pinned_refuted :
  initial_threads [reader0; writer0 false; writer0 false] /\
  reachable false ex_s0 (run false ex_s0 ex_sched) /\
  snapshots_okb (run false ex_s0 ex_sched) = false /\
  ~ (forall s, reachable false ex_s0 s -> snapshots_ok s).
Proof. exact C04_legacy_refuted. Qed.
Print Assumptions C04_pinned_refuted.

(* ==== the thread-level theorem WITH CONTENTS: every execution of the lock protocol (any number of reader and writer threads,
   any schedule, repaired protocol) projects onto a history of the storage engine with read transactions; the release bound each
   writer computed when it began is safe for the readers open when it commits (it is NOT always the bound at commit time --
   computed schedules in ConcEngine -- but never exceeds the safe one); hence at every point of the execution each registered
   reader thread still finds its snapshot byte-identical on the current disk, reading exactly the reference contents after the
   transactions committed before it registered, and the current state is the reference after all commits in commit order.
   Side conditions: g_ok (the engine's fuels for the projected transactions). ==== *)
From Coq Require Import NArith.
From Jamm Require Bytes Engine EngineAbs EngineOwnDefs EngineR EngineReadersInv EngineReaders ConcEngine.
Theorem C04_every_schedule_readers_see_one_committed_state : forall (ops_of : nat -> list Engine.op * list Bytes.bytes) (c0 : nat)
    (ts : list Conc.thread) (st0 : Engine.db) (sched : list nat) (h' : EngineR.hstate),
  Conc.initial_threads ts -> EngineReadersInv.db_okr st0 -> Engine.d_tx st0 = N.of_nat c0 ->
  let s0 := Conc.init c0 ts in
  let es := ConcEngine.project ops_of s0 ConcEngine.ghost0 sched in
  let s := Conc.run true s0 sched in
  let g := ConcEngine.ghost_run ops_of s0 ConcEngine.ghost0 sched in
  ConcEngine.g_ok (st0, nil) es -> ConcEngine.run_g (st0, nil) es = Engine.Ok h' ->
  (forall (j : nat) (t : Conc.thread), nth_error (Conc.threads s) j = Some t -> Conc.reader_active (Conc.t_pc t) = true ->
     exists r : EngineR.reader,
       nth_error (snd h') (ConcEngine.index_of j (ConcEngine.owners g)) = Some r /\
       Engine.d_tx r = N.of_nat (Conc.t_hdr t) /\ c0 <= Conc.t_hdr t <= Conc.cur s /\
       (forall p : N, In p (EngineReaders.snap r) ->
          Engine.dget (Engine.d_disk (fst h')) p = Engine.dget (Engine.d_disk r) p) /\
       EngineOwnDefs.fpg 16 (Engine.d_disk (fst h')) (Engine.d_root r) = EngineOwnDefs.Rof r /\
       EngineAbs.abs_bucket 16 (Engine.d_disk (fst h')) (Engine.d_root r) (Engine.d_next r) = EngineAbs.abs_db r /\
       EngineAbs.abs_db (EngineR.reader_view (fst h') r) = EngineAbs.abs_db r /\
       EngineAbs.abs_db r = ConcEngine.sem_commits (firstn (Conc.t_hdr t - c0) (ConcEngine.txs_of es)) (EngineAbs.abs_db st0)) /\
  length (snd h') = length (ConcEngine.owners g) /\
  EngineReadersInv.db_okr (fst h') /\ Engine.d_tx (fst h') = N.of_nat (Conc.cur s) /\
  Conc.cur s = c0 + length (ConcEngine.txs_of es) /\
  EngineAbs.abs_db (fst h') = ConcEngine.sem_commits (ConcEngine.txs_of es) (EngineAbs.abs_db st0).
Proof. exact ConcEngine.conc_engine_snapshots. Qed.
Print Assumptions C04_every_schedule_readers_see_one_committed_state.
