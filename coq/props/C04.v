(* placeholder until the C04 theorems land *)
From Jamm Require Import Conc.
Lemma c04_placeholder : True. Proof. exact I. Qed.
Print Assumptions c04_placeholder.
