(* C04 -- snapshot isolation holds under every thread schedule.
   Model: model/Conc.v, the thread-level transition system of the lock protocol at the library's yield points,
   for ANY number of reader / writer threads and ANY schedule (reachable = reflexive-transitive closure of step).
   The flag Consts.begin_atomic (GENERATED from Tx::new) says which protocol the source implements; the real
   library's scheduled runs are replayed step by step in this system on every check. *)
From Coq Require Import List.
From Jamm Require Import Consts Conc ConcFacts.
Import ListNotations.

(* every active reader's snapshot is intact: no writer has released-and-overwritten its pages *)
Theorem C04_snapshots_intact : forall c0 ts s, initial_threads ts -> reachable true (init c0 ts) s -> snapshots_ok s.
Proof. exact C04_snapshots. Qed.
Print Assumptions C04_snapshots_intact.

(* the snapshot a reader registers is the header current at that moment, hence at least as new as every commit
   whose header was written before (cur never decreases) *)
Theorem C04_snapshot_fresh : forall c0 ts s_before s i s' t, initial_threads ts ->
  reachable true (init c0 ts) s_before -> reach_from true s_before s -> step true s i = Some s' ->
  nth_error (threads s) i = Some t -> t_pc t = RFl ->
  exists t', nth_error (threads s') i = Some t' /\ t_hdr t' = cur s /\ cur s_before <= t_hdr t'.
Proof. exact C04_fresh. Qed.
Print Assumptions C04_snapshot_fresh.

(* the source at hand reads the header inside the registration critical section (generated) *)
Theorem C04_source_begin_atomic : begin_atomic = true.
Proof. reflexivity. Qed.

(* the pinned protocol (header read and registration in two steps) violates the property:
   1 reader, 2 writers, the 23-step schedule ex_sched *)
Theorem C04_pinned_refuted :
  initial_threads [reader0; writer0 false; writer0 false] /\
  reachable false ex_s0 (run false ex_s0 ex_sched) /\
  snapshots_okb (run false ex_s0 ex_sched) = false /\
  ~ (forall s, reachable false ex_s0 s -> snapshots_ok s).
Proof. exact C04_legacy_refuted. Qed.
Print Assumptions C04_pinned_refuted.
