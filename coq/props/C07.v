(* C07 -- a write transaction reads its own uncommitted changes.
   Proved: the cursor machine over ANY view without empty branches -- in particular views that contain
   leaves emptied by deletes of the same transaction -- yields every entry exactly once in view order, and
   the pinned (pre-repair) machine did not (it stopped at an emptied leaf).
   Not proved: that the overlay (transaction-local nodes shadowing mapped pages) presents the view the
   reference predicts after each mutation; that is compared against the extracted reference after every
   single operation on every run (level: translation validation for that half). *)
From Coq Require Import List NArith.
From Jamm Require Import Bytes Codec Tree Spec Cursor CursorFacts.
Import ListNotations.

Theorem C07_scan_with_empty_leaves : forall t, no_empty_branch t = true ->
  scan t = CVal (map Cursor.to_item (flatten t)).
Proof. exact cursor_all. Qed.
Print Assumptions C07_scan_with_empty_leaves.

(* the defect this property was written for, as a theorem about the pinned machine *)
Theorem C07_legacy_refuted :
  no_empty_branch skip_tree = true /\ flatten skip_tree = [EKv [Byte.x02] [Byte.x2a]] /\
  iterate_legacy false (S (nodes skip_tree)) (S (nodes skip_tree)) (new_cursor skip_tree) = CVal [] /\
  scan skip_tree = CVal [IKv [Byte.x02] [Byte.x2a]].
Proof. exact next_legacy_skips_refuted. Qed.
Print Assumptions C07_legacy_refuted.
