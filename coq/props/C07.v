(* C07 -- a write transaction reads its own uncommitted changes.
   Proved: the cursor machine over ANY view without empty branches -- in particular views that contain
   leaves emptied by deletes of the same transaction -- yields every entry exactly once in view order, and
   the pinned (pre-repair) machine did not (it stopped at an emptied leaf).
   Proved for POINT LOOKUPS through the overlay (engine model, coq/model/Engine.v, compared page for page with the
   library): after a put / delete on a well-formed bucket, the same transaction's lookups answer what the
   reference map answers after that operation -- for every key, every tree shape, every mix of materialised
   nodes and mapped pages (C07_read_own_put / C07_read_own_delete).
   and, through nested buckets and after ANY prefix of the transaction's operations (C07_tx_reads, engine model):
   a lookup anywhere in the bucket tree sees exactly the effect of the operations done so far -- own puts, own deletes,
   buckets created or deleted in this transaction at any depth -- on top of the committed state, with the library's error
   for a path that is not a bucket.
   Not proved: the same for CURSORS over the overlay (scans / seeks / ranges inside a write transaction); that is compared
   against the extracted reference after every single operation on every run (translation validation for that half). *)
From Coq Require Import List NArith.
From Jamm Require Import Bytes Codec Tree Spec Cursor CursorFacts.
Import ListNotations.

Theorem C07_scan_with_empty_leaves : forall t, no_empty_branch t = true ->
  scan t = CVal (map Cursor.to_item (flatten t)).
Proof. exact cursor_all. Qed.
Print Assumptions C07_scan_with_empty_leaves.

(* the defect this property was written for, as a theorem about the pinned machine *)
Theorem C07_legacy_refuted :
  no_empty_branch skip_tree = true /\ flatten skip_tree = [EKv [Byte.x02] [Byte.x2a]] /\
  iterate_legacy false (S (nodes skip_tree)) (S (nodes skip_tree)) (new_cursor skip_tree) = CVal [] /\
  scan skip_tree = CVal [IKv [Byte.x02] [Byte.x2a]].
Proof. exact next_legacy_skips_refuted. Qed.
Print Assumptions C07_legacy_refuted.

(* ---- the overlay: transaction-local nodes shadowing mapped pages ---- *)
From Jamm Require Engine EngineFacts EngineModifyFacts EngineTop.
Theorem C07_read_own_put : forall d b l k v s b' s',
  EngineModifyFacts.bucket_wf d b -> EngineModifyFacts.bucket_view d b l ->
  Engine.b_put d b k v s = Engine.Ok (b', s') ->
  forall k', Engine.b_lookup d b' k' =
             Engine.Ok (if beq k' k then Some (Engine.LKv k v) else Spec.alookup k' (EngineFacts.assoc l)).
Proof. exact EngineTop.read_own_put. Qed.
Print Assumptions C07_read_own_put.

Theorem C07_read_own_delete : forall d b l k s b' s',
  EngineModifyFacts.bucket_wf d b -> EngineModifyFacts.bucket_view d b l ->
  Engine.b_delete d b k s = Engine.Ok (b', s') ->
  forall k', Engine.b_lookup d b' k' = Engine.Ok (if beq k' k then None else Spec.alookup k' (EngineFacts.assoc l)).
Proof. exact EngineTop.read_own_delete. Qed.
Print Assumptions C07_read_own_delete.

(* before any mutation the overlay answers what the committed pages answer *)
Theorem C07_lookup_is_reference : forall d b l k,
  EngineModifyFacts.bucket_wf d b -> EngineModifyFacts.bucket_view d b l ->
  Engine.b_lookup d b k = Engine.Ok (Spec.alookup k (EngineFacts.assoc l)).
Proof. exact EngineModifyFacts.b_lookup_refines. Qed.
Print Assumptions C07_lookup_is_reference.

(* ---- point reads at any time inside a write transaction, anywhere in the nested bucket tree ---- *)
From Jamm Require EngineAbs EnginePathFacts EngineTxReads.
Theorem C07_tx_reads : forall st ops root' s', EnginePathFacts.db_pages_wf st ->
  Forall (EnginePathFacts.op_ok (Engine.d_disk st)) ops ->
  EnginePathFacts.tx_fold st ops (Engine.root_bucket st, Engine.begin_w st) = Engine.Ok (root', s') ->
  forall path k, EngineTxReads.rd_matches k (EngineTxReads.ref_lookup path (EngineAbs.sem_tx ops (EngineAbs.abs_db st)) k)
                                           (EngineTxReads.ovl_lookup (Engine.d_disk st) root' path k).
Proof. exact EngineTxReads.tx_reads. Qed.
Print Assumptions C07_tx_reads.

(* ---- cursors inside a write transaction: the overlay as the tree the cursor walks (model/EngineScan.v) ----
   After ANY list of operations of a write transaction on any state with well-formed pages, at ANY nested bucket path:
   a full cursor scan through the overlay returns exactly the reference's entries (pairs and nested-bucket markers) in
   key order; a path that is not a bucket answers the library's error. No fuel hypothesis beyond op_ok. *)
From Jamm Require EngineScan EngineTxScan EngineTxScanEx EngineReadBridge.
Import Coq.Strings.String.StringSyntax. Delimit Scope string_scope with string.
Theorem C07_tx_scan : forall st ops path, EnginePathFacts.db_pages_wf st ->
  Forall (EnginePathFacts.op_ok (Engine.d_disk st)) ops ->
  match Spec.get_at path (EngineAbs.sem_tx ops (EngineAbs.abs_db st)) with
  | Some (Spec.SBucket o x es) => EngineScan.tx_scan st ops path = Engine.Ok (CVal (Spec.items_of (Spec.SBucket o x es)))
  | Some (Spec.SVal _) => EngineScan.tx_scan st ops path = Engine.Err "IncompatibleValue"%string
  | None => EngineScan.tx_scan st ops path = Engine.Err "BucketMissing"%string \/
            EngineScan.tx_scan st ops path = Engine.Err "IncompatibleValue"%string
  end.
Proof. exact EngineTxScan.tx_scan_spec. Qed.
Print Assumptions C07_tx_scan.

(* get / scan / every range / seek through the cursor machine on the overlay = the reference's answers; the overlay may
   hold leaves the transaction has emptied (they stay in place until commit) *)
Theorem C07_tx_reads_cursor : forall st ops path o x es, EnginePathFacts.db_pages_wf st ->
  Forall (EnginePathFacts.op_ok (Engine.d_disk st)) ops ->
  Spec.get_at path (EngineAbs.sem_tx ops (EngineAbs.abs_db st)) = Some (Spec.SBucket o x es) ->
  let b := Spec.SBucket o x es in
  (forall k, EngineScan.tx_cget st ops path k = Engine.Ok (EngineReadBridge.ref_get b k)) /\
  EngineScan.tx_scan st ops path = Engine.Ok (CVal (Spec.items_of b)) /\
  (forall lo hi, EngineScan.tx_range st ops path lo hi =
     Engine.Ok (CVal (filter (fun i => Spec.in_bounds lo hi (Spec.item_key i)) (Spec.items_of b)))) /\
  (forall k, exists l, EngineScan.tx_seek st ops path k = Engine.Ok (EngineReadBridge.ref_found b k, CVal l) /\
     if EngineReadBridge.ref_found b k then l = Spec.from_succ k (Spec.items_of b)
     else l = Spec.from_pred k (Spec.items_of b) \/ l = Spec.from_succ k (Spec.items_of b)).
Proof. exact EngineTxScan.tx_reads_cursor. Qed.
Print Assumptions C07_tx_reads_cursor.

(* the engine's own search through the overlay (what put / delete consult) agrees too *)
Theorem C07_tx_get : forall st ops path k, EnginePathFacts.db_pages_wf st ->
  Forall (EnginePathFacts.op_ok (Engine.d_disk st)) ops ->
  exists r, EngineScan.tx_get st ops path k = r /\
    EngineTxReads.rd_matches k (EngineTxReads.ref_lookup path (EngineAbs.sem_tx ops (EngineAbs.abs_db st)) k) r.
Proof. exact EngineTxScan.tx_get_reads. Qed.
Print Assumptions C07_tx_get.

(* non-vacuity: a reachable state, a transaction that empties a whole leaf, nested buckets, a refused put *)
Check EngineTxScanEx.exS_pages_wf. Check EngineTxScanEx.exS_empty_leaf. Check EngineTxScanEx.exS_computed.
Check EngineTxScanEx.exS_by_theorem.
Print Assumptions EngineTxScanEx.exS_by_theorem.
