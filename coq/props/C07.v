(* C07 -- a write transaction reads its own uncommitted changes.
   Proved: the cursor machine over ANY view without empty branches -- in particular views that contain
   leaves emptied by deletes of the same transaction -- yields every entry exactly once in view order, and
   the pinned (pre-repair) machine did not (it stopped at an emptied leaf).
   Proved for POINT LOOKUPS through the overlay (engine model, coq/model/Engine.v, compared page for page with the
   library): after a put / delete on a well-formed bucket, the same transaction's lookups answer what the
   reference map answers after that operation -- for every key, every tree shape, every mix of materialised
   nodes and mapped pages (C07_read_own_put / C07_read_own_delete).
   and, through nested buckets and after ANY prefix of the transaction's operations (C07_tx_reads, engine model):
   a lookup anywhere in the bucket tree sees exactly the effect of the operations done so far -- own puts, own deletes,
   buckets created or deleted in this transaction at any depth -- on top of the committed state, with the library's error
   for a path that is not a bucket.
   Not proved: the same for CURSORS over the overlay (scans / seeks / ranges inside a write transaction); that is compared
   against the extracted reference after every single operation on every run (translation validation for that half). *)
From Coq Require Import List NArith.
From Jamm Require Import Bytes Codec Tree Spec Cursor CursorFacts.
Import ListNotations.

Theorem C07_scan_with_empty_leaves : forall t, no_empty_branch t = true ->
  scan t = CVal (map Cursor.to_item (flatten t)).
Proof. exact cursor_all. Qed.
Print Assumptions C07_scan_with_empty_leaves.

(* the defect this property was written for, as a theorem about the pinned machine *)
Theorem C07_legacy_refuted :
  no_empty_branch skip_tree = true /\ flatten skip_tree = [EKv [Byte.x02] [Byte.x2a]] /\
  iterate_legacy false (S (nodes skip_tree)) (S (nodes skip_tree)) (new_cursor skip_tree) = CVal [] /\
  scan skip_tree = CVal [IKv [Byte.x02] [Byte.x2a]].
Proof. exact next_legacy_skips_refuted. Qed.
Print Assumptions C07_legacy_refuted.

(* ---- the overlay: transaction-local nodes shadowing mapped pages ---- *)
From Jamm Require Engine EngineFacts EngineModifyFacts EngineTop.
Theorem C07_read_own_put : forall d b l k v s b' s',
  EngineModifyFacts.bucket_wf d b -> EngineModifyFacts.bucket_view d b l ->
  Engine.b_put d b k v s = Engine.Ok (b', s') ->
  forall k', Engine.b_lookup d b' k' =
             Engine.Ok (if beq k' k then Some (Engine.LKv k v) else Spec.alookup k' (EngineFacts.assoc l)).
Proof. exact EngineTop.read_own_put. Qed.
Print Assumptions C07_read_own_put.

Theorem C07_read_own_delete : forall d b l k s b' s',
  EngineModifyFacts.bucket_wf d b -> EngineModifyFacts.bucket_view d b l ->
  Engine.b_delete d b k s = Engine.Ok (b', s') ->
  forall k', Engine.b_lookup d b' k' = Engine.Ok (if beq k' k then None else Spec.alookup k' (EngineFacts.assoc l)).
Proof. exact EngineTop.read_own_delete. Qed.
Print Assumptions C07_read_own_delete.

(* before any mutation the overlay answers what the committed pages answer *)
Theorem C07_lookup_is_reference : forall d b l k,
  EngineModifyFacts.bucket_wf d b -> EngineModifyFacts.bucket_view d b l ->
  Engine.b_lookup d b k = Engine.Ok (Spec.alookup k (EngineFacts.assoc l)).
Proof. exact EngineModifyFacts.b_lookup_refines. Qed.
Print Assumptions C07_lookup_is_reference.

(* ---- point reads at any time inside a write transaction, anywhere in the nested bucket tree ---- *)
From Jamm Require EngineAbs EnginePathFacts EngineTxReads.
Theorem C07_tx_reads : forall st ops root' s', EnginePathFacts.db_pages_wf st ->
  Forall (EnginePathFacts.op_ok (Engine.d_disk st)) ops ->
  EnginePathFacts.tx_fold st ops (Engine.root_bucket st, Engine.begin_w st) = Engine.Ok (root', s') ->
  forall path k, EngineTxReads.rd_matches k (EngineTxReads.ref_lookup path (EngineAbs.sem_tx ops (EngineAbs.abs_db st)) k)
                                           (EngineTxReads.ovl_lookup (Engine.d_disk st) root' path k).
Proof. exact EngineTxReads.tx_reads. Qed.
Print Assumptions C07_tx_reads.
