(* placeholder until the C07 theorems land *)
Lemma c07_placeholder : True. Proof. exact I. Qed.
Print Assumptions c07_placeholder.
