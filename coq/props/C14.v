(* C14 -- borrowed data cannot outlive its transaction; handles stay on their thread.
   What Coq carries here is the lifetime flow of jammdb's PUBLIC SIGNATURES (gen/ApiSig.v, regenerated from nightly
   rustdoc JSON on every run), not rustc: that a value whose type mentions 'b cannot be used after 'b ends, and
   the Send/Sync rules, are Rust's guarantees and are trusted; rustc is the judge in the client corpus, whose
   verdicts must coincide with this check program by program. The run-time half ("never reads the map after the
   transaction ended") has no model: it is covered by probe runs only. *)
From Coq Require Import List String.
From Jamm Require Import ApiSig ApiFlow ApiFacts.
Import ListNotations.

(* every public function / trait method: each map-pointing part of its result is tied to the borrow of the
   transaction (or owns its bytes) *)
Theorem C14_flow : forallb anchoredb api = true.
Proof. exact all_anchored. Qed.
Print Assumptions C14_flow.

Theorem C14_obtainable : forall ty ok, obtainable (Held ty ok) -> ok = true.
Proof. exact obtainable_ok. Qed.
Print Assumptions C14_obtainable.

(* no transaction-derived type is Send (they hold Rc / RefCell); the database handle is Send + Sync + Clone *)
Theorem C14_send : none_send = true.
Proof. exact tx_types_not_send. Qed.
Theorem C14_db_shareable : db_shareable = true.
Proof. exact db_is_shareable. Qed.
Print Assumptions C14_send.

(* the check is not vacuous: the pinned to_bytes and a loosened get_kv are rejected by it *)
Theorem C14_pinned_to_bytes_rejected : anchoredb pinned_to_bytes = false.
Proof. exact pinned_to_bytes_unanchored. Qed.
Theorem C14_loosened_get_kv_rejected : anchoredb loosened_get_kv = false.
Proof. exact loosened_get_kv_unanchored. Qed.
