(* C09 -- writers are serialized, no update is lost, and nobody deadlocks.
   Model: model/Conc.v (any number of threads, any schedule). Liveness is stated as deadlock freedom:
   whenever some thread is unfinished, some thread can take a step (no fairness assumption needed for that;
   "every thread eventually finishes" then follows under any fair scheduler because every blocking condition
   is discharged by threads that are not waiting on the blocked one -- not formalised as a temporal property). *)
From Coq Require Import List.
From Jamm Require Import Conc ConcFacts.
Import ListNotations.

Theorem C09_writers_serialized : forall ab c0 ts s, initial_threads ts -> reachable ab (init c0 ts) s -> mutex_ok s.
Proof. exact C09_mutex. Qed.
Print Assumptions C09_writers_serialized.

(* a writer's view of the header stays current from the moment it reads it until it writes its own: no lost update *)
Theorem C09_no_lost_update : forall ab c0 ts s i t, initial_threads ts -> reachable ab (init c0 ts) s ->
  nth_error (threads s) i = Some t ->
  In (t_pc t) [WHdr; WReg; CGrow1; CGrow2; CGrow3; CData; CHeaderNext] -> t_hdr t = cur s.
Proof. exact C09_fresh_writer. Qed.
Print Assumptions C09_no_lost_update.

Theorem C09_commits_increment : forall ab c0 ts s i s', initial_threads ts -> reachable ab (init c0 ts) s ->
  step ab s i = Some s' -> cur s' = cur s \/ cur s' = S (cur s).
Proof. exact C09_commit_increments. Qed.

(* deadlock freedom; in particular a reader is never blocked by an open, uncommitted writer (only by a remap in progress) *)
Theorem C09_deadlock_free : forall ab c0 ts s, initial_threads ts -> reachable ab (init c0 ts) s ->
  all_done s = false -> some_enabled ab s.
Proof. exact C09_progress. Qed.
Print Assumptions C09_deadlock_free.

(* ---- with contents: along every execution of the protocol (any threads, any schedule), projected onto the storage engine, the
   current state is the reference after ALL committed transactions in commit order -- each commit built on its predecessor, none
   lost -- and the header's transaction id counts them ---- *)
From Coq Require Import NArith.
From Jamm Require Bytes Engine EngineAbs EngineR EngineReadersInv ConcEngine ConcEngineTop.
Theorem C09_no_commit_is_lost : forall (ops_of : nat -> list Engine.op * list Bytes.bytes) (c0 : nat)
    (ts : list Conc.thread) (st0 : Engine.db) (sched : list nat) (h' : EngineR.hstate),
  Conc.initial_threads ts -> EngineReadersInv.db_okr st0 -> Engine.d_tx st0 = N.of_nat c0 ->
  let s0 := Conc.init c0 ts in
  let es := ConcEngine.project ops_of s0 ConcEngine.ghost0 sched in
  let s := Conc.run true s0 sched in
  ConcEngine.g_ok (st0, nil) es -> ConcEngine.run_g (st0, nil) es = Engine.Ok h' ->
  EngineReadersInv.db_okr (fst h') /\ Engine.d_tx (fst h') = N.of_nat (Conc.cur s) /\
  Conc.cur s = c0 + length (ConcEngine.txs_of es) /\
  EngineAbs.abs_db (fst h') = ConcEngine.sem_commits (ConcEngine.txs_of es) (EngineAbs.abs_db st0).
Proof. exact ConcEngineTop.conc_engine_no_lost_update. Qed.
Print Assumptions C09_no_commit_is_lost.
