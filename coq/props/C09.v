(* placeholder until the C09 theorems land *)
From Jamm Require Import Conc.
Lemma c09_placeholder : True. Proof. exact I. Qed.
Print Assumptions c09_placeholder.
