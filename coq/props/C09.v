(* C09 -- writers are serialized, no update is lost, and nobody deadlocks.
   Model: model/Conc.v (any number of threads, any schedule). Liveness is stated as deadlock freedom:
   whenever some thread is unfinished, some thread can take a step (no fairness assumption needed for that;
   "every thread eventually finishes" then follows under any fair scheduler because every blocking condition
   is discharged by threads that are not waiting on the blocked one -- not formalised as a temporal property). *)
From Coq Require Import List.
From Jamm Require Import Conc ConcFacts.
Import ListNotations.

Theorem C09_writers_serialized : forall ab c0 ts s, initial_threads ts -> reachable ab (init c0 ts) s -> mutex_ok s.
Proof. exact C09_mutex. Qed.
Print Assumptions C09_writers_serialized.

(* a writer's view of the header stays current from the moment it reads it until it writes its own: no lost update *)
Theorem C09_no_lost_update : forall ab c0 ts s i t, initial_threads ts -> reachable ab (init c0 ts) s ->
  nth_error (threads s) i = Some t ->
  In (t_pc t) [WHdr; WReg; CGrow1; CGrow2; CGrow3; CData; CHeaderNext] -> t_hdr t = cur s.
Proof. exact C09_fresh_writer. Qed.
Print Assumptions C09_no_lost_update.

Theorem C09_commits_increment : forall ab c0 ts s i s', initial_threads ts -> reachable ab (init c0 ts) s ->
  step ab s i = Some s' -> cur s' = cur s \/ cur s' = S (cur s).
Proof. exact C09_commit_increments. Qed.

(* deadlock freedom; in particular a reader is never blocked by an open, uncommitted writer (only by a remap in progress) *)
Theorem C09_deadlock_free : forall ab c0 ts s, initial_threads ts -> reachable ab (init c0 ts) s ->
  all_done s = false -> some_enabled ab s.
Proof. exact C09_progress. Qed.
Print Assumptions C09_deadlock_free.
