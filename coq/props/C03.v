(* C03 -- a read-only transaction sees one frozen snapshot for its whole life.
   Stated on the page-lifecycle machine (model/PL.v), whose accepted runs include every real run
   (checked on every execution by the extracted acceptor over the library's hook events). *)
From Coq Require Import List NArith.
From Jamm Require Import PL PLFacts PLProps.
Import ListNotations.

(* over ANY accepted history during which the reader stays registered: no commit writes a page of its
   snapshot, it is still registered at the end, and the invariant (its pages are neither free nor in a
   pending list that a writer may release) still holds *)
Theorem C03_reader_frozen : forall es s s' r L,
  PLInv s -> In (r, L) (readers s) -> accept_all s es = Some s' -> keeps_reader r es ->
  (forall x, In x (writes_of es) -> ~ In x L) /\ In (r, L) (readers s') /\ PLInv s'.
Proof. exact reader_frozen. Qed.
Print Assumptions C03_reader_frozen.

(* the same from the initial state: a reader that begins after any history es1 and stays open during es2 *)
Theorem C03_from_init : forall es1 es2 s1 s',
  accept_all init_pl es1 = Some s1 -> accept_all init_pl (es1 ++ EBeginR :: es2) = Some s' ->
  keeps_reader (tx s1) es2 ->
  (forall x, In x (writes_of es2) -> ~ In x (live s1)) /\ In (tx s1, live s1) (readers s') /\ PLInv s'.
Proof. exact reader_frozen_from_init. Qed.
Print Assumptions C03_from_init.

(* one step, with what the next writer may take: the snapshot's pages are not in the shared free set, not in
   any pending list the oldest-reader bound lets a writer release, not in the next writer's free list *)
Theorem C03_retained : forall s w nf npd l' np' tx' s' r L,
  PLInv s -> accept s (ECommit w nf npd l' np' tx') = Some s' -> In (r, L) (readers s) ->
  In (r, L) (readers s') /\
  (forall x, In x L -> ~ In x (free s')) /\
  (forall u ps, In (u, ps) (pend s') -> (u <= r)%N -> forall x, In x L -> ~ In x ps) /\
  (forall t f1 p1, writer_view s' = (t, f1, p1) -> forall x, In x L -> ~ In x f1).
Proof. exact snapshot_retained_after_commit. Qed.
Print Assumptions C03_retained.

(* non-vacuity: a concrete accepted run with a pinned reader, and a commit that writes into a registered
   snapshot is rejected by the acceptor *)
Example C03_run_accepted : accept_all init_pl run1 <> None.
Proof. rewrite run1_accepted. discriminate. Qed.

(* ---- the engine model: a transaction leaves every page of the PREVIOUS committed state untouched, so a reader of the previous
   header reads, on the disk after the commit, exactly what it read before (the latest snapshot; snapshots pinned across several
   commits are the page-lifecycle theorems above: the engine model has no reader registry) ---- *)
From Jamm Require Bytes Engine EngineAbs EnginePathFacts EngineRefines EngineOwnDefs EngineOwnSpill EngineCow.
Theorem C03_engine_previous_snapshot_intact : forall (st : Engine.db) (ops : list Engine.op) (ord : list Bytes.bytes) (st' : Engine.db),
  EngineOwnSpill.db_okz st -> Forall (EnginePathFacts.op_ok (Engine.d_disk st)) ops ->
  Engine.run_tx st ops ord = Engine.Ok st' ->
  (forall p : N, In p (EngineRefines.live_of st (EngineOwnDefs.Rof st)) ->
     Engine.dget (Engine.d_disk st') p = Engine.dget (Engine.d_disk st) p) /\
  (forall p : N, In p (EngineOwnDefs.Rof st) -> Engine.dget (Engine.d_disk st') p = Engine.dget (Engine.d_disk st) p) /\
  EngineOwnDefs.fpg 16 (Engine.d_disk st') (Engine.d_root st) = EngineOwnDefs.Rof st /\
  EngineOwnDefs.runs (Engine.d_disk st') (EngineOwnDefs.fpg 16 (Engine.d_disk st') (Engine.d_root st)) =
    EngineOwnDefs.runs (Engine.d_disk st) (EngineOwnDefs.Rof st) /\
  (forall n : nat, EngineAbs.abs_bucket n (Engine.d_disk st') (Engine.d_root st) (Engine.d_next st) =
                   EngineAbs.abs_bucket n (Engine.d_disk st) (Engine.d_root st) (Engine.d_next st)) /\
  EngineAbs.abs_bucket 16 (Engine.d_disk st') (Engine.d_root st) (Engine.d_next st) = EngineAbs.abs_db st.
Proof. exact EngineCow.old_snapshot_intact. Qed.
Print Assumptions C03_engine_previous_snapshot_intact.

(* ==== the engine model WITH read transactions (coq/model/EngineR.v: a writer releases only the pending batches older than the
   oldest open reader, as the library does: k = 0; k = 1 is the tightest safe choice, k = 2 is refuted): in every history of
   transactions, reader begins and reader ends from the empty database, EVERY OPEN READER still finds every page of its snapshot
   (tree runs with overflow pages, free-list run) byte-identical on the current disk, and its root still means the contents it
   began on -- however many transactions committed meanwhile; and the current state is the reference's. ==== *)
From Jamm Require Spec EngineR EngineReadersInv EngineReaders EngineReadersEx.
Theorem C03_engine_snapshot_isolation : forall (k P : N) (es : list EngineR.hstep) (h' : EngineR.hstate),
  (k <= 1)%N -> (0 < P)%N ->
  EngineReaders.hist_ok k (Engine.init_db P, nil) es ->
  EngineR.run_hist_k k (Engine.init_db P, nil) es = Engine.Ok h' ->
  (forall r : EngineR.reader, In r (snd h') ->
     (forall p : N, In p (EngineReaders.snap r) ->
        Engine.dget (Engine.d_disk (fst h')) p = Engine.dget (Engine.d_disk r) p) /\
     EngineAbs.abs_bucket 16 (Engine.d_disk (fst h')) (Engine.d_root r) (Engine.d_next r) = EngineAbs.abs_db r) /\
  EngineReadersInv.db_okr (fst h') /\
  EngineAbs.abs_db (fst h') = EngineReaders.sem_hist es (Spec.SBucket 0 0 nil).
Proof. exact EngineReaders.snapshot_isolation_init. Qed.
Print Assumptions C03_engine_snapshot_isolation.

(* releasing one batch more (bound = oldest reader + 2) breaks a reader: computed history, negation of the statement *)
Theorem C03_engine_release_bound_is_tight :
  ~ (forall (es : list EngineR.hstep) (h h' : EngineR.hstate),
       EngineReaders.HInv h -> EngineReaders.hist_ok 2 h es -> EngineR.run_hist_k 2 h es = Engine.Ok h' ->
       forall r : EngineR.reader, In r (snd h') ->
       EngineAbs.abs_bucket 16 (Engine.d_disk (fst h')) (Engine.d_root r) (Engine.d_next r) = EngineAbs.abs_db r).
Proof. exact EngineReadersEx.ExReaders.snapshot_isolation_false_k2. Qed.
Print Assumptions C03_engine_release_bound_is_tight.
