(* placeholder until the C03 theorems land *)
Lemma c03_placeholder : True. Proof. exact I. Qed.
Print Assumptions c03_placeholder.
