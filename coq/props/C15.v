(* C15 -- files written by earlier versions stay readable.
   The on-disk layout is pinned by theorems over the GENERATED struct field lists: page codec round trip for every
   page body and every content of the uninitialised bytes; header codec round trip; a recorded page size different
   from the one given to open is refused. The golden files (written once by the pinned release, plus their legacy-
   header variants) are decoded by the same Gallina functions on every run, and the legacy checksum is computed by
   the Gallina SHA3-256 (model/Keccak.v, validated on 16 test vectors by vm_compute). *)
From Coq Require Import List NArith String.
From Jamm Require Import Bytes Consts CLayout Meta Keccak OldMeta Codec MetaFacts CodecFacts CfgFacts OldMetaFacts.
Import ListNotations.
Local Open Scope N_scope.

Theorem C15_page_codec : forall pad P pid over b rd,
  0 < P -> pid < 2^64 -> over < 2^64 -> body_ok b -> body_size b < 2^64 ->
  body_size b <= (over + 1) * P ->
  reads_buffer rd (pid * P) (encode_page pad pid over b) ->
  decode_page rd P pid = Ok (mkPhdr pid (body_type b) (body_count b) over, b).
Proof. exact codec_page. Qed.
Print Assumptions C15_page_codec.

Theorem C15_header_codec : forall P m, meta_wf m -> meta_end <= P -> decode_meta (encode_meta_page P m) = Some m.
Proof. exact decode_encode_meta. Qed.
Print Assumptions C15_header_codec.

Theorem C15_header_valid : forall ct P m, meta_wf m -> meta_end <= P ->
  read_slot ct (encode_meta_page P (with_hash m)) = SlotValid (with_hash m).
Proof. exact read_slot_encode. Qed.

(* the layout itself: sizes and offsets computed from the generated field lists (a moved / added / dropped field
   changes these numbers and breaks the lemma) *)
Theorem C15_layout_pinned :
  sizeof "Page" = 40 /\ field_off "Page" "ptr" = 32 /\ sizeof "Meta" = 72 /\ sizeof "OldMeta" = 96 /\
  sizeof "LeafElement" = 32 /\ sizeof "BranchElement" = 24 /\ sizeof "BucketMeta" = 16 /\
  magic = 11259375 /\ version = 1 /\
  (type_branch, type_leaf, type_meta, type_freelist, type_data, type_bucket) = (1, 2, 3, 4, 0, 1).
Proof. vm_compute. repeat split; reflexivity. Qed.

Theorem C15_wrong_pagesize_refused : forall P' m s2, m_psz m <> P' ->
  exists why, select_slots P' (SlotValid m) s2 = SelPanic why.
Proof. exact wrong_pagesize_refused. Qed.
Print Assumptions C15_wrong_pagesize_refused.

(* ---- the legacy (SHA3-256 checksummed) header, for every header and every page size ---- *)
Theorem C15_legacy_header_codec : forall P m, meta_wf m -> old_meta_end <= P ->
  decode_old_meta (encode_old_meta_page P m) =
    Some (mkMeta (m_page m) (m_magic m) (m_version m) (m_psz m) (m_root m) (m_next m) (m_np m) (m_fl m) (m_tx m) 0, old_hash m).
Proof. exact decode_encode_old_meta. Qed.
Print Assumptions C15_legacy_header_codec.

Theorem C15_legacy_header_valid : forall ct P m, meta_wf m -> old_meta_end <= P ->
  read_slot_old ct (encode_old_meta_page P m) = SlotValid (with_hash m).
Proof. exact read_slot_old_encode. Qed.
Print Assumptions C15_legacy_header_valid.

(* a file both of whose headers are in the legacy format opens on the newer of the two, exactly as a current file
   with the same two headers would (premise: neither legacy page happens to carry a valid current-format checksum;
   legacy_page_invalid_iff says this is "first 8 digest bytes <> FNV checksum") *)
Theorem C15_legacy_file_opens : forall ct P m0 m1, meta_wf m0 -> meta_wf m1 -> old_meta_end <= P ->
  m_psz m0 = P -> m_psz m1 = P ->
  read_slot ct (encode_old_meta_page P m0) = SlotInvalid -> read_slot ct (encode_old_meta_page P m1) = SlotInvalid ->
  select_any ct P (encode_old_meta_page P m0) (encode_old_meta_page P m1) =
    SelMeta (with_hash (if m_tx m1 <? m_tx m0 then m0 else m1)).
Proof. exact legacy_file_opens_newest. Qed.
Print Assumptions C15_legacy_file_opens.

(* after the first commit by the current version one header is current, the other still legacy: opens on the current *)
Theorem C15_mixed_file_opens : forall ct P m0 m1, meta_wf m0 -> meta_end <= P -> m_psz m0 = P ->
  read_slot ct (encode_old_meta_page P m1) = SlotInvalid ->
  select_any ct P (encode_meta_page P (with_hash m0)) (encode_old_meta_page P m1) = SelMeta (with_hash m0) /\
  select_any ct P (encode_old_meta_page P m1) (encode_meta_page P (with_hash m0)) = SelMeta (with_hash m0).
Proof. exact mixed_file_current_wins. Qed.
Print Assumptions C15_mixed_file_opens.

Theorem C15_digest_length : forall msg, List.length (sha3_256 msg) = 32%nat.
Proof. exact sha3_256_length. Qed.
