(* C15 -- files written by earlier versions stay readable.
   The on-disk layout is pinned by theorems over the GENERATED struct field lists: page codec round trip for every
   page body and every content of the uninitialised bytes; header codec round trip; a recorded page size different
   from the one given to open is refused. The golden files (written once by the pinned release, plus their legacy-
   header variants) are decoded by the same Gallina functions on every run, and the legacy checksum is computed by
   the Gallina SHA3-256 (model/Keccak.v, validated on 16 test vectors by vm_compute). *)
From Coq Require Import List NArith String.
From Jamm Require Import Bytes Consts CLayout Meta Codec MetaFacts CodecFacts CfgFacts.
Import ListNotations.
Local Open Scope N_scope.

Theorem C15_page_codec : forall pad P pid over b rd,
  0 < P -> pid < 2^64 -> over < 2^64 -> body_ok b -> body_size b < 2^64 ->
  body_size b <= (over + 1) * P ->
  reads_buffer rd (pid * P) (encode_page pad pid over b) ->
  decode_page rd P pid = Ok (mkPhdr pid (body_type b) (body_count b) over, b).
Proof. exact codec_page. Qed.
Print Assumptions C15_page_codec.

Theorem C15_header_codec : forall P m, meta_wf m -> meta_end <= P -> decode_meta (encode_meta_page P m) = Some m.
Proof. exact decode_encode_meta. Qed.
Print Assumptions C15_header_codec.

Theorem C15_header_valid : forall ct P m, meta_wf m -> meta_end <= P ->
  read_slot ct (encode_meta_page P (with_hash m)) = SlotValid (with_hash m).
Proof. exact read_slot_encode. Qed.

(* the layout itself: sizes and offsets computed from the generated field lists (a moved / added / dropped field
   changes these numbers and breaks the lemma) *)
Theorem C15_layout_pinned :
  sizeof "Page" = 40 /\ field_off "Page" "ptr" = 32 /\ sizeof "Meta" = 72 /\ sizeof "OldMeta" = 96 /\
  sizeof "LeafElement" = 32 /\ sizeof "BranchElement" = 24 /\ sizeof "BucketMeta" = 16 /\
  magic = 11259375 /\ version = 1 /\
  (type_branch, type_leaf, type_meta, type_freelist, type_data, type_bucket) = (1, 2, 3, 4, 0, 1).
Proof. vm_compute. repeat split; reflexivity. Qed.

Theorem C15_wrong_pagesize_refused : forall P' m s2, m_psz m <> P' ->
  exists why, select_slots P' (SlotValid m) s2 = SelPanic why.
Proof. exact wrong_pagesize_refused. Qed.
Print Assumptions C15_wrong_pagesize_refused.
