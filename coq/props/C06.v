(* placeholder until the C06 theorems land *)
Lemma c06_placeholder : True. Proof. exact I. Qed.
Print Assumptions c06_placeholder.
