(* C06 -- uncommitted and failed work leaves no trace. *)
From Coq Require Import List NArith Bool.
From Jamm Require Import Bytes Spec PL PLFacts PLProps SpecFacts.
Import ListNotations.

(* beginning a writer and abandoning it is the identity on the shared state (page ownership, free list,
   pending lists, high-water mark, transaction counter, registered readers) *)
Theorem C06_begin_rollback : forall s f p s', accept_all s [EBeginW f p; ERollback] = Some s' -> s' = s.
Proof. exact begin_rollback_same. Qed.
Print Assumptions C06_begin_rollback.

(* any history without a commit or a reopen leaves live/free/pending/np/tx unchanged *)
Theorem C06_no_commit_no_change : forall es s s',
  Forall no_commit es -> accept_all s es = Some s' -> same_db s s'.
Proof. exact no_commit_same_db. Qed.
Print Assumptions C06_no_commit_no_change.

(* reference semantics: every mutating call on a read-only transaction is refused with ReadOnlyTx and changes
   nothing; (the library must return what the reference returns: checked on every run) *)
Theorem C06_read_only_refused : forall t o, t_writable t = false -> is_mutator o = true -> o <> ODump ->
  step_op t o = (t, RErr ReadOnlyTx).
Proof. exact read_only_refused. Qed.
Print Assumptions C06_read_only_refused.

(* a call that returns an error leaves the transaction's view unchanged *)
Theorem C06_error_no_change : forall t o t' e, step_op t o = (t', RErr e) -> t' = t.
Proof. exact error_no_change. Qed.
Print Assumptions C06_error_no_change.

(* committing a read-only transaction is refused; the committed state is unchanged *)
Theorem C06_ro_commit_refused : forall d t x, tlookup t (d_txs d) = Some x -> t_writable x = false ->
  step d (CCommit t) = (mkDb (d_committed d) (tremove t (d_txs d)), RErr ReadOnlyTx).
Proof. exact ro_commit_refused. Qed.
(* dropping a transaction, and every call inside one, leaves the committed state unchanged *)
Theorem C06_drop_no_change : forall d t, d_committed (fst (step d (CDrop t))) = d_committed d.
Proof. exact drop_no_change. Qed.
Theorem C06_op_no_commit_change : forall d t o, d_committed (fst (step d (COp t o))) = d_committed d.
Proof. exact op_no_commit_change. Qed.
Print Assumptions C06_op_no_commit_change.

(* ---- engine model: closing and reopening changes neither the stored data nor its meaning, and without open readers it is
   invisible to the next writer ---- *)
From Jamm Require Bytes Engine EngineAbs FreelistFacts EngineOwnDefs EngineNoLeak EngineReopen.
Theorem C06_engine_reopen_is_invisible : forall (st : Engine.db) (ops : list Engine.op) (ord : list Bytes.bytes),
  FreelistFacts.asc (Engine.d_free st) -> EngineOwnDefs.pend_le st -> EngineNoLeak.flids_ok st ->
  Engine.run_tx (Engine.reopen_db st) ops ord = Engine.run_tx st ops ord.
Proof. exact EngineReopen.run_tx_reopen. Qed.
Print Assumptions C06_engine_reopen_is_invisible.

Theorem C06_engine_reopen_keeps_meaning : forall st : Engine.db, EngineAbs.abs_db (Engine.reopen_db st) = EngineAbs.abs_db st.
Proof. exact EngineReopen.reopen_abs. Qed.

(* ---- uncommitted and failed work leaves no trace, inside histories (EngineMixedHistories): a write transaction dropped without
   commit (ERollback), a commit that failed before its header became visible, and a commit cut by a power loss before its header
   became durable contribute NOTHING to what the database reads as afterwards -- the survivors are exactly the commits that became
   visible, whatever else happened in between ---- *)
From Jamm Require EngineCrashHistories EngineMixedHistories.
Theorem C06_engine_histories_leave_no_trace : forall st0 cd0 l surv stf cdf,
  EngineMixedHistories.mixed_run st0 cd0 l surv stf cdf -> EngineCrashHistories.Sim st0 cd0 -> EngineReopen.db_inv st0 ->
  EngineCrashHistories.Sim stf cdf /\ EngineReopen.db_inv stf /\
  EngineAbs.abs_db stf = EngineCrashHistories.sem_survivors surv (EngineAbs.abs_db st0).
Proof. exact EngineMixedHistories.engine_mixed_history. Qed.
Print Assumptions C06_engine_histories_leave_no_trace.
Check EngineMixedHistories.mixed_run_survivors.
