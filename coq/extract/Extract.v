(* Extraction of the executable model, reference and checkers. ExtrOcamlBasic only:
   Extract Inductive for bool, option, unit, list, prod, sumbool, sumor (declared by that file);
   no Extract Constant of ours; N / positive / byte / string stay Coq inductives. *)
Require Extraction.
Require Import ExtrOcamlBasic.
From Jamm Require Import Bytes Fnv Consts CLayout Meta Spec Codec Tree CheckM Cursor PL Freelist Conc ApiSig ApiFlow Engine EngineAbs SpecPath EngineRefines EngineR EngineScan.
Extraction Language OCaml.
Set Extraction KeepSingleton.
Separate Extraction
  Bytes.bcmp Bytes.beq Bytes.le_enc Bytes.le_dec Bytes.be_enc Bytes.byte_of_N Bytes.slice
  Fnv.fnv
  Meta.decode_meta Meta.meta_valid Meta.read_slot Meta.select_slots Meta.encode_meta_page Meta.init_meta Meta.with_hash
  Consts.meta_checks_page_type
  Spec.step Spec.init_sdb Spec.run Spec.dump_of Spec.b_next
  Codec.decode_page Codec.encode_page Codec.body_size
  Tree.logical Tree.inv_check Tree.open_db Tree.open_meta Tree.build_tree Tree.flatten Tree.bucket_pages CheckM.check_m
  Cursor.scan Cursor.seek_scan Cursor.range_scan Cursor.get Cursor.to_item
  PL.accept PL.init_pl PL.writer_view PL.commit_ok
  Freelist.begin_writer Freelist.tx_allocate Freelist.tx_free Freelist.fl_init Freelist.fl_pages Freelist.fl_size
  Conc.step Conc.init Conc.reader0 Conc.writer0 Conc.snapshots_okb Conc.finished
  ApiSig.api ApiFlow.anchoredb ApiFlow.sens_in ApiFlow.is_anchor_ty ApiFlow.none_send ApiFlow.db_shareable
  Engine.run_tx Engine.run_tx_auto Engine.init_db Engine.reopen_db Engine.dget
  EngineAbs.abs_db EngineAbs.sem_tx Spec.strip
  SpecPath.path_step SpecPath.pinit SpecPath.expand
  EngineRefines.checkedb EngineRefines.readableb EngineRefines.db_alloc_okb
  EngineR.run_tx_r
  Engine.root_bucket Engine.begin_w EngineScan.txm_step EngineScan.tx_state
  EngineScan.ovl_bucket Engine.b_next EngineScan.ovl_get EngineScan.ovl_cget EngineScan.ovl_scan EngineScan.ovl_seek EngineScan.ovl_range
  EngineScan.tx_get EngineScan.tx_scan EngineScan.tx_seek EngineScan.tx_range.
