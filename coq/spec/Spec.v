(* The reference: a nested ordered map with per-bucket insertion counters, bucket handles,
   transactions with snapshots.  This is the "simple abstract map" every property is stated against.
   Executable; extracted and run against the library's results. *)
From Coq Require Import List NArith Bool String.
From Coq.Strings Require Import Byte.
From Jamm Require Import Bytes.
Import ListNotations.
Open Scope N_scope.

(* ---------- data ---------- *)
Inductive snode :=
| SVal (v : bytes)
| SBucket (oid : N) (next : N) (ents : list (bytes * snode)).   (* ents strictly ascending by key *)

Definition empty_bucket (oid : N) : snode := SBucket oid 0 [].

Fixpoint alookup {A} (k : bytes) (l : list (bytes * A)) : option A :=
  match l with
  | [] => None
  | (k', v) :: l' => match bcmp k k' with Eq => Some v | Lt => None | Gt => alookup k l' end
  end.
Fixpoint ainsert {A} (k : bytes) (v : A) (l : list (bytes * A)) : list (bytes * A) :=
  match l with
  | [] => [(k, v)]
  | (k', v') :: l' => match bcmp k k' with
                      | Eq => (k, v) :: l' | Lt => (k, v) :: l | Gt => (k', v') :: ainsert k v l' end
  end.
Fixpoint aremove {A} (k : bytes) (l : list (bytes * A)) : list (bytes * A) :=
  match l with
  | [] => []
  | (k', v') :: l' => match bcmp k k' with
                      | Eq => l' | Lt => l | Gt => (k', v') :: aremove k l' end
  end.

Definition b_oid (n : snode) : N := match n with SBucket o _ _ => o | _ => 0 end.
Definition b_next (n : snode) : N := match n with SBucket _ x _ => x | _ => 0 end.
Definition b_ents (n : snode) : list (bytes * snode) := match n with SBucket _ _ e => e | _ => [] end.

(* strip object ids (a fresh transaction sees no opened buckets) *)
Fixpoint strip (n : snode) : snode :=
  match n with
  | SVal v => SVal v
  | SBucket _ x es => SBucket 0 x (map (fun kv => (fst kv, strip (snd kv))) es)
  end.

(* path (list of names from the root) of the bucket object [oid] *)
Fixpoint find_oid (oid : N) (n : snode) : option (list bytes) :=
  match n with
  | SVal _ => None
  | SBucket o _ es =>
      if o =? oid then Some [] else
      (fix go (l : list (bytes * snode)) : option (list bytes) :=
         match l with
         | [] => None
         | (k, c) :: l' => match find_oid oid c with Some p => Some (k :: p) | None => go l' end
         end) es
  end.
Fixpoint get_at (p : list bytes) (n : snode) : option snode :=
  match p with
  | [] => Some n
  | k :: p' => match alookup k (b_ents n) with Some c => get_at p' c | None => None end
  end.
Fixpoint set_at (p : list bytes) (nw : snode) (n : snode) : snode :=
  match p with
  | [] => nw
  | k :: p' =>
      match n with
      | SVal v => SVal v
      | SBucket o x es =>
          match alookup k es with
          | Some c => SBucket o x (ainsert k (set_at p' nw c) es)
          | None => n
          end
      end
  end.

(* ---------- results ---------- *)
Inductive rerr := BucketExists | BucketMissing | KeyValueMissing | IncompatibleValue | ReadOnlyTx.
Inductive item := IKv (k v : bytes) | IBk (k : bytes).
Definition item_key (i : item) : bytes := match i with IKv k _ => k | IBk k => k end.
Inductive dump := DKv (k v : bytes) | DBk (k : bytes) (next : N) (sub : list dump).
Inductive bound := BIncl (k : bytes) | BExcl (k : bytes) | BUnb.

Inductive result :=
| ROk
| RErr (e : rerr)
| RPanicDeleted               (* the documented misuse: handle of a bucket deleted in this transaction *)
| ROrphan                     (* handle below a deleted bucket: outside the property; such ops are filtered out *)
| RBadOp                      (* malformed history (unknown tx / handle): generator bug, never compared *)
| ROpt (o : option item)
| RItems (l : list item)
| RSeek (found : bool) (alt_pred alt_succ : list item)   (* iteration after seek must equal one of the two *)
| RNum (n : N)
| RDump (next : N) (d : list dump).

Definition to_item (kv : bytes * snode) : item :=
  match snd kv with SVal v => IKv (fst kv) v | SBucket _ _ _ => IBk (fst kv) end.
Definition items_of (n : snode) : list item := map to_item (b_ents n).
Fixpoint dump_of (n : snode) : list dump :=
  match n with
  | SVal _ => []
  | SBucket _ _ es =>
      map (fun kv => match snd kv with
                     | SVal v => DKv (fst kv) v
                     | SBucket _ x _ => DBk (fst kv) x (dump_of (snd kv))
                     end) es
  end.

Definition lo_ok (lo : bound) (k : bytes) : bool :=
  match lo with BIncl s => ble s k | BExcl s => blt s k | BUnb => true end.
Definition hi_ok (hi : bound) (k : bytes) : bool :=
  match hi with BIncl e => ble k e | BExcl e => blt k e | BUnb => true end.
Definition in_bounds (lo hi : bound) (k : bytes) : bool := lo_ok lo k && hi_ok hi k.

(* the two admissible positions after seeking an absent key: its predecessor or its successor *)
Fixpoint from_pred (k : bytes) (l : list item) : list item :=
  match l with
  | [] => []
  | i :: l' =>
      match l' with
      | [] => l
      | j :: _ => if blt (item_key j) k then from_pred k l' else l
      end
  end.
Definition from_succ (k : bytes) (l : list item) : list item :=
  filter (fun i => ble k (item_key i)) l.

(* ---------- transactions ---------- *)
Record stx := mkTx {
  t_root : snode;               (* the transaction's view; root bucket object id is 1 *)
  t_oids : N;                   (* next fresh object id *)
  t_handles : list (N * N);     (* handle -> object id; handle 0 is the transaction itself (root) *)
  t_deleted : list N;           (* object ids deleted directly through delete_bucket *)
  t_writable : bool }.

Definition begin_tx (committed : snode) (w : bool) : stx :=
  match strip committed with
  | SBucket _ x es => mkTx (SBucket 1 x es) 2 [(0, 1)] [] w
  | n => mkTx n 2 [(0, 1)] [] w
  end.

Fixpoint hlookup (h : N) (l : list (N * N)) : option N :=
  match l with [] => None | (h', o) :: l' => if h' =? h then Some o else hlookup h l' end.
Definition mem (x : N) (l : list N) : bool := existsb (N.eqb x) l.

Inductive target := TBad | TDeleted | TOrphan | TAt (p : list bytes) (b : snode).
Definition resolve (t : stx) (h : N) : target :=
  match hlookup h (t_handles t) with
  | None => TBad
  | Some o =>
      if mem o (t_deleted t) then TDeleted else
      match find_oid o (t_root t) with
      | None => TOrphan
      | Some p => match get_at p (t_root t) with Some b => TAt p b | None => TBad end
      end
  end.

Definition upd_root (t : stx) (r : snode) : stx := mkTx r (t_oids t) (t_handles t) (t_deleted t) (t_writable t).
Definition put_bucket (t : stx) (p : list bytes) (b : snode) : stx := upd_root t (set_at p b (t_root t)).
Definition add_handle (t : stx) (h o : N) : stx :=
  mkTx (t_root t) (t_oids t) ((h, o) :: t_handles t) (t_deleted t) (t_writable t).

(* open the sub-bucket [name] of the bucket at p: assign an object id if it has none *)
Definition open_sub (t : stx) (p : list bytes) (b : snode) (name : bytes) (c : snode) (nh : N) : stx :=
  match c with
  | SBucket o x es =>
      if o =? 0 then
        let o' := t_oids t in
        let b' := SBucket (b_oid b) (b_next b) (ainsert name (SBucket o' x es) (b_ents b)) in
        let t1 := put_bucket t p b' in
        add_handle (mkTx (t_root t1) (o' + 1) (t_handles t1) (t_deleted t1) (t_writable t1)) nh o'
      else add_handle t nh o
  | _ => t
  end.

Inductive op :=
| OCreate (h : N) (name : bytes) (nh : N)
| OGetB (h : N) (name : bytes) (nh : N)
| OGoc (h : N) (name : bytes) (nh : N)
| ODelB (h : N) (name : bytes)
| OPut (h : N) (k v : bytes)
| OGet (h : N) (k : bytes)
| OGetKv (h : N) (k : bytes)
| ODel (h : N) (k : bytes)
| ONextInt (h : N)
| OScan (h : N)
| OSeek (h : N) (k : bytes)
| ORange (h : N) (lo hi : bound)
| OBuckets (h : N)
| OKvPairs (h : N)
| ODump.

Definition is_mutator (o : op) : bool :=
  match o with OCreate _ _ _ | OGoc _ _ _ | ODelB _ _ | OPut _ _ _ | ODel _ _ => true | _ => false end.
Definition op_handle (o : op) : N :=
  match o with
  | OCreate h _ _ | OGetB h _ _ | OGoc h _ _ | ODelB h _ | OPut h _ _ | OGet h _ | OGetKv h _ | ODel h _
  | ONextInt h | OScan h | OSeek h _ | ORange h _ _ | OBuckets h | OKvPairs h => h
  | ODump => 0
  end.

(* one call inside a transaction *)
Definition step_op (t : stx) (o : op) : stx * result :=
  match o with
  | ODump => (t, RDump (b_next (t_root t)) (dump_of (t_root t)))
  | _ =>
  (* the read-only error comes before everything else, also before the deleted-handle panic *)
  if is_mutator o && negb (t_writable t) then (t, RErr ReadOnlyTx) else
  match resolve t (op_handle o) with
  | TBad => (t, RBadOp)
  | TDeleted => (t, RPanicDeleted)
  | TOrphan => (t, ROrphan)
  | TAt p b =>
      let es := b_ents b in
      match o with
      | OPut _ k v =>
          match alookup k es with
          | Some (SBucket _ _ _) => (t, RErr IncompatibleValue)
          | Some (SVal old) => (put_bucket t p (SBucket (b_oid b) (b_next b) (ainsert k (SVal v) es)), ROpt (Some (IKv k old)))
          | None => (put_bucket t p (SBucket (b_oid b) (b_next b + 1) (ainsert k (SVal v) es)), ROpt None)
          end
      | OGet _ k => (t, ROpt (option_map (fun c => to_item (k, c)) (alookup k es)))
      | OGetKv _ k => (t, ROpt (match alookup k es with Some (SVal v) => Some (IKv k v) | _ => None end))
      | ODel _ k =>
          match alookup k es with
          | None => (t, RErr KeyValueMissing)
          | Some (SBucket _ _ _) => (t, RErr IncompatibleValue)
          | Some (SVal v) => (put_bucket t p (SBucket (b_oid b) (b_next b) (aremove k es)), ROpt (Some (IKv k v)))
          end
      | ONextInt _ => (t, RNum (b_next b))
      | OScan _ => (t, RItems (items_of b))
      | OSeek _ k =>
          let its := items_of b in
          match alookup k es with
          | Some _ => (t, RSeek true (from_succ k its) (from_succ k its))
          | None => (t, RSeek false (from_pred k its) (from_succ k its))
          end
      | ORange _ lo hi => (t, RItems (filter (fun i => in_bounds lo hi (item_key i)) (items_of b)))
      | OBuckets _ => (t, RItems (filter (fun i => match i with IBk _ => true | _ => false end) (items_of b)))
      | OKvPairs _ => (t, RItems (filter (fun i => match i with IKv _ _ => true | _ => false end) (items_of b)))
      | OGetB _ name nh =>
          match alookup name es with
          | None => (t, RErr BucketMissing)
          | Some (SVal _) => (t, RErr IncompatibleValue)
          | Some c => (open_sub t p b name c nh, ROk)
          end
      | OCreate _ name nh =>
          match alookup name es with
          | Some (SVal _) => (t, RErr IncompatibleValue)
          | Some (SBucket _ _ _) => (t, RErr BucketExists)
          | None =>
              let o' := t_oids t in
              let b' := SBucket (b_oid b) (b_next b + 1) (ainsert name (empty_bucket o') es) in
              let t1 := put_bucket t p b' in
              (add_handle (mkTx (t_root t1) (o' + 1) (t_handles t1) (t_deleted t1) (t_writable t1)) nh o', ROk)
          end
      | OGoc _ name nh =>
          match alookup name es with
          | Some (SVal _) => (t, RErr IncompatibleValue)
          | Some c => (open_sub t p b name c nh, ROk)
          | None =>
              let o' := t_oids t in
              let b' := SBucket (b_oid b) (b_next b + 1) (ainsert name (empty_bucket o') es) in
              let t1 := put_bucket t p b' in
              (add_handle (mkTx (t_root t1) (o' + 1) (t_handles t1) (t_deleted t1) (t_writable t1)) nh o', ROk)
          end
      | ODelB _ name =>
          match alookup name es with
          | None => (t, RErr BucketMissing)
          | Some (SVal _) => (t, RErr IncompatibleValue)
          | Some (SBucket o _ _) =>
              let t1 := put_bucket t p (SBucket (b_oid b) (b_next b) (aremove name es)) in
              (mkTx (t_root t1) (t_oids t1) (t_handles t1) (if o =? 0 then t_deleted t1 else o :: t_deleted t1) (t_writable t1), ROk)
          end
      | ODump => (t, RBadOp)
      end
  end
  end.

(* ---------- database level ---------- *)
Record sdb := mkDb { d_committed : snode; d_txs : list (N * stx) }.
Definition init_sdb : sdb := mkDb (empty_bucket 0) [].

Inductive cmd :=
| CBegin (t : N) (w : bool)
| COp (t : N) (o : op)
| CCommit (t : N)
| CDrop (t : N)
| CReopen.

Fixpoint tlookup (t : N) (l : list (N * stx)) : option stx :=
  match l with [] => None | (t', x) :: l' => if t' =? t then Some x else tlookup t l' end.
Definition tremove (t : N) (l : list (N * stx)) : list (N * stx) := filter (fun x => negb (fst x =? t)) l.
Definition tset (t : N) (x : stx) (l : list (N * stx)) : list (N * stx) := (t, x) :: tremove t l.

Definition step (d : sdb) (c : cmd) : sdb * result :=
  match c with
  | CBegin t w => (mkDb (d_committed d) (tset t (begin_tx (d_committed d) w) (d_txs d)), ROk)
  | COp t o =>
      match tlookup t (d_txs d) with
      | None => (d, RBadOp)
      | Some x => let '(x', r) := step_op x o in (mkDb (d_committed d) (tset t x' (d_txs d)), r)
      end
  | CCommit t =>
      match tlookup t (d_txs d) with
      | None => (d, RBadOp)
      | Some x =>
          if t_writable x then (mkDb (strip (t_root x)) (tremove t (d_txs d)), ROk)
          else (mkDb (d_committed d) (tremove t (d_txs d)), RErr ReadOnlyTx)
      end
  | CDrop t => (mkDb (d_committed d) (tremove t (d_txs d)), ROk)
  | CReopen => (mkDb (d_committed d) [], ROk)
  end.

Fixpoint run (d : sdb) (cs : list cmd) : list result :=
  match cs with [] => [] | c :: cs' => let '(d', r) := step d c in r :: run d' cs' end.
