(* freelist.rs transliterated: Freelist {free_pages: BTreeSet, pending_pages: BTreeMap<tx, Vec>},
   TxFreelist {meta.num_pages, meta.tx_id, freed set}.  Executable; run against the library's
   alloc / free / begin / publish hook events. *)
From Coq Require Import List NArith Bool.
From Jamm Require Import Bytes PL.
Import ListNotations.
Local Open Scope list_scope. Local Open Scope N_scope.

(* BTreeSet::insert on a strictly ascending list *)
Fixpoint sins (x : N) (l : list N) : list N :=
  match l with
  | [] => [x]
  | y :: l' => if x <? y then x :: l else if x =? y then l else y :: sins x l'
  end.
(* sort keeping duplicates (Vec::sort_unstable of free ++ pending) *)
Fixpoint sins_dup (x : N) (l : list N) : list N :=
  match l with [] => [x] | y :: l' => if x <=? y then x :: l else y :: sins_dup x l' end.

Record freelist := mkFl { fl_free : list N; fl_pending : pending }.

(* Freelist::free: push onto pending[tx] (BTreeMap: ascending tx ids) *)
Fixpoint pend_add (t p : N) (l : pending) : pending :=
  match l with
  | [] => [(t, [p])]
  | (u, ps) :: l' => if u =? t then (u, ps ++ [p]) :: l'
                     else if t <? u then (t, [p]) :: l else (u, ps) :: pend_add t p l'
  end.

(* Freelist::release(t): pending[u] becomes free for every u < t (map iterated in ascending order, stops at the first u >= t) *)
Fixpoint release (t : N) (fr : list N) (pd : pending) : list N * pending :=
  match pd with
  | [] => (fr, [])
  | (u, ps) :: pd' => if u <? t then release t (fold_left (fun f p => sins p f) ps fr) pd' else (fr, pd)
  end.

(* Freelist::allocate(n): first run of exactly-contiguous ids of length n in the ascending free set *)
Fixpoint alloc_scan (l : list N) (n : N) (start prev : N) : N :=
  match l with
  | [] => 0
  | id :: l' =>
      let start' := if (prev =? 0) || negb (id - prev =? 1) then id else start in
      if id - start' + 1 =? n then start' else alloc_scan l' n start' id
  end.
Definition fl_allocate (fr : list N) (n : N) : option (N * list N) :=
  match fr with
  | [] => None
  | _ => let f := alloc_scan fr n 0 0 in
         if 0 <? f then Some (f, filter (fun x => negb ((f <=? x) && (x <? f + n))) fr) else None
  end.

(* Freelist::pages(): sorted free ++ all pending; Freelist::size() *)
Definition fl_pages (f : freelist) : list N :=
  fold_left (fun acc x => fold_left (fun a p => sins_dup p a) (snd x) acc) (fl_pending f) (fl_free f).
Definition fl_size (f : freelist) : N := 40 + 8 * llen (fl_pages f).

(* ---------- TxFreelist ---------- *)
Record txfl := mkTxfl { tf_inner : freelist; tf_np : N; tf_tx : N; tf_psz : N; tf_freed : list N }.

Definition pages_for (P bytes_ : N) : N :=
  if bytes_ mod P =? 0 then bytes_ / P else bytes_ / P + 1.

(* TxFreelist::allocate(bytes) -> (page id, number of pages) *)
Definition tx_allocate (s : txfl) (bytes_ : N) : N * N * txfl :=
  let n := pages_for (tf_psz s) bytes_ in
  match fl_allocate (fl_free (tf_inner s)) n with
  | Some (p, f') => (p, n, mkTxfl (mkFl f' (fl_pending (tf_inner s))) (tf_np s) (tf_tx s) (tf_psz s) (tf_freed s))
  | None => (tf_np s, n, mkTxfl (tf_inner s) (tf_np s + n) (tf_tx s) (tf_psz s) (tf_freed s))
  end.

(* TxFreelist::free(page, n) with the "freed once per transaction" set of the repaired code *)
Fixpoint tx_free_run (s : txfl) (p : N) (n : nat) : txfl :=
  match n with
  | O => s
  | S n' =>
      let s' := if memN p (tf_freed s) then s
                else mkTxfl (mkFl (fl_free (tf_inner s)) (pend_add (tf_tx s) p (fl_pending (tf_inner s))))
                            (tf_np s) (tf_tx s) (tf_psz s) (p :: tf_freed s) in
      tx_free_run s' (p + 1) n'
  end.
Definition tx_free (s : txfl) (p n : N) : txfl := tx_free_run s p (N.to_nat n).

(* Tx::new for a writer: clone the shared list, release against the oldest reader *)
Definition begin_writer (shared : freelist) (np tx_prev P : N) (readers : list N) : txfl :=
  let t := tx_prev + 1 in
  let bound := match readers with [] => t | r :: _ => r end in        (* open_ro_txs is kept sorted: [0] is the oldest *)
  let '(fr, pd) := release bound (fl_free shared) (fl_pending shared) in
  mkTxfl (mkFl fr pd) np t P [].

(* Freelist::init on open: every id listed in the free-list page becomes free *)
Definition fl_init (ids : list N) : freelist := mkFl (fold_left (fun f p => sins p f) ids []) [].
