(* The legacy (<= 0.10) header format: same fields, SHA3-256 of their big-endian images as a 32-byte
   checksum (meta.rs OldMeta). open() tries the current format on both slots first, then the legacy one;
   a legacy header is converted (From<&OldMeta> for Meta: same fields, FNV checksum recomputed). *)
From Coq Require Import List NArith String Bool.
From Coq.Strings Require Import Byte.
From Jamm Require Import Bytes Fnv Consts CLayout Meta Keccak.
Import ListNotations.
Local Open Scope string_scope. Local Open Scope list_scope. Local Open Scope N_scope.

Definition oo (f : string) : N := payload_off + field_off "OldMeta" f.
Definition oo_meta_page := Eval vm_compute in oo "meta_page".
Definition oo_magic := Eval vm_compute in oo "magic".
Definition oo_version := Eval vm_compute in oo "version".
Definition oo_pagesize := Eval vm_compute in oo "pagesize".
Definition oo_root := Eval vm_compute in oo "root.root_page".
Definition oo_next := Eval vm_compute in oo "root.next_int".
Definition oo_np := Eval vm_compute in oo "num_pages".
Definition oo_fl := Eval vm_compute in oo "freelist_page".
Definition oo_tx := Eval vm_compute in oo "tx_id".
Definition oo_hash := Eval vm_compute in oo "hash".
Definition old_hash_len : N := Eval vm_compute in field_size "OldMeta" "hash".      (* 32 *)

(* fields (hash field of the result unused) and the stored 32-byte checksum *)
Definition decode_old_meta (pg : bytes) : option (meta * bytes) :=
  match rd_le pg oo_meta_page 4, rd_le pg oo_magic 4, rd_le pg oo_version 4, rd_le pg oo_pagesize 8,
        rd_le pg oo_root 8, rd_le pg oo_next 8, rd_le pg oo_np 8, rd_le pg oo_fl 8, rd_le pg oo_tx 8, slice pg oo_hash old_hash_len with
  | Some a, Some b, Some c, Some d, Some e, Some f, Some g, Some h, Some i, Some hs =>
      Some (mkMeta a b c d e f g h i 0, hs)
  | _, _, _, _, _, _, _, _, _, _ => None
  end.
Definition old_hash (m : meta) : bytes := sha3_256 (hash_input_of old_hash_fields m).
Fixpoint bytes_eqb (a b : bytes) : bool :=
  match a, b with
  | [], [] => true
  | x :: a', y :: b' => (Byte.to_N x =? Byte.to_N y) && bytes_eqb a' b'
  | _, _ => false
  end.

Definition read_slot_old (checks_type : bool) (pg : bytes) : slot :=
  match page_type_of pg, decode_old_meta pg with
  | Some t, Some (m, hs) =>
      if t =? type_meta then (if bytes_eqb (old_hash m) hs then SlotValid (with_hash m) else SlotInvalid)
      else if checks_type then SlotInvalid else SlotPanic
  | _, _ => SlotPanic
  end.

(* what the legacy writer put into a header page (used by the golden-file writer's specification) *)
Definition encode_old_meta_page (P : N) (m : meta) : bytes :=
  let z := zeros (N.to_nat P) in
  let z := splice z off_pg_id (le_enc 8 (m_page m)) in
  let z := splice z off_pg_type (le_enc 1 type_meta) in
  let z := splice z oo_meta_page (le_enc 4 (m_page m)) in
  let z := splice z oo_magic (le_enc 4 (m_magic m)) in
  let z := splice z oo_version (le_enc 4 (m_version m)) in
  let z := splice z oo_pagesize (le_enc 8 (m_psz m)) in
  let z := splice z oo_root (le_enc 8 (m_root m)) in
  let z := splice z oo_next (le_enc 8 (m_next m)) in
  let z := splice z oo_np (le_enc 8 (m_np m)) in
  let z := splice z oo_fl (le_enc 8 (m_fl m)) in
  let z := splice z oo_tx (le_enc 8 (m_tx m)) in
  splice z oo_hash (old_hash m).

(* DBInner::meta(): current format on both slots, then the legacy format on both slots *)
Definition select_any (checks_type : bool) (P : N) (pg0 pg1 : bytes) : sel :=
  match select_slots P (read_slot checks_type pg0) (read_slot checks_type pg1) with
  | SelNone => select_slots P (read_slot_old checks_type pg0) (read_slot_old checks_type pg1)
  | r => r
  end.
