(* What a committed engine state MEANS (the abstraction function of tier B) and what a path-addressed operation
   does to that meaning (a direct functional semantics over the reference's nested ordered map, Spec.snode).
   The tier-B target theorem is stated at the end as a Prop (run_tx_refines_stmt); proofs/Engine*Facts.v work
   towards it. Both definitions are executable: `monitor msearch` evaluates
       abs_db (run_tx_auto st ops)  =  fold_left (fun r o => sem_op o r) ops (abs_db st)
   on every case it enumerates, and compares both sides with the handle-based reference machine Spec.step, so the
   statement is tested at volume before / while it is being proved. *)
From Coq Require Import List NArith Bool.
From Jamm Require Import Bytes Engine Spec.
Import ListNotations.
Local Open Scope list_scope. Local Open Scope N_scope.

(* the leaf entries stored below page p, left to right *)
Fixpoint page_ents (fuel : nat) (d : disk) (p : N) : list leafent :=
  match fuel with O => [] | S f =>
    match dget d p with None => [] | Some a =>
      match ap_body a with
      | Leaves l => l
      | Branches es => flat_map (fun e => page_ents f d (snd e)) es
      end end end.

(* the nested map stored in the bucket whose tree is rooted at page `root` *)
Fixpoint abs_bucket (fuel : nat) (d : disk) (root next : N) : snode :=
  match fuel with O => SBucket 0 next [] | S f =>
    SBucket 0 next (map (fun e => match e with
                                  | LKv k v => (k, SVal v)
                                  | LBk k r nx => (k, abs_bucket f d r nx) end) (page_ents 64 d root)) end.
Definition abs_db (st : db) : snode := abs_bucket 16 (d_disk st) (d_root st) (d_next st).

(* ---- functional semantics of the path-addressed operations ---- *)
Definition set_ents (b : snode) (next : N) (es : list (bytes * snode)) : snode := SBucket (Spec.b_oid b) next es.
Definition sem_put (k v : bytes) (b : snode) : snode :=
  match alookup k (b_ents b) with
  | Some (SBucket _ _ _) => b                                                   (* IncompatibleValue: no effect *)
  | Some (SVal _) => set_ents b (Spec.b_next b) (ainsert k (SVal v) (b_ents b))
  | None => set_ents b (Spec.b_next b + 1) (ainsert k (SVal v) (b_ents b)) end.
Definition sem_del (k : bytes) (b : snode) : snode :=
  match alookup k (b_ents b) with
  | Some (SVal _) => set_ents b (Spec.b_next b) (aremove k (b_ents b))
  | _ => b end.                                                                  (* missing / names a bucket: no effect *)
Definition sem_delb (nm : bytes) (b : snode) : snode :=
  match alookup nm (b_ents b) with
  | Some (SBucket _ _ _) => set_ents b (Spec.b_next b) (aremove nm (b_ents b))
  | _ => b end.
(* walk the path, opening or creating each bucket on the way; None when a component names a plain value (the whole
   operation then has no effect); creations on the way persist even when the final operation is refused *)
Fixpoint sem_at (path : list bytes) (f : snode -> snode) (b : snode) : option snode :=
  match path with
  | [] => Some (f b)
  | nm :: rest =>
      match alookup nm (b_ents b) with
      | Some (SVal _) => None
      | Some c => match sem_at rest f c with
                  | Some c' => Some (set_ents b (Spec.b_next b) (ainsert nm c' (b_ents b))) | None => None end
      | None => match sem_at rest f (SBucket 0 0 []) with
                | Some c' => Some (set_ents b (Spec.b_next b + 1) (ainsert nm c' (b_ents b))) | None => None end
      end end.
Definition op_path (o : Engine.op) : list bytes := match o with Put p _ _ => p | Del p _ => p | DelB p _ => p | Touch p => p end.
Definition op_fun (o : Engine.op) : snode -> snode :=
  match o with Put _ k v => sem_put k v | Del _ k => sem_del k | DelB _ nm => sem_delb nm | Touch _ => fun b => b end.
Definition sem_op (o : Engine.op) (root : snode) : snode :=
  match sem_at (op_path o) (op_fun o) root with Some r => r | None => root end.
Definition sem_tx (ops : list Engine.op) (root : snode) : snode := fold_left (fun r o => sem_op o r) ops root.

(* ---- the tier-B target: for a well-formed state (predicate supplied by the proof development), a transaction that the
   engine completes leaves a well-formed state whose meaning is the functional semantics of its operations.
   Side condition on the operations (predicate `op_ok`, supplied by the proof development: EnginePathFacts.op_ok = the path
   has fewer than 8 components and a deleted bucket's tree has fewer than 100000 pages): the model's walks are fuelled and
   `soft` turns an exhausted fuel into "no effect", so WITHOUT the side condition the statement is false of the model
   (EnginePathFacts.run_tx_refines_stmt_false: a put below 8 nested buckets). The histories the model is compared with the
   library on never nest deeper than 3. ---- *)
Definition run_tx_refines_unrestricted_stmt (db_wf : db -> Prop) : Prop :=
  forall st ops ord st', db_wf st -> run_tx st ops ord = Engine.Ok st' ->
    db_wf st' /\ abs_db st' = sem_tx ops (abs_db st).
Definition run_tx_refines_stmt (db_wf : db -> Prop) (op_ok : disk -> Engine.op -> Prop) : Prop :=
  forall st ops ord st', db_wf st -> Forall (op_ok (d_disk st)) ops -> run_tx st ops ord = Engine.Ok st' ->
    db_wf st' /\ abs_db st' = sem_tx ops (abs_db st).
