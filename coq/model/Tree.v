(* Decoded B+trees: building a tree from a file, flattening, well-formedness, page accounting,
   logical contents, and the whole-file invariant checker [inv_check] (the "independent parser"). *)
From Coq Require Import List NArith String Bool.
From Coq.Strings Require Import Byte.
From Jamm Require Import Bytes Consts CLayout Meta OldMeta Codec Spec.
Import ListNotations.
Local Open Scope string_scope. Local Open Scope list_scope. Local Open Scope N_scope.

Inductive tree :=
| TL (pid over : N) (ents : list lent)
| TB (pid over : N) (kids : list (bytes * tree)).

Definition t_pid (t : tree) : N := match t with TL p _ _ => p | TB p _ _ => p end.
Definition t_over (t : tree) : N := match t with TL _ o _ => o | TB _ o _ => o end.

(* fuel = an upper bound on the height; every call consumes one unit *)
Fixpoint build_tree (fuel : nat) (rd : reader) (P pid : N) : res tree :=
  match fuel with
  | O => Bad "tree deeper than the number of pages (cycle?)"
  | S f =>
      '(h, b) <- decode_page rd P pid ;;
      match b with
      | PLeaf l => Ok (TL pid (ph_overflow h) l)
      | PBranch es =>
          ks <- mapM (fun e : bytes * N => t <- build_tree f rd P (snd e) ;; Ok (fst e, t)) es ;;
          Ok (TB pid (ph_overflow h) ks)
      | PFree _ => Bad "free-list page inside a tree"
      end
  end.

Fixpoint flatten (t : tree) : list lent :=
  match t with
  | TL _ _ l => l
  | TB _ _ ks => flat_map (fun kt => flatten (snd kt)) ks
  end.

Fixpoint height (t : tree) : nat :=
  match t with
  | TL _ _ _ => O
  | TB _ _ ks => S (fold_right (fun kt acc => Nat.max (height (snd kt)) acc) O ks)
  end.

Fixpoint tree_pages (t : tree) : list N :=
  match t with
  | TL p o _ => seqN p (N.to_nat (o + 1))
  | TB p o ks => seqN p (N.to_nat (o + 1)) ++ flat_map (fun kt => tree_pages (snd kt)) ks
  end.

Definition first_key (t : tree) : option bytes :=
  match t with
  | TL _ _ (e :: _) => Some (lent_key e)
  | TB _ _ ((k, _) :: _) => Some k
  | _ => None
  end.

Fixpoint sorted_keys (l : list bytes) : bool :=
  match l with
  | [] => true
  | a :: l' => match l' with [] => true | b :: _ => blt a b && sorted_keys l' end
  end.

(* shape + separator well-formedness of one bucket's tree, as a boolean checker:
   - a branch has at least one entry, its separators are strictly ascending, and all its children
     have the same height;
   - separators bound their subtrees: every key under child i (i >= 1) is >= separator i, every key
     under child i is < separator i+1; child 0 is unbounded below (search sends smaller keys there);
   - keys strictly ascending across the whole tree (checked on the flattened list by wf_tree). *)
Definition all_keys_lt (l : list lent) (k : bytes) : bool := forallb (fun e => blt (lent_key e) k) l.
Definition all_keys_ge (l : list lent) (k : bytes) : bool := forallb (fun e => ble k (lent_key e)) l.
Fixpoint seps_ok (first : bool) (ks : list (bytes * list lent)) : bool :=
  match ks with
  | [] => true
  | (k, c) :: rest =>
      (first || all_keys_ge c k) &&
      match rest with [] => true | (k', _) :: _ => all_keys_lt c k' end &&
      seps_ok false rest
  end.
Fixpoint wf_shape (t : tree) : bool :=
  match t with
  | TL _ _ _ => true
  | TB _ _ ks =>
      negb (match ks with [] => true | _ => false end) &&
      forallb (fun kt : bytes * tree => wf_shape (snd kt)) ks &&
      sorted_keys (map fst ks) &&                 (* separators strictly ascending (DB::check demands it too) *)
      seps_ok true (map (fun kt : bytes * tree => (fst kt, flatten (snd kt))) ks) &&
      match ks with
      | [] => true
      | (_, c) :: ks' => forallb (fun kt : bytes * tree => Nat.eqb (height (snd kt)) (height c)) ks'
      end
  end.
Definition wf_tree (t : tree) : bool := wf_shape t && sorted_keys (map lent_key (flatten t)).

(* ---------- whole-bucket walks (nested buckets), with fuel for the nesting ---------- *)
Fixpoint bucket_pages (fuel : nat) (rd : reader) (P np : N) (root : N) : res (list N) :=
  match fuel with
  | O => Bad "bucket nesting deeper than the number of pages"
  | S f =>
      t <- build_tree (N.to_nat np) rd P root ;;
      subs <- mapM (fun e => match e with
                             | EKv _ _ => Ok []
                             | EBk _ r _ => bucket_pages f rd P np r
                             end) (flatten t) ;;
      Ok (tree_pages t ++ List.concat subs)
  end.

Fixpoint bucket_wf (fuel : nat) (rd : reader) (P np : N) (root : N) : res bool :=
  match fuel with
  | O => Bad "bucket nesting deeper than the number of pages"
  | S f =>
      t <- build_tree (N.to_nat np) rd P root ;;
      subs <- mapM (fun e => match e with
                             | EKv _ _ => Ok true
                             | EBk _ r _ => bucket_wf f rd P np r
                             end) (flatten t) ;;
      Ok (wf_tree t && forallb (fun b => b) subs)
  end.

Fixpoint bucket_dump (fuel : nat) (rd : reader) (P np : N) (root : N) : res (list dump) :=
  match fuel with
  | O => Bad "bucket nesting deeper than the number of pages"
  | S f =>
      t <- build_tree (N.to_nat np) rd P root ;;
      mapM (fun e => match e with
                     | EKv k v => Ok (DKv k v)
                     | EBk k r n => d <- bucket_dump f rd P np r ;; Ok (DBk k n d)
                     end) (flatten t)
  end.

(* ---------- opening a file ---------- *)
Definition read_header_page (rd : reader) (P : N) (slot : N) : bytes :=
  match rd (slot * P) (N.min P 256) with Some b => b | None => [] end.
Definition open_meta (rd : reader) (P : N) : sel :=
  select_any meta_checks_page_type P (read_header_page rd P 0) (read_header_page rd P 1).

Record opened := mkOpened { o_meta : meta; o_free : list N; o_flrun : list N }.
Definition open_db (rd : reader) (P : N) : res opened :=
  match open_meta rd P with
  | SelPanic why => Bad (String.append "open panics: " why)
  | SelNone => Bad "no valid header (legacy format not handled by this function)"
  | SelMeta m =>
      '(h, b) <- decode_page rd P (m_fl m) ;;
      match b with
      | PFree ids => Ok (mkOpened m ids (seqN (m_fl m) (N.to_nat (ph_overflow h + 1))))
      | _ => Bad "header's free-list page is not a free-list page"
      end
  end.

Definition logical (rd : reader) (P : N) : res (N * list dump) :=
  o <- open_db rd P ;;
  d <- bucket_dump (N.to_nat (m_np (o_meta o))) rd P (m_np (o_meta o)) (m_root (o_meta o)) ;;
  Ok (m_next (o_meta o), d).

(* ---------- the file invariant (C05) ---------- *)
Fixpoint insert_sorted (x : N) (l : list N) : list N :=
  match l with [] => [x] | y :: l' => if x <=? y then x :: l else y :: insert_sorted x l' end.
Definition sortN (l : list N) : list N := fold_left (fun acc x => insert_sorted x acc) l [].
Fixpoint eq_listN (a b : list N) : bool :=
  match a, b with
  | [], [] => true
  | x :: a', y :: b' => (x =? y) && eq_listN a' b'
  | _, _ => false
  end.

(* every page id in [2, np) exactly once among: reachable tree pages (with overflow runs, nested
   buckets included), the free-list page run, the ids listed in the free list *)
Definition partition_ok (np : N) (reach flrun free : list N) : bool :=
  eq_listN (sortN (reach ++ flrun ++ free)) (seqN 2 (N.to_nat (np - 2))).

Definition inv_check (rd : reader) (P : N) : res unit :=
  o <- open_db rd P ;;
  let m := o_meta o in
  if m_np m <? 4 then Bad "num_pages below 4" else
  reach <- bucket_pages (N.to_nat (m_np m)) rd P (m_np m) (m_root m) ;;
  wf <- bucket_wf (N.to_nat (m_np m)) rd P (m_np m) (m_root m) ;;
  if negb wf then Bad "tree not well-formed (shape / separators / key order)" else
  if negb (partition_ok (m_np m) reach (o_flrun o) (o_free o)) then Bad "pages below the high-water mark are not partitioned into reachable / free-list run / free" else
  Ok tt.
