(* Thread-level transition system of the lock protocol (DESIGN.md Appendix F): any number of threads,
   each running one reader or one writer transaction, at the granularity of the library's yield points.
   Shared state at the abstraction that matters for snapshot isolation:
     cur     -- tx id of the current (newest valid) header
     rel     -- published free list: every pending[u] with u < rel has been released
     cl      -- snapshots with id < cl may have been overwritten (their pages were released and a writer
                has written data since)
     readers -- open_ro_txs (registered snapshot ids)
     fileM   -- holder of the writer mutex;  rd / wr -- holders of the mmap RwLock
   [atomic_begin] = does Tx::new read the header and register / release inside one critical section
   (repaired code) or in two steps (pinned code)? It comes from the GENERATED flag Consts.begin_atomic. *)
From Coq Require Import List NArith Bool Arith.
Import ListNotations.
Local Open Scope list_scope. Local Open Scope nat_scope.

Inductive pc :=
(* reader *)
| RStart | RLocked | RFl | RHdr | RReg | RMid | REnd | RDone
(* writer *)
| WStart | WLocked | WFl | WHdr | WReg
| CGrow1 | CGrow2 | CGrow3          (* after fallocate / holding the mmap write lock / remapped *)
| CData | CHeaderNext | CSyncNext | CPublishNext | CPublished | WDone.

Record thread := mkThread {
  t_pc : pc;
  t_writer : bool;
  t_grows : bool;                  (* this writer's commit has to extend the file *)
  t_hdr : nat;                     (* header tx id it read *)
  t_wrel : nat                     (* writer: release bound it applied to its private free list *)
}.

Record cstate := mkC {
  cur : nat; rel : nat; cl : nat;
  readers : list nat;
  fileM : option nat;
  rd : list nat; wr : option nat;
  threads : list thread
}.

Definition reader0 : thread := mkThread RStart false false 0 0.
Definition writer0 (grows : bool) : thread := mkThread WStart true grows 0 0.
Definition init (c0 : nat) (ts : list thread) : cstate := mkC c0 0 0 [] None [] None ts.

Fixpoint set_nth {A} (l : list A) (i : nat) (x : A) : list A :=
  match l, i with
  | [], _ => []
  | _ :: l', O => x :: l'
  | y :: l', S i' => y :: set_nth l' i' x
  end.
Fixpoint remove1 (x : nat) (l : list nat) : list nat :=
  match l with [] => [] | y :: l' => if Nat.eqb x y then l' else y :: remove1 x l' end.
Definition minl (d : nat) (l : list nat) : nat := fold_left Nat.min l d.

Definition upd (s : cstate) (i : nat) (t : thread) : cstate :=
  mkC (cur s) (rel s) (cl s) (readers s) (fileM s) (rd s) (wr s) (set_nth (threads s) i t).
Definition with_pc (t : thread) (p : pc) : thread := mkThread p (t_writer t) (t_grows t) (t_hdr t) (t_wrel t).

(* one micro-step of thread i; None = not enabled (blocked on a lock) or finished *)
Definition step (atomic_begin : bool) (s : cstate) (i : nat) : option cstate :=
  match nth_error (threads s) i with
  | None => None
  | Some t =>
    match t_pc t with
    (* ---- reader ---- *)
    | RStart =>                                  (* mmap_lock.read() *)
        match wr s with
        | Some _ => None
        | None => Some (mkC (cur s) (rel s) (cl s) (readers s) (fileM s) (i :: rd s) (wr s) (set_nth (threads s) i (with_pc t RLocked)))
        end
    | RLocked => Some (upd s i (with_pc t RFl))                                        (* clone the free list *)
    | RFl =>                                                                           (* read the header *)
        let t1 := mkThread RHdr false false (cur s) 0 in
        if atomic_begin
        then Some (mkC (cur s) (rel s) (cl s) (cur s :: readers s) (fileM s) (rd s) (wr s) (set_nth (threads s) i (with_pc t1 RReg)))
        else Some (upd s i t1)
    | RHdr =>                                                                          (* register (pinned code only) *)
        Some (mkC (cur s) (rel s) (cl s) (t_hdr t :: readers s) (fileM s) (rd s) (wr s) (set_nth (threads s) i (with_pc t RReg)))
    | RReg => Some (upd s i (with_pc t RMid))                                          (* client reads *)
    | RMid => Some (upd s i (with_pc t REnd))
    | REnd =>                                                                          (* drop: deregister, release the read lock *)
        Some (mkC (cur s) (rel s) (cl s) (remove1 (t_hdr t) (readers s)) (fileM s) (remove1 i (rd s)) (wr s)
                  (set_nth (threads s) i (with_pc t RDone)))
    | RDone => None
    (* ---- writer ---- *)
    | WStart =>                                  (* file.lock() *)
        match fileM s with
        | Some _ => None
        | None => Some (mkC (cur s) (rel s) (cl s) (readers s) (Some i) (rd s) (wr s) (set_nth (threads s) i (with_pc t WLocked)))
        end
    | WLocked => Some (upd s i (mkThread WFl true (t_grows t) 0 (rel s)))              (* clone the published free list *)
    | WFl =>
        let t1 := mkThread WHdr true (t_grows t) (cur s) (t_wrel t) in
        if atomic_begin
        then Some (upd s i (mkThread WReg true (t_grows t) (cur s) (Nat.max (t_wrel t) (minl (S (cur s)) (readers s)))))
        else Some (upd s i t1)
    | WHdr =>                                    (* tx_id := hdr + 1; release(min(readers) or tx_id) *)
        Some (upd s i (mkThread WReg true (t_grows t) (t_hdr t) (Nat.max (t_wrel t) (minl (S (t_hdr t)) (readers s)))))
    | WReg => Some (upd s i (with_pc t (if t_grows t then CGrow1 else CData)))         (* client ops, rebalance, spill: private *)
    | CGrow1 =>                                  (* mmap_lock.write() *)
        match rd s, wr s with
        | [], None => Some (mkC (cur s) (rel s) (cl s) (readers s) (fileM s) (rd s) (Some i) (set_nth (threads s) i (with_pc t CGrow2)))
        | _, _ => None
        end
    | CGrow2 => Some (upd s i (with_pc t CGrow3))            (* remap (the write lock is held until resize returns) *)
    | CGrow3 =>                                  (* resize returns: release the write lock *)
        Some (mkC (cur s) (rel s) (cl s) (readers s) (fileM s) (rd s) None (set_nth (threads s) i (with_pc t CData)))
    | CData =>                                   (* write the data pages: released pages may now be overwritten *)
        Some (mkC (cur s) (rel s) (Nat.max (cl s) (pred (t_wrel t))) (readers s) (fileM s) (rd s) (wr s)
                  (set_nth (threads s) i (with_pc t CHeaderNext)))
    | CHeaderNext =>                             (* write the header: the commit becomes the current one *)
        Some (mkC (S (t_hdr t)) (rel s) (cl s) (readers s) (fileM s) (rd s) (wr s) (set_nth (threads s) i (with_pc t CSyncNext)))
    | CSyncNext => Some (upd s i (with_pc t CPublishNext))
    | CPublishNext =>                            (* publish the free list *)
        Some (mkC (cur s) (t_wrel t) (cl s) (readers s) (fileM s) (rd s) (wr s) (set_nth (threads s) i (with_pc t CPublished)))
    | CPublished =>                              (* drop: release the writer mutex *)
        Some (mkC (cur s) (rel s) (cl s) (readers s) None (rd s) (wr s) (set_nth (threads s) i (with_pc t WDone)))
    | WDone => None
    end
  end.

Inductive reachable (ab : bool) (s0 : cstate) : cstate -> Prop :=
| reach_refl : reachable ab s0 s0
| reach_step : forall s i s', reachable ab s0 s -> step ab s i = Some s' -> reachable ab s0 s'.

Fixpoint run (ab : bool) (s : cstate) (sched : list nat) : cstate :=
  match sched with
  | [] => s
  | i :: r => match step ab s i with Some s' => run ab s' r | None => run ab s r end
  end.

(* ---- the properties ---- *)
Definition in_writer_section (p : pc) : bool :=
  match p with
  | WLocked | WFl | WHdr | WReg | CGrow1 | CGrow2 | CGrow3 | CData | CHeaderNext | CSyncNext | CPublishNext | CPublished => true
  | _ => false
  end.
Definition reader_active (p : pc) : bool := match p with RReg | RMid | REnd => true | _ => false end.
Definition finished (p : pc) : bool := match p with RDone | WDone => true | _ => false end.

(* C09: at most one thread is inside a write transaction *)
Definition mutex_ok (s : cstate) : Prop :=
  forall i j ti tj, nth_error (threads s) i = Some ti -> nth_error (threads s) j = Some tj ->
    in_writer_section (t_pc ti) = true -> in_writer_section (t_pc tj) = true -> i = j.
(* C04: every active reader's snapshot is intact (not overwritten) *)
Definition snapshots_ok (s : cstate) : Prop :=
  forall i t, nth_error (threads s) i = Some t -> reader_active (t_pc t) = true -> cl s <= t_hdr t.
(* the same as a boolean, for refutation by computation *)
Definition snapshots_okb (s : cstate) : bool :=
  forallb (fun t => negb (reader_active (t_pc t)) || (cl s <=? t_hdr t)) (threads s).
(* C09: some unfinished thread can always move *)
Definition all_done (s : cstate) : bool := forallb (fun t => finished (t_pc t)) (threads s).
Definition some_enabled (ab : bool) (s : cstate) : Prop := exists i s', step ab s i = Some s'.
(* well-formed initial thread list: every thread at its start pc *)
Definition initial_threads (ts : list thread) : Prop :=
  Forall (fun t => (t_writer t = true /\ t_pc t = WStart) \/ (t_writer t = false /\ t_pc t = RStart /\ t_grows t = false)) ts.
