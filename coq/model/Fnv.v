(* FNV-1a 64 as implemented by the `fnv` crate (FnvHasher::default + write + finish). *)
From Coq Require Import List NArith.
From Coq.Strings Require Import Byte.
From Jamm Require Import Bytes.
Import ListNotations.
Open Scope N_scope.

Definition two64 : N := 18446744073709551616.
Definition fnv_basis : N := 0xcbf29ce484222325.
Definition fnv_prime : N := 0x100000001b3.
Definition fnv_step (h : N) (b : byte) : N := ((N.lxor h (Byte.to_N b)) * fnv_prime) mod two64.
Definition fnv (bs : bytes) : N := fold_left fnv_step bs fnv_basis.
