(* Page-lifecycle machine (DESIGN.md Appendix E): the state of jammdb at the granularity
   "which page belongs to whom", an executable ACCEPTOR for observed events (writer begin with the
   released free list, commit with the pages it allocated / freed / made live, reader begin/end,
   rollback, reopen), and the invariant the theorems are about.
   The acceptor is run on the event stream of the real library (hooks + decoded files): every real
   run must be a run of this machine. *)
From Coq Require Import List NArith Bool.
From Jamm Require Import Bytes.
Import ListNotations.
Local Open Scope list_scope. Local Open Scope N_scope.

(* ---------- finite sets of page ids as lists ---------- *)
Definition memN (x : N) (l : list N) : bool := existsb (N.eqb x) l.
Definition subsetN (a b : list N) : bool := forallb (fun x => memN x b) a.
Definition disjointN (a b : list N) : bool := forallb (fun x => negb (memN x b)) a.
Definition diffN (a b : list N) : list N := filter (fun x => negb (memN x b)) a.
Fixpoint nodupN (l : list N) : bool :=
  match l with [] => true | x :: l' => negb (memN x l') && nodupN l' end.
Definition seteqN (a b : list N) : bool := subsetN a b && subsetN b a.
Definition rangeN (lo hi : N) : list N :=     (* [lo, hi) *)
  (fix go (n : nat) (x : N) : list N := match n with O => [] | S n' => x :: go n' (x + 1) end) (N.to_nat (hi - lo)) lo.

Definition pending := list (N * list N).      (* freeing transaction id -> pages, ascending ids *)
Definition pend_all (p : pending) : list N := flat_map snd p.
Definition pend_lt (t : N) (p : pending) : list N := flat_map snd (filter (fun x => fst x <? t) p).
Definition pend_ge (t : N) (p : pending) : pending := filter (fun x => negb (fst x <? t)) p.

Record pl := mkPl {
  live : list N;                   (* pages reachable from the current header + its free-list run *)
  free : list N;                   (* the shared in-memory free set *)
  pend : pending;                  (* shared pending lists *)
  np : N;                          (* high-water mark of the current header *)
  tx : N;                          (* id of the last commit *)
  readers : list (N * list N)      (* registered readers: snapshot id, live set of that snapshot *)
}.

Definition init_pl : pl := mkPl [2; 3] [] [] 4 0 [].

Definition min_reader (s : pl) (t : N) : N :=
  fold_left (fun m r => N.min m (fst r)) (readers s) t.

(* what a beginning writer computes: its id and its private free list after release *)
Definition writer_view (s : pl) : N * list N * pending :=
  let t := tx s + 1 in
  let m := min_reader s t in
  (t, free s ++ pend_lt m (pend s), pend_ge m (pend s)).

Inductive event :=
| EBeginR                                                    (* reader registers the current header *)
| EEndR (snap : N)                                           (* a reader of snapshot [snap] deregisters *)
| EBeginW (obs_free : list N) (obs_pend : pending)           (* observed private free list after release *)
| ECommit (written : list N)                                 (* page ids the commit wrote (data, not header) *)
          (new_free : list N) (new_pend : pending)           (* the published free list *)
          (live' : list N) (np' : N) (tx' : N)               (* decoded from the new header *)
| ERollback
| EReopen (obs_free : list N).                               (* free list as loaded by open() *)

Fixpoint remove_reader (snap : N) (l : list (N * list N)) : option (list (N * list N)) :=
  match l with
  | [] => None
  | r :: l' => if fst r =? snap then Some l'
               else match remove_reader snap l' with Some l'' => Some (r :: l'') | None => None end
  end.

Definition pend_eq (a b : pending) : bool :=
  Nat.eqb (length a) (length b) &&
  forallb (fun xy : (N * list N) * (N * list N) => (fst (fst xy) =? fst (snd xy)) && seteqN (snd (fst xy)) (snd (snd xy)))
          (combine a b).

(* the commit contract (c1)-(c8) of Appendix E, as a decidable check on what was observed *)
Definition commit_freed (t : N) (new_pend : pending) : list N :=
  match filter (fun x => fst x =? t) new_pend with (_, ps) :: _ => ps | [] => [] end.
Definition commit_ok (s : pl) (written new_free : list N) (new_pend : pending) (live' : list N) (np' tx' : N) : bool :=
  let '(t, free1, pend1) := writer_view s in
  let alloc := diffN free1 new_free ++ rangeN (np s) np' in            (* pages taken from the free list or from growth *)
  let freed := commit_freed t new_pend in
  (np s <=? np') && (tx' =? t) &&
  nodupN new_free &&
  subsetN new_free free1 &&                                            (* (c1) nothing appears in free from nowhere *)
  pend_eq (filter (fun x => negb (fst x =? t)) new_pend) pend1 &&      (* older pending lists untouched *)
  nodupN freed &&                                                      (* (c3) each page freed once *)
  subsetN freed (live s ++ alloc) &&                                   (* (c3) *)
  subsetN live' (diffN (live s) freed ++ alloc) &&                     (* (c4) *)
  subsetN alloc (live' ++ freed) &&                                    (* (c5) allocated = live or given back *)
  subsetN written alloc &&                                             (* (c6) only allocated pages are written *)
  subsetN (diffN (live s) freed) live' &&                              (* (c7) *)
  disjointN live' freed &&                                             (* (c8) *)
  nodupN live'.

Definition accept (s : pl) (e : event) : option pl :=
  match e with
  | EBeginR => Some (mkPl (live s) (free s) (pend s) (np s) (tx s) ((tx s, live s) :: readers s))
  | EEndR snap =>
      match remove_reader snap (readers s) with
      | Some rs => Some (mkPl (live s) (free s) (pend s) (np s) (tx s) rs)
      | None => None
      end
  | EBeginW of_ op =>
      let '(_, free1, pend1) := writer_view s in
      if seteqN of_ free1 && nodupN of_ && pend_eq op pend1 then Some s else None
  | ECommit written new_free new_pend live' np' tx' =>
      if commit_ok s written new_free new_pend live' np' tx'
      then
        let '(t, _, pend1) := writer_view s in
        let freed := commit_freed t new_pend in
        (* the model's own pending lists (the observed ones were compared with them) *)
        Some (mkPl live' new_free (pend1 ++ match freed with [] => [] | _ => [(t, freed)] end) np' t (readers s))
      else None
  | ERollback => Some s
  | EReopen of_ =>
      if seteqN of_ (free s ++ pend_all (pend s)) && nodupN of_
      then Some (mkPl (live s) of_ [] (np s) (tx s) [])
      else None
  end.

Fixpoint accept_all (s : pl) (es : list event) : option pl :=
  match es with
  | [] => Some s
  | e :: es' => match accept s e with Some s' => accept_all s' es' | None => None end
  end.

(* ---------- the invariant ---------- *)
Definition all_pages (s : pl) : list N := live s ++ free s ++ pend_all (pend s).
Definition PLInv (s : pl) : Prop :=
  2 <= np s /\
  NoDup (all_pages s) /\                                          (* live, free, pending pairwise disjoint, no duplicates *)
  (forall x, In x (all_pages s) <-> 2 <= x < np s) /\             (* ... and together they are exactly [2, np) *)
  (forall u ps, In (u, ps) (pend s) -> u <= tx s) /\
  (forall r L, In (r, L) (readers s) ->
      r <= tx s /\
      (forall x, In x L -> 2 <= x < np s) /\
      (forall x, In x L -> ~ In x (free s)) /\
      (forall u ps, In (u, ps) (pend s) -> u <= r -> forall x, In x L -> ~ In x ps)).
