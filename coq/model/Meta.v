(* Header ("meta") pages: encode, decode, validity, slot selection = DBInner::meta() of db.rs. *)
From Coq Require Import List NArith String Bool.
From Coq.Strings Require Import Byte.
From Jamm Require Import Bytes Fnv Consts CLayout.
Import ListNotations.
Local Open Scope string_scope. Local Open Scope list_scope. Local Open Scope N_scope.

Record meta := mkMeta {
  m_page : N; m_magic : N; m_version : N; m_psz : N; m_root : N; m_next : N;
  m_np : N; m_fl : N; m_tx : N; m_hash : N }.

(* offsets, computed from the generated field lists at compile time *)
Definition page_hdr_size : N := Eval vm_compute in sizeof "Page".           (* 40 *)
Definition payload_off : N := Eval vm_compute in field_off "Page" "ptr".    (* 32 *)
Definition off_pg_id : N := Eval vm_compute in field_off "Page" "id".
Definition off_pg_type : N := Eval vm_compute in field_off "Page" "page_type".
Definition off_pg_count : N := Eval vm_compute in field_off "Page" "count".
Definition off_pg_overflow : N := Eval vm_compute in field_off "Page" "overflow".
Definition mo (f : string) : N := payload_off + field_off "Meta" f.
Definition o_meta_page := Eval vm_compute in mo "meta_page".
Definition o_magic := Eval vm_compute in mo "magic".
Definition o_version := Eval vm_compute in mo "version".
Definition o_pagesize := Eval vm_compute in mo "pagesize".
Definition o_root := Eval vm_compute in mo "root.root_page".
Definition o_next := Eval vm_compute in mo "root.next_int".
Definition o_np := Eval vm_compute in mo "num_pages".
Definition o_fl := Eval vm_compute in mo "freelist_page".
Definition o_tx := Eval vm_compute in mo "tx_id".
Definition o_hash := Eval vm_compute in mo "hash".
Definition meta_end : N := Eval vm_compute in payload_off + sizeof "Meta".   (* 104 *)
Definition old_meta_end : N := Eval vm_compute in payload_off + sizeof "OldMeta". (* 128 *)

(* value and width (bytes) of a hashed field, by its source name *)
Definition meta_field (m : meta) (f : string) : option (N * nat) :=
  if String.eqb f "meta_page" then Some (m_page m, 4%nat) else
  if String.eqb f "magic" then Some (m_magic m, 4%nat) else
  if String.eqb f "version" then Some (m_version m, 4%nat) else
  if String.eqb f "pagesize" then Some (m_psz m, 8%nat) else
  if String.eqb f "root.root_page" then Some (m_root m, 8%nat) else
  if String.eqb f "root.next_int" then Some (m_next m, 8%nat) else
  if String.eqb f "num_pages" then Some (m_np m, 8%nat) else
  if String.eqb f "freelist_page" then Some (m_fl m, 8%nat) else
  if String.eqb f "tx_id" then Some (m_tx m, 8%nat) else None.

Definition hash_input_of (fields : list string) (m : meta) : bytes :=
  flat_map (fun f => match meta_field m f with Some (v, w) => be_enc w v | None => [] end) fields.
Definition hash_input (m : meta) : bytes := hash_input_of hash_fields m.
Definition meta_hash (m : meta) : N := fnv (hash_input m).
Definition meta_valid (m : meta) : bool := m_hash m =? meta_hash m.
Definition with_hash (m : meta) : meta :=
  mkMeta (m_page m) (m_magic m) (m_version m) (m_psz m) (m_root m) (m_next m) (m_np m) (m_fl m) (m_tx m) (meta_hash m).

(* ---- decode from page bytes (pg = the bytes of the page, at least meta_end long) ---- *)
Definition page_type_of (pg : bytes) : option N := rd_le pg off_pg_type 1.
Definition decode_meta (pg : bytes) : option meta :=
  match rd_le pg o_meta_page 4, rd_le pg o_magic 4, rd_le pg o_version 4, rd_le pg o_pagesize 8,
        rd_le pg o_root 8, rd_le pg o_next 8, rd_le pg o_np 8, rd_le pg o_fl 8, rd_le pg o_tx 8, rd_le pg o_hash 8 with
  | Some a, Some b, Some c, Some d, Some e, Some f, Some g, Some h, Some i, Some j =>
      Some (mkMeta a b c d e f g h i j)
  | _, _, _, _, _, _, _, _, _, _ => None
  end.

(* ---- encode: what init_file / write_data put into a header page (rest of the page zero) ---- *)
Definition encode_meta_page (P : N) (m : meta) : bytes :=
  let z := zeros (N.to_nat P) in
  let z := splice z off_pg_id (le_enc 8 (m_page m)) in
  let z := splice z off_pg_type (le_enc 1 type_meta) in
  let z := splice z o_meta_page (le_enc 4 (m_page m)) in
  let z := splice z o_magic (le_enc 4 (m_magic m)) in
  let z := splice z o_version (le_enc 4 (m_version m)) in
  let z := splice z o_pagesize (le_enc 8 (m_psz m)) in
  let z := splice z o_root (le_enc 8 (m_root m)) in
  let z := splice z o_next (le_enc 8 (m_next m)) in
  let z := splice z o_np (le_enc 8 (m_np m)) in
  let z := splice z o_fl (le_enc 8 (m_fl m)) in
  let z := splice z o_tx (le_enc 8 (m_tx m)) in
  splice z o_hash (le_enc 8 (m_hash m)).

(* ---- slot reading and selection: DBInner::meta() ---- *)
Inductive slot := SlotPanic | SlotInvalid | SlotValid (m : meta).
(* [checks_type] = generated flag: does meta() treat a wrong page type as "invalid" (repaired code)
   or does Page::meta() assert (pinned code: panic)? *)
Definition read_slot (checks_type : bool) (pg : bytes) : slot :=
  match page_type_of pg, decode_meta pg with
  | Some t, Some m =>
      if t =? type_meta then (if meta_valid m then SlotValid m else SlotInvalid)
      else if checks_type then SlotInvalid else SlotPanic
  | _, _ => SlotPanic   (* page shorter than a header: out-of-bounds read *)
  end.

Inductive sel := SelPanic (why : string) | SelNone | SelMeta (m : meta).
(* the `check_meta!` macro for one header format; P = the page size the DB was opened with *)
Definition select_slots (P : N) (s1 s2 : slot) : sel :=
  match s1, s2 with
  | SlotPanic, _ | _, SlotPanic => SelPanic "page type"
  | SlotValid m1, SlotValid m2 =>
      if negb (m_psz m1 =? P) then SelPanic "pagesize" else
      if negb (m_psz m2 =? P) then SelPanic "pagesize" else
      if m_tx m2 <? m_tx m1 then SelMeta m1 else SelMeta m2
  | SlotValid m1, SlotInvalid => if m_psz m1 =? P then SelMeta m1 else SelPanic "pagesize"
  | SlotInvalid, SlotValid m2 => if m_psz m2 =? P then SelMeta m2 else SelPanic "pagesize"
  | SlotInvalid, SlotInvalid => SelNone
  end.

(* fresh database image: the four pages init_file writes *)
Definition init_meta (P : N) (i : N) : meta :=
  with_hash (mkMeta i magic version P 3 0 4 2 0 0).

(* ---------- damage to a header page (C12) ---------- *)
Definition in_range (off lo len : N) : bool := (lo <=? off) && (off <? lo + len).
Definition field_hashed (f : string) : bool := existsb (String.eqb f) hash_fields.
(* an offset is significant when changing the byte there must invalidate the slot: it lies in a stored
   field that is fed to the checksum (per the GENERATED hash_fields), in the checksum itself, or it is
   the page-type byte when open() checks it *)
Definition significant (checks_type : bool) (off : N) : bool :=
  (checks_type && (off =? off_pg_type)) ||
  (field_hashed "meta_page" && in_range off o_meta_page 4) ||
  (field_hashed "magic" && in_range off o_magic 4) ||
  (field_hashed "version" && in_range off o_version 4) ||
  (field_hashed "pagesize" && in_range off o_pagesize 8) ||
  (field_hashed "root.root_page" && in_range off o_root 8) ||
  (field_hashed "root.next_int" && in_range off o_next 8) ||
  (field_hashed "num_pages" && in_range off o_np 8) ||
  (field_hashed "freelist_page" && in_range off o_fl 8) ||
  (field_hashed "tx_id" && in_range off o_tx 8) ||
  in_range off o_hash 8.
Definition damage (pg : bytes) (off : N) (b : byte) : bytes := splice pg off [b].
(* field values fit their widths *)
Definition meta_wf (m : meta) : Prop :=
  m_page m < 2 ^ 32 /\ m_magic m < 2 ^ 32 /\ m_version m < 2 ^ 32 /\ m_psz m < 2 ^ 64 /\ m_root m < 2 ^ 64 /\
  m_next m < 2 ^ 64 /\ m_np m < 2 ^ 64 /\ m_fl m < 2 ^ 64 /\ m_tx m < 2 ^ 64 /\ m_hash m < 2 ^ 64.
