(* Page codec: decoding of branch / leaf / free-list pages from raw bytes through an abstract
   reader [rd off len], and the encoder that mirrors Page::write_node (page.rs).
   Offsets come from the generated field lists through CLayout. *)
From Coq Require Import List NArith String Bool.
From Coq.Strings Require Import Byte.
From Jamm Require Import Bytes Consts CLayout Meta.
Import ListNotations.
Local Open Scope string_scope. Local Open Scope list_scope. Local Open Scope N_scope.

Inductive res (A : Type) := Ok (a : A) | Bad (msg : string).
Arguments Ok {A}. Arguments Bad {A}.
Definition bind {A B} (r : res A) (f : A -> res B) : res B :=
  match r with Ok a => f a | Bad m => Bad m end.
Notation "x <- r ;; k" := (bind r (fun x => k)) (at level 61, r at next level, right associativity).
Notation "' p <- r ;; k" := (bind r (fun p => k)) (at level 61, p pattern, r at next level, right associativity).
Definition of_opt {A} (o : option A) (msg : string) : res A := match o with Some a => Ok a | None => Bad msg end.

Definition reader := N -> N -> option bytes.      (* offset, length -> bytes; None = outside the file *)
Definition reader_of (file : bytes) : reader := slice file.

(* element header layouts (generated) *)
Definition leaf_hdr : N := Eval vm_compute in sizeof "LeafElement".          (* 32 *)
Definition branch_hdr : N := Eval vm_compute in sizeof "BranchElement".      (* 24 *)
Definition lo_type := Eval vm_compute in field_off "LeafElement" "node_type".
Definition lo_pos := Eval vm_compute in field_off "LeafElement" "pos".
Definition lo_ksz := Eval vm_compute in field_off "LeafElement" "key_size".
Definition lo_vsz := Eval vm_compute in field_off "LeafElement" "value_size".
Definition bo_page := Eval vm_compute in field_off "BranchElement" "page".
Definition bo_ksz := Eval vm_compute in field_off "BranchElement" "key_size".
Definition bo_pos := Eval vm_compute in field_off "BranchElement" "pos".
Definition bmeta_size : N := Eval vm_compute in sizeof "BucketMeta".          (* 16 *)
Definition bm_root := Eval vm_compute in field_off "BucketMeta" "root_page".
Definition bm_next := Eval vm_compute in field_off "BucketMeta" "next_int".

Record phdr := mkPhdr { ph_id : N; ph_type : N; ph_count : N; ph_overflow : N }.
Inductive lent := EKv (k v : bytes) | EBk (k : bytes) (root next : N).
Definition lent_key (e : lent) : bytes := match e with EKv k _ => k | EBk k _ _ => k end.
Inductive pbody := PLeaf (l : list lent) | PBranch (es : list (bytes * N)) | PFree (ids : list N).

Definition rdN (rd : reader) (off : N) (n : nat) : res N :=
  match rd off (N.of_nat n) with Some b => Ok (le_dec b) | None => Bad "read outside the file" end.

Definition read_phdr (rd : reader) (P pid : N) : res phdr :=
  let base := pid * P in
  a <- rdN rd (base + off_pg_id) 8 ;;
  t <- rdN rd (base + off_pg_type) 1 ;;
  c <- rdN rd (base + off_pg_count) 8 ;;
  o <- rdN rd (base + off_pg_overflow) 8 ;;
  Ok (mkPhdr a t c o).

(* every element must lie inside its page run: [base, base + (overflow+1)*P) *)
Definition in_run (P : N) (h : phdr) (pid : N) (off len : N) : bool :=
  (pid * P <=? off) && (off + len <=? (pid + ph_overflow h + 1) * P).

Fixpoint seqN (start : N) (n : nat) : list N :=
  match n with O => [] | S n' => start :: seqN (start + 1) n' end.

Fixpoint mapM {A B} (f : A -> res B) (l : list A) : res (list B) :=
  match l with
  | [] => Ok []
  | x :: l' => y <- f x ;; ys <- mapM f l' ;; Ok (y :: ys)
  end.

Definition read_leaf_elem (rd : reader) (P : N) (h : phdr) (pid i : N) : res lent :=
  let eb := pid * P + payload_off + i * leaf_hdr in
  if negb (in_run P h pid eb leaf_hdr) then Bad "leaf element header outside the page run" else
  t <- rdN rd (eb + lo_type) 1 ;;
  pos <- rdN rd (eb + lo_pos) 8 ;;
  ks <- rdN rd (eb + lo_ksz) 8 ;;
  vs <- rdN rd (eb + lo_vsz) 8 ;;
  if negb (in_run P h pid (eb + pos) (ks + vs)) then Bad "leaf element data outside the page run" else
  k <- of_opt (rd (eb + pos) ks) "key outside the file" ;;
  v <- of_opt (rd (eb + pos + ks) vs) "value outside the file" ;;
  if t =? type_data then Ok (EKv k v)
  else if t =? type_bucket then
    if negb (vs =? bmeta_size) then Bad "bucket entry with a value that is not a bucket header" else
    r <- of_opt (rd_le v bm_root 8) "bucket header" ;;
    n <- of_opt (rd_le v bm_next 8) "bucket header" ;;
    Ok (EBk k r n)
  else Bad "invalid leaf node type".

Definition read_branch_elem (rd : reader) (P : N) (h : phdr) (pid i : N) : res (bytes * N) :=
  let eb := pid * P + payload_off + i * branch_hdr in
  if negb (in_run P h pid eb branch_hdr) then Bad "branch element header outside the page run" else
  pg <- rdN rd (eb + bo_page) 8 ;;
  ks <- rdN rd (eb + bo_ksz) 8 ;;
  pos <- rdN rd (eb + bo_pos) 8 ;;
  if negb (in_run P h pid (eb + pos) ks) then Bad "branch key outside the page run" else
  k <- of_opt (rd (eb + pos) ks) "branch key outside the file" ;;
  Ok (k, pg).

(* count is bounded by what can fit, so the model cannot be made to loop on a corrupt count *)
Definition decode_page (rd : reader) (P pid : N) : res (phdr * pbody) :=
  h <- read_phdr rd P pid ;;
  if negb (ph_id h =? pid) then Bad "page id field does not match the page position" else
  let room := (ph_overflow h + 1) * P in
  if ph_type h =? type_leaf then
    if room <? payload_off + ph_count h * leaf_hdr then Bad "leaf count does not fit the run" else
    l <- mapM (read_leaf_elem rd P h pid) (seqN 0 (N.to_nat (ph_count h))) ;; Ok (h, PLeaf l)
  else if ph_type h =? type_branch then
    if room <? payload_off + ph_count h * branch_hdr then Bad "branch count does not fit the run" else
    l <- mapM (read_branch_elem rd P h pid) (seqN 0 (N.to_nat (ph_count h))) ;; Ok (h, PBranch l)
  else if ph_type h =? type_freelist then
    if room <? payload_off + ph_count h * 8 then Bad "free-list count does not fit the run" else
    l <- mapM (fun i => rdN rd (pid * P + payload_off + i * 8) 8) (seqN 0 (N.to_nat (ph_count h))) ;; Ok (h, PFree l)
  else Bad "invalid page type".

(* ---------- encoder: Page::write_node / the free-list writer of write_data ---------- *)
(* [pad] supplies the bytes the implementation leaves uninitialised (arena memory, struct padding);
   the round-trip theorem is for every pad. The buffer has exactly [size] bytes = what commit writes. *)
Definition lent_val (e : lent) : bytes :=
  match e with EKv _ v => v | EBk _ r n => le_enc 8 r ++ le_enc 8 n end.
Definition lent_type (e : lent) : N := match e with EKv _ _ => type_data | EBk _ _ _ => type_bucket end.
Definition body_count (b : pbody) : N :=
  match b with PLeaf l => llen l | PBranch es => llen es | PFree ids => llen ids end.
Definition body_type (b : pbody) : N :=
  match b with PLeaf _ => type_leaf | PBranch _ => type_branch | PFree _ => type_freelist end.
(* node size as computed by Node::size / Freelist::size: HEADER_SIZE (40) + element headers + data *)
Definition body_size (b : pbody) : N :=
  page_hdr_size +
  match b with
  | PLeaf l => fold_left (fun acc e => acc + blen (lent_key e) + blen (lent_val e)) l (leaf_hdr * llen l)
  | PBranch es => fold_left (fun acc e => acc + blen (fst e)) es (branch_hdr * llen es)
  | PFree ids => 8 * llen ids
  end.

Fixpoint padN (pad : N -> byte) (start : N) (n : nat) : bytes :=
  match n with O => [] | S n' => pad start :: padN pad (start + 1) n' end.

(* leaf element headers: pos is relative to the element header's own address *)
Fixpoint enc_leaf_hdrs (pad : N -> byte) (l : list lent) (remaining_hdrs : N) (data_off : N) (at_ : N) : bytes :=
  match l with
  | [] => []
  | e :: l' =>
      let pos := remaining_hdrs * leaf_hdr + data_off in
      (le_enc 1 (lent_type e) ++ padN pad (at_ + 1) 7 ++ le_enc 8 pos ++ le_enc 8 (blen (lent_key e)) ++ le_enc 8 (blen (lent_val e)))
      ++ enc_leaf_hdrs pad l' (remaining_hdrs - 1) (data_off + blen (lent_key e) + blen (lent_val e)) (at_ + leaf_hdr)
  end.
Fixpoint enc_branch_hdrs (es : list (bytes * N)) (remaining_hdrs : N) (data_off : N) : bytes :=
  match es with
  | [] => []
  | (k, pg) :: es' =>
      let pos := remaining_hdrs * branch_hdr + data_off in
      (le_enc 8 pg ++ le_enc 8 (blen k) ++ le_enc 8 pos) ++ enc_branch_hdrs es' (remaining_hdrs - 1) (data_off + blen k)
  end.

Definition encode_page (pad : N -> byte) (pid over : N) (b : pbody) : bytes :=
  let hdr := le_enc 8 pid ++ le_enc 1 (body_type b) ++ padN pad 9 7 ++ le_enc 8 (body_count b) ++ le_enc 8 over in
  let payload :=
    match b with
    | PLeaf l => enc_leaf_hdrs pad l (llen l) 0 payload_off ++ flat_map (fun e => lent_key e ++ lent_val e) l
    | PBranch es => enc_branch_hdrs es (llen es) 0 ++ flat_map fst es
    | PFree ids => flat_map (le_enc 8) ids
    end in
  let used := hdr ++ payload in
  (* the buffer is body_size bytes long: 8 bytes of slack after the payload (HEADER_SIZE is 40, payload starts at 32) *)
  used ++ padN pad (blen used) (N.to_nat (body_size b) - List.length used).
