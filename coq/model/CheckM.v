(* TxInner::check (tx.rs:359) -- the database's own consistency check, run by DB::check() and, in strict mode, by
   every commit before the header is written -- transliterated over the Gallina decoder.
   unused = [2, num_pages); a stack of page ids starting with the root page and the free-list page; every popped page
   and every page of its overflow run must still be in `unused` (and is removed); branch / leaf keys must be strictly
   ascending inside a page; a free-list page must be THE free-list page and every id it lists is removed from
   `unused`; at the end `unused` must be empty. *)
From Coq Require Import List NArith String Bool.
From Jamm Require Import Bytes Consts Meta Codec Tree.
Import ListNotations.
Local Open Scope string_scope. Local Open Scope list_scope. Local Open Scope N_scope.

Fixpoint remove1N (x : N) (l : list N) : option (list N) :=
  match l with
  | [] => None
  | y :: l' => if x =? y then Some l' else match remove1N x l' with Some r => Some (y :: r) | None => None end
  end.
Fixpoint remove_all (xs : list N) (l : list N) : option (list N) :=
  match xs with
  | [] => Some l
  | x :: xs' => match remove1N x l with Some l' => remove_all xs' l' | None => None end
  end.

(* one iteration of the while loop; returns the new (stack, unused) *)
Definition check_step (rd : reader) (P : N) (flpage : N) (pid : N) (stack : list N) (unused : list N) : res (list N * list N) :=
  match remove1N pid unused with
  | None => Bad "Page missing from unused_pages"
  | Some u1 =>
      '(h, b) <- decode_page rd P pid ;;
      match remove_all (seqN (pid + 1) (N.to_nat (ph_overflow h))) u1 with
      | None => Bad "Overflow page missing from unused_pages"
      | Some u2 =>
          match b with
          | PBranch es =>
              if sorted_keys (map fst es) then Ok (rev (map snd es) ++ stack, u2)    (* pushes in order, pops from the end *)
              else Bad "Branch page contains unsorted elements"
          | PLeaf l =>
              if sorted_keys (map lent_key l)
              then Ok (rev (flat_map (fun e => match e with EBk _ r _ => [r] | EKv _ _ => [] end) l) ++ stack, u2)
              else Bad "Leaf page contains unsorted elements"
          | PFree ids =>
              if negb (pid =? flpage) then Bad "Found Invalid Freelist Page" else
              match remove_all ids u2 with
              | Some u3 => Ok (stack, u3)
              | None => Bad "Page from freelist missing from unused_pages"
              end
          end
      end
  end.

Fixpoint check_loop (fuel : nat) (rd : reader) (P : N) (flpage : N) (stack unused : list N) : res unit :=
  match stack with
  | [] => match unused with [] => Ok tt | _ => Bad "Unreachable pages" end
  | pid :: stack' =>
      match fuel with
      | O => Bad "check did not terminate (cycle)"
      | S f => '(st, u) <- check_step rd P flpage pid stack' unused ;; check_loop f rd P flpage st u
      end
  end.

(* Vec stack: push root, push freelist page; pop takes the last pushed first *)
Definition check_m (rd : reader) (P : N) : res unit :=
  o <- open_db rd P ;;
  let m := o_meta o in
  check_loop (S (N.to_nat (m_np m))) rd P (m_fl m) [m_fl m; m_root m] (seqN 2 (N.to_nat (m_np m - 2))).
