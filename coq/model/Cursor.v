(* The cursor stack machine of cursor.rs over a decoded tree view: binary search (Rust's
   slice::binary_search_by, transliterated), search/seek, seek_first, current, advance, next,
   Range::next, the bucket / pair filters. The machine modelled is the REPAIRED one (cursor skips
   empty leaves, index + 1 >= len, excluded start bound honoured); the pinned variants are kept as
   *_legacy for the refutation lemmas. *)
From Coq Require Import List NArith Bool Arith.
From Coq.Strings Require Import Byte.
From Jamm Require Import Bytes Codec Tree Spec.
Import ListNotations.
Local Open Scope list_scope. Local Open Scope nat_scope.

(* ---------- Rust's binary_search_by ---------- *)
Fixpoint bs_loop (fuel : nat) (keys : list bytes) (t : bytes) (base size : nat) : nat :=
  match fuel with
  | O => base
  | S f =>
      if size <=? 1 then base else
      let half := size / 2 in
      let mid := base + half in
      let base' := match bcmp (nth mid keys []) t with Gt => base | _ => mid end in
      bs_loop f keys t base' (size - half)
  end.
(* (true, i): found at i;  (false, i): not found, i = insertion point *)
Definition bsearch (keys : list bytes) (t : bytes) : bool * nat :=
  match keys with
  | [] => (false, 0)
  | _ =>
      let base := bs_loop (length keys) keys t 0 (length keys) in
      match bcmp (nth base keys []) t with
      | Eq => (true, base) | Lt => (false, S base) | Gt => (false, base)
      end
  end.

(* ---------- views ---------- *)
Definition keys_of (t : tree) : list bytes :=
  match t with TL _ _ l => map lent_key l | TB _ _ ks => map fst ks end.
Definition tlen (t : tree) : nat := length (keys_of t).
Definition is_leaf (t : tree) : bool := match t with TL _ _ _ => true | _ => false end.
(* PageNode::index: exact position, or the slot before the insertion point (saturating) *)
Definition index_of (t : tree) (k : bytes) : nat * bool :=
  match bsearch (keys_of t) k with (true, i) => (i, true) | (false, i) => (pred i, false) end.
Definition child_at (t : tree) (i : nat) : option tree :=
  match t with TB _ _ ks => option_map snd (nth_error ks i) | TL _ _ _ => None end.
Definition val_at (t : tree) (i : nat) : option lent :=
  match t with TL _ _ l => nth_error l i | TB _ _ _ => None end.

Definition frame := (tree * nat)%type.
Definition stack := list frame.                      (* top of the stack first *)

(* cursor::search: descend by index_of; stops at a leaf, or at a branch whose slot has no child *)
Fixpoint search (fuel : nat) (t : tree) (k : bytes) (acc : stack) : bool * stack :=
  let '(i, ex) := index_of t k in
  match fuel with
  | O => (false, (t, i) :: acc)
  | S f =>
      if is_leaf t then (ex, (t, i) :: acc) else
      match child_at t i with
      | None => (false, (t, i) :: acc)
      | Some c => search f c k ((t, i) :: acc)
      end
  end.

(* Cursor::seek_first: while the top is a non-empty branch, push (child at index, 0).
   None = the library would panic (index beyond the branch: index_page returns page 0). *)
Fixpoint seek_first (fuel : nat) (st : stack) : option stack :=
  match fuel with
  | O => None
  | S f =>
      match st with
      | [] => None
      | (t, i) :: _ =>
          if is_leaf t then Some st else
          if Nat.eqb (tlen t) 0 then Some st else
          match child_at t i with
          | None => None
          | Some c => seek_first f ((c, 0) :: st)
          end
      end
  end.

Definition to_item (e : lent) : item :=
  match e with EKv k v => IKv k v | EBk k _ _ => IBk k end.

Inductive cur_res (A : Type) := CPanic | CVal (a : A).
Arguments CPanic {A}. Arguments CVal {A}.

(* Cursor::current: None on an empty stack; val(index) of the top (a branch on top = library panic) *)
Definition current (st : stack) : cur_res (option item) :=
  match st with
  | [] => CVal None
  | (t, i) :: _ => if is_leaf t then CVal (option_map to_item (val_at t i)) else CPanic
  end.

(* advance (repaired): pop while index + 1 >= len; at the root: end. Some None = end of data. *)
Fixpoint advance (fuel hfuel : nat) (st : stack) : option (option stack) :=
  match fuel with
  | O => None
  | S f =>
      match st with
      | [] => None
      | (t, i) :: rest =>
          if tlen t <=? i + 1 then
            match rest with
            | [] => Some None
            | _ => advance f hfuel rest
            end
          else option_map Some (seek_first hfuel ((t, i + 1) :: rest))
      end
  end.

Record cursor := mkCursor { c_root : tree; c_stack : stack; c_next_called : bool }.
Definition new_cursor (t : tree) : cursor := mkCursor t [] false.

(* [fuel] bounds every inner loop (>= number of nodes of the tree is always enough) *)
Fixpoint skip_empty (fuel F : nat) (st : stack) : cur_res (option (stack * item)) :=
  match fuel with
  | O => CPanic
  | S f =>
      match current st with
      | CPanic => CPanic
      | CVal (Some d) => CVal (Some (st, d))
      | CVal None =>
          match advance F F st with
          | None => CPanic
          | Some None => CVal None
          | Some (Some st') => skip_empty f F st'
          end
      end
  end.

(* Iterator::next for Cursor (repaired). Returns the new cursor and the item. *)
Definition next (F : nat) (c : cursor) : cur_res (cursor * option item) :=
  let start : cur_res (option stack) :=
    match c_stack c with
    | [] => match seek_first F [(c_root c, 0)] with Some st => CVal (Some st) | None => CPanic end
    | st =>
        if c_next_called c then
          match advance F F st with
          | None => CPanic
          | Some None => CVal None
          | Some (Some st') => CVal (Some st')
          end
        else CVal (Some st)
    end in
  match start with
  | CPanic => CPanic
  | CVal None => CVal (mkCursor (c_root c) (c_stack c) (c_next_called c), None)   (* end: state unchanged *)
  | CVal (Some st) =>
      match skip_empty F F st with
      | CPanic => CPanic
      | CVal None => CVal (mkCursor (c_root c) st true, None)
      | CVal (Some (st', d)) => CVal (mkCursor (c_root c) st' true, Some d)
      end
  end.

(* the pinned (pre-repair) next: `index >= len - 1` on usize (debug: panic at len = 0; release: wrap),
   no skipping of empty leaves *)
Definition advance_legacy_cond (debug : bool) (len i : nat) : cur_res bool :=
  match len with
  | O => if debug then CPanic else CVal false      (* 0 - 1 wraps to usize::MAX: index >= MAX is false *)
  | S l => CVal (l <=? i)
  end.
Fixpoint advance_legacy (debug : bool) (fuel hfuel : nat) (st : stack) : cur_res (option (option stack)) :=
  match fuel with
  | O => CVal None
  | S f =>
      match st with
      | [] => CVal None
      | (t, i) :: rest =>
          match advance_legacy_cond debug (tlen t) i with
          | CPanic => CPanic
          | CVal true => match rest with [] => CVal (Some None) | _ => advance_legacy debug f hfuel rest end
          | CVal false => CVal (option_map Some (seek_first hfuel ((t, i + 1) :: rest)))
          end
      end
  end.
Definition next_legacy (debug : bool) (F : nat) (c : cursor) : cur_res (cursor * option item) :=
  match c_stack c with
  | [] =>
      match seek_first F [(c_root c, 0)] with
      | None => CPanic
      | Some st => match current st with CPanic => CPanic | CVal d => CVal (mkCursor (c_root c) st true, d) end
      end
  | st =>
      if c_next_called c then
        match advance_legacy debug F F st with
        | CPanic => CPanic
        | CVal None => CPanic
        | CVal (Some None) => CVal (c, None)
        | CVal (Some (Some st')) =>
            match current st' with CPanic => CPanic | CVal d => CVal (mkCursor (c_root c) st' true, d) end
        end
      else match current st with CPanic => CPanic | CVal d => CVal (mkCursor (c_root c) st true, d) end
  end.

(* drain a cursor: items until None (or panic), at most [n] steps *)
Fixpoint iterate (n F : nat) (c : cursor) : cur_res (list item) :=
  match n with
  | O => CVal []
  | S n' =>
      match next F c with
      | CPanic => CPanic
      | CVal (_, None) => CVal []
      | CVal (c', Some d) =>
          match iterate n' F c' with CPanic => CPanic | CVal l => CVal (d :: l) end
      end
  end.

(* Cursor::seek *)
Definition seek (F : nat) (c : cursor) (k : bytes) : bool * cursor :=
  let '(ex, st) := search F (c_root c) k [] in (ex, mkCursor (c_root c) st false).

(* Range::next (repaired): first call positions the cursor according to the start bound *)
Definition range_start (F : nat) (c : cursor) (lo : bound) : cur_res cursor :=
  if c_next_called c then CVal c else
  match lo with
  | BUnb => CVal c
  | BIncl s =>
      let '(ex, c1) := seek F c s in
      if ex then CVal c1 else
      match current (c_stack c1) with
      | CPanic => CPanic
      | CVal (Some d) => if blt (item_key d) s then
                           match next F c1 with CPanic => CPanic | CVal (c2, _) => CVal c2 end
                         else CVal c1
      | CVal None => CVal c1
      end
  | BExcl s =>
      let '(_, c1) := seek F c s in
      match current (c_stack c1) with
      | CPanic => CPanic
      | CVal (Some d) => if ble (item_key d) s then
                           match next F c1 with CPanic => CPanic | CVal (c2, _) => CVal c2 end
                         else CVal c1
      | CVal None => CVal c1
      end
  end.
Definition range_next (F : nat) (c : cursor) (lo hi : bound) : cur_res (cursor * option item) :=
  match range_start F c lo with
  | CPanic => CPanic
  | CVal c1 =>
      match next F c1 with
      | CPanic => CPanic
      | CVal (c2, None) => CVal (c2, None)
      | CVal (c2, Some d) => CVal (c2, if hi_ok hi (item_key d) then Some d else None)
      end
  end.
Fixpoint range_iterate (n F : nat) (c : cursor) (lo hi : bound) : cur_res (list item) :=
  match n with
  | O => CVal []
  | S n' =>
      match range_next F c lo hi with
      | CPanic => CPanic
      | CVal (_, None) => CVal []
      | CVal (c', Some d) =>
          match range_iterate n' F c' lo hi with CPanic => CPanic | CVal l => CVal (d :: l) end
      end
  end.

(* sizes used as fuel *)
Fixpoint nodes (t : tree) : nat :=
  match t with
  | TL _ _ l => S (length l)
  | TB _ _ ks => S (length ks + fold_right (fun kt acc => nodes (snd kt) + acc) 0 ks)
  end.

(* the public read API of one bucket view *)
Definition scan (t : tree) : cur_res (list item) := iterate (S (nodes t)) (S (nodes t)) (new_cursor t).
Definition seek_scan (t : tree) (k : bytes) : bool * cur_res (list item) :=
  let F := S (nodes t) in
  let '(ex, c) := seek F (new_cursor t) k in (ex, iterate F F c).
Definition range_scan (t : tree) (lo hi : bound) : cur_res (list item) :=
  let F := S (nodes t) in range_iterate F F (new_cursor t) lo hi.
Definition get (t : tree) (k : bytes) : option item :=
  let '(ex, st) := search (S (nodes t)) t k [] in
  if ex then match st with (lf, i) :: _ => option_map to_item (val_at lf i) | [] => None end else None.
