(* #[repr(C)] layout on x86-64 over the GENERATED field lists: offsets and sizes are computed here,
   so moving / adding / dropping a field in the Rust source changes these numbers on the next run. *)
From Coq Require Import List NArith String Bool.
From Jamm Require Import Consts.
Import ListNotations.
Local Open Scope N_scope. Local Open Scope string_scope.

Definition align_up (x a : N) : N := ((x + a - 1) / a) * a.
Definition join (a b : string) : string := if String.eqb b "" then a else a ++ "." ++ b.
Fixpoint lookup {A} (k : string) (l : list (string * A)) : option A :=
  match l with [] => None | (k', v) :: l' => if String.eqb k k' then Some v else lookup k l' end.

(* result: flattened (name, (offset, size)) list, total size, alignment *)
Fixpoint layout_fs (fuel : nat) (fs : list (string * cty)) : list (string * (N * N)) * N * N :=
  match fuel with
  | O => ([], 0, 1)
  | S f =>
      let '(acc, off, al) :=
        fold_left (fun (st : list (string * (N * N)) * N * N) (fld : string * cty) =>
          let '(acc, off, al) := st in
          let '(name, t) := fld in
          let '(sub, sz, a) :=
            match t with
            | U8 => ([("", (0, 1))], 1, 1)
            | U32 => ([("", (0, 4))], 4, 4)
            | U64 => ([("", (0, 8))], 8, 8)
            | Arr n => ([("", (0, n))], n, 1)
            | Struct s => match lookup s structs with Some fs' => layout_fs f fs' | None => ([], 0, 1) end
            end in
          let o := align_up off a in
          ((acc ++ map (fun x : string * (N * N) => (join name (fst x), (o + fst (snd x), snd (snd x)))) sub)%list,
           o + sz, N.max al a)) fs ([], 0, 1) in
      (acc, align_up off al, al)
  end.

Definition layout_of (s : string) : list (string * (N * N)) * N * N :=
  match lookup s structs with Some fs => layout_fs 4 fs | None => ([], 0, 1) end.
Definition sizeof (s : string) : N := snd (fst (layout_of s)).
Definition field_off (s f : string) : N :=
  match lookup f (fst (fst (layout_of s))) with Some (o, _) => o | None => 0 end.
Definition field_size (s f : string) : N :=
  match lookup f (fst (fst (layout_of s))) with Some (_, z) => z | None => 0 end.
Definition has_field (s f : string) : bool :=
  match lookup f (fst (fst (layout_of s))) with Some _ => true | None => false end.
Definition field_names (s : string) : list string := map fst (fst (fst (layout_of s))).
