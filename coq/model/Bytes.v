(* Byte strings, Rust's lexicographic [u8]::cmp, little/big-endian fixed-width integers.
   Model only: no proofs here (see proofs/BytesFacts.v). *)
From Coq Require Import List NArith Bool.
From Coq.Strings Require Import Byte.
Import ListNotations.
Open Scope N_scope.

Definition bytes := list byte.

Fixpoint bcmp (a b : bytes) : comparison :=
  match a, b with
  | [], [] => Eq | [], _ => Lt | _, [] => Gt
  | x :: a', y :: b' =>
      match N.compare (Byte.to_N x) (Byte.to_N y) with Eq => bcmp a' b' | c => c end
  end.
Definition beq (a b : bytes) : bool := match bcmp a b with Eq => true | _ => false end.
Definition blt (a b : bytes) : bool := match bcmp a b with Lt => true | _ => false end.
Definition ble (a b : bytes) : bool := match bcmp a b with Gt => false | _ => true end.
Definition blen (b : bytes) : N := N.of_nat (List.length b).
Definition llen {A} (l : list A) : N := N.of_nat (List.length l).

(* total conversion N -> byte (mod 256) *)
Definition byte_of_N (x : N) : byte :=
  match Byte.of_N (x mod 256) with Some b => b | None => x00 end.

(* little-endian, n bytes *)
Fixpoint le_enc (n : nat) (x : N) : bytes :=
  match n with O => [] | S n' => byte_of_N x :: le_enc n' (x / 256) end.
Fixpoint le_dec (b : bytes) : N :=
  match b with [] => 0 | x :: b' => Byte.to_N x + 256 * le_dec b' end.
(* big-endian, n bytes *)
Definition be_enc (n : nat) (x : N) : bytes := rev (le_enc n x).
Definition be_dec (b : bytes) : N := le_dec (rev b).

(* slicing with explicit totality: None when out of range *)
Definition slice (b : bytes) (off len : N) : option bytes :=
  let o := N.to_nat off in let l := N.to_nat len in
  if Nat.leb (o + l) (List.length b) then Some (firstn l (skipn o b)) else None.
Definition rd_le (b : bytes) (off : N) (n : nat) : option N :=
  option_map le_dec (slice b off (N.of_nat n)).

(* overwrite [len v] bytes of b at offset off (b must be long enough; otherwise unchanged tail rules) *)
Definition splice (b : bytes) (off : N) (v : bytes) : bytes :=
  let o := N.to_nat off in
  firstn o b ++ v ++ skipn (o + List.length v) b.

Definition zeros (n : nat) : bytes := repeat x00 n.
