(* The engine model WITH READ TRANSACTIONS (properties C03 / C10 for the engine).

   [Engine.begin_w] releases every pending batch with id < the new transaction id: right only when no read
   transaction is open.  In the library (tx.rs, Tx::new) a read transaction registers the tx id of the header it
   began on in [open_ro_txs]; a beginning writer calls [freelist.release (open_ro_txs[0])] (the OLDEST open reader)
   when a reader is open and [freelist.release (meta.tx_id + 1)] otherwise; [release t] frees the batches with
   id < t.  [begin_w_r st bound] is [begin_w] with the release bound [min bound (d_tx st + 1)].

   Which bound is safe.  A reader that began on the state with [d_tx = r] needs every page reachable in that
   state.  Those pages are handed back by transactions t >= r + 1 and filed under t.  [release bound] frees the
   batches u < bound: SAFE iff bound <= r + 1 for every open reader r.  The library's bound = min r is safe (it
   keeps the batch r, freed by the transaction that CREATED the reader's snapshot, one batch more than needed);
   bound = r + 2 is not (counterexample in proofs/EngineReaders.v). *)
From Coq Require Import List NArith Bool.
From Coq.Strings Require Import Byte.
From Jamm Require Import Bytes Engine.
Import ListNotations.
Local Open Scope N_scope.

Definition begin_w_r (st : db) (bound : N) : txs :=
  let t := d_tx st + 1 in
  let '(fr, pd) := release (N.min bound t) (d_free st) (d_pending st) in
  {| free := fr; pending := pd; txid := t; np := d_np st; psz := d_psz st; wr := []; flw := None; seqc := 1 |}.

Definition run_tx_r (st : db) (bound : N) (ops : list op) (ord : list bytes) : res db :=
  let s0 := begin_w_r st bound in
  '(root', s') <- fold_res (fun acc o => let '(rb, s) := acc in
       match o with
       | Put p k v => soft (rb, s) (at_path 8 (d_disk st) rb p (fun b s => soft (b, s) (b_put (d_disk st) b k v s)) s)
       | Del p k => soft (rb, s) (at_path 8 (d_disk st) rb p (fun b s => soft (b, s) (b_delete (d_disk st) b k s)) s)
       | DelB p nm => soft (rb, s) (at_path 8 (d_disk st) rb p (fun b s => soft (b, s) (b_delete_bucket (d_disk st) b nm s)) s)
       | Touch p => soft (rb, s) (at_path 8 (d_disk st) rb p (fun b s => Ok (b, s)) s) end) ops (root_bucket st, s0) ;;
  commit st root' s' ord.

(* ---------- histories with readers ---------- *)

(* an open reader records the committed state it began on; its registered id is [d_tx] of that state
   (tx.rs: [open_ro_txs.push(meta.tx_id)]) *)
Definition reader := db.
Definition r_id (r : reader) : N := d_tx r.

Inductive hstep :=
| Begin_reader
| End_reader (i : nat)                               (* the i-th open reader (in registration order) ends *)
| Tx (ops : list op) (ord : list bytes).

Definition hstate := (db * list reader)%type.

(* the release bound: the oldest open reader's id shifted by [k], or (no reader) the writer's own id.
   k = 0 is the library; k = 1 the largest safe bound; k = 2 breaks readers *)
Definition min_reader (k : N) (rs : list reader) (dflt : N) : N :=
  fold_right (fun r m => N.min (r_id r + k) m) dflt rs.

Definition bound_k (k : N) (h : hstate) : N := min_reader k (snd h) (d_tx (fst h) + 1).

Definition step_k (k : N) (h : hstate) (e : hstep) : res hstate :=
  match e with
  | Begin_reader => Ok (fst h, snd h ++ [fst h])
  | End_reader i => Ok (fst h, remove_at (snd h) i)
  | Tx ops ord => st' <- run_tx_r (fst h) (bound_k k h) ops ord ;; Ok (st', snd h)
  end.

Definition run_hist_k (k : N) (h : hstate) (es : list hstep) : res hstate := fold_res (step_k k) es h.

(* the library's choice *)
Definition step := step_k 0.
Definition run_hist := run_hist_k 0.

(* what the reader r reads on the current disk: its own header (root, next) over the disk of [cur] *)
Definition reader_view (cur : db) (r : reader) : db :=
  {| d_disk := d_disk cur; d_root := d_root r; d_next := d_next r; d_np := d_np r; d_fl := d_fl r; d_fln := d_fln r;
     d_flids := d_flids r; d_tx := d_tx r; d_free := d_free r; d_pending := d_pending r; d_psz := d_psz r |}.
