(* The write path of jammdb transliterated as a pure-tree Gallina program (DESIGN.md Appendix D, validated
   page-for-page against the library): overlay nodes, put / delete / bucket ops, rebalance (merge_nodes), spill
   (split, write, insert_branch, new roots), delete_bucket's page walk, the transaction's free list, commit.
   This is the REPAIRED algorithm (defects D1-D4 of DESIGN.md section 2 fixed as in the fix: commits of /repo).
   The only oracle is the order in which a bucket's opened sub-buckets are spilled (HashMap iteration order),
   which the library reports through the spill_child hook. *)
From Coq Require Import List NArith Lia Bool String.
From Coq.Strings Require Import Byte.
From Jamm Require Import Bytes.
Import ListNotations.
Local Open Scope string_scope. Local Open Scope list_scope. Local Open Scope N_scope.

Inductive res (A : Type) := Ok (a : A) | Panic (msg : string) | Err (e : string).
Arguments Ok {A}. Arguments Panic {A}. Arguments Err {A}.
Definition bind {A B} (r : res A) (f : A -> res B) : res B :=
  match r with Ok a => f a | Panic m => Panic m | Err e => Err e end.
Notation "x <- r ;; k" := (bind r (fun x => k)) (at level 61, r at next level, right associativity).
Notation "' p <- r ;; k" := (bind r (fun p => k)) (at level 61, p pattern, r at next level, right associativity).

(* ---------- data ---------- *)
Inductive leafent := LKv (k v : bytes) | LBk (k : bytes) (root next : N).
Definition lkey e := match e with LKv k _ => k | LBk k _ _ => k end.
Definition lsize e := match e with LKv k v => blen k + blen v | LBk k _ _ => blen k + 16 end.
Definition is_kv e := match e with LKv _ _ => true | _ => false end.
Inductive ndata := Leaves (l : list leafent) | Branches (es : list (bytes * N)).
Definition dlen d := match d with Leaves l => llen l | Branches es => llen es end.
Definition dsize d : N := match d with
  | Leaves l => fold_left (fun acc e => acc + lsize e) l (32 * llen l)
  | Branches es => fold_left (fun acc e => acc + blen (fst e)) es (24 * llen es) end.
Definition is_leaf d := match d with Leaves _ => true | _ => false end.
Definition first_key d : res bytes := match d with
  | Leaves (e :: _) => Ok (lkey e) | Branches (e :: _) => Ok (fst e) | _ => Panic "first_key on empty" end.
Inductive node := Node (page npages : N) (orig : option bytes) (seq : N) (data : ndata) (kids : list node).
Definition n_page n := match n with Node p _ _ _ _ _ => p end.
Definition n_np n := match n with Node _ p _ _ _ _ => p end.
Definition n_orig n := match n with Node _ _ o _ _ _ => o end.
Definition n_seq n := match n with Node _ _ _ s _ _ => s end.
Definition n_data n := match n with Node _ _ _ _ d _ => d end.
Definition n_kids n := match n with Node _ _ _ _ _ k => k end.
Definition set_data n d := match n with Node p np o s _ k => Node p np o s d k end.
Definition set_kids n k := match n with Node p np o s d _ => Node p np o s d k end.
Definition set_orig n o := match n with Node p np _ s d k => Node p np o s d k end.
Definition set_page n p np := match n with Node _ _ o s d k => Node p np o s d k end.

Record apage := { ap_over : N; ap_body : ndata }.   (* tree pages only; freelist page kept separately *)
Definition disk := list (N * apage).
Definition dget (d : disk) (p : N) : option apage := option_map snd (find (fun x => N.eqb (fst x) p) d).
Definition dput (d : disk) (p : N) (a : apage) : disk := (p, a) :: filter (fun x => negb (N.eqb (fst x) p)) d.

(* ---------- rust binary search ---------- *)
Fixpoint bs_loop (fuel : nat) (keys : list bytes) (t : bytes) (base size : N) : N :=
  match fuel with O => base | S f =>
    if size <=? 1 then base else
      let half := size / 2 in let mid := base + half in
      let base' := match bcmp (nth (N.to_nat mid) keys []) t with Gt => base | _ => mid end in
      bs_loop f keys t base' (size - half) end.
Definition bsearch (keys : list bytes) (t : bytes) : bool * N :=
  let n := llen keys in
  if n =? 0 then (false, 0) else
  let base := bs_loop (List.length keys) keys t 0 n in
  match bcmp (nth (N.to_nat base) keys []) t with Eq => (true, base) | Lt => (false, base + 1) | Gt => (false, base) end.
Definition dkeys d := match d with Leaves l => map lkey l | Branches es => map fst es end.
Definition index_of (d : ndata) (k : bytes) : N * bool :=
  match bsearch (dkeys d) k with (true, i) => (i, true) | (false, i) => (N.pred i, false) end.
Definition nthN {A} (l : list A) (i : N) : option A := nth_error l (N.to_nat i).
Fixpoint insert_at {A} (l : list A) (i : nat) (x : A) : list A :=
  match i, l with O, _ => x :: l | S i', y :: l' => y :: insert_at l' i' x | S _, [] => [x] end.
Fixpoint replace_at {A} (l : list A) (i : nat) (x : A) : list A :=
  match i, l with O, _ :: l' => x :: l' | S i', y :: l' => y :: replace_at l' i' x | _, [] => [] end.
Fixpoint remove_at {A} (l : list A) (i : nat) : list A :=
  match i, l with O, _ :: l' => l' | S i', y :: l' => y :: remove_at l' i' | _, [] => [] end.

(* ---------- free list ---------- *)
Fixpoint sins (x : N) (l : list N) : list N :=
  match l with [] => [x] | y :: l' => if x <? y then x :: l else if x =? y then l else y :: sins x l' end.
Record txs := { free : list N; pending : list (N * list N); txid : N; np : N; psz : N;
                wr : list (N * (N * ndata)) (* page -> (bytes size, data) *); flw : option (N * N * list N); seqc : N }.
Definition upd_free s f := {| free := f; pending := pending s; txid := txid s; np := np s; psz := psz s; wr := wr s; flw := flw s; seqc := seqc s |}.
Definition upd_pending s p := {| free := free s; pending := p; txid := txid s; np := np s; psz := psz s; wr := wr s; flw := flw s; seqc := seqc s |}.
Definition upd_np s n := {| free := free s; pending := pending s; txid := txid s; np := n; psz := psz s; wr := wr s; flw := flw s; seqc := seqc s |}.
Definition upd_wr s w := {| free := free s; pending := pending s; txid := txid s; np := np s; psz := psz s; wr := w; flw := flw s; seqc := seqc s |}.
Definition upd_flw s w := {| free := free s; pending := pending s; txid := txid s; np := np s; psz := psz s; wr := wr s; flw := w; seqc := seqc s |}.
Definition next_seq s := (seqc s, {| free := free s; pending := pending s; txid := txid s; np := np s; psz := psz s; wr := wr s; flw := flw s; seqc := seqc s + 1 |}).
Fixpoint pend_add (t : N) (p : N) (l : list (N * list N)) : list (N * list N) :=
  match l with [] => [(t, [p])] | (u, ps) :: l' => if u =? t then (u, ps ++ [p]) :: l' else if t <? u then (t, [p]) :: l else (u, ps) :: pend_add t p l' end.
Definition freed_in_tx (s : txs) (p : N) : bool :=
  existsb (fun x => (fst x =? txid s) && existsb (N.eqb p) (snd x)) (pending s).
(* a page is handed back once per transaction (repair D4) *)
Fixpoint free_run (s : txs) (p : N) (n : nat) : txs :=
  match n with O => s | S n' =>
    free_run (if freed_in_tx s p then s else upd_pending s (pend_add (txid s) p (pending s))) (p + 1) n' end.
Definition free_pages (s : txs) (p n : N) : txs := free_run s p (N.to_nat n).
Fixpoint release (t : N) (fr : list N) (pd : list (N * list N)) : list N * list (N * list N) :=
  match pd with [] => (fr, []) | (u, ps) :: pd' => if u <? t then release t (fold_left (fun f p => sins p f) ps fr) pd' else (fr, pd) end.
(* Freelist::allocate *)
Fixpoint alloc_scan (l : list N) (n : N) (start prev : N) : N :=
  match l with [] => 0 | id :: l' =>
    let start' := if (prev =? 0) || negb (id - prev =? 1) then id else start in
    if id - start' + 1 =? n then start' else alloc_scan l' n start' id end.
Definition fl_allocate (fr : list N) (n : N) : option (N * list N) :=
  match fr with [] => None | _ =>
    let f := alloc_scan fr n 0 0 in
    if 0 <? f then Some (f, filter (fun x => negb ((f <=? x) && (x <? f + n))) fr) else None end.
Definition tx_allocate (s : txs) (bytes_ : N) : N * N * txs :=
  let n := if bytes_ mod psz s =? 0 then bytes_ / psz s else bytes_ / psz s + 1 in
  match fl_allocate (free s) n with
  | Some (p, f') => (p, n, upd_free s f')
  | None => (np s, n, upd_np s (np s + n)) end.
Definition wr_put (w : list (N * (N * ndata))) p v := (p, v) :: filter (fun x => negb (N.eqb (fst x) p)) w.
Fixpoint sins_dup (x : N) (l : list N) : list N :=
  match l with [] => [x] | y :: l' => if x <=? y then x :: l else y :: sins_dup x l' end.
Definition all_pages (s : txs) : list N := fold_left (fun acc x => fold_left (fun a p => sins_dup p a) (snd x) acc) (pending s) (free s).

(* ---------- overlay view & lookup ---------- *)
Definition find_kid (p : N) (ks : list node) : option node := find (fun k => N.eqb (n_page k) p) ks.
Definition node_of_page (p : N) (a : apage) (sq : N) : node :=
  Node p (ap_over a + 1) (match first_key (ap_body a) with Ok k => Some k | _ => None end) sq (ap_body a) [].
(* read-only lookup through pages *)
Fixpoint lookup_page (fuel : nat) (d : disk) (p : N) (k : bytes) : res (option leafent) :=
  match fuel with O => Err "fuel" | S f =>
    match dget d p with None => Panic "page missing" | Some a =>
      match ap_body a with
      | Leaves l => let '(i, ex) := index_of (Leaves l) k in Ok (if ex then nthN l i else None)
      | Branches es => let '(i, _) := index_of (Branches es) k in
          match nthN es i with None => Ok None | Some (_, q) => lookup_page f d q k end
      end end end.
Fixpoint lookup_node (fuel : nat) (d : disk) (n : node) (k : bytes) {struct n} : res (option leafent) :=
  match n with
  | Node _ _ _ _ (Leaves l) _ => let '(i, ex) := index_of (Leaves l) k in Ok (if ex then nthN l i else None)
  | Node _ _ _ _ (Branches es) kids =>
      let '(i, _) := index_of (Branches es) k in
      match nthN es i with None => Ok None | Some (_, q) =>
        let fix go (ks : list node) : option (res (option leafent)) :=
          match ks with [] => None | kd :: ks' => if N.eqb (n_page kd) q then Some (lookup_node fuel d kd k) else go ks' end in
        match go kids with Some r => r | None => lookup_page fuel d q k end
      end
  end.

(* ---------- modification: materialise along the path, apply f at the leaf ---------- *)
Definition leaf_insert (l : list leafent) (e : leafent) : list leafent :=
  match bsearch (map lkey l) (lkey e) with (true, i) => replace_at l (N.to_nat i) e | (false, i) => insert_at l (N.to_nat i) e end.
Definition leaf_delete (l : list leafent) (k : bytes) : list leafent :=
  match bsearch (map lkey l) k with (true, i) => remove_at l (N.to_nat i) | _ => l end.
Inductive lop := OpIns (e : leafent) | OpDel (k : bytes).
Definition lop_key o := match o with OpIns e => lkey e | OpDel k => k end.
Definition apply_lop o l := match o with OpIns e => leaf_insert l e | OpDel k => leaf_delete l k end.
Fixpoint replace_kid (ks : list node) (k : node) : list node :=
  match ks with [] => [k] | x :: ks' => if N.eqb (n_page x) (n_page k) then k :: ks' else x :: replace_kid ks' k end.
Fixpoint modify (fuel : nat) (d : disk) (n : node) (o : lop) (s : txs) : res (node * txs) :=
  match fuel with O => Err "fuel" | S f =>
  match n with
  | Node p npg og sq (Leaves l) ks => Ok (Node p npg og sq (Leaves (apply_lop o l)) ks, s)
  | Node p npg og sq (Branches es) ks =>
      let '(i, _) := index_of (Branches es) (lop_key o) in
      match nthN es i with None => Panic "CANNOT INSERT DATA INTO A BRANCH NODE" | Some (_, q) =>
        match find_kid q ks with
        | Some kd => '(kd', s') <- modify f d kd o s ;; Ok (Node p npg og sq (Branches es) (replace_kid ks kd'), s')
        | None => match dget d q with None => Panic "page missing" | Some a =>
            let '(sq', s1) := next_seq s in
            '(kd', s') <- modify f d (node_of_page q a sq') o s1 ;; Ok (Node p npg og sq (Branches es) (ks ++ [kd']), s') end
        end end
  end end.

(* ---------- buckets ---------- *)
Inductive bucket := Bucket (root_page next : N) (dirty : bool) (rootn : option node) (subs : list (bytes * bucket)).
Definition b_root_page b := match b with Bucket r _ _ _ _ => r end.
Definition b_next b := match b with Bucket _ n _ _ _ => n end.
Definition b_dirty b := match b with Bucket _ _ d _ _ => d end.
Definition b_rootn b := match b with Bucket _ _ _ r _ => r end.
Definition b_subs b := match b with Bucket _ _ _ _ s => s end.
Definition sub_find (name : bytes) (subs : list (bytes * bucket)) := option_map snd (find (fun x => beq (fst x) name) subs).
Fixpoint sub_put (name : bytes) (b : bucket) (subs : list (bytes * bucket)) :=
  match subs with [] => [(name, b)] | (n', b') :: r => if beq n' name then (name, b) :: r else (n', b') :: sub_put name b r end.
Definition fuel0 : nat := 64.
Definition b_lookup (d : disk) (b : bucket) (k : bytes) : res (option leafent) :=
  match b_rootn b with Some n => lookup_node fuel0 d n k | None => lookup_page fuel0 d (b_root_page b) k end.
Definition ensure_root (d : disk) (b : bucket) (s : txs) : res (node * txs) :=
  match b_rootn b with Some n => Ok (n, s) | None =>
    match dget d (b_root_page b) with None => Panic "root page missing" | Some a =>
      let '(sq, s1) := next_seq s in Ok (node_of_page (b_root_page b) a sq, s1) end end.
Definition b_modify (d : disk) (b : bucket) (o : lop) (s : txs) : res (bucket * txs) :=
  '(n, s1) <- ensure_root d b s ;; '(n', s2) <- modify fuel0 d n o s1 ;;
  Ok (Bucket (b_root_page b) (b_next b) true (Some n') (b_subs b), s2).
Definition b_put (d : disk) (b : bucket) (k v : bytes) (s : txs) : res (bucket * txs) :=
  cur <- b_lookup d b k ;;
  match cur with
  | Some e => if is_kv e then b_modify d b (OpIns (LKv k v)) s else Err "IncompatibleValue"
  | None => '(b', s') <- b_modify d b (OpIns (LKv k v)) s ;;
            Ok (Bucket (b_root_page b') (b_next b' + 1) true (b_rootn b') (b_subs b'), s') end.
Definition b_delete (d : disk) (b : bucket) (k : bytes) (s : txs) : res (bucket * txs) :=
  cur <- b_lookup d b k ;;
  match cur with
  | Some e => if is_kv e then b_modify d b (OpDel k) s else Err "IncompatibleValue"
  | None => Err "KeyValueMissing" end.
Definition new_bucket (s : txs) : bucket * txs :=
  let '(sq, s1) := next_seq s in (Bucket 0 0 true (Some (Node 0 0 None sq (Leaves []) [])) [], s1).
(* open-or-create the sub bucket `name` of b; returns updated parent *)
Definition b_get_or_create (d : disk) (b : bucket) (name : bytes) (s : txs) : res (bucket * txs) :=
  match sub_find name (b_subs b) with Some _ => Ok (b, s) | None =>
    cur <- b_lookup d b name ;;
    match cur with
    | Some (LBk _ r nx) => Ok (Bucket (b_root_page b) (b_next b) (b_dirty b) (b_rootn b) (sub_put name (Bucket r nx false None []) (b_subs b)), s)
    | Some (LKv _ _) => Err "IncompatibleValue"
    | None => let '(nb, s1) := new_bucket s in
        '(b', s2) <- b_modify d b (OpIns (LBk name 0 0)) s1 ;;
        Ok (Bucket (b_root_page b') (b_next b' + 1) true (b_rootn b') (sub_put name nb (b_subs b')), s2) end end.

(* ---------- rebalance ---------- *)
Definition node_size n := 40 + dsize (n_data n).
Definition needs_merging (s : txs) (n : node) : bool := (dlen (n_data n) <? 2) || (node_size n <? psz s / 4).
Definition free_node_page (s : txs) (n : node) : txs := if n_page n =? 0 then s else free_pages s (n_page n) (n_np n).
Fixpoint isort_by {A} (key : A -> bytes) (l : list A) : list A :=
  let fix ins (x : A) (l : list A) := match l with [] => [x] | y :: l' => match bcmp (key x) (key y) with Lt => x :: l | _ => y :: ins x l' end end in
  match l with [] => [] | x :: l' => ins x (isort_by key l') end.
Definition merge_data (a b : ndata) : res ndata :=
  match a, b with
  | Leaves l1, Leaves l2 => Ok (Leaves (isort_by lkey (l1 ++ l2)))
  | Branches e1, Branches e2 => Ok (Branches (isort_by fst (e1 ++ e2)))
  | _, _ => Panic "incompatible data types" end.
Definition remove_kid (ks : list node) (p : N) (sq : N) : list node := filter (fun k => negb (N.eqb (n_seq k) sq)) ks.
Definition try_merge (d : disk) (par : node) (k : node) (s : txs) : res (node * txs) :=
  if negb (needs_merging s k) then Ok (set_kids par (replace_kid (n_kids par) k), s) else
  match n_data par with Leaves _ => Panic "parent is leaf" | Branches es =>
    (* an only child is left alone unless it is empty (repair D3) *)
    if (llen es =? 1) && (0 <? dlen (n_data k)) then Ok (set_kids par (replace_kid (n_kids par) k), s) else
    match n_orig k with None => Panic "unwrap original_key" | Some ok =>
    match bsearch (map fst es) ok with (false, _) => Panic "child branch not found" | (true, idx) =>
      r <- (if (0 <? dlen (n_data k)) then
              let sp := if idx =? 0 then nthN es 1 else nthN es (idx - 1) in
              match sp with None => Panic "no sibling" | Some (_, q) =>
                '(sib, s1, isnew) <- match find_kid q (n_kids par) with
                                | Some sb => Ok (sb, s, false)
                                | None => match dget d q with None => Panic "page missing" | Some a =>
                                    let '(sq', s1) := next_seq s in Ok (node_of_page q a sq', s1, true) end end ;;
                md <- merge_data (n_data sib) (n_data k) ;;
                let sib0 := set_kids (set_data sib md) (n_kids sib ++ n_kids k) in
                (* merged into the RIGHT sibling: it is now known by its new first key (repair D2) *)
                let sib' := if idx =? 0 then match first_key md with Ok fk => set_orig sib0 (Some fk) | _ => sib0 end else sib0 in
                Ok (Some (sib', isnew), s1) end
            else Ok (None, s)) ;;
      let '(sibo, s1) := r in
      let s2 := free_node_page s1 k in
      let es0 := remove_at es (N.to_nat idx) in
      let es' := match sibo, es0 with
                 | Some (sb, _), (_, q0) :: rest0 =>
                     if idx =? 0 then match first_key (n_data sb) with Ok fk => (fk, q0) :: rest0 | _ => es0 end else es0
                 | _, _ => es0 end in
      let ks0 := filter (fun x => negb (N.eqb (n_seq x) (n_seq k))) (n_kids par) in
      let ks1 := match sibo with None => ks0 | Some (sb, true) => ks0 ++ [sb] | Some (sb, false) => replace_kid ks0 sb end in
      Ok (set_kids (set_data par (Branches es')) ks1, s2)
    end end end.
(* NOTE: when sibling is newly materialised, code pushes it to parent's children BEFORE removing k: order ks ++ [sib] then remove k: same as above. *)
Fixpoint rebalance_kids (fuel : nat) (d : disk) (n : node) (s : txs) : res (node * txs) :=
  match fuel with O => Err "fuel" | S f =>
    let snapshot := map n_seq (n_kids n) in
    fold_left (fun acc sq =>
      '(n0, s0) <- acc ;;
      match find (fun k => N.eqb (n_seq k) sq) (n_kids n0) with
      | None => Ok (n0, s0)
      | Some k =>
          '(k1, s1) <- (if is_leaf (n_data k) then Ok (k, s0) else rebalance_kids f d k s0) ;;
          try_merge d (set_kids n0 (replace_kid (n_kids n0) k1)) k1 s1
      end) snapshot (Ok (n, s)) end.
Definition merge_nodes (d : disk) (b : bucket) (s : txs) : res (bucket * txs) :=
  '(root, s0) <- ensure_root d b s ;;
  '(root1, s1) <- (if is_leaf (n_data root) then Ok (root, s0) else rebalance_kids fuel0 d root s0) ;;
  if needs_merging s1 root1 && negb (is_leaf (n_data root1)) && (dlen (n_data root1) =? 1) then
    match n_data root1 with Branches ((_, q) :: _) =>
      let s2 := free_node_page s1 root1 in
      Ok (Bucket q (b_next b) (b_dirty b) (find_kid q (n_kids root1)) (b_subs b), s2)
    | _ => Panic "unreachable" end
  else if negb (is_leaf (n_data root1)) && (dlen (n_data root1) =? 0) then
    (* every child was emptied and removed: an empty bucket is a single empty leaf (repair D3) *)
    Ok (Bucket (b_root_page b) (b_next b) (b_dirty b) (Some (set_data root1 (Leaves []))) (b_subs b), s1)
  else Ok (Bucket (b_root_page b) (b_next b) (b_dirty b) (Some root1) (b_subs b), s1).
Fixpoint is_dirty (fuel : nat) (b : bucket) : bool :=
  match fuel with O => false | S f => b_dirty b || existsb (fun x => is_dirty f (snd x)) (b_subs b) end.
Fixpoint rebalance (fuel : nat) (d : disk) (b : bucket) (s : txs) : res (bucket * txs) :=
  match fuel with O => Err "fuel" | S f =>
    if negb (is_dirty fuel0 b) then Ok (b, s) else
    '(subs', s1) <- fold_left (fun acc x => '(l, s0) <- acc ;; '(b', s') <- rebalance f d (snd x) s0 ;; Ok (l ++ [(fst x, b')], s')) (b_subs b) (Ok ([], s)) ;;
    merge_nodes d (Bucket (b_root_page b) (b_next b) true (b_rootn b) subs') s1 end.

(* ---------- spill ---------- *)
Definition ent_size (d : ndata) (i : nat) : N := match d with
  | Leaves l => match nth_error l i with Some e => 32 + lsize e | None => 0 end
  | Branches es => match nth_error es i with Some e => 24 + blen (fst e) | None => 0 end end.
Fixpoint split_idx (d : ndata) (thr : N) (i : nat) (n : nat) (cur : N) (cnt : N) : list nat :=
  match n with O => [] | S n' =>
    let sz := ent_size d i in let cnt1 := cnt + 1 in let nw := cur + sz in
    if (2 <=? cnt1) && (thr <? nw) then S i :: split_idx d thr (S i) n' (40 + sz) 0
    else split_idx d thr (S i) n' nw cnt1 end.
Definition dsplit_at (d : ndata) (i : nat) : ndata * ndata := match d with
  | Leaves l => (Leaves (firstn i l), Leaves (skipn i l)) | Branches es => (Branches (firstn i es), Branches (skipn i es)) end.
Definition split (s : txs) (d : ndata) : ndata * list ndata :=
  let len := N.to_nat (dlen d) in
  if (dlen d <=? 4) || (40 + dsize d <? psz s) then (d, []) else
  let idxs := split_idx d (psz s / 2) 0 (len - 2) 40 0 in
  fold_left (fun acc i => let '(d0, rest) := acc in let '(a, b) := dsplit_at d0 i in (a, b :: rest)) (rev idxs) (d, []).
Definition write_node (s : txs) (n : node) : node * txs :=
  let s1 := free_node_page s n in
  let size := node_size n in
  let '(p, npg, s2) := tx_allocate s1 size in
  (set_page n p npg, upd_wr s2 (wr_put (wr s2) p (size, n_data n))).
Definition insert_branch (es : list (bytes * N)) (orig : option bytes) (br : bytes * N) : res (list (bytes * N)) :=
  let sk := match orig with Some k => k | None => fst br end in
  match bsearch (map fst es) sk with
  | (true, i) => match orig with Some _ => Ok (replace_at es (N.to_nat i) br) | None => Panic "assert original_key.is_some()" end
  | (false, i) => match orig with None => Ok (insert_at es (N.to_nat i) br) | Some _ => Panic "assert original_key.is_none()" end end.
(* result of spilling a non-root node: its original key, its branch, sibling branches *)
Definition spill_out := (option bytes * (bytes * N) * list (bytes * N))%type.
Fixpoint fold_res {A B} (f : A -> B -> res A) (l : list B) (a : A) : res A :=
  match l with [] => Ok a | x :: l' => a' <- f a x ;; fold_res f l' a' end.
Fixpoint spill_node (fuel : nat) (n : node) (s : txs) : res (spill_out * txs) :=
  match fuel with O => Err "fuel" | S f =>
    (* sort kids by first key (panics on empty) *)
    ks <- fold_res (fun acc k => fk <- first_key (n_data k) ;; Ok (acc ++ [(fk, k)])) (n_kids n) [] ;;
    let sorted := map snd (isort_by fst ks) in
    '(d1, s1) <- fold_res (fun acc k => let '(dd, s0) := acc in
        '(out, s') <- spill_node f k s0 ;;
        let '(ko, kb, sibs) := out in
        match dd with Leaves _ => Panic "CANNOT INSERT BRANCH INTO A LEAF NODE" | Branches es =>
          es1 <- insert_branch es ko kb ;;
          es2 <- fold_res (fun e sb => insert_branch e None sb) sibs es1 ;;
          Ok (Branches es2, s') end) sorted (n_data n, s) ;;
    let '(d0, rest) := split s1 d1 in
    let n0 := set_kids (set_data n d0) [] in
    let '(n1, s2) := write_node s1 n0 in
    let '(n2, s3) := match rest with [] => (n1, s2) | _ => write_node s2 n1 end in
    '(sibs, s4) <- fold_res (fun acc dd => let '(l, s0) := acc in
         fk <- first_key dd ;;
         let '(sn, s') := write_node s0 (Node 0 0 (Some fk) 0 dd []) in Ok (l ++ [(fk, n_page sn)], s')) rest ([], s3) ;;
    fk0 <- first_key (n_data n2) ;;
    Ok ((n_orig n, (fk0, n_page n2), sibs), s4)
  end.
(* isort_by is stable? ins places x before first y with key x < key y ; equal keys: x goes after equal ones... building from the right, so stable enough for unique keys *)
Fixpoint spill_root (fuel : nat) (n : node) (s : txs) : res (N * txs) :=
  match fuel with O => Err "fuel" | S f =>
    '(out, s1) <- (match n_data n with
                   | Leaves [] => (* empty root leaf: first_key would panic in from_node? no: root returns page id only *)
                       let '(n1, s') := write_node s (set_kids n []) in Ok ((n_orig n, ([], n_page n1), []), s')
                   | _ => spill_node fuel0 n s end) ;;
    let '(_, (fk, p), sibs) := out in
    match sibs with [] => Ok (p, s1) | _ =>
      spill_root f (Node 0 0 (Some fk) 0 (Branches ((fk, p) :: sibs)) []) s1 end end.
Fixpoint take_sub (name : bytes) (subs : list (bytes * bucket)) : option (bucket * list (bytes * bucket)) :=
  match subs with [] => None | (n', b') :: r => if beq n' name then Some (b', r) else
     match take_sub name r with Some (b, r') => Some (b, (n', b') :: r') | None => None end end.
Fixpoint spill_bucket (fuel : nat) (d : disk) (b : bucket) (s : txs) (ord : list bytes) : res (N * N * txs * list bytes) :=
  match fuel with O => Err "fuel" | S f =>
    if negb (is_dirty fuel0 b) then Ok (b_root_page b, b_next b, s, ord) else
    (* iterate the sub-buckets in oracle order *)
    '(metas, s1, ord1, _) <- fold_res (fun acc (_ : bytes * bucket) => let '(l, s0, o, remaining) := acc in
          match o with [] => Err "order oracle exhausted" | nm :: o' =>
            match take_sub nm remaining with None => Err "order oracle names unknown bucket" | Some (sb, rem') =>
              '(r, nx, s', o'') <- spill_bucket f d sb s0 o' ;; Ok (l ++ [(nm, r, nx)], s', o'', rem') end end) (b_subs b) ([], s, ord, b_subs b) ;;
    '(b1, s2) <- fold_res (fun acc m => let '(bb, s0) := acc in let '(nm, r, nx) := m in
          cur <- b_lookup d bb nm ;;
          match cur with
          | Some e => if is_kv e then Err "IncompatibleValue" else b_modify d bb (OpIns (LBk nm r nx)) s0
          | None => '(b', s') <- b_modify d bb (OpIns (LBk nm r nx)) s0 ;;
                    Ok (Bucket (b_root_page b') (b_next b' + 1) true (b_rootn b') (b_subs b'), s') end) metas (b, s1) ;;
    match b_rootn b1 with
    | None => Ok (b_root_page b1, b_next b1, s2, ord1)      (* promoted root never loaded: nothing to write (repair D1) *)
    | Some rn =>
      '(p, s3) <- spill_root fuel0 rn s2 ;; Ok (p, b_next b1, s3, ord1) end end.

(* ---------- delete_bucket ---------- *)
Fixpoint free_tree (fuel : nat) (d : disk) (stack : list N) (s : txs) : res txs :=
  match fuel with O => Err "fuel" | S f =>
    match stack with [] => Ok s | p :: rest =>
      match dget d p with None => Panic "page missing" | Some a =>
        let push := match ap_body a with
                    | Branches es => map snd es
                    | Leaves l => flat_map (fun e => match e with LBk _ r _ => [r] | _ => [] end) l end in
        (* Vec stack: push in order, pop from the end *)
        free_tree f d (rev push ++ rest) (free_pages s p (ap_over a + 1)) end end end.
(* ---------- db state & commit ---------- *)
Record db := { d_disk : disk; d_root : N; d_next : N; d_np : N; d_fl : N; d_fln : N (* pages of freelist run *); d_flids : list N;
               d_tx : N; d_free : list N; d_pending : list (N * list N); d_psz : N }.
Definition begin_w (st : db) : txs :=
  let t := d_tx st + 1 in
  let '(fr, pd) := release t (d_free st) (d_pending st) in
  {| free := fr; pending := pd; txid := t; np := d_np st; psz := d_psz st; wr := []; flw := None; seqc := 1 |}.
Definition root_bucket (st : db) : bucket := Bucket (d_root st) (d_next st) false None [].
Definition commit (st : db) (b : bucket) (s : txs) (ord : list bytes) : res db :=
  '(b1, s1) <- rebalance fuel0 (d_disk st) b s ;;
  '(r, nx, s2, _) <- spill_bucket fuel0 (d_disk st) b1 s1 ord ;;
  let s3 := free_pages s2 (d_fl st) (d_fln st) in
  let flsize := 40 + 8 * llen (all_pages s3) in
  let '(flp, fln, s4) := tx_allocate s3 flsize in
  let ids := all_pages s4 in
  let disk' := fold_left (fun dk w => let '(p, (size, dd)) := w in
                  dput dk p {| ap_over := (if size mod psz s4 =? 0 then size / psz s4 else size / psz s4 + 1) - 1; ap_body := dd |}) (rev (wr s4)) (d_disk st) in
  Ok {| d_disk := disk'; d_root := r; d_next := nx; d_np := np s4; d_fl := flp; d_fln := fln; d_flids := ids;
        d_tx := txid s4; d_free := free s4; d_pending := pending s4; d_psz := psz s4 |}.
Definition init_db (P : N) : db :=
  {| d_disk := [(3, {| ap_over := 0; ap_body := Leaves [] |})]; d_root := 3; d_next := 0; d_np := 4; d_fl := 2; d_fln := 1; d_flids := [];
     d_tx := 0; d_free := []; d_pending := []; d_psz := P |}.

(* ---------- driver: ops addressed by bucket path ---------- *)
Definition b_delete_bucket (d : disk) (b : bucket) (name : bytes) (s : txs) : res (bucket * txs) :=
  (* get_bucket first: opens it (or errors) *)
  '(b0, s0) <- (match sub_find name (b_subs b) with Some _ => Ok (b, s) | None =>
      cur <- b_lookup d b name ;;
      match cur with
      | Some (LBk _ r nx) => Ok (Bucket (b_root_page b) (b_next b) (b_dirty b) (b_rootn b) (sub_put name (Bucket r nx false None []) (b_subs b)), s)
      | Some (LKv _ _) => Err "IncompatibleValue"
      | None => Err "BucketMissing" end end) ;;
  match take_sub name (b_subs b0) with None => Panic "unreachable" | Some (sb, rest) =>
    s1 <- (if b_root_page sb =? 0 then Ok s0 else free_tree 100000 d [b_root_page sb] s0) ;;
    let b1 := Bucket (b_root_page b0) (b_next b0) (b_dirty b0) (b_rootn b0) rest in
    cur <- b_lookup d b1 name ;;
    match cur with
    | Some e => if is_kv e then Err "IncompatibleValue" else b_modify d b1 (OpDel name) s1
    | None => Panic "Did not find data for bucket we already deleted" end end.
Inductive op := Put (path : list bytes) (k v : bytes) | Del (path : list bytes) (k : bytes) | DelB (path : list bytes) (name : bytes) | Touch (path : list bytes).
(* apply f to the bucket at path (get_or_create along the way) *)
Fixpoint at_path (fuel : nat) (d : disk) (b : bucket) (path : list bytes) (f : bucket -> txs -> res (bucket * txs)) (s : txs) : res (bucket * txs) :=
  match fuel with O => Err "fuel" | S fu =>
  match path with
  | [] => f b s
  | nm :: rest =>
      '(b1, s1) <- b_get_or_create d b nm s ;;
      match sub_find nm (b_subs b1) with None => Panic "sub missing" | Some sb =>
        '(sb', s2) <- at_path fu d sb rest f s1 ;;
        Ok (Bucket (b_root_page b1) (b_next b1) (b_dirty b1) (b_rootn b1) (sub_put nm sb' (b_subs b1)), s2) end end end.
Definition soft {A} (dflt : A) (r : res A) : res A := match r with Err _ => Ok dflt | _ => r end.
Definition run_tx (st : db) (ops : list op) (ord : list bytes) : res db :=
  let s0 := begin_w st in
  '(root', s') <- fold_res (fun acc o => let '(rb, s) := acc in
       match o with
       | Put p k v => soft (rb, s) (at_path 8 (d_disk st) rb p (fun b s => soft (b, s) (b_put (d_disk st) b k v s)) s)
       | Del p k => soft (rb, s) (at_path 8 (d_disk st) rb p (fun b s => soft (b, s) (b_delete (d_disk st) b k s)) s)
       | DelB p nm => soft (rb, s) (at_path 8 (d_disk st) rb p (fun b s => soft (b, s) (b_delete_bucket (d_disk st) b nm s)) s)
       | Touch p => soft (rb, s) (at_path 8 (d_disk st) rb p (fun b s => Ok (b, s)) s) end) ops (root_bucket st, s0) ;;
  commit st root' s' ord.

(* close + reopen: Freelist::init loads every id of the free-list page into the free set; nothing is pending *)
Definition reopen_db (st : db) : db :=
  {| d_disk := d_disk st; d_root := d_root st; d_next := d_next st; d_np := d_np st; d_fl := d_fl st; d_fln := d_fln st;
     d_flids := d_flids st; d_tx := d_tx st; d_free := fold_left (fun f p => sins p f) (d_flids st) []; d_pending := [];
     d_psz := d_psz st |}.

(* the order in which spill visits the opened sub-buckets is an oracle (HashMap iteration order); this is one
   admissible choice -- insertion order, pre-order -- used when the model is run on its own (model-side search) *)
Fixpoint auto_ord (fuel : nat) (b : bucket) : list bytes :=
  match fuel with
  | O => []
  | S f => if negb (is_dirty fuel0 b) then [] else flat_map (fun x => fst x :: auto_ord f (snd x)) (b_subs b)
  end.
Definition run_tx_auto (st : db) (ops : list op) : res db :=
  let s0 := begin_w st in
  '(root', s') <- fold_res (fun acc o => let '(rb, s) := acc in
       match o with
       | Put p k v => soft (rb, s) (at_path 8 (d_disk st) rb p (fun b s => soft (b, s) (b_put (d_disk st) b k v s)) s)
       | Del p k => soft (rb, s) (at_path 8 (d_disk st) rb p (fun b s => soft (b, s) (b_delete (d_disk st) b k s)) s)
       | DelB p nm => soft (rb, s) (at_path 8 (d_disk st) rb p (fun b s => soft (b, s) (b_delete_bucket (d_disk st) b nm s)) s)
       | Touch p => soft (rb, s) (at_path 8 (d_disk st) rb p (fun b s => Ok (b, s)) s) end) ops (root_bucket st, s0) ;;
  commit st root' s' (auto_ord 16 root').
