(* Reads INSIDE a write transaction: the overlay of a bucket (materialised nodes where the transaction has touched
   the tree, mapped pages elsewhere) as the tree the library's cursor walks. Bucket::page_node resolves a branch
   entry's page id through page_node_ids to the materialised node if there is one, else to the page; the cursor
   machine (model/Cursor.v, the same one the C08 theorems are about) then runs on that tree. get_bucket along a
   path takes an opened sub-bucket first, else the stored entry. Executable; extracted; compared by the engine
   correspondence with every get / scan / seek / range the library answers inside a write transaction. *)
From Coq Require Import List NArith Bool String.
From Coq.Strings Require Import Byte.
From Jamm Require Import Bytes Spec Codec Tree Cursor Engine.
Import ListNotations.
Local Open Scope string_scope. Local Open Scope list_scope. Local Open Scope N_scope.

Definition ovl_ent (e : leafent) : lent :=
  match e with LKv k v => EKv k v | LBk k r nx => EBk k r nx end.

Fixpoint omap_opt {A B} (f : A -> option B) (l : list A) : option (list B) :=
  match l with
  | [] => Some []
  | x :: l' => match f x, omap_opt f l' with Some y, Some r => Some (y :: r) | _, _ => None end
  end.

(* a mapped page and everything below it *)
Fixpoint otree_page (fuel : nat) (d : disk) (p : N) : option tree :=
  match fuel with
  | O => None
  | S f =>
      match dget d p with
      | None => None
      | Some a =>
          match ap_body a with
          | Leaves l => Some (TL p (ap_over a) (map ovl_ent l))
          | Branches es =>
              option_map (TB p (ap_over a))
                (omap_opt (fun e : bytes * N => option_map (pair (fst e)) (otree_page f d (snd e))) es)
          end
      end
  end.

(* a materialised node: the child for page id q is the FIRST kid carrying that id (as find_kid finds it), else page q *)
Fixpoint otree_node (fuel : nat) (d : disk) (n : node) {struct n} : option tree :=
  match n with
  | Node p npg _ _ (Leaves l) _ => Some (TL p (npg - 1) (map ovl_ent l))
  | Node p npg _ _ (Branches es) kids =>
      option_map (TB p (npg - 1))
        (omap_opt (fun e : bytes * N =>
           let fix go (ks : list node) : option (option tree) :=
             match ks with
             | [] => None
             | kd :: ks' => if N.eqb (n_page kd) (snd e) then Some (otree_node fuel d kd) else go ks'
             end in
           option_map (pair (fst e))
             (match go kids with Some r => r | None => otree_page fuel d (snd e) end)) es)
  end.

Definition b_tree (d : disk) (b : bucket) : option tree :=
  match b_rootn b with Some n => otree_node fuel0 d n | None => otree_page fuel0 d (b_root_page b) end.

(* get_bucket along a path inside the transaction (no fuel: structural in the path) *)
Fixpoint ovl_bucket (d : disk) (b : bucket) (path : list bytes) {struct path} : res bucket :=
  match path with
  | [] => Ok b
  | nm :: rest =>
      match sub_find nm (b_subs b) with
      | Some sb => ovl_bucket d sb rest
      | None =>
          cur <- b_lookup d b nm ;;
          match cur with
          | Some (LBk _ r nx) => ovl_bucket d (Bucket r nx false None []) rest
          | Some (LKv _ _) => Err "IncompatibleValue"
          | None => Err "BucketMissing"
          end
      end
  end.

Definition ovl_get (d : disk) (b : bucket) (path : list bytes) (k : bytes) : res (option leafent) :=
  bk <- ovl_bucket d b path ;; b_lookup d bk k.
Definition ovl_tree (d : disk) (b : bucket) (path : list bytes) : res tree :=
  bk <- ovl_bucket d b path ;; match b_tree d bk with Some t => Ok t | None => Err "fuel" end.
Definition ovl_scan (d : disk) (b : bucket) (path : list bytes) : res (cur_res (list item)) :=
  t <- ovl_tree d b path ;; Ok (Cursor.scan t).
Definition ovl_seek (d : disk) (b : bucket) (path : list bytes) (k : bytes) : res (bool * cur_res (list item)) :=
  t <- ovl_tree d b path ;; Ok (Cursor.seek_scan t k).
Definition ovl_range (d : disk) (b : bucket) (path : list bytes) (lo hi : bound) : res (cur_res (list item)) :=
  t <- ovl_tree d b path ;; Ok (Cursor.range_scan t lo hi).
Definition ovl_cget (d : disk) (b : bucket) (path : list bytes) (k : bytes) : res (option item) :=
  t <- ovl_tree d b path ;; Ok (Cursor.get t k).

(* the state of a write transaction after the operations done so far (the fold inside Engine.run_tx) *)
Definition txm_step (d : disk) (acc : bucket * txs) (o : Engine.op) : res (bucket * txs) :=
  let '(rb, s) := acc in
  match o with
  | Put p k v => soft (rb, s) (at_path 8 d rb p (fun b s => soft (b, s) (b_put d b k v s)) s)
  | Del p k => soft (rb, s) (at_path 8 d rb p (fun b s => soft (b, s) (b_delete d b k s)) s)
  | DelB p nm => soft (rb, s) (at_path 8 d rb p (fun b s => soft (b, s) (b_delete_bucket d b nm s)) s)
  | Touch p => soft (rb, s) (at_path 8 d rb p (fun b s => Ok (b, s)) s)
  end.
Definition tx_state (st : db) (ops : list Engine.op) : res (bucket * txs) :=
  fold_res (txm_step (d_disk st)) ops (root_bucket st, begin_w st).

Definition tx_get (st : db) (ops : list Engine.op) (path : list bytes) (k : bytes) : res (option leafent) :=
  '(rb, _) <- tx_state st ops ;; ovl_get (d_disk st) rb path k.
Definition tx_cget (st : db) (ops : list Engine.op) (path : list bytes) (k : bytes) : res (option item) :=
  '(rb, _) <- tx_state st ops ;; ovl_cget (d_disk st) rb path k.
Definition tx_scan (st : db) (ops : list Engine.op) (path : list bytes) : res (cur_res (list item)) :=
  '(rb, _) <- tx_state st ops ;; ovl_scan (d_disk st) rb path.
Definition tx_seek (st : db) (ops : list Engine.op) (path : list bytes) (k : bytes) : res (bool * cur_res (list item)) :=
  '(rb, _) <- tx_state st ops ;; ovl_seek (d_disk st) rb path k.
Definition tx_range (st : db) (ops : list Engine.op) (path : list bytes) (lo hi : bound) : res (cur_res (list item)) :=
  '(rb, _) <- tx_state st ops ;; ovl_range (d_disk st) rb path lo hi.
