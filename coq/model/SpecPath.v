(* Driving the handle-based reference machine (Spec.step_op: what the library's API calls are compared with) by
   path-addressed operations: every bucket on the path is opened (or created) by a get_or_create_bucket call of its own,
   handles are remembered per path, then the final call is made. This is the glue between the reference machine and the
   functional semantics EngineAbs.sem_tx used by the tier-B statement; `monitor msearch` runs exactly this function
   (extracted), and proofs/SpecPathFacts.v relates it to sem_tx. *)
From Coq Require Import List NArith Bool.
From Jamm Require Import Bytes Engine Spec EngineAbs.
Import ListNotations.
Local Open Scope list_scope. Local Open Scope N_scope.

Fixpoint path_eqb (a b : list bytes) : bool :=
  match a, b with
  | [], [] => true
  | x :: a', y :: b' => beq x y && path_eqb a' b'
  | _, _ => false end.
Fixpoint is_prefix (a b : list bytes) : bool :=      (* a is a prefix of b *)
  match a, b with
  | [], _ => true
  | x :: a', y :: b' => beq x y && is_prefix a' b'
  | _, [] => false end.
Fixpoint plookup (p : list bytes) (l : list (list bytes * N)) : option N :=
  match l with [] => None | (q, h) :: l' => if path_eqb q p then Some h else plookup p l' end.

Record pstate := mkP {
  p_tx : stx;                              (* the reference machine's transaction *)
  p_handles : list (list bytes * N);       (* path -> handle, for the buckets opened so far *)
  p_nexth : N;                             (* next unused handle *)
  p_log : list Spec.op }.                  (* the calls made, most recent first (for replay on the library) *)

Definition pinit (committed : snode) : pstate := mkP (begin_tx committed true) [] 1 [].

(* open the buckets along `rest` below the bucket `prefix` (handle h); None when a component is refused *)
Fixpoint open_from (st : pstate) (h : N) (prefix rest : list bytes) : pstate * option N :=
  match rest with
  | [] => (st, Some h)
  | nm :: rest' =>
      let pre' := prefix ++ [nm] in
      match plookup pre' (p_handles st) with
      | Some h' => open_from st h' pre' rest'
      | None =>
          let nh := p_nexth st in
          let c := OGoc h nm nh in
          let '(t', r) := step_op (p_tx st) c in
          match r with
          | ROk => open_from (mkP t' ((pre', nh) :: p_handles st) (nh + 1) (c :: p_log st)) nh pre' rest'
          | _ => (mkP t' (p_handles st) (nh + 1) (c :: p_log st), None)
          end
      end
  end.

Definition call (st : pstate) (c : Spec.op) : pstate * result :=
  let '(t', r) := step_op (p_tx st) c in (mkP t' (p_handles st) (p_nexth st) (c :: p_log st), r).

Definition path_step (st : pstate) (o : Engine.op) : pstate :=
  let '(st1, oh) := open_from st 0 [] (op_path o) in
  match oh with
  | None => st1
  | Some h =>
      match o with
      | Put _ k v => fst (call st1 (OPut h k v))
      | Del _ k => fst (call st1 (ODel h k))
      | DelB p nm =>
          let '(st2, r) := call st1 (ODelB h nm) in
          match r with
          | ROk => (* the handles of the deleted bucket and of everything below it are dead *)
                   mkP (p_tx st2) (filter (fun x => negb (is_prefix (p ++ [nm]) (fst x))) (p_handles st2)) (p_nexth st2) (p_log st2)
          | _ => st2 end
      | Touch _ => st1
      end
  end.

(* what the same calls mean for the path-addressed semantics: each successful open persists on its own *)
Fixpoint prefixes (acc p : list bytes) : list (list bytes) :=
  match p with [] => [] | nm :: p' => (acc ++ [nm]) :: prefixes (acc ++ [nm]) p' end.
Definition expand (o : Engine.op) : list Engine.op :=
  map Touch (prefixes [] (op_path o)) ++ [o].

(* the statement proofs/SpecPathFacts.v is about (proved there for wf := the root is a bucket and every bucket's entries are
   strictly ascending, recursively; false without "the root is a bucket": Examples.root_must_be_a_bucket) *)
Definition path_machine_stmt (wf : snode -> Prop) : Prop :=
  forall c ops, wf c ->
    strip (t_root (p_tx (fold_left path_step ops (pinit c)))) = sem_tx (flat_map expand ops) (strip c).
