(* Crash model for commit (C02) and commit under I/O faults (C11), at page granularity.
   A disk maps page ids to abstract contents; a content is identified by the transaction that wrote
   it (or Garbage for a torn / never-written page). A header names the transaction it belongs to and
   the pages that transaction's snapshot consists of (tree pages + free-list run).
   The I/O sequence of a commit is built from the GENERATED order of write_data's steps
   (Consts.commit_order), so dropping the sync between data and header changes the theorems' premise. *)
From Coq Require Import List NArith Bool String.
From Jamm Require Import Bytes Consts PL.
Import ListNotations.
Local Open Scope list_scope. Local Open Scope N_scope.

Inductive content := Written (tx : N) | Garbage.
Definition content_eqb (a b : content) : bool :=
  match a, b with Written x, Written y => x =? y | Garbage, Garbage => true | _, _ => false end.

Record header := mkHeader { h_tx : N; h_live : list N }.
Inductive slotc := SValid (h : header) | SInvalid.

Record disk := mkDisk {
  pages : list (N * content);          (* association list, first match wins *)
  slot0 : slotc;
  slot1 : slotc }.

Fixpoint lookup_page (p : N) (l : list (N * content)) : content :=
  match l with [] => Garbage | (q, c) :: l' => if q =? p then c else lookup_page p l' end.
Definition write_page (d : disk) (p : N) (c : content) : disk := mkDisk ((p, c) :: pages d) (slot0 d) (slot1 d).
Definition write_slot (d : disk) (s : bool) (v : slotc) : disk :=
  if s then mkDisk (pages d) (slot0 d) v else mkDisk (pages d) v (slot1 d).

(* DBInner::meta(): newest valid header; slot 1 wins ties *)
Definition select (d : disk) : option header :=
  match slot0 d, slot1 d with
  | SValid a, SValid b => if h_tx b <? h_tx a then Some a else Some b
  | SValid a, SInvalid => Some a
  | SInvalid, SValid b => Some b
  | SInvalid, SInvalid => None
  end.
(* which slot the next commit overwrites: the one NOT holding the current header *)
Definition current_slot (d : disk) : bool :=
  match slot0 d, slot1 d with
  | SValid a, SValid b => negb (h_tx b <? h_tx a)
  | SValid _, SInvalid => false
  | _, _ => true
  end.

(* the pages a header needs hold what its transaction (or an earlier one) wrote, untouched since:
   [orig] records the content of each page at the moment the header's commit completed *)
Definition intact (orig : N -> content) (d : disk) (h : header) : Prop :=
  forall p, In p (h_live h) -> lookup_page p (pages d) = orig p.

(* ---------- the I/O sequence of one commit ---------- *)
Inductive io := IoData (p : N) | IoHeader | IoSync.

Definition step_io (written : list N) (step : string) : list io :=
  if String.eqb step "data" then map IoData written
  else if String.eqb step "header" then [IoHeader]
  else if String.eqb step "sync" then [IoSync]
  else [].                                            (* grow / publish: no write to existing pages *)
Definition commit_io_of (order : list string) (written : list N) : list io := flat_map (step_io written) order.
Definition commit_io (written : list N) : list io := commit_io_of commit_order written.

(* is there a sync after the data writes and before the header write? *)
Fixpoint has_barrier_from (seen_data seen_sync : bool) (order : list string) : bool :=
  match order with
  | [] => false
  | s :: r =>
      if String.eqb s "data" then has_barrier_from true false r
      else if String.eqb s "sync" then has_barrier_from seen_data seen_data r
      else if String.eqb s "header" then seen_data && seen_sync
      else has_barrier_from seen_data seen_sync r
  end.
Definition has_barrier (order : list string) : bool := has_barrier_from false false order.
(* header write comes after all data writes, and a sync follows the header write *)
Fixpoint header_after_data (seen_data : bool) (order : list string) : bool :=
  match order with
  | [] => false
  | s :: r => if String.eqb s "data" then header_after_data true r
              else if String.eqb s "header" then seen_data && existsb (String.eqb "sync") r
              else header_after_data seen_data r
  end.

(* ---------- executing I/O with crashes ---------- *)
(* what happens to one write that was issued but not yet made durable by a sync *)
Inductive fate := Applied | Lost | Torn.

Definition apply_io (t : N) (newh : header) (tgt : bool) (d : disk) (o : io) (f : fate) : disk :=
  match o, f with
  | IoData p, Applied => write_page d p (Written t)
  | IoData p, Torn => write_page d p Garbage
  | IoHeader, Applied => write_slot d tgt (SValid newh)
  | IoHeader, Torn => write_slot d tgt SInvalid          (* premise NoTornCollision: a torn header is not valid *)
  | _, _ => d
  end.

(* kill: a prefix of the sequence is applied in full, nothing else *)
Fixpoint run_prefix (t : N) (newh : header) (tgt : bool) (d : disk) (ios : list io) (n : nat) : disk :=
  match n, ios with
  | S n', o :: r => run_prefix t newh tgt (apply_io t newh tgt d o Applied) r n'
  | _, _ => d
  end.

(* power loss after [n] calls were issued: every write issued before the last completed sync (among the
   first n calls) is applied; each later issued write meets the fate chosen by [fates] *)
Fixpoint last_sync_before (ios : list io) (n : nat) (i : nat) (acc : nat) : nat :=
  match n, ios with
  | S n', o :: r => last_sync_before r n' (S i) (match o with IoSync => S i | _ => acc end)
  | _, _ => acc
  end.
Fixpoint run_power (t : N) (newh : header) (tgt : bool) (d : disk) (ios : list io) (n : nat) (synced : nat)
                   (i : nat) (fates : nat -> fate) : disk :=
  match n, ios with
  | S n', o :: r =>
      let f := if Nat.ltb i synced then Applied else fates i in
      run_power t newh tgt (apply_io t newh tgt d o f) r n' synced (S i) fates
  | _, _ => d
  end.
Definition power_image (t : N) (newh : header) (tgt : bool) (d : disk) (ios : list io) (n : nat) (fates : nat -> fate) : disk :=
  run_power t newh tgt d ios n (last_sync_before ios n 0 0) 0 fates.

(* ---------- commit under I/O faults (C11) ---------- *)
(* the k-th call fails: earlier calls were applied in full; the failing call may have been applied, lost or torn
   (short write); commit returns Err. What the process keeps in memory afterwards: the shared free list is
   replaced iff [publishes_on_visible_header] and the new header is the one select now returns. *)
Definition fault_image (t : N) (newh : header) (tgt : bool) (d : disk) (ios : list io) (k : nat) (f : fate) : disk :=
  let d1 := run_prefix t newh tgt d ios k in
  match nth_error ios k with
  | Some o => apply_io t newh tgt d1 o f
  | None => d1
  end.

(* ---------- what the process keeps in memory after a failed commit (C11) ---------- *)
Inductive memfl := MemOld | MemNew.
(* [publish_on_visible] is the GENERATED flag Consts.publish_on_visible_header: does commit() replace the
   shared free list whenever the new header is the visible one, or only after a fully successful commit *)
Definition mem_after (publish_on_visible completed : bool) (img : disk) (newh : header) : memfl :=
  if completed then MemNew else
  if publish_on_visible then
    match select img with
    | Some h => if h_tx h =? h_tx newh then MemNew else MemOld
    | None => MemOld
    end
  else MemOld.
(* the shared free list must describe the header the next transaction will read *)
Definition mem_consistent (img : disk) (cur newh : header) (m : memfl) : Prop :=
  (select img = Some newh -> m = MemNew) /\ (select img = Some cur -> m = MemOld).
