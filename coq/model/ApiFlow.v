(* Lifetime-flow check over the GENERATED public signature table (gen/ApiSig.v) for C14.
   Types that can point into the memory map carry an "anchor" lifetime: the lifetime parameter that ties them
   to the borrow of their transaction ('b in Bucket<'b,'tx>, KVPair<'b,'tx>, ...). A function is anchored when
   every map-pointing part of its result is tied to a lifetime bounded by the transaction borrow: the lifetime
   of `&self` on a transaction-derived receiver, the receiver's own anchor, the anchors of its transaction-
   derived arguments, or the anchors its impl bounds name. A `Bytes` result is also fine when the impl body
   builds an owned value (recorded by the translator from the source text). Rust's soundness ("a value whose
   type mentions 'b cannot be used after 'b ends") is trusted; rustc is the judge in the client corpus. *)
From Coq Require Import List String Ascii Bool.
From Jamm Require Import ApiSig.
Import ListNotations.
Local Open Scope string_scope.

Definition lt_eqb (a b : lt) : bool :=
  match a, b with
  | LStatic, LStatic => true | LElided, LElided => true
  | LNamed x, LNamed y => String.eqb x y
  | _, _ => false
  end.
Definition lt_in (a : lt) (l : list lt) : bool := existsb (lt_eqb a) l.

Definition anchor_pos (ty : string) : option nat :=
  if String.eqb ty "Range" then Some 1%nat else
  if existsb (String.eqb ty) ["Bucket"; "Cursor"; "KVPair"; "BucketName"; "Data"; "Buckets"] then Some 0%nat else None.
Definition is_anchor_ty (ty : string) : bool := match anchor_pos ty with Some _ => true | None => false end.
Definition strip_ref (o : string) : string :=
  match o with String c r => if Ascii.eqb c "&"%char then r else o | _ => o end.
Definition anchor_lts (ty : string) (lts : list lt) : list lt :=
  match anchor_pos ty with Some i => match nth_error lts i with Some l => [l] | None => [] end | None => [] end.
Definition comp_anchor (c : comp) : list lt := anchor_lts (c_ty c) (c_lts c).

Definition has_self (f : fn_sig) : bool := match f_self f with SNone => false | _ => true end.
Definition owner_tx_derived (f : fn_sig) : bool :=
  let o := strip_ref (f_owner f) in String.eqb o "Tx" || is_anchor_ty o.
(* lifetimes bounded by the borrow of the transaction, as far as this signature shows *)
Definition bounded (f : fn_sig) : list lt :=
  (match f_self f with SRef l => if owner_tx_derived f then [l] else [] | _ => [] end) ++
  (if has_self f then anchor_lts (strip_ref (f_owner f)) (f_owner_lts f) else []) ++
  flat_map comp_anchor (f_in f) ++
  (if has_self f then flat_map comp_anchor (f_bounds f) else []).
(* can the function reach map data at all? *)
Definition sens_in (f : fn_sig) : bool :=
  (has_self f && owner_tx_derived f) || existsb (fun c => is_anchor_ty (c_ty c)) (f_in f) ||
  (has_self f && existsb (fun c => is_anchor_ty (c_ty c)) (f_bounds f)).

Definition self_lts (f : fn_sig) : list lt := match f_self f with SRef l => [l] | _ => [] end.
Definition comp_ok (f : fn_sig) (c : comp) : bool :=
  if String.eqb (c_ty c) "Tx" then forallb (fun l => lt_in l (self_lts f)) (c_lts c)       (* a Tx is tied to the borrow of its DB *)
  else if negb (sens_in f) then true
  else if is_anchor_ty (c_ty c) then forallb (fun l => lt_in l (bounded f)) (comp_anchor c) && negb (match comp_anchor c with [] => true | _ => false end)
  else if String.eqb (c_ty c) "Bytes" then String.eqb (f_body f) "owned" || forallb (fun l => lt_in l (bounded f)) (c_lts c)
  else if String.eqb (c_ty c) "&" then forallb (fun l => lt_in l (bounded f)) (c_lts c)
  else true.
Definition anchoredb (f : fn_sig) : bool := forallb (comp_ok f) (f_out f).
Definition unanchored : list fn_sig := filter (fun f => negb (anchoredb f)) api.

(* auto traits *)
Definition auto_trait (ty tr : string) : option bool :=
  match find (fun x => String.eqb (fst (fst x)) ty && String.eqb (snd (fst x)) tr) auto_traits with
  | Some x => Some (snd x) | None => None end.
Definition tx_derived_types : list string := ["Tx"; "Bucket"; "Cursor"; "Data"; "KVPair"; "BucketName"; "Buckets"; "Range"].
Definition none_send : bool := forallb (fun ty => match auto_trait ty "Send" with Some false => true | _ => false end) tx_derived_types.
Definition db_shareable : bool :=
  match auto_trait "DB" "Send", auto_trait "DB" "Sync" with Some true, Some true => true | _, _ => false end &&
  existsb (fun f => String.eqb (f_owner f) "DB" && String.eqb (f_trait f) "Clone") api.

(* ---- what the table check means: values a client can obtain ---- *)
(* a value in client hands: its head type and whether its map-pointing parts are bounded by the transaction borrow *)
Inductive held := Held (ty : string) (ok : bool).
Inductive obtainable : held -> Prop :=
| ob_call : forall f c, In f api -> In c (f_out f) -> obtainable (Held (c_ty c) (comp_ok f c)).
