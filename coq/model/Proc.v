(* Process-level transition system of OpenOptions::open (DESIGN.md Appendix G): any number of
   processes opening the same path, at system-call granularity. [lock_first] selects the protocol:
     true  (repaired): openat(O_CREAT) -> flock(EX) -> [if the file is empty: fallocate, write, fsync] -> mmap + read header
     false (pinned):   exists? -> [absent: openat(O_CREAT|O_EXCL), fallocate, write, fsync | present: openat] -> flock(EX) -> mmap
   It comes from the GENERATED flag Consts.lock_before_init; the system-call word of every real open is
   checked against this automaton on every run. *)
From Coq Require Import List NArith Bool Arith.
Import ListNotations.
Local Open Scope list_scope. Local Open Scope nat_scope.

Inductive ppc :=
| P0                       (* about to open *)
| PSawAbsent | PSawPresent (* pinned only: result of the exists() test *)
| PCreated                 (* pinned: created with O_EXCL, nothing written yet *)
| PSized                   (* fallocate done, header pages not written *)
| PWritten                 (* the four initial pages written *)
| POpened                  (* has a descriptor, no lock yet *)
| PLocked                  (* holds the exclusive lock *)
| PInit1 | PInit2 | PInit3 (* repaired: lock holder initialising an empty file: after fallocate / write / fsync *)
| PInside (seen : nat)     (* mapped, header read: sees [seen] commits *)
| PCommitted (seen : nat)  (* has committed its marker *)
| PClosed
| PErrExists               (* pinned: create_new failed with AlreadyExists *)
| PPanic.                  (* mapped a file without a valid header *)

Record fsys := mkFs {
  f_exists : bool;
  f_sized : bool;            (* length > 0 *)
  f_init : bool;             (* header pages present *)
  f_commits : nat;           (* number of committed markers *)
  f_lock : option nat        (* holder of the flock *)
}.
Record pstate := mkP { fs : fsys; procs : list ppc }.
Definition pinit (n : nat) : pstate := mkP (mkFs false false false 0 None) (repeat P0 n).
(* the same with a database that already exists and holds c commits *)
Definition pinit_existing (c n : nat) : pstate := mkP (mkFs true true true c None) (repeat P0 n).

Fixpoint set_nth {A} (l : list A) (i : nat) (x : A) : list A :=
  match l, i with
  | [], _ => []
  | _ :: l', O => x :: l'
  | y :: l', S i' => y :: set_nth l' i' x
  end.
Definition setp (s : pstate) (i : nat) (p : ppc) (f : fsys) : pstate := mkP f (set_nth (procs s) i p).
Definition with_lock (f : fsys) (l : option nat) : fsys := mkFs (f_exists f) (f_sized f) (f_init f) (f_commits f) l.

Definition pstep (lock_first : bool) (s : pstate) (i : nat) : option pstate :=
  let f := fs s in
  match nth_error (procs s) i with
  | None => None
  | Some p =>
    match p with
    | P0 =>
        if lock_first
        then Some (setp s i POpened (mkFs true (f_sized f) (f_init f) (f_commits f) (f_lock f)))     (* openat(O_CREAT) *)
        else Some (setp s i (if f_exists f then PSawPresent else PSawAbsent) f)                      (* path.exists() *)
    | PSawAbsent =>                                                                                   (* openat(O_CREAT|O_EXCL) *)
        if f_exists f then Some (setp s i PErrExists f)
        else Some (setp s i PCreated (mkFs true false false (f_commits f) (f_lock f)))
    | PCreated => Some (setp s i PSized (mkFs true true (f_init f) (f_commits f) (f_lock f)))         (* fallocate *)
    | PSized => Some (setp s i PWritten (mkFs true true true (f_commits f) (f_lock f)))               (* write 4 pages *)
    | PWritten => Some (setp s i POpened f)                                                           (* fsync *)
    | PSawPresent => Some (setp s i POpened f)                                                        (* openat *)
    | POpened =>                                                                                      (* flock(LOCK_EX): blocks while held *)
        match f_lock f with
        | Some _ => None
        | None => Some (setp s i PLocked (with_lock f (Some i)))
        end
    | PLocked =>
        if lock_first && negb (f_sized f)
        then Some (setp s i PInit1 (mkFs true true (f_init f) (f_commits f) (f_lock f)))              (* empty file: fallocate *)
        else if f_init f then Some (setp s i (PInside (f_commits f)) f)                               (* mmap + header *)
        else Some (setp s i PPanic (with_lock f None))                                                (* no valid header: panic, lock dropped *)
    | PInit1 => Some (setp s i PInit2 (mkFs true true true (f_commits f) (f_lock f)))                 (* write 4 pages *)
    | PInit2 => Some (setp s i PInit3 f)                                                              (* fsync *)
    | PInit3 => Some (setp s i (PInside (f_commits f)) f)                                             (* mmap + header *)
    | PInside seen => Some (setp s i (PCommitted seen) (mkFs true true true (S (f_commits f)) (f_lock f)))   (* commit a marker *)
    | PCommitted seen => Some (setp s i PClosed (with_lock f None))                                   (* close: lock released *)
    | PClosed | PErrExists | PPanic => None
    end
  end.

Inductive preachable (lf : bool) (s0 : pstate) : pstate -> Prop :=
| preach_refl : preachable lf s0 s0
| preach_step : forall s i s', preachable lf s0 s -> pstep lf s i = Some s' -> preachable lf s0 s'.
Fixpoint prun (lf : bool) (s : pstate) (sched : list nat) : pstate :=
  match sched with
  | [] => s
  | i :: r => match pstep lf s i with Some s' => prun lf s' r | None => prun lf s r end
  end.

Definition holds_lock (p : ppc) : bool :=
  match p with PLocked | PInit1 | PInit2 | PInit3 | PInside _ | PCommitted _ => true | _ => false end.
Definition failed (p : ppc) : bool := match p with PErrExists | PPanic => true | _ => false end.
Definition pfinished (p : ppc) : bool := match p with PClosed | PErrExists | PPanic => true | _ => false end.

(* at most one process is inside the database (between flock and close) *)
Definition one_inside (s : pstate) : Prop :=
  forall i j pi pj, nth_error (procs s) i = Some pi -> nth_error (procs s) j = Some pj ->
    holds_lock pi = true -> holds_lock pj = true -> i = j.
(* nobody fails, and whoever is inside sees an initialised file holding every commit made so far *)
Definition nobody_failed (s : pstate) : Prop := forall i p, nth_error (procs s) i = Some p -> failed p = false.
Definition nobody_failedb (s : pstate) : bool := forallb (fun p => negb (failed p)) (procs s).
Definition sees_all (s : pstate) : Prop :=
  forall i seen, nth_error (procs s) i = Some (PInside seen) -> f_init (fs s) = true /\ seen = f_commits (fs s).
Definition p_all_done (s : pstate) : bool := forallb pfinished (procs s).
