(* Keccak.v -- SHA3-256 (FIPS 202) as an executable Gallina function.

   Self-contained: Coq stdlib only, no axioms, structural recursion only.
   Lanes are [N] values kept below 2^64 (explicit masks); the state is a
   [list N] of length 25 with lane (x,y) at index x + 5*y.
   Extraction-friendly with ExtrOcamlBasic alone. *)

From Coq Require Import List NArith Bool.
From Coq.Strings Require Import Byte.
Import ListNotations.

Local Open Scope N_scope.

Definition bytes := list byte.

(* ------------------------------------------------------------------ *)
(* 64-bit lanes                                                        *)
(* ------------------------------------------------------------------ *)

Definition mask64 : N := 0xffffffffffffffff.

(* rotate-left of a 64-bit lane by r, 0 <= r < 64 *)
Definition rotl64 (x r : N) : N :=
  N.lor (N.land (N.shiftl x r) mask64) (N.shiftr x (64 - r)).

(* bitwise complement within 64 bits *)
Definition not64 (x : N) : N := N.lxor x mask64.

Definition byte_of_N (n : N) : byte :=
  match Byte.of_N (N.land n 255) with
  | Some b => b
  | None => x00
  end.

(* little-endian: 8 bytes -> lane *)
Definition lane_of_bytes8 (b0 b1 b2 b3 b4 b5 b6 b7 : byte) : N :=
  N.lor (Byte.to_N b0)
 (N.lor (N.shiftl (Byte.to_N b1) 8)
 (N.lor (N.shiftl (Byte.to_N b2) 16)
 (N.lor (N.shiftl (Byte.to_N b3) 24)
 (N.lor (N.shiftl (Byte.to_N b4) 32)
 (N.lor (N.shiftl (Byte.to_N b5) 40)
 (N.lor (N.shiftl (Byte.to_N b6) 48)
        (N.shiftl (Byte.to_N b7) 56))))))).

(* little-endian: lane -> 8 bytes *)
Definition bytes_of_lane (w : N) : bytes :=
  [ byte_of_N w;
    byte_of_N (N.shiftr w 8);
    byte_of_N (N.shiftr w 16);
    byte_of_N (N.shiftr w 24);
    byte_of_N (N.shiftr w 32);
    byte_of_N (N.shiftr w 40);
    byte_of_N (N.shiftr w 48);
    byte_of_N (N.shiftr w 56) ].

(* groups of 8 bytes -> lanes; a trailing group of fewer than 8 bytes is
   dropped (never happens: blocks are 136 = 17*8 bytes) *)
Fixpoint lanes_of_bytes (bs : bytes) : list N :=
  match bs with
  | b0 :: b1 :: b2 :: b3 :: b4 :: b5 :: b6 :: b7 :: rest =>
      lane_of_bytes8 b0 b1 b2 b3 b4 b5 b6 b7 :: lanes_of_bytes rest
  | _ => []
  end.

(* ------------------------------------------------------------------ *)
(* Keccak-f[1600]                                                      *)
(* ------------------------------------------------------------------ *)

Definition state := list N.   (* 25 lanes, lane (x,y) at x + 5*y *)

Definition lane (st : state) (i : nat) : N := nth i st 0.

Definition zero_state : state := repeat 0 25.

(* pointwise xor; result has the length of the first argument, lanes
   beyond the end of the second argument are left unchanged *)
Fixpoint xor_lanes (st ls : list N) : list N :=
  match st, ls with
  | s :: st', l :: ls' => N.lxor s l :: xor_lanes st' ls'
  | _, [] => st
  | [], _ => []
  end.

(* theta *)
Definition theta_C (st : state) : list N :=
  map (fun x : nat =>
         N.lxor (lane st x)
        (N.lxor (lane st (x + 5))
        (N.lxor (lane st (x + 10))
        (N.lxor (lane st (x + 15))
                (lane st (x + 20))))))
      [0; 1; 2; 3; 4]%nat.

(* D[x] = C[x-1] xor rotl(C[x+1], 1); table of (x-1 mod 5, x+1 mod 5) *)
Definition theta_D (c : list N) : list N :=
  map (fun p : nat * nat =>
         N.lxor (nth (fst p) c 0) (rotl64 (nth (snd p) c 0) 1))
      [(4, 1); (0, 2); (1, 3); (2, 4); (3, 0)]%nat.

Definition theta (st : state) : state :=
  let d := theta_D (theta_C st) in
  xor_lanes st (d ++ d ++ d ++ d ++ d).

(* rho and pi fused, as a gather: entry i of the table is (src, r) meaning
   B[i] = rotl(A[src], r), where i = X + 5*Y, src = x + 5*y,
   (X, Y) = (y, 2x + 3y mod 5) and r is the rho offset of lane (x, y). *)
Definition rho_pi_table : list (nat * N) :=
  [ (0%nat, 0); (6%nat, 44); (12%nat, 43); (18%nat, 21); (24%nat, 14);
    (3%nat, 28); (9%nat, 20); (10%nat, 3); (16%nat, 45); (22%nat, 61);
    (1%nat, 1); (7%nat, 6); (13%nat, 25); (19%nat, 8); (20%nat, 18);
    (4%nat, 27); (5%nat, 36); (11%nat, 10); (17%nat, 15); (23%nat, 56);
    (2%nat, 62); (8%nat, 55); (14%nat, 39); (15%nat, 41); (21%nat, 2) ].

Definition rho_pi (st : state) : state :=
  map (fun p : nat * N => rotl64 (lane st (fst p)) (snd p)) rho_pi_table.

(* chi, one row (fixed y) at a time *)
Definition chi_row (a0 a1 a2 a3 a4 : N) : list N :=
  [ N.lxor a0 (N.land (not64 a1) a2);
    N.lxor a1 (N.land (not64 a2) a3);
    N.lxor a2 (N.land (not64 a3) a4);
    N.lxor a3 (N.land (not64 a4) a0);
    N.lxor a4 (N.land (not64 a0) a1) ].

Fixpoint chi (st : list N) : list N :=
  match st with
  | a0 :: a1 :: a2 :: a3 :: a4 :: rest => chi_row a0 a1 a2 a3 a4 ++ chi rest
  | _ => []
  end.

(* iota *)
Definition iota (rc : N) (st : state) : state :=
  match st with
  | a0 :: rest => N.lxor a0 rc :: rest
  | [] => []
  end.

Definition round_constants : list N :=
  [ 0x0000000000000001; 0x0000000000008082; 0x800000000000808a;
    0x8000000080008000; 0x000000000000808b; 0x0000000080000001;
    0x8000000080008081; 0x8000000000008009; 0x000000000000008a;
    0x0000000000000088; 0x0000000080008009; 0x000000008000000a;
    0x000000008000808b; 0x800000000000008b; 0x8000000000008089;
    0x8000000000008003; 0x8000000000008002; 0x8000000000000080;
    0x000000000000800a; 0x800000008000000a; 0x8000000080008081;
    0x8000000000008080; 0x0000000080000001; 0x8000000080008008 ].

Definition keccak_round (rc : N) (st : state) : state :=
  iota rc (chi (rho_pi (theta st))).

(* 24 rounds: structural recursion on the list of round constants *)
Fixpoint keccak_rounds (rcs : list N) (st : state) : state :=
  match rcs with
  | [] => st
  | rc :: rcs' => keccak_rounds rcs' (keccak_round rc st)
  end.

Definition keccak_f (st : state) : state :=
  keccak_rounds round_constants st.

(* ------------------------------------------------------------------ *)
(* Sponge, rate 136 bytes (capacity 512 bits), SHA-3 domain padding    *)
(* ------------------------------------------------------------------ *)

Definition rate : nat := 136.

(* xor a full 136-byte block into the state and permute *)
Definition absorb_block (st : state) (blk : bytes) : state :=
  keccak_f (xor_lanes st (lanes_of_bytes blk)).

(* pad10*1 with the SHA-3 suffix 01: [room] is the number of free bytes
   left in the last block, 1 <= room <= 136 *)
Definition padding (room : nat) : bytes :=
  match room with
  | O => []                               (* unreachable *)
  | S O => [x86]
  | S (S k) => x06 :: repeat x00 k ++ [x80]
  end.

(* Absorb the message.  [acc] holds the bytes of the current partial block
   in reverse order and [room] = 136 - length acc >= 1.  Structural on
   [msg]. *)
Fixpoint absorb (st : state) (acc : bytes) (room : nat) (msg : bytes)
  : state :=
  match msg with
  | [] => absorb_block st (rev_append acc (padding room))
  | b :: rest =>
      match room with
      | S (S r) => absorb st (b :: acc) (S r) rest
      | _ => absorb (absorb_block st (rev_append acc [b])) [] rate rest
      end
  end.

Definition squeeze32 (st : state) : bytes :=
  flat_map bytes_of_lane (firstn 4 st).

Definition sha3_256 (msg : bytes) : bytes :=
  squeeze32 (absorb zero_state [] rate msg).

(* ------------------------------------------------------------------ *)
(* Test vectors (expected digests produced with python3 hashlib)       *)
(* ------------------------------------------------------------------ *)

(* the n-byte message  0, 1, 2, ..., (n-1) mod 256 *)
Definition iota_bytes (n : nat) : bytes :=
  map (fun i : nat => byte_of_N (N.of_nat i)) (seq 0 n).

Example iota_bytes_5 : iota_bytes 5 = [x00; x01; x02; x03; x04].
Proof. vm_compute; reflexivity. Qed.

Example iota_bytes_wrap : nth 257 (iota_bytes 300) xff = x01.
Proof. vm_compute; reflexivity. Qed.

(* round constant / permutation sanity: Keccak-f[1600] on the zero state,
   first lane (well-known value f1258f7940e1dde7) *)
Example keccak_f_zero_lane0 : lane (keccak_f zero_state) 0 = 0xf1258f7940e1dde7.
Proof. vm_compute; reflexivity. Qed.

Example keccak_f_length : length (keccak_f zero_state) = 25%nat.
Proof. vm_compute; reflexivity. Qed.

(* a7ffc6f8bf1ed76651c14756a061d662f580ff4de43b49fa82d80a4b80f8434a *)
Example sha3_256_empty :
  sha3_256 [] =
    [xa7; xff; xc6; xf8; xbf; x1e; xd7; x66; x51; xc1; x47; x56; xa0; x61; xd6;
     x62; xf5; x80; xff; x4d; xe4; x3b; x49; xfa; x82; xd8; x0a; x4b; x80; xf8;
     x43; x4a].
Proof. vm_compute; reflexivity. Qed.

(* 3a985da74fe225b2045c172d6bd390bd855f086e3e9d525b46bfe24511431532 *)
Example sha3_256_abc :
  sha3_256 [x61; x62; x63] =
    [x3a; x98; x5d; xa7; x4f; xe2; x25; xb2; x04; x5c; x17; x2d; x6b; xd3; x90;
     xbd; x85; x5f; x08; x6e; x3e; x9d; x52; x5b; x46; xbf; xe2; x45; x11; x43;
     x15; x32].
Proof. vm_compute; reflexivity. Qed.

(* 5d53469f20fef4f8eab52b88044ede69c77a6a68a60728609fc4a65ff531e7d0 *)
Example sha3_256_iota_1 :
  sha3_256 (iota_bytes 1) =
    [x5d; x53; x46; x9f; x20; xfe; xf4; xf8; xea; xb5; x2b; x88; x04; x4e; xde;
     x69; xc7; x7a; x6a; x68; xa6; x07; x28; x60; x9f; xc4; xa6; x5f; xf5; x31;
     xe7; xd0].
Proof. vm_compute; reflexivity. Qed.

(* 881ad9ffbd7f090efa51cbdfe93da23a0401f4446f7adf150d1c226851cbfff2 *)
Example sha3_256_iota_71 :
  sha3_256 (iota_bytes 71) =
    [x88; x1a; xd9; xff; xbd; x7f; x09; x0e; xfa; x51; xcb; xdf; xe9; x3d; xa2;
     x3a; x04; x01; xf4; x44; x6f; x7a; xdf; x15; x0d; x1c; x22; x68; x51; xcb;
     xff; xf2].
Proof. vm_compute; reflexivity. Qed.

(* fe58866b2893c6c40ee832ce40fb6eb4c70ff7c4794380d95c2ebeec62decd31 *)
Example sha3_256_iota_72 :
  sha3_256 (iota_bytes 72) =
    [xfe; x58; x86; x6b; x28; x93; xc6; xc4; x0e; xe8; x32; xce; x40; xfb; x6e;
     xb4; xc7; x0f; xf7; xc4; x79; x43; x80; xd9; x5c; x2e; xbe; xec; x62; xde;
     xcd; x31].
Proof. vm_compute; reflexivity. Qed.

(* fded8fd9d6551c601eeb3b7c6bc5e5cfd8aad1d015b7e9aaa9c9b9475231d5e2 *)
Example sha3_256_iota_135 :
  sha3_256 (iota_bytes 135) =
    [xfd; xed; x8f; xd9; xd6; x55; x1c; x60; x1e; xeb; x3b; x7c; x6b; xc5; xe5;
     xcf; xd8; xaa; xd1; xd0; x15; xb7; xe9; xaa; xa9; xc9; xb9; x47; x52; x31;
     xd5; xe2].
Proof. vm_compute; reflexivity. Qed.

(* cf3ccff92480a29160c2d38317c430e14749bfee1788106957dfe73f8c4930e5 *)
Example sha3_256_iota_136 :
  sha3_256 (iota_bytes 136) =
    [xcf; x3c; xcf; xf9; x24; x80; xa2; x91; x60; xc2; xd3; x83; x17; xc4; x30;
     xe1; x47; x49; xbf; xee; x17; x88; x10; x69; x57; xdf; xe7; x3f; x8c; x49;
     x30; xe5].
Proof. vm_compute; reflexivity. Qed.

(* ce9d7dc90913ee5d92745019479a5352c6d6279bef18ed07dc0a83ee8084daca *)
Example sha3_256_iota_137 :
  sha3_256 (iota_bytes 137) =
    [xce; x9d; x7d; xc9; x09; x13; xee; x5d; x92; x74; x50; x19; x47; x9a; x53;
     x52; xc6; xd6; x27; x9b; xef; x18; xed; x07; xdc; x0a; x83; xee; x80; x84;
     xda; xca].
Proof. vm_compute; reflexivity. Qed.

(* 5f728f63bf5ee48c77f453c0490398fa645b8d4c4e56be9a41cfec344d6ca899 *)
Example sha3_256_iota_200 :
  sha3_256 (iota_bytes 200) =
    [x5f; x72; x8f; x63; xbf; x5e; xe4; x8c; x77; xf4; x53; xc0; x49; x03; x98;
     xfa; x64; x5b; x8d; x4c; x4e; x56; xbe; x9a; x41; xcf; xec; x34; x4d; x6c;
     xa8; x99].
Proof. vm_compute; reflexivity. Qed.

(* d409bcbb54825556454a757a1f629135ba49c0467dcf6b4e0aa69e9718dd31e6 *)
Example sha3_256_iota_271 :
  sha3_256 (iota_bytes 271) =
    [xd4; x09; xbc; xbb; x54; x82; x55; x56; x45; x4a; x75; x7a; x1f; x62; x91;
     x35; xba; x49; xc0; x46; x7d; xcf; x6b; x4e; x0a; xa6; x9e; x97; x18; xdd;
     x31; xe6].
Proof. vm_compute; reflexivity. Qed.

(* 0b21ec4a8eff6d179e09ba9fe0ab08515b24e0923fbf419f5c30a38e64577db5 *)
Example sha3_256_iota_272 :
  sha3_256 (iota_bytes 272) =
    [x0b; x21; xec; x4a; x8e; xff; x6d; x17; x9e; x09; xba; x9f; xe0; xab; x08;
     x51; x5b; x24; xe0; x92; x3f; xbf; x41; x9f; x5c; x30; xa3; x8e; x64; x57;
     x7d; xb5].
Proof. vm_compute; reflexivity. Qed.

(* 6e7f5de2677213044468ef21d3c8c57bb10cc5957e4f99d038db65ac3151e9c1 *)
Example sha3_256_iota_273 :
  sha3_256 (iota_bytes 273) =
    [x6e; x7f; x5d; xe2; x67; x72; x13; x04; x44; x68; xef; x21; xd3; xc8; xc5;
     x7b; xb1; x0c; xc5; x95; x7e; x4f; x99; xd0; x38; xdb; x65; xac; x31; x51;
     xe9; xc1].
Proof. vm_compute; reflexivity. Qed.

(* 0f96259f82fb8c30d3d702e8a89a475d2e96690a5ee9892a48351864fb492aa5 *)
Example sha3_256_iota_500 :
  sha3_256 (iota_bytes 500) =
    [x0f; x96; x25; x9f; x82; xfb; x8c; x30; xd3; xd7; x02; xe8; xa8; x9a; x47;
     x5d; x2e; x96; x69; x0a; x5e; xe9; x89; x2a; x48; x35; x18; x64; xfb; x49;
     x2a; xa5].
Proof. vm_compute; reflexivity. Qed.

(* 401dd44fde549e7492a9fd98636f2628017afe9e9fa097d68c2826cf8a1b6d44 *)
Example sha3_256_literal_72 :
  sha3_256
    [x0b; x30; x55; x7a; x9f; xc4; xe9; x0e; x33; x58; x7d; xa2; xc7; xec; x11;
     x36; x5b; x80; xa5; xca; xef; x14; x39; x5e; x83; xa8; xcd; xf2; x17; x3c;
     x61; x86; xab; xd0; xf5; x1a; x3f; x64; x89; xae; xd3; xf8; x1d; x42; x67;
     x8c; xb1; xd6; xfb; x20; x45; x6a; x8f; xb4; xd9; xfe; x23; x48; x6d; x92;
     xb7; xdc; x01; x26; x4b; x70; x95; xba; xdf; x04; x29; x4e] =
    [x40; x1d; xd4; x4f; xde; x54; x9e; x74; x92; xa9; xfd; x98; x63; x6f; x26;
     x28; x01; x7a; xfe; x9e; x9f; xa0; x97; xd6; x8c; x28; x26; xcf; x8a; x1b;
     x6d; x44].
Proof. vm_compute; reflexivity. Qed.

(* 1cb46a10dd3ee351917ec48d45d84a245587ebce91f33eb07372d95809a278b8 *)
Example sha3_256_ff_136 :
  sha3_256 (repeat xff 136) =
    [x1c; xb4; x6a; x10; xdd; x3e; xe3; x51; x91; x7e; xc4; x8d; x45; xd8; x4a;
     x24; x55; x87; xeb; xce; x91; xf3; x3e; xb0; x73; x72; xd9; x58; x09; xa2;
     x78; xb8].
Proof. vm_compute; reflexivity. Qed.

(* 3a13d9739b15dbba9aba102cea31a1dd7d92e27bd60c8cf8a9ec34ae751b1660 *)
Example sha3_256_zero_72 :
  sha3_256 (repeat x00 72) =
    [x3a; x13; xd9; x73; x9b; x15; xdb; xba; x9a; xba; x10; x2c; xea; x31; xa1;
     xdd; x7d; x92; xe2; x7b; xd6; x0c; x8c; xf8; xa9; xec; x34; xae; x75; x1b;
     x16; x60].
Proof. vm_compute; reflexivity. Qed.

Example sha3_256_length_72 : length (sha3_256 (iota_bytes 72)) = 32%nat.
Proof. vm_compute; reflexivity. Qed.

Time Eval vm_compute in sha3_256 (iota_bytes 72).

Print Assumptions sha3_256.
