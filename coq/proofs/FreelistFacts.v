(* Facts about the free-list model (model/Freelist.v) and its connection to the
   page-lifecycle machine (model/PL.v). No axioms. *)
From Coq Require Import List NArith PeanoNat Bool Lia ZifyN ZifyBool Sorted Permutation.
From Jamm Require Import Bytes PL Freelist.
Import ListNotations.
Local Open Scope list_scope. Local Open Scope N_scope.
Arguments N.add : simpl never.
Arguments N.sub : simpl never.
Arguments N.ltb : simpl never.
Arguments N.leb : simpl never.
Arguments N.eqb : simpl never.
Arguments N.div : simpl never.
Arguments N.modulo : simpl never.

(* ------------------------------------------------------------------ *)
(** * Basic notions *)

Definition asc (l : list N) : Prop := StronglySorted N.lt l.
Definition ge2 (l : list N) : Prop := Forall (fun x => 2 <= x) l.
Definition asc_keys (pd : pending) : Prop := StronglySorted N.lt (map fst pd).
(* [q, q+n) is contained in l *)
Definition has_run (n : N) (l : list N) (q : N) : Prop := forall i, i < n -> In (q + i) l.

Lemma asc_nil : asc [].
Proof. constructor. Qed.

Lemma asc_cons_inv x l : asc (x :: l) -> asc l /\ forall y, In y l -> x < y.
Proof.
  intros H. apply StronglySorted_inv in H. destruct H as [H1 H2].
  split; [exact H1|]. rewrite Forall_forall in H2. exact H2.
Qed.

Lemma asc_cons x l : asc l -> (forall y, In y l -> x < y) -> asc (x :: l).
Proof. intros H1 H2. constructor; [exact H1|]. apply Forall_forall. exact H2. Qed.

Lemma asc_app_inv a b :
  asc (a ++ b) -> asc a /\ asc b /\ forall x y, In x a -> In y b -> x < y.
Proof.
  induction a as [|h a IH]; cbn [app]; intros H.
  - split; [constructor|]. split; [exact H|]. intros x y [].
  - apply asc_cons_inv in H. destruct H as [Ha Hh].
    destruct (IH Ha) as (A1 & A2 & A3).
    split.
    + apply asc_cons; [exact A1|]. intros y Hy. apply Hh. apply in_or_app. left; exact Hy.
    + split; [exact A2|]. intros x y [Hx|Hx] Hy.
      * subst x. apply Hh. apply in_or_app. right; exact Hy.
      * apply A3; assumption.
Qed.

Lemma asc_filter (f : N -> bool) l : asc l -> asc (filter f l).
Proof.
  induction l as [|h l IH]; cbn [filter]; intros H; [constructor|].
  apply asc_cons_inv in H. destruct H as [Hl Hh].
  destruct (f h).
  - apply asc_cons; [apply IH; exact Hl|].
    intros y Hy. apply filter_In in Hy. apply Hh. apply Hy.
  - apply IH; exact Hl.
Qed.

Lemma asc_NoDup l : asc l -> NoDup l.
Proof.
  induction l as [|h l IH]; intros H; [constructor|].
  apply asc_cons_inv in H. destruct H as [Hl Hh].
  constructor; [|apply IH; exact Hl].
  intros Hin. apply Hh in Hin. lia.
Qed.

Lemma asc_le_sorted l : asc l -> StronglySorted N.le l.
Proof.
  induction 1 as [|h l Hl IH Hh]; constructor; [exact IH|].
  rewrite Forall_forall in *. intros y Hy. apply Hh in Hy. lia.
Qed.

(* ------------------------------------------------------------------ *)
(** * 1. [sins] : BTreeSet::insert *)

Lemma sins_In x l y : In y (sins x l) <-> y = x \/ In y l.
Proof.
  induction l as [|a l IH]; cbn [sins In].
  - intuition.
  - destruct (N.ltb_spec x a) as [Hlt|Hge].
    + cbn [In]. intuition.
    + destruct (N.eqb_spec x a) as [Heq|Hne].
      * subst a. cbn [In]. intuition.
      * cbn [In]. rewrite IH. intuition.
Qed.

Lemma sins_asc x l : asc l -> asc (sins x l).
Proof.
  induction l as [|a l IH]; cbn [sins]; intros H.
  - apply asc_cons; [constructor|]. intros y [].
  - pose proof (asc_cons_inv _ _ H) as [Hl Ha].
    destruct (N.ltb_spec x a) as [Hlt|Hge].
    + apply asc_cons; [exact H|]. intros y [Hy|Hy]; [subst; exact Hlt|].
      apply Ha in Hy. lia.
    + destruct (N.eqb_spec x a) as [Heq|Hne]; [exact H|].
      apply asc_cons; [apply IH; exact Hl|].
      intros y Hy. apply sins_In in Hy. destruct Hy as [Hy|Hy]; [subst; lia|].
      apply Ha; exact Hy.
Qed.

Lemma sins_ge2 x l : 2 <= x -> ge2 l -> ge2 (sins x l).
Proof.
  unfold ge2. rewrite !Forall_forall. intros Hx H y Hy.
  apply sins_In in Hy. destruct Hy as [->|Hy]; [exact Hx|apply H; exact Hy].
Qed.

Theorem sins_spec x l :
  asc l -> asc (sins x l) /\ forall y, In y (sins x l) <-> y = x \/ In y l.
Proof. intros H. split; [apply sins_asc; exact H|intros y; apply sins_In]. Qed.

(* folding inserts (used by release and fl_init) *)
Lemma fold_sins_asc ps : forall fr, asc fr -> asc (fold_left (fun f p => sins p f) ps fr).
Proof.
  induction ps as [|p ps IH]; cbn [fold_left]; intros fr H; [exact H|].
  apply IH. apply sins_asc. exact H.
Qed.

Lemma fold_sins_In ps : forall fr x,
  In x (fold_left (fun f p => sins p f) ps fr) <-> In x fr \/ In x ps.
Proof.
  induction ps as [|p ps IH]; cbn [fold_left In]; intros fr x; [intuition|].
  rewrite IH, sins_In. intuition.
Qed.

Corollary fl_init_spec ids :
  asc (fl_free (fl_init ids)) /\ (forall x, In x (fl_free (fl_init ids)) <-> In x ids) /\
  fl_pending (fl_init ids) = [].
Proof.
  unfold fl_init; cbn [fl_free fl_pending]. split; [apply fold_sins_asc; constructor|].
  split; [|reflexivity]. intros x. rewrite fold_sins_In. cbn [In]. intuition.
Qed.

(* ------------------------------------------------------------------ *)
(** * 2. [release] *)

Lemma pend_filter_all_ge t (pd : pending) :
  (forall e, In e pd -> t <= fst e) ->
  filter (fun x => fst x <? t) pd = [] /\ pend_ge t pd = pd.
Proof.
  unfold pend_ge. induction pd as [|e pd IH]; intros H; [split; reflexivity|].
  cbn [filter].
  assert (He : t <= fst e) by (apply H; left; reflexivity).
  destruct (N.ltb_spec (fst e) t) as [Hlt|Hge]; [lia|]. cbn [negb].
  destruct IH as [I1 I2]; [intros e' He'; apply H; right; exact He'|].
  rewrite I1, I2. split; reflexivity.
Qed.

Theorem release_spec t : forall pd fr fr' pd',
  asc fr -> asc_keys pd -> release t fr pd = (fr', pd') ->
  asc fr' /\ (forall x, In x fr' <-> In x fr \/ In x (pend_lt t pd)) /\ pd' = pend_ge t pd.
Proof.
  unfold asc_keys, pend_lt.
  induction pd as [|[u ps] pd IH]; intros fr fr' pd' Hfr Hk Hr; cbn [release] in Hr.
  - inversion Hr; subst. cbn. split; [exact Hfr|]. split; [intuition|reflexivity].
  - cbn [map fst] in Hk. apply asc_cons_inv in Hk. destruct Hk as [Hk Hu].
    destruct (N.ltb_spec u t) as [Hlt|Hge].
    + apply IH in Hr; [|apply fold_sins_asc; exact Hfr|exact Hk].
      destruct Hr as (R1 & R2 & R3). split; [exact R1|]. split.
      * intros x. rewrite R2, fold_sins_In. unfold pend_ge. cbn [filter fst].
        destruct (N.ltb_spec u t) as [_|?]; [|lia].
        cbn [flat_map snd]. rewrite in_app_iff. intuition.
      * rewrite R3. unfold pend_ge. cbn [filter fst].
        destruct (N.ltb_spec u t) as [_|?]; [|lia]. reflexivity.
    + inversion Hr; subst fr' pd'. clear Hr.
      destruct (pend_filter_all_ge t ((u, ps) :: pd)) as [F1 F2].
      { intros e [He|He]; [subst e; exact Hge|].
        assert (u < fst e) by (apply Hu; apply in_map; exact He). lia. }
      rewrite F1, F2. cbn. split; [exact Hfr|]. split; [intuition|reflexivity].
Qed.

Lemma release_ge2 t : forall pd fr fr' pd',
  ge2 fr -> Forall (fun x => 2 <= x) (pend_all pd) -> release t fr pd = (fr', pd') -> ge2 fr'.
Proof.
  induction pd as [|[u ps] pd IH]; intros fr fr' pd' Hfr Hp Hr; cbn [release] in Hr.
  - inversion Hr; subst; exact Hfr.
  - unfold pend_all in Hp. cbn [flat_map snd] in Hp. apply Forall_app in Hp. destruct Hp as [Hps Hp].
    destruct (u <? t).
    + apply IH in Hr; [exact Hr| |exact Hp].
      unfold ge2. apply Forall_forall. intros x Hx. apply fold_sins_In in Hx.
      unfold ge2 in Hfr. rewrite Forall_forall in Hfr, Hps. destruct Hx; auto.
    + inversion Hr; subst; exact Hfr.
Qed.

(* ------------------------------------------------------------------ *)
(** * 3./4. [alloc_scan], [fl_allocate] *)

(* loop invariant: [pre] is the part of the set already consumed *)
Inductive scan_inv (n : N) (pre : list N) (start prev : N) : Prop :=
| SI_nil : pre = [] -> prev = 0 -> scan_inv n pre start prev
| SI_run :
    In prev pre -> 0 < prev -> (forall x, In x pre -> x <= prev) ->
    0 < start -> start <= prev ->
    (forall x, start <= x <= prev -> In x pre) ->
    ~ In (start - 1) pre ->
    prev - start + 1 < n ->
    scan_inv n pre start prev.

Lemma alloc_scan_spec n (Hn : 0 < n) : forall l pre start prev,
  asc (pre ++ l) -> Forall (fun x => 0 < x) (pre ++ l) ->
  scan_inv n pre start prev -> (forall q, ~ has_run n pre q) ->
  let f := alloc_scan l n start prev in
  (f = 0 /\ forall q, ~ has_run n (pre ++ l) q) \/
  (0 < f /\ has_run n (pre ++ l) f /\ forall q, has_run n (pre ++ l) q -> f <= q).
Proof.
  induction l as [|id l IH]; intros pre start prev Hasc Hpos Hinv Hnorun; cbv zeta.
  - cbn [alloc_scan]. left. rewrite app_nil_r. split; [reflexivity|exact Hnorun].
  - cbn [alloc_scan].
    set (start' := if (prev =? 0) || negb (id - prev =? 1) then id else start).
    destruct (asc_app_inv _ _ Hasc) as (Hpre & Hidl & Hcross).
    destruct (asc_cons_inv _ _ Hidl) as [Hl Hgt].
    assert (Hlt : forall x, In x pre -> x < id).
    { intros x Hx. apply Hcross; [exact Hx|left; reflexivity]. }
    assert (Hid : 0 < id).
    { rewrite Forall_forall in Hpos. apply Hpos. apply in_or_app. right. left. reflexivity. }
    (* elements of the whole set below id are in pre *)
    assert (Hbelow : forall x, In x (pre ++ id :: l) -> x < id -> In x pre).
    { intros x Hx Hxid. apply in_app_or in Hx. destruct Hx as [Hx|[Hx|Hx]]; [exact Hx|lia|].
      apply Hgt in Hx. lia. }
    assert (Hbelow' : forall x, In x (pre ++ [id]) -> x < id -> In x pre).
    { intros x Hx Hxid. apply in_app_or in Hx. destruct Hx as [Hx|[Hx|[]]]; [exact Hx|lia]. }
    (* properties of the updated run start *)
    assert (A : 0 < start' /\ start' <= id /\
                (forall x, start' <= x <= id -> In x (pre ++ [id])) /\
                ~ In (start' - 1) (pre ++ [id]) /\
                id - start' + 1 <= n).
    { subst start'. destruct Hinv as [Hp0 Hprev0 | Hprev Hprevpos Hmax Hspos Hsle Hrun Hnb Hlen].
      - subst pre prev. cbn [app]. replace (0 =? 0) with true by reflexivity. cbn [orb].
        split; [exact Hid|]. split; [lia|]. split.
        + intros x Hx. left. lia.
        + split; [|lia]. intros [Hx|[]]. lia.
      - destruct (N.eqb_spec prev 0) as [?|_]; [lia|]. cbn [orb].
        pose proof (Hlt _ Hprev) as Hpid.
        destruct (N.eqb_spec (id - prev) 1) as [H1|H1]; cbn [negb].
        + split; [exact Hspos|]. split; [lia|]. split.
          * intros x Hx. apply in_or_app.
            destruct (N.eq_dec x id) as [->|Hne]; [right; left; reflexivity|].
            left. apply Hrun. lia.
          * split; [|lia]. intros Hx. apply in_app_or in Hx.
            destruct Hx as [Hx|[Hx|[]]]; [exact (Hnb Hx)|lia].
        + split; [exact Hid|]. split; [lia|]. split.
          * intros x Hx. apply in_or_app. right. left. lia.
          * split; [|lia]. intros Hx. apply in_app_or in Hx.
            destruct Hx as [Hx|[Hx|[]]]; [|lia].
            apply Hmax in Hx. lia. }
    clearbody start'. destruct A as (As0 & Asle & Arun & Anb & Alen).
    destruct (N.eqb_spec (id - start' + 1) n) as [Hfire|Hnofire].
    + (* the run reaches length n at id *)
      right. split; [exact As0|]. split.
      * intros i Hi. assert (Hx : In (start' + i) (pre ++ [id])) by (apply Arun; lia).
        apply in_app_or in Hx. apply in_or_app.
        destruct Hx as [Hx|[Hx|[]]]; [left; exact Hx|right; left; exact Hx].
      * intros q Hq. destruct (N.le_gt_cases start' q) as [Hle|Hqlt]; [exact Hle|].
        exfalso. apply (Hnorun q). intros i Hi. apply Hbelow; [apply Hq; exact Hi|lia].
    + (* continue with pre ++ [id] *)
      assert (Hassoc : pre ++ id :: l = (pre ++ [id]) ++ l) by (rewrite <- app_assoc; reflexivity).
      rewrite Hassoc in *. apply IH; [exact Hasc|exact Hpos| |].
      * apply SI_run; [apply in_or_app; right; left; reflexivity|exact Hid| |exact As0|exact Asle
                       |exact Arun|exact Anb|lia].
        intros x Hx. apply in_app_or in Hx. destruct Hx as [Hx|[Hx|[]]]; [apply Hlt in Hx; lia|lia].
      * intros q Hq.
        assert (Hlast : In (q + (n - 1)) (pre ++ [id])) by (apply Hq; lia).
        assert (Hlast_le : q + (n - 1) <= id).
        { apply in_app_or in Hlast. destruct Hlast as [Hx|[Hx|[]]]; [apply Hlt in Hx; lia|lia]. }
        destruct (N.eq_dec (q + (n - 1)) id) as [Heq|Hne].
        -- (* the run ends at id: then start' <= q and the loop would have fired *)
           destruct (N.le_gt_cases start' q) as [Hle|Hqlt]; [lia|].
           apply Anb. replace (start' - 1) with (q + (start' - 1 - q)) by lia.
           apply Hq. lia.
        -- apply (Hnorun q). intros i Hi. apply Hbelow'; [apply Hq; exact Hi|lia].
Qed.

Lemma ge2_pos l : ge2 l -> Forall (fun x => 0 < x) l.
Proof. unfold ge2. apply Forall_impl. intros; lia. Qed.

Lemma fl_allocate_cases fr n :
  asc fr -> ge2 fr -> 0 < n ->
  let f := alloc_scan fr n 0 0 in
  (f = 0 /\ forall q, ~ has_run n fr q) \/
  (0 < f /\ has_run n fr f /\ forall q, has_run n fr q -> f <= q).
Proof.
  intros Hasc Hge Hn.
  apply (alloc_scan_spec n Hn fr [] 0 0); cbn [app].
  - exact Hasc.
  - apply ge2_pos; exact Hge.
  - apply SI_nil; reflexivity.
  - intros q Hq. apply (Hq 0). exact Hn.
Qed.

Lemma fl_allocate_unfold fr n :
  fl_allocate fr n =
  let f := alloc_scan fr n 0 0 in
  if 0 <? f then Some (f, filter (fun x => negb ((f <=? x) && (x <? f + n))) fr) else None.
Proof. destruct fr; reflexivity. Qed.

(** alloc_sound, including the "first run" clause *)
Theorem alloc_sound fr n p fr' :
  asc fr -> ge2 fr -> 0 < n -> fl_allocate fr n = Some (p, fr') ->
  (forall i, i < n -> In (p + i) fr) /\
  (forall x, In x fr' <-> In x fr /\ ~ (p <= x < p + n)) /\
  asc fr' /\
  (forall q, (forall i, i < n -> In (q + i) fr) -> p <= q).
Proof.
  intros Hasc Hge Hn Hal. rewrite fl_allocate_unfold in Hal. cbv zeta in Hal.
  destruct (fl_allocate_cases fr n Hasc Hge Hn) as [[H0 _]|(Hpos & Hrun & Hfirst)].
  - rewrite H0 in Hal. discriminate Hal.
  - destruct (N.ltb_spec 0 (alloc_scan fr n 0 0)) as [_|?]; [|lia].
    inversion Hal; subst p fr'. clear Hal.
    split; [exact Hrun|]. split; [|split; [apply asc_filter; exact Hasc|exact Hfirst]].
    intros x. rewrite filter_In.
    destruct (N.leb_spec (alloc_scan fr n 0 0) x), (N.ltb_spec x (alloc_scan fr n 0 0 + n));
      cbn [andb negb]; intuition (try discriminate; try lia).
Qed.

(* consequences: the page is a real page id, the run is maximal to the left,
   the remaining set stays >= 2 *)
Corollary alloc_sound_extra fr n p fr' :
  asc fr -> ge2 fr -> 0 < n -> fl_allocate fr n = Some (p, fr') ->
  2 <= p /\ ~ In (p - 1) fr /\ ge2 fr' /\ NoDup fr'.
Proof.
  intros Hasc Hge Hn Hal.
  destruct (alloc_sound _ _ _ _ Hasc Hge Hn Hal) as (Hrun & Hmem & Hasc' & Hfirst).
  assert (Hp : 2 <= p).
  { unfold ge2 in Hge. rewrite Forall_forall in Hge.
    specialize (Hrun 0 Hn). replace (p + 0) with p in Hrun by lia. apply Hge; exact Hrun. }
  split; [exact Hp|]. split; [|split].
  - intros Hin. assert (p <= p - 1); [|lia]. apply Hfirst. intros i Hi.
    destruct (N.eq_dec i 0) as [->|Hi0].
    + replace (p - 1 + 0) with (p - 1) by lia. exact Hin.
    + replace (p - 1 + i) with (p + (i - 1)) by lia. apply Hrun. lia.
  - unfold ge2 in *. rewrite Forall_forall in *. intros x Hx. apply Hmem in Hx. apply Hge. apply Hx.
  - apply asc_NoDup; exact Hasc'.
Qed.

(** alloc_complete *)
Theorem alloc_complete fr n :
  asc fr -> ge2 fr -> 0 < n -> fl_allocate fr n = None ->
  ~ exists q, forall i, i < n -> In (q + i) fr.
Proof.
  intros Hasc Hge Hn Hal. rewrite fl_allocate_unfold in Hal. cbv zeta in Hal.
  destruct (fl_allocate_cases fr n Hasc Hge Hn) as [[H0 Hno]|(Hpos & _)].
  - intros [q Hq]. exact (Hno q Hq).
  - destruct (N.ltb_spec 0 (alloc_scan fr n 0 0)) as [_|?]; [discriminate Hal|lia].
Qed.

(* converse direction, so that allocation from the set happens iff a run exists *)
Corollary alloc_some_iff fr n :
  asc fr -> ge2 fr -> 0 < n ->
  ((exists r, fl_allocate fr n = Some r) <-> exists q, forall i, i < n -> In (q + i) fr).
Proof.
  intros Hasc Hge Hn. split.
  - intros [[p fr'] H]. exists p. apply (alloc_sound _ _ _ _ Hasc Hge Hn H).
  - intros Hex. destruct (fl_allocate fr n) as [r|] eqn:E; [exists r; reflexivity|].
    exfalso. exact (alloc_complete _ _ Hasc Hge Hn E Hex).
Qed.

(* ------------------------------------------------------------------ *)
(** * 5. [pages_for], [tx_allocate] *)

Theorem pages_for_spec P b :
  0 < P -> 0 < b ->
  pages_for P b * P >= b /\ (pages_for P b - 1) * P < b /\ 0 < pages_for P b.
Proof.
  intros HP Hb. unfold pages_for.
  assert (Hdm : b = P * (b / P) + b mod P) by (apply N.div_mod; lia).
  assert (Hr : b mod P < P) by (apply N.mod_lt; lia).
  set (q := b / P) in *. set (r := b mod P) in *. clearbody q r.
  destruct (N.eqb_spec r 0) as [Hr0|Hr0].
  - assert (0 < q) by (destruct (N.eq_dec q 0); [subst; lia|lia]).
    replace ((q - 1) * P) with (q * P - P) by nia. nia.
  - replace (q + 1 - 1) with q by lia. nia.
Qed.

Theorem tx_allocate_spec s b p n s' :
  asc (fl_free (tf_inner s)) -> ge2 (fl_free (tf_inner s)) ->
  0 < tf_psz s -> 0 < b ->
  tx_allocate s b = (p, n, s') ->
  let fr := fl_free (tf_inner s) in
  n = pages_for (tf_psz s) b /\ 0 < n /\
  tf_tx s' = tf_tx s /\ tf_psz s' = tf_psz s /\ tf_freed s' = tf_freed s /\
  fl_pending (tf_inner s') = fl_pending (tf_inner s) /\
  ( (* from the free set: np unchanged, first run of n pages removed *)
    (tf_np s' = tf_np s /\
     (forall i, i < n -> In (p + i) fr) /\
     (forall x, In x (fl_free (tf_inner s')) <-> In x fr /\ ~ (p <= x < p + n)) /\
     asc (fl_free (tf_inner s')) /\ ge2 (fl_free (tf_inner s')) /\
     (forall q, (forall i, i < n -> In (q + i) fr) -> p <= q))
    \/ (* growth: only when no run of n pages exists *)
    (p = tf_np s /\ tf_np s' = tf_np s + n /\ tf_inner s' = tf_inner s /\
     ~ exists q, forall i, i < n -> In (q + i) fr)).
Proof.
  intros Hasc Hge HP Hb Hal. cbv zeta. unfold tx_allocate in Hal.
  destruct (pages_for_spec _ _ HP Hb) as (_ & _ & Hn).
  destruct (fl_allocate (fl_free (tf_inner s)) (pages_for (tf_psz s) b)) as [[p0 f']|] eqn:E;
    inversion Hal; subst p n s'; clear Hal; cbn [tf_inner tf_np tf_tx tf_psz tf_freed fl_free fl_pending].
  - repeat (split; [reflexivity || exact Hn|]). left.
    destruct (alloc_sound _ _ _ _ Hasc Hge Hn E) as (H1 & H2 & H3 & H4).
    destruct (alloc_sound_extra _ _ _ _ Hasc Hge Hn E) as (_ & _ & H5 & _).
    repeat (split; [reflexivity || assumption|]). assumption.
  - repeat (split; [reflexivity || exact Hn|]). right.
    repeat (split; [reflexivity|]). apply alloc_complete; assumption.
Qed.

(* ------------------------------------------------------------------ *)
(** * 6. [pend_add], [tx_free] *)

(* the pages pending under transaction id t *)
Definition pend_at (t : N) (pd : pending) : list N :=
  flat_map snd (filter (fun x => fst x =? t) pd).

Lemma pend_add_at t p pd : Permutation (pend_at t (pend_add t p pd)) (p :: pend_at t pd).
Proof.
  unfold pend_at. induction pd as [|[u ps] pd IH]; cbn [pend_add].
  - cbn [filter fst]. rewrite N.eqb_refl. cbn. reflexivity.
  - destruct (N.eqb_spec u t) as [Heq|Hne].
    + cbn [filter fst]. destruct (N.eqb_spec u t) as [_|?]; [|contradiction].
      cbn [flat_map snd]. rewrite <- app_assoc. cbn [app].
      symmetry. apply Permutation_middle.
    + destruct (N.ltb_spec t u) as [Hlt|Hge].
      * cbn [filter fst]. rewrite N.eqb_refl. destruct (N.eqb_spec u t) as [?|_]; [contradiction|].
        cbn [flat_map snd app]. reflexivity.
      * cbn [filter fst]. destruct (N.eqb_spec u t) as [?|_]; [contradiction|]. exact IH.
Qed.

Lemma pend_add_all t p pd : Permutation (pend_all (pend_add t p pd)) (p :: pend_all pd).
Proof.
  unfold pend_all. induction pd as [|[u ps] pd IH]; cbn [pend_add].
  - cbn. reflexivity.
  - destruct (u =? t).
    + cbn [flat_map snd]. rewrite <- app_assoc. cbn [app]. symmetry. apply Permutation_middle.
    + destruct (t <? u).
      * cbn [flat_map snd app]. reflexivity.
      * cbn [flat_map snd]. rewrite IH. symmetry. apply Permutation_middle.
Qed.

(* other transactions' pending lists are untouched *)
Lemma pend_add_other t u p pd : u <> t -> pend_at u (pend_add t p pd) = pend_at u pd.
Proof.
  intros Hne. unfold pend_at. induction pd as [|[v ps] pd IH]; cbn [pend_add].
  - cbn [filter fst]. destruct (N.eqb_spec t u); [congruence|reflexivity].
  - destruct (N.eqb_spec v t) as [Heq|Hvt].
    + subst v. cbn [filter fst]. destruct (N.eqb_spec t u); [congruence|reflexivity].
    + destruct (t <? v).
      * cbn [filter fst]. destruct (N.eqb_spec t u); [congruence|reflexivity].
      * cbn [filter fst]. destruct (v =? u); cbn [flat_map]; rewrite IH; reflexivity.
Qed.

(* BTreeMap keys stay strictly ascending *)
Lemma pend_add_keys t p pd :
  asc_keys pd -> asc_keys (pend_add t p pd) /\
  forall k, In k (map fst (pend_add t p pd)) <-> k = t \/ In k (map fst pd).
Proof.
  unfold asc_keys. induction pd as [|[u ps] pd IH]; cbn [pend_add]; intros H.
  - cbn. split; [apply asc_cons; [constructor|intros y []]|intuition].
  - cbn [map fst] in H. pose proof (asc_cons_inv _ _ H) as [Hk Hu].
    destruct (N.eqb_spec u t) as [Heq|Hne].
    + subst u. cbn [map fst In]. split; [exact H|intuition].
    + destruct (N.ltb_spec t u) as [Hlt|Hge].
      * cbn [map fst In]. split; [|intuition].
        apply asc_cons; [exact H|]. intros y [Hy|Hy]; [subst; exact Hlt|]. apply Hu in Hy. lia.
      * destruct (IH Hk) as [I1 I2]. cbn [map fst In]. split.
        -- apply asc_cons; [exact I1|]. intros y Hy. apply I2 in Hy.
           destruct Hy as [->|Hy]; [lia|apply Hu; exact Hy].
        -- intros k. rewrite I2. intuition.
Qed.

Lemma memN_In x l : memN x l = true <-> In x l.
Proof.
  unfold memN. rewrite existsb_exists. split.
  - intros (y & Hy & He). apply N.eqb_eq in He. subst; exact Hy.
  - intros H. exists x. split; [exact H|apply N.eqb_refl].
Qed.

(* invariant of the writer's free-list: what is pending under its own id is exactly the
   "freed" set, without duplicates *)
Definition J (s : txfl) : Prop :=
  NoDup (tf_freed s) /\ Permutation (pend_at (tf_tx s) (fl_pending (tf_inner s))) (tf_freed s).

Lemma J_facts s : J s ->
  NoDup (pend_at (tf_tx s) (fl_pending (tf_inner s))) /\
  forall x, In x (pend_at (tf_tx s) (fl_pending (tf_inner s))) <-> In x (tf_freed s).
Proof.
  intros [H1 H2]. split.
  - eapply Permutation_NoDup; [symmetry; exact H2|exact H1].
  - intros x. split; apply Permutation_in; [exact H2|symmetry; exact H2].
Qed.

Lemma pend_at_sub t pd x : In x (pend_at t pd) -> In x (pend_all pd).
Proof.
  unfold pend_at, pend_all. rewrite !in_flat_map. intros (e & He & Hx).
  apply filter_In in He. exists e. split; [apply He|exact Hx].
Qed.

Lemma tx_free_run_fields n : forall s p,
  tf_tx (tx_free_run s p n) = tf_tx s /\ tf_np (tx_free_run s p n) = tf_np s /\
  tf_psz (tx_free_run s p n) = tf_psz s /\
  fl_free (tf_inner (tx_free_run s p n)) = fl_free (tf_inner s).
Proof.
  induction n as [|n IH]; intros s p; cbn [tx_free_run]; [repeat split|].
  destruct (memN p (tf_freed s)); [apply IH|].
  destruct (IH (mkTxfl (mkFl (fl_free (tf_inner s)) (pend_add (tf_tx s) p (fl_pending (tf_inner s))))
                      (tf_np s) (tf_tx s) (tf_psz s) (p :: tf_freed s)) (p + 1)) as (A & B & C & D).
  rewrite A, B, C, D. repeat split.
Qed.

Lemma tx_free_run_J n : forall s p, J s -> J (tx_free_run s p n).
Proof.
  induction n as [|n IH]; intros s p HJ; cbn [tx_free_run]; [exact HJ|].
  destruct (memN p (tf_freed s)) eqn:E; [apply IH; exact HJ|].
  apply IH. destruct HJ as [H1 H2]. unfold J. cbn [tf_freed tf_tx tf_inner fl_pending]. split.
  - constructor; [|exact H1]. intros Hin. apply memN_In in Hin. congruence.
  - rewrite pend_add_at. apply perm_skip. exact H2.
Qed.

Theorem tx_free_J s p n : J s -> J (tx_free s p n).
Proof. apply tx_free_run_J. Qed.

Theorem tx_free_again s p : In p (tf_freed s) -> tx_free s p 1 = s.
Proof.
  intros H. unfold tx_free. change (N.to_nat 1) with 1%nat. cbn [tx_free_run].
  apply memN_In in H. rewrite H. reflexivity.
Qed.

Lemma tx_free_run_freed n : forall s p x,
  In x (tf_freed (tx_free_run s p n)) <-> In x (tf_freed s) \/ p <= x < p + N.of_nat n.
Proof.
  induction n as [|n IH]; intros s p x; cbn [tx_free_run].
  - split; [auto|]. intros [H|H]; [exact H|lia].
  - rewrite IH. destruct (memN p (tf_freed s)) eqn:E; cbn [tf_freed In].
    + apply memN_In in E. split; [intros [H|H]; [auto|right; lia]|].
      intros [H|H]; [auto|]. destruct (N.eq_dec x p) as [->|Hne]; [auto|right; lia].
    + split; [intros [[H|H]|H]; [right; lia|auto|right; lia]|].
      intros [H|H]; [auto|]. destruct (N.eq_dec x p) as [->|Hne]; [auto|right; lia].
Qed.

Lemma tx_free_run_pend_all n : forall s p x,
  (forall y, In y (tf_freed s) -> In y (pend_all (fl_pending (tf_inner s)))) ->
  (In x (pend_all (fl_pending (tf_inner (tx_free_run s p n)))) <->
   In x (pend_all (fl_pending (tf_inner s))) \/ p <= x < p + N.of_nat n).
Proof.
  induction n as [|n IH]; intros s p x Hsub; cbn [tx_free_run].
  - split; [auto|]. intros [H|H]; [exact H|lia].
  - destruct (memN p (tf_freed s)) eqn:E.
    + rewrite IH; [|exact Hsub]. apply memN_In in E. apply Hsub in E.
      split; [intros [H|H]; [auto|right; lia]|].
      intros [H|H]; [auto|]. destruct (N.eq_dec x p) as [->|Hne]; [auto|right; lia].
    + rewrite IH; cbn [tf_freed tf_inner fl_pending].
      * assert (Hp : In x (pend_all (pend_add (tf_tx s) p (fl_pending (tf_inner s)))) <->
                     x = p \/ In x (pend_all (fl_pending (tf_inner s)))).
        { split; intros H.
          - apply (Permutation_in _ (pend_add_all _ _ _)) in H. destruct H; auto.
          - apply (Permutation_in _ (Permutation_sym (pend_add_all _ _ _))).
            destruct H; [left; auto|right; exact H]. }
        rewrite Hp. split; [intros [[H|H]|H]; [right; lia|auto|right; lia]|].
        intros [H|H]; [auto|]. destruct (N.eq_dec x p) as [->|Hne]; [auto|right; lia].
      * intros y [Hy|Hy]; apply (Permutation_in _ (Permutation_sym (pend_add_all _ _ _))).
        -- left; exact Hy.
        -- right; apply Hsub; exact Hy.
Qed.

(* Needed hypothesis: the "freed" set is contained in the pending pages (implied by J s).
   No ordering assumption on the keys is needed. *)
Theorem tx_free_pend_all s p n x :
  (forall y, In y (tf_freed s) -> In y (pend_all (fl_pending (tf_inner s)))) ->
  (In x (pend_all (fl_pending (tf_inner (tx_free s p n)))) <->
   In x (pend_all (fl_pending (tf_inner s))) \/ p <= x < p + n).
Proof.
  intros Hsub. unfold tx_free. rewrite tx_free_run_pend_all; [|exact Hsub].
  rewrite N2Nat.id. reflexivity.
Qed.

Corollary tx_free_pend_all_J s p n x :
  J s ->
  (In x (pend_all (fl_pending (tf_inner (tx_free s p n)))) <->
   In x (pend_all (fl_pending (tf_inner s))) \/ p <= x < p + n).
Proof.
  intros HJ. apply tx_free_pend_all. intros y Hy.
  apply (pend_at_sub (tf_tx s)). apply (J_facts s HJ). exact Hy.
Qed.

Corollary tx_free_freed s p n x :
  In x (tf_freed (tx_free s p n)) <-> In x (tf_freed s) \/ p <= x < p + n.
Proof. unfold tx_free. rewrite tx_free_run_freed, N2Nat.id. reflexivity. Qed.

Corollary tx_free_fields s p n :
  tf_tx (tx_free s p n) = tf_tx s /\ tf_np (tx_free s p n) = tf_np s /\
  tf_psz (tx_free s p n) = tf_psz s /\
  fl_free (tf_inner (tx_free s p n)) = fl_free (tf_inner s).
Proof. apply tx_free_run_fields. Qed.

(* ------------------------------------------------------------------ *)
(** * 7. [fl_pages] *)

Lemma sins_dup_perm x l : Permutation (sins_dup x l) (x :: l).
Proof.
  induction l as [|a l IH]; cbn [sins_dup]; [reflexivity|].
  destruct (x <=? a); [reflexivity|].
  rewrite IH. apply perm_swap.
Qed.

Lemma sins_dup_sorted x l : StronglySorted N.le l -> StronglySorted N.le (sins_dup x l).
Proof.
  induction l as [|a l IH]; cbn [sins_dup]; intros H.
  - constructor; [constructor|constructor].
  - pose proof (StronglySorted_inv H) as [Hl Ha]. rewrite Forall_forall in Ha.
    destruct (N.leb_spec x a) as [Hle|Hgt].
    + constructor; [exact H|]. apply Forall_forall. intros y [Hy|Hy]; [subst; exact Hle|].
      apply Ha in Hy. lia.
    + constructor; [apply IH; exact Hl|]. apply Forall_forall. intros y Hy.
      apply (Permutation_in _ (sins_dup_perm x l)) in Hy. destruct Hy as [Hy|Hy]; [subst; lia|].
      apply Ha; exact Hy.
Qed.

Lemma fold_sins_dup_perm ps : forall acc,
  Permutation (fold_left (fun a p => sins_dup p a) ps acc) (acc ++ ps).
Proof.
  induction ps as [|p ps IH]; cbn [fold_left]; intros acc; [rewrite app_nil_r; reflexivity|].
  rewrite IH, sins_dup_perm. cbn [app]. apply Permutation_middle.
Qed.

Lemma fold_sins_dup_sorted ps : forall acc,
  StronglySorted N.le acc -> StronglySorted N.le (fold_left (fun a p => sins_dup p a) ps acc).
Proof.
  induction ps as [|p ps IH]; cbn [fold_left]; intros acc H; [exact H|].
  apply IH. apply sins_dup_sorted. exact H.
Qed.

Lemma fl_pages_gen pd : forall acc,
  Permutation
    (fold_left (fun acc x => fold_left (fun a p => sins_dup p a) (snd x) acc) pd acc)
    (acc ++ pend_all pd) /\
  (StronglySorted N.le acc ->
   StronglySorted N.le
     (fold_left (fun acc x => fold_left (fun a p => sins_dup p a) (snd x) acc) pd acc)).
Proof.
  unfold pend_all. induction pd as [|e pd IH]; cbn [fold_left flat_map]; intros acc.
  - rewrite app_nil_r. split; [reflexivity|auto].
  - destruct (IH (fold_left (fun a p => sins_dup p a) (snd e) acc)) as [I1 I2]. split.
    + rewrite I1, fold_sins_dup_perm, app_assoc. reflexivity.
    + intros H. apply I2. apply fold_sins_dup_sorted. exact H.
Qed.

Theorem fl_pages_perm f : Permutation (fl_pages f) (fl_free f ++ pend_all (fl_pending f)).
Proof. unfold fl_pages. apply fl_pages_gen. Qed.

Theorem fl_pages_sorted f : asc (fl_free f) -> StronglySorted N.le (fl_pages f).
Proof. intros H. unfold fl_pages. apply fl_pages_gen. apply asc_le_sorted. exact H. Qed.

Corollary fl_size_spec f :
  fl_size f = 40 + 8 * (llen (fl_free f) + llen (pend_all (fl_pending f))).
Proof.
  unfold fl_size, llen. rewrite (Permutation_length (fl_pages_perm f)), app_length. lia.
Qed.

(* ------------------------------------------------------------------ *)
(** * 8. Connection to the page-lifecycle machine *)

Definition rs_ok (s : pl) (rs : list N) : Prop :=
  match rs with [] => readers s = [] | r :: _ => min_reader s (tx s + 1) = r end.

Theorem begin_writer_view s P rs :
  asc (free s) -> asc_keys (pend s) -> rs_ok s rs ->
  let w := begin_writer (mkFl (free s) (pend s)) (np s) (tx s) P rs in
  let '(t, free1, pend1) := writer_view s in
  tf_tx w = t /\
  (forall x, In x (fl_free (tf_inner w)) <-> In x free1) /\
  fl_pending (tf_inner w) = pend1 /\
  asc (fl_free (tf_inner w)) /\
  tf_np w = np s /\ tf_psz w = P /\ tf_freed w = [].
Proof.
  intros Hasc Hk Hrs. cbv zeta. unfold writer_view, begin_writer. cbn [fl_free fl_pending].
  assert (Hb : match rs with [] => tx s + 1 | r :: _ => r end = min_reader s (tx s + 1)).
  { unfold rs_ok in Hrs. destruct rs as [|r rs'].
    - unfold min_reader. rewrite Hrs. reflexivity.
    - symmetry. exact Hrs. }
  rewrite Hb.
  destruct (release (min_reader s (tx s + 1)) (free s) (pend s)) as [fr pd] eqn:E.
  destruct (release_spec _ _ _ _ _ Hasc Hk E) as (R1 & R2 & R3).
  cbn [tf_tx tf_inner fl_free fl_pending tf_np tf_psz tf_freed].
  split; [reflexivity|]. split.
  - intros x. rewrite R2, in_app_iff. reflexivity.
  - repeat split; assumption.
Qed.

(* boolean set operations of PL.v *)
Lemma subsetN_spec a b : subsetN a b = true <-> forall x, In x a -> In x b.
Proof.
  unfold subsetN. rewrite forallb_forall. split; intros H x Hx.
  - apply memN_In. apply H; exact Hx.
  - apply memN_In. apply H; exact Hx.
Qed.

Lemma seteqN_spec a b : seteqN a b = true <-> forall x, In x a <-> In x b.
Proof.
  unfold seteqN. rewrite andb_true_iff, !subsetN_spec. split.
  - intros [H1 H2] x. split; auto.
  - intros H. split; intros x Hx; apply H; exact Hx.
Qed.

Lemma nodupN_spec l : nodupN l = true <-> NoDup l.
Proof.
  induction l as [|a l IH]; cbn [nodupN].
  - split; [constructor|reflexivity].
  - rewrite andb_true_iff, negb_true_iff, IH. split.
    + intros [H1 H2]. constructor; [|exact H2]. intros Hin. apply memN_In in Hin. congruence.
    + intros H. inversion H as [|? ? Hn Hd]; subst. split; [|exact Hd].
      destruct (memN a l) eqn:E; [|reflexivity]. apply memN_In in E. contradiction.
Qed.

Lemma pend_eq_refl p : pend_eq p p = true.
Proof.
  unfold pend_eq. rewrite Nat.eqb_refl. cbn [andb].
  induction p as [|e p IH]; cbn [combine forallb]; [reflexivity|].
  rewrite IH, N.eqb_refl. cbn [fst snd andb].
  rewrite andb_true_r. apply seteqN_spec. intros x; reflexivity.
Qed.

(* the free list computed by the model's begin_writer is accepted by the PL acceptor *)
Corollary begin_writer_accepted s P rs :
  asc (free s) -> asc_keys (pend s) -> rs_ok s rs ->
  let w := begin_writer (mkFl (free s) (pend s)) (np s) (tx s) P rs in
  accept s (EBeginW (fl_free (tf_inner w)) (fl_pending (tf_inner w))) = Some s.
Proof.
  intros Hasc Hk Hrs w.
  pose proof (begin_writer_view s P rs Hasc Hk Hrs) as H. cbv zeta in H. fold w in H.
  unfold accept. destruct (writer_view s) as [[t free1] pend1].
  destruct H as (_ & Hset & Hpd & Hasc' & _).
  rewrite Hpd, pend_eq_refl.
  replace (seteqN (fl_free (tf_inner w)) free1) with true by (symmetry; apply seteqN_spec; exact Hset).
  replace (nodupN (fl_free (tf_inner w))) with true
    by (symmetry; apply nodupN_spec; apply asc_NoDup; exact Hasc').
  reflexivity.
Qed.

(* ------------------------------------------------------------------ *)
(** * 9. Non-vacuity: the library's unit test *)

Definition ex_free : list N := [2; 4; 6; 8; 9; 10].

Example ex_asc : asc ex_free /\ ge2 ex_free.
Proof. split; unfold ex_free; repeat constructor; lia. Qed.

Example ex_alloc4 : fl_allocate ex_free 4 = None.
Proof. vm_compute. reflexivity. Qed.
Example ex_alloc1 : fl_allocate ex_free 1 = Some (2, [4; 6; 8; 9; 10]).
Proof. vm_compute. reflexivity. Qed.
Example ex_alloc1' : fl_allocate [4; 6; 8; 9; 10] 1 = Some (4, [6; 8; 9; 10]).
Proof. vm_compute. reflexivity. Qed.
Example ex_alloc3 : fl_allocate [6; 8; 9; 10] 3 = Some (8, [6]).
Proof. vm_compute. reflexivity. Qed.
Example ex_alloc2 : fl_allocate [6] 2 = None.
Proof. vm_compute. reflexivity. Qed.
Example ex_alloc1'' : fl_allocate [6] 1 = Some (6, []).
Proof. vm_compute. reflexivity. Qed.
Example ex_alloc_empty : fl_allocate [] 1 = None.
Proof. vm_compute. reflexivity. Qed.
(* a run of length 2 inside a longer run: the first position is taken *)
Example ex_alloc2_in3 : fl_allocate ex_free 2 = Some (8, [2; 4; 6; 10]).
Proof. vm_compute. reflexivity. Qed.
Example ex_alloc3_full : fl_allocate ex_free 3 = Some (8, [2; 4; 6]).
Proof. vm_compute. reflexivity. Qed.

Definition ex_tx : txfl := mkTxfl (mkFl ex_free [(3, [11]); (5, [12; 13])]) 20 6 4096 [].

Example ex_tx_alloc_free :
  tx_allocate ex_tx 8192 = (8, 2, mkTxfl (mkFl [2; 4; 6; 10] [(3, [11]); (5, [12; 13])]) 20 6 4096 []).
Proof. vm_compute. reflexivity. Qed.
Example ex_tx_alloc_grow :
  tx_allocate ex_tx 16385 = (20, 5, mkTxfl (mkFl ex_free [(3, [11]); (5, [12; 13])]) 25 6 4096 []).
Proof. vm_compute. reflexivity. Qed.
Example ex_pages_for : pages_for 4096 1 = 1 /\ pages_for 4096 4096 = 1 /\ pages_for 4096 4097 = 2.
Proof. vm_compute. auto. Qed.

Example ex_tx_free :
  tx_free ex_tx 14 2 = mkTxfl (mkFl ex_free [(3, [11]); (5, [12; 13]); (6, [14; 15])]) 20 6 4096 [15; 14].
Proof. vm_compute. reflexivity. Qed.
Example ex_tx_free_twice : tx_free (tx_free ex_tx 14 2) 15 1 = tx_free ex_tx 14 2.
Proof. vm_compute. reflexivity. Qed.
Example ex_J : J ex_tx.
Proof. split; [constructor|vm_compute; constructor]. Qed.

Example ex_release : release 5 ex_free [(3, [11; 3]); (5, [12; 13])] = ([2; 3; 4; 6; 8; 9; 10; 11], [(5, [12; 13])]).
Proof. vm_compute. reflexivity. Qed.
Example ex_fl_pages : fl_pages (mkFl ex_free [(3, [11; 3]); (5, [12; 7])]) = [2; 3; 4; 6; 7; 8; 9; 10; 11; 12].
Proof. vm_compute. reflexivity. Qed.

Example ex_begin_writer :
  begin_writer (mkFl ex_free [(3, [11; 3]); (5, [12; 13])]) 20 5 4096 [4; 5] =
  mkTxfl (mkFl [2; 3; 4; 6; 8; 9; 10; 11] [(5, [12; 13])]) 20 6 4096 [].
Proof. vm_compute. reflexivity. Qed.

(* ------------------------------------------------------------------ *)
Print Assumptions sins_spec.
Print Assumptions release_spec.
Print Assumptions alloc_sound.
Print Assumptions alloc_sound_extra.
Print Assumptions alloc_complete.
Print Assumptions alloc_some_iff.
Print Assumptions pages_for_spec.
Print Assumptions tx_allocate_spec.
Print Assumptions tx_free_J.
Print Assumptions tx_free_again.
Print Assumptions tx_free_pend_all.
Print Assumptions tx_free_pend_all_J.
Print Assumptions fl_pages_perm.
Print Assumptions fl_pages_sorted.
Print Assumptions begin_writer_view.
Print Assumptions begin_writer_accepted.
