(* Stage 2, second half of the engine refinement: THE ALLOCATION INVARIANT OF THE NEW STATE IS PROVED.

   Invariant of committed states (EngineOwnDefs, EngineOwnSpill):
     [db_okz st] := [db_ok' st] /\ dget (d_disk st) 0 = None                      (page 0 is not on the disk)
     [db_ok' st] := db_strict st /\ alloc_ok st (Rof st) /\ NoDup (live_of st (Rof st)) /\ pend_le st
       [Rof st] = [fpg 16 (d_disk st) (d_root st)]: every head page of the nested bucket tree;
       [NoDup (live_of st (Rof st))]: NO SHARING -- the page runs (head + overflow pages) of all reachable pages and the
       free-list run are pairwise disjoint;  [pend_le st]: no pending batch beyond [d_tx st] ([begin_w] releases all).
     [db_okz st -> db_ok st] ([db_ok'_db_ok]).
   Layers (each file closed under the global context):
     EngineOwnDefs  footprints [fpg]/[foot]/[region], [db_ok'], the ownership invariant [OwnI] of the overlay, [wr_ok]
     EngineOwnWr    (W1) the written pages form disjoint allocated runs freed only as a whole: write_node .. spill_root
     EngineOwnOps   (P)  the operations establish [OwnI] (via the stronger [OwnS]); [free_tree] frees inside the footprint
     EngineOwnReb   (Q)  rebalance keeps [OwnI]: exact page accounting of try_merge / rebalance_kids / merge_nodes
     EngineOwnSpill (W2) spill_bucket + commit: [commit_alloc_z]
     EngineOwnLnk        a clean opened bucket is the unloaded copy of its entry ([Lnk]) after operations and rebalance
   This file: the assembly [run_tx_okz], [run_tx_alloc_ok], the refinement corollaries with [readable] as the only side
   condition, the initial state and the example states. *)
From Coq Require Import List NArith Bool Arith Lia ZifyN ZifyNat ZifyBool Permutation.
From Coq.Strings Require Import Byte.
From Jamm Require Spec.
From Jamm Require Import Bytes BytesFacts Tree Cursor SearchFacts Engine EngineAbs EngineFacts EngineMergeFacts.
From Jamm Require Import EngineModifyFacts EngineSpillFacts EnginePathFacts EngineBridgeFacts EngineRebalanceFacts.
From Jamm Require FreelistFacts EngineAllocFacts EngineSpillWfFacts.
From Jamm Require Import EngineTxInvFacts EngineSpillBucketFacts EngineRefines.
Import ListNotations.
Import Coq.Strings.String.StringSyntax. Delimit Scope string_scope with string.
Local Open Scope list_scope. Local Open Scope nat_scope.
Set Warnings "-abstract-large-number".
Arguments N.add : simpl never. Arguments N.sub : simpl never. Arguments N.mul : simpl never.
Arguments N.div : simpl never. Arguments N.ltb : simpl never. Arguments N.leb : simpl never.
Arguments N.eqb : simpl never.

From Jamm Require Import EngineOwnDefs EngineOwnWr EngineOwnOps EngineOwnReb EngineOwnSpill EngineOwnLnk.

(* ====================================================================== *)
(** * Assembly: one transaction re-establishes the strengthened invariant [db_ok'] *)

Lemma begin_w_txid : forall st, txid (begin_w st) = (d_tx st + 1)%N.
Proof. intros st. unfold begin_w. destruct (release (d_tx st + 1) (d_free st) (d_pending st)). reflexivity. Qed.

(* after the operations every pending page was freed by this transaction *)
Lemma tx_frees_pend_cur : forall s0 s, pend_all (pending s0) = [] -> tx_frees s0 s -> pend_cur s.
Proof.
  intros s0 s H0 (_ & Etx & _ & _ & _ & _ & _ & _ & Hsrc) x Hx.
  unfold pend_all in Hx. apply in_flat_map in Hx. destruct Hx as ([t ps] & Hin & Hxp). cbn [snd] in Hxp.
  destruct (Hsrc t x (ex_intro _ ps (conj Hin Hxp))) as [(ps0 & Hin0 & Hx0) | Et].
  - exfalso. assert (Hc : In x (pend_all (pending s0))) by (unfold pend_all; apply in_flat_map; exists (t, ps0); auto).
    rewrite H0 in Hc. destruct Hc.
  - unfold freed_in_tx. apply existsb_exists. exists (t, ps). split; [exact Hin|]. cbn [fst snd].
    apply andb_true_iff. split; [rewrite Etx; apply N.eqb_eq; exact Et|].
    apply existsb_exists. exists x. split; [exact Hxp | apply N.eqb_refl].
Qed.


Theorem run_tx_okz : forall st ops ord st', db_okz st -> Forall (op_ok (d_disk st)) ops ->
  run_tx st ops ord = Ok st' -> readable st' -> db_okz st'.
Proof.
  intros st ops ord st' [Hok' Hz] Hops Hrun Hrd.
  pose proof (db_ok'_db_ok st Hok') as Hok. pose proof Hok' as (Hdb & HA & Hnd & Hpl).
  set (R := Rof st) in *.
  destruct (run_tx_rebalance_ready st ops ord st' Hdb Hops Hrun)
    as (root' & s' & b1r & s1r & fv & v & Hf & _ & _ & Hfr & [f HSD] & Hrr & _ & _ & _ & Tx & _).
  destruct (run_tx_commit_ready st R ops ord st' Hdb HA Hops Hrun)
    as (root2 & s2' & b1 & s1 & Hf2 & Hc & Hr & _ & _ & Hfi & Hwr & HS & HO).
  rewrite Hf in Hf2. inversion Hf2; subst root2 s2'. rewrite Hrr in Hr. inversion Hr; subst b1r s1r.
  pose proof HA as (_ & _ & _ & _ & _ & _ & _ & HC & _).
  assert (HSX : SReadyX (d_disk st) R b1).
  { eapply (rebalance_SReadyX (d_disk st) R HC fuel0 f 9); eauto; [unfold fuel0; lia|]. eapply tx_ops_XDF; eauto. }
  destruct (tx_fold_own st ops root' s' Hok' Hf) as (HO1 & HF1 & HI1 & Hb0).
  pose proof (tx_frees_pend_cur _ _ Hb0 Hfr) as HPC1.
  destruct (rebalance_own_missing0 (d_disk st) fuel0 f 16 s' root' (d_root st) b1 s1 Hz HSD HO1 HI1 HPC1 Hrr) as (HO2 & HF2 & HI2 & HPC2).
  assert (Etx : txid s1 = (d_tx st + 1)%N).
  { destruct Tx as (_ & T2 & _). destruct Hfr as (_ & F2 & _). rewrite T2, F2. apply begin_w_txid. }
  assert (Hstrict : db_strict st') by (eapply run_tx_strict; eauto).
  assert (Hcl : closedR (d_disk st') (Rof st')) by (apply fpg_closed; exact Hstrict).
  assert (HF2' : forall x, freed_in_tx s1 x = true -> In x (foot (d_disk st) 16 (d_root st))).
  { intros x Hx. destruct (HF2 x Hx) as [A|A]; [now apply HF1 | exact A]. }
  pose proof (run_Lnk st ops root' s' b1 s1 Hok' Hops Hf Hrr) as HL.
  destruct (commit_alloc_z W1a W1b W1c W1d st root' s' ord st' b1 s1 _ Hok' Hz Hrr Hfi Hwr Etx HI2 HPC2 HF2' HS HO HSX HO2 HL
              Hc Hrd Hstrict Hcl) as (A1 & A2 & A3 & A4).
  split; [|exact A4]. split; [exact Hstrict|]. split; [exact A1|]. split; [exact A2 | exact A3].
Qed.

(* the refinement statement with no allocation side condition left: only [readable] of the new state *)
Theorem run_tx_refines' : forall st ops ord st', db_okz st -> Forall (op_ok (d_disk st)) ops ->
  run_tx st ops ord = Ok st' -> readable st' -> db_okz st' /\ abs_db st' = sem_tx ops (abs_db st).
Proof.
  intros st ops ord st' Hok Hops Hrun Hrd. split; [eapply run_tx_okz; eauto|].
  eapply run_tx_meaning; eauto. apply db_ok'_db_ok. exact (proj1 Hok).
Qed.

(* histories: every operation admissible where it is applied, every committed state readable *)
Fixpoint txs_ok' (st : db) (txs : list (list op * list bytes)) : Prop :=
  match txs with
  | [] => True
  | (ops, ord) :: txs' => Forall (op_ok (d_disk st)) ops /\
      forall st1, run_tx st ops ord = Ok st1 -> readable st1 /\ txs_ok' st1 txs'
  end.

Corollary run_txs_refines' : forall txs st st', db_okz st -> txs_ok' st txs -> run_txs st txs = Ok st' ->
  db_okz st' /\ abs_db st' = sem_txs txs (abs_db st).
Proof.
  induction txs as [|[ops ord] txs IH]; intros st st' Hok Htx H; cbn [run_txs sem_txs] in *.
  - inversion H; subst. auto.
  - apply bind_ok_inv in H. destruct H as (st1 & H1 & H2). destruct Htx as [Hops Hnext].
    destruct (Hnext st1 H1) as [Hrd Htx1].
    destruct (run_tx_refines' st ops ord st1 Hok Hops H1 Hrd) as [Hok1 E1].
    destruct (IH st1 st' Hok1 Htx1 H2) as [Hok' E']. split; [exact Hok'|]. now rewrite E', E1.
Qed.

(* the target statement of EngineAbs: [db_wf' st] = [db_okz st] and every state reachable from [st] is readable *)
Definition db_wf' (st : db) : Prop := db_okz st /\ forall st2, reach_tx st st2 -> readable st2.

Theorem run_tx_refines_stmt_holds' : run_tx_refines_stmt db_wf' op_ok.
Proof.
  intros st ops ord st' [Hok Hall] Hops Hrun.
  assert (Hrd : readable st') by (apply Hall; eapply reach_step; eauto; apply reach_refl).
  destruct (run_tx_refines' st ops ord st' Hok Hops Hrun Hrd) as [Hok' E]. split; [|exact E].
  split; [exact Hok'|]. intros st2 Hr. apply Hall. eapply reach_step; eauto.
Qed.


(* ====================================================================== *)
(** * The initial state and the example states satisfy [db_ok'] *)

Lemma init_db_ok' : forall P, (0 < P)%N -> db_ok' (init_db P).
Proof.
  intros P HP. split; [apply init_db_strict|]. split; [|split].
  - apply alloc_okb_ok. unfold alloc_okb. cbn [d_psz d_np d_free d_pending d_root d_disk init_db].
    rewrite (proj2 (N.ltb_lt 0 P) HP). vm_compute. reflexivity.
  - apply nodupb_ok. vm_compute. reflexivity.
  - constructor.
Qed.

Example init_db_4096_ok' : db_ok' (init_db 4096).
Proof. apply db_ok'b_ok; [apply init_db_strict | vm_compute; reflexivity]. Qed.

Example ex3_db_ok' : db_ok' Ex3.ex3_db.
Proof. apply db_ok'b_ok; [exact Ex3.ex3_strict | vm_compute; reflexivity]. Qed.

Example ex3_st'_ok' : db_ok' Ex3R.ex3_st'.
Proof.
  apply db_ok'b_ok; [|vm_compute; reflexivity].
  apply (run_tx_strict Ex3.ex3_db Ex3.ex3_ops Ex3R.ex3_ord Ex3R.ex3_st' Ex3R.ex3_db_ok Ex3R.ex3_ops_ok Ex3R.ex3_run_ok).
  apply readableb_ok. vm_compute. reflexivity.
Qed.

Example hist_st_ok' : db_ok' ExHistory.hist_st.
Proof. apply db_ok'b_ok; [exact (proj1 (proj1 ExHistory.hist_refines)) | vm_compute; reflexivity]. Qed.

(* the full invariant [db_okz] = [db_ok'] and "page 0 is not on the disk" *)
Lemma init_db_okz : forall P, (0 < P)%N -> db_okz (init_db P).
Proof. intros P HP. split; [now apply init_db_ok' | apply init_db_zero]. Qed.

Example init_db_4096_okz : db_okz (init_db 4096).
Proof. split; [exact init_db_4096_ok' | reflexivity]. Qed.
Example ex3_db_okz : db_okz Ex3.ex3_db.
Proof. split; [exact ex3_db_ok' | reflexivity]. Qed.
Example ex3_st'_okz : db_okz Ex3R.ex3_st'.
Proof. split; [exact ex3_st'_ok' | vm_compute; reflexivity]. Qed.
Example hist_st_okz : db_okz ExHistory.hist_st.
Proof. split; [exact hist_st_ok' | vm_compute; reflexivity]. Qed.

(* ====================================================================== *)
(** * The statements asked for *)

(* the allocation invariant of the new state, in the vocabulary of EngineRefines *)
Theorem run_tx_alloc_ok : forall st ops ord st', db_okz st -> Forall (op_ok (d_disk st)) ops ->
  run_tx st ops ord = Ok st' -> readable st' -> db_alloc_ok st'.
Proof.
  intros st ops ord st' Hok Hops Hrun Hrd.
  destruct (run_tx_okz st ops ord st' Hok Hops Hrun Hrd) as [(_ & HA & _) _]. exists (Rof st'). exact HA.
Qed.

(* ... hence the side condition [checked] of EngineRefines.run_tx_refines is [readable] alone *)
Corollary run_tx_checked : forall st ops ord st', db_okz st -> Forall (op_ok (d_disk st)) ops ->
  run_tx st ops ord = Ok st' -> readable st' -> checked st'.
Proof. intros st ops ord st' Hok Hops Hrun Hrd. split; [exact Hrd | eapply run_tx_alloc_ok; eauto]. Qed.

(* histories from the empty database: the only side condition is [readable] of each intermediate state *)
Corollary run_txs_refines_init' : forall P txs st', (0 < P)%N -> txs_ok' (init_db P) txs ->
  run_txs (init_db P) txs = Ok st' -> db_okz st' /\ abs_db st' = sem_txs txs (SBucket 0 0 []).
Proof. intros P txs st' HP Htx H. exact (run_txs_refines' txs _ _ (init_db_okz P HP) Htx H). Qed.

(* the two-transaction history of EngineRefines, now with [readable] as the only check *)
Example hist_ok' : txs_ok' (init_db 4096) ExHistory.hist.
Proof.
  cbn [txs_ok' ExHistory.hist ExHistory.tx1 ExHistory.tx2]. split; [repeat constructor; cbn; lia|].
  intros st1 H1. vm_compute in H1. inversion H1; subst st1. clear H1.
  split; [apply readableb_ok; vm_compute; reflexivity|].
  split; [repeat constructor; cbn; lia|].
  intros st2 H2. vm_compute in H2. inversion H2; subst st2. clear H2.
  split; [apply readableb_ok; vm_compute; reflexivity | exact I].
Qed.

Example hist_refines' : db_okz ExHistory.hist_st /\ abs_db ExHistory.hist_st = sem_txs ExHistory.hist (SBucket 0 0 []).
Proof. exact (run_txs_refines_init' 4096 ExHistory.hist ExHistory.hist_st eq_refl hist_ok' ExHistory.hist_run_ok). Qed.

(* the transaction of Ex3 through the theorem *)
Example ex3_st'_okz_thm : db_okz Ex3R.ex3_st' /\ abs_db Ex3R.ex3_st' = sem_tx Ex3.ex3_ops (abs_db Ex3.ex3_db).
Proof.
  apply (run_tx_refines' Ex3.ex3_db Ex3.ex3_ops Ex3R.ex3_ord Ex3R.ex3_st' ex3_db_okz Ex3R.ex3_ops_ok Ex3R.ex3_run_ok).
  apply readableb_ok. vm_compute. reflexivity.
Qed.

Print Assumptions run_tx_okz.
Print Assumptions run_tx_alloc_ok.
Print Assumptions run_tx_refines'.
Print Assumptions run_txs_refines'.
Print Assumptions run_txs_refines_init'.
Print Assumptions run_tx_refines_stmt_holds'.
Print Assumptions init_db_okz.
Print Assumptions hist_refines'.
Print Assumptions ex3_st'_okz_thm.
