(* open options: which configurations the builder accepts, and why the alignment guard is needed *)
From Coq Require Import NArith Lia List Bool.
From Jamm Require Import Bytes Consts Meta.
Local Open Scope N_scope.

Definition valid_cfg (P n : N) : Prop := min_pagesize <= P /\ P mod pagesize_align = 0 /\ min_num_pages <= n.
(* what OpenOptions::pagesize / num_pages let through, from the GENERATED guards *)
Definition builder_accepts (P n : N) : bool :=
  (min_pagesize <=? P) && (P mod pagesize_align =? 0) && (min_num_pages <=? n).

Lemma builder_accepts_iff : forall P n, builder_accepts P n = true <-> valid_cfg P n.
Proof.
  intros P n. unfold builder_accepts, valid_cfg.
  rewrite !andb_true_iff, !N.leb_le, N.eqb_eq. tauto.
Qed.

Lemma source_guards : min_pagesize = 1024 /\ pagesize_align = 8 /\ min_num_pages = 4.
Proof. repeat split; reflexivity. Qed.

(* with the guard every page starts on an 8-byte boundary, so the u64 fields of the page header
   (offsets 0, 16, 24 and the payload at 32) are aligned in the map *)
Lemma page_start_aligned : forall P n pid, valid_cfg P n -> (pid * P) mod 8 = 0.
Proof.
  intros P n pid [_ [Ha _]]. change pagesize_align with 8 in Ha.
  apply N.mod_divide in Ha; [|discriminate]. destruct Ha as [k Hk]. subst P.
  rewrite N.mul_assoc. apply N.mod_mul. discriminate.
Qed.
Lemma header_fields_aligned : forall P n pid, valid_cfg P n ->
  (pid * P + off_pg_id) mod 8 = 0 /\ (pid * P + off_pg_count) mod 8 = 0 /\
  (pid * P + off_pg_overflow) mod 8 = 0 /\ (pid * P + payload_off) mod 8 = 0.
Proof.
  intros P n pid H. pose proof (page_start_aligned P n pid H) as Hs.
  apply N.mod_divide in Hs; [|discriminate]. destruct Hs as [k Hk]. rewrite Hk.
  change off_pg_id with 0. change off_pg_count with (2 * 8). change off_pg_overflow with (3 * 8). change payload_off with (4 * 8).
  rewrite N.add_0_r. repeat split; try (rewrite <- N.mul_add_distr_r); apply N.mod_mul; discriminate.
Qed.

(* without the alignment guard (the pinned builder) there are accepted sizes with misaligned pages *)
Lemma unaligned_pagesize_refuted : exists P pid, 1024 <= P /\ P mod 8 <> 0 /\ (pid * P) mod 8 <> 0.
Proof. exists 1025, 1. repeat split; vm_compute; discriminate. Qed.

(* a header whose recorded page size differs from the one the database is opened with is refused (the documented
   panic), whatever the other slot holds; open is a pure function of the file in the model: it issues no I/O *)
Lemma wrong_pagesize_refused : forall P' m s2, m_psz m <> P' ->
  exists why, select_slots P' (SlotValid m) s2 = SelPanic why.
Proof.
  intros P' m s2 H. apply N.eqb_neq in H.
  destruct s2 as [| |m2]; cbn [select_slots]; rewrite ?H; cbn [negb]; eauto.
Qed.
