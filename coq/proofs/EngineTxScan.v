(* Cursor reads INSIDE a write transaction (model/EngineScan.v) answer what the reference answers.

   1. Glue: [txm_step] = [tx_step], [tx_state] = [tx_fold], [ovl_get] = [ovl_lookup], [ovl_ent] = [ent_of],
      [otree_page] = [tree_of].
   2. The overlay tree of a well-formed node / page exists, flattens to the node's view, and passes the read half's
      checker [NH.wf_nh] (hence [no_empty_branch]); with the view's key order: [NH.wf_tree_nh].
   3. [tx_scans]: a full cursor scan inside the write transaction, after any list of operations, at any nested
      bucket path, returns the reference's entries of [sem_tx ops (abs_db st)] in key order.
   4. [tx_cursor_agrees]: the same for get / range / seek ([cursor_agrees]).
   5. Corollaries in the vocabulary of model/EngineScan.v; the worked example is in EngineTxScanEx.v.
   Everything is closed under the global context (see the [Print Assumptions] at the end). *)
From Coq Require Import List NArith Bool Arith Lia ZifyN ZifyNat ZifyBool.
From Coq.Strings Require Import Byte.
From Jamm Require Import Bytes Tree Spec Cursor SearchFacts CursorFacts SeekFacts Engine EngineFacts EngineModifyFacts
  EngineAbs EnginePathFacts EngineTxReads EngineReadBridge EngineScan.
From Jamm Require SpecPathFacts.
Import ListNotations.
Import Coq.Strings.String.StringSyntax. Delimit Scope string_scope with string.
Local Open Scope list_scope. Local Open Scope nat_scope.
Set Warnings "-abstract-large-number".
Arguments N.add : simpl never. Arguments N.sub : simpl never. Arguments N.mul : simpl never.
Arguments N.div : simpl never. Arguments N.ltb : simpl never. Arguments N.leb : simpl never.
Arguments N.eqb : simpl never.

(* ====================================================================== *)
(** * 1. Glue: the executable read model is the one the refinement proofs speak about *)

Lemma txm_step_eq : forall d acc o, txm_step d acc o = tx_step d acc o.
Proof. intros d [rb s] o. reflexivity. Qed.

Lemma fold_res_ext : forall {A B} (f g : A -> B -> res A), (forall a b, f a b = g a b) ->
  forall l a, fold_res f l a = fold_res g l a.
Proof.
  intros A B f g H. induction l as [|x l IH]; intros a; cbn [fold_res]; [reflexivity|].
  rewrite H. destruct (g a x) as [a'| |]; cbn [bind]; [apply IH | reflexivity | reflexivity].
Qed.

Lemma tx_state_fold : forall st ops, tx_state st ops = tx_fold st ops (root_bucket st, begin_w st).
Proof. intros st ops. unfold tx_state, tx_fold. apply fold_res_ext. apply txm_step_eq. Qed.

Lemma ovl_ent_eq : forall e, ovl_ent e = ent_of e.
Proof. intros [k v|k r nx]; reflexivity. Qed.

Lemma map_ovl_ent : forall l, map ovl_ent l = map ent_of l.
Proof. intros l. apply map_ext. apply ovl_ent_eq. Qed.

Lemma omap_opt_omap : forall {A B} (f g : A -> option B) l, (forall x, In x l -> f x = g x) ->
  omap_opt f l = omap g l.
Proof.
  intros A B f g. induction l as [|x l IH]; intros H; [reflexivity|]. cbn [omap_opt omap].
  rewrite (H x (or_introl eq_refl)), IH by (intros y Hy; apply H; now right).
  destruct (g x); [|reflexivity]. destruct (omap g l); reflexivity.
Qed.

Lemma otree_page_tree_of : forall f d p, otree_page f d p = tree_of f d p.
Proof.
  induction f as [|f IH]; intros d p; [reflexivity|]. cbn [otree_page tree_of].
  destruct (dget d p) as [a|]; [|reflexivity]. destruct (ap_body a) as [l|es].
  - now rewrite map_ovl_ent.
  - rewrite (omap_opt_omap _ (fun e : bytes * N => option_map (pair (fst e)) (tree_of f d (snd e)))); [reflexivity|].
    intros e _. now rewrite IH.
Qed.

(* the bucket reached along a path, then the point read: [ovl_lookup] of EngineTxReads *)
Lemma ovl_get_lookup : forall d path b k, ovl_get d b path k = ovl_lookup d b path k.
Proof.
  intros d. unfold ovl_get. induction path as [|nm rest IH]; intros b k; cbn [ovl_bucket ovl_lookup bind]; [reflexivity|].
  destruct (sub_find nm (b_subs b)) as [sb|]; [apply IH|].
  destruct (b_lookup d b nm) as [[[k0 v|k0 r nx]|]| |]; cbn [bind]; try reflexivity. apply IH.
Qed.

(* the child of a materialised branch for page id [q]: the first kid carrying that id, else the page *)
Definition ochild (fuel : nat) (d : disk) (ks : list node) (q : N) : option tree :=
  match find_kid q ks with Some kd => otree_node fuel d kd | None => otree_page fuel d q end.

Lemma omap_opt_ext : forall {A B} (f g : A -> option B) l, (forall x, f x = g x) -> omap_opt f l = omap_opt g l.
Proof.
  intros A B f g l H. induction l as [|x l IH]; [reflexivity|]. cbn [omap_opt]. now rewrite H, IH.
Qed.

Lemma otree_node_leaf : forall fuel d p npg og sq l ks,
  otree_node fuel d (Node p npg og sq (Leaves l) ks) = Some (TL p (npg - 1)%N (map ovl_ent l)).
Proof. reflexivity. Qed.

Lemma otree_node_branch : forall fuel d p npg og sq es ks,
  otree_node fuel d (Node p npg og sq (Branches es) ks) =
  option_map (TB p (npg - 1)%N)
    (omap_opt (fun e : bytes * N => option_map (pair (fst e)) (ochild fuel d ks (snd e))) es).
Proof.
  intros fuel d p npg og sq es ks. cbn [otree_node]. f_equal. apply omap_opt_ext. intros e. f_equal.
  unfold ochild, find_kid. induction ks as [|kd ks IH]; [reflexivity|]. cbn [find].
  destruct (N.eqb (n_page kd) (snd e)); [reflexivity | exact IH].
Qed.

(* ====================================================================== *)
(** * 2. The overlay tree of a well-formed node / page: it exists, flattens to the view, passes [NH.wf_nh] *)

Lemma nth_app_len : forall (pre : list bytes) k rest, nth (length pre) (pre ++ k :: rest) [] = k.
Proof. intros pre k rest. rewrite app_nth2 by lia. now rewrite Nat.sub_diag. Qed.

(* children whose keys lie in their separator intervals ([in_range], the engine's search invariant) satisfy the
   separator check of the read half's checker *)
Lemma seps_ok_in_range : forall (ksf : list (bytes * list lent)) (ls : list (list leafent)),
  Forall2 (fun kc l => snd kc = map ent_of l) ksf ls ->
  forall pre first,
  (forall j l, nth_error ls j = Some l -> in_range (pre ++ map fst ksf) (length pre + j) l) ->
  (first = false -> 1 <= length pre) ->
  Tree.seps_ok first ksf = true.
Proof.
  intros ksf ls HF. induction HF as [|[k c] l0 rest ls Hc HF IH]; intros pre first H Hf; [reflexivity|].
  cbn [snd] in Hc. subst c. cbn [map fst] in H.
  pose proof (H 0 l0 eq_refl) as [H0a H0b]. rewrite Nat.add_0_r in H0a, H0b.
  cbn [Tree.seps_ok]. apply andb_true_iff; split; [apply andb_true_iff; split|].
  - destruct first; [reflexivity|]. cbn [orb]. unfold Tree.all_keys_ge. apply forallb_forall. intros e He.
    apply in_map_iff in He. destruct He as (e0 & <- & Hin). rewrite lent_key_ent_of.
    specialize (H0a (Hf eq_refl)). rewrite Forall_forall in H0a. specialize (H0a e0 Hin).
    rewrite nth_app_len in H0a. unfold ble. destruct (bcmp k (lkey e0)); congruence.
  - destruct rest as [|[k' c'] rest']; [reflexivity|]. unfold Tree.all_keys_lt. apply forallb_forall.
    intros e He. apply in_map_iff in He. destruct He as (e0 & <- & Hin). rewrite lent_key_ent_of.
    cbn [map fst] in H0b.
    assert (Hlen : S (length pre) < length (pre ++ k :: k' :: map fst rest'))
      by (rewrite app_length; cbn [length]; lia).
    specialize (H0b Hlen). rewrite Forall_forall in H0b. specialize (H0b e0 Hin).
    replace (pre ++ k :: k' :: map fst rest') with ((pre ++ [k]) ++ k' :: map fst rest') in H0b
      by (rewrite <- app_assoc; reflexivity).
    replace (S (length pre)) with (length (pre ++ [k])) in H0b by (rewrite app_length; cbn [length]; lia).
    rewrite nth_app_len in H0b. unfold blt. now rewrite H0b.
  - apply (IH (pre ++ [k]) false).
    + intros j l Hj. specialize (H (S j) l Hj). rewrite <- app_assoc. cbn [app]. rewrite app_length. cbn [length].
      replace (length pre + 1 + j) with (length pre + S j) by lia. exact H.
    + intros _. rewrite app_length. cbn [length]. lia.
Qed.

(* what the induction carries for one subtree *)
Definition tree_ok (t : tree) (l : list leafent) : Prop := flatten t = map ent_of l /\ NH.wf_nh t = true.

(* the branch step, common to materialised nodes and pages: [child] is how a page id is resolved *)
Lemma branch_tree_ok : forall (child : N -> option tree) (es : list (bytes * N)) (ls : list (list leafent)) p o,
  EngineModifyFacts.seps_ok es ->
  Forall2 (fun e l => exists t, child (snd e) = Some t /\ tree_ok t l) es ls ->
  (forall j l, nth_error ls j = Some l -> in_range (map fst es) j l) ->
  exists kts, omap_opt (fun e : bytes * N => option_map (pair (fst e)) (child (snd e))) es = Some kts /\
    tree_ok (TB p o kts) (concat ls).
Proof.
  intros child es ls p o (Hne & Hss & _) HF Hr.
  assert (Hk : exists kts, omap_opt (fun e : bytes * N => option_map (pair (fst e)) (child (snd e))) es = Some kts /\
             map fst kts = map fst es /\ Forall2 (fun (kt : bytes * tree) l => tree_ok (snd kt) l) kts ls).
  { clear Hne Hss Hr. induction HF as [|e l es ls (t & Ht & Hok) _ (kts & E1 & E2 & E3)].
    - exists []. repeat split; constructor.
    - exists ((fst e, t) :: kts). cbn [omap_opt]. rewrite Ht, E1. cbn [option_map map fst]. rewrite E2.
      repeat split. constructor; [exact Hok | exact E3]. }
  destruct Hk as (kts & E1 & E2 & E3). exists kts. split; [exact E1|]. split.
  - cbn [Tree.flatten]. apply EngineReadBridge.flat_map_concat_F2.
    eapply EngineModifyFacts.Forall2_impl; [|exact E3]. intros kt l [H _]. exact H.
  - cbn [NH.wf_nh]. repeat (apply andb_true_iff; split).
    + destruct kts; [destruct es; [congruence | discriminate] | reflexivity].
    + apply forallb_forall. intros kt Hin. destruct (In_nth_error _ _ Hin) as [j Hj].
      destruct (Forall2_nth_error_l _ _ _ _ _ E3 Hj) as (l & _ & _ & Hw). exact Hw.
    + now rewrite E2.
    + apply (seps_ok_in_range _ ls) with (pre := []); [| |discriminate].
      * clear -E3. induction E3 as [|kt l kts ls [H _] _ IH]; cbn [map]; constructor; [exact H | exact IH].
      * intros j l Hj. cbn [app length Nat.add]. rewrite map_map. cbn [fst].
        change (map (fun x : bytes * tree => fst x) kts) with (map fst kts). rewrite E2. now apply Hr.
Qed.

Theorem otree_page_view : forall d h p l fuel, wf_page d p -> PageView d h p l -> h <= fuel ->
  exists t, otree_page fuel d p = Some t /\ tree_ok t l.
Proof.
  intros d. induction h as [|h IH]; intros p l fuel Hw Hv Hf; [inversion Hv|].
  destruct fuel as [|fuel]; [lia|].
  destruct (wf_page_inv d p Hw) as (a & Hg & Hwb).
  destruct (PageView_inv d _ p l Hv) as (h0 & a' & Eh & Hg' & Hvb). inversion Eh; subst h0.
  rewrite Hg in Hg'. inversion Hg'; subst a'. cbn [otree_page]. rewrite Hg.
  destruct (ap_body a) as [l0|es].
  - subst l. eexists. split; [reflexivity|]. split; [cbn [Tree.flatten]; apply map_ovl_ent | reflexivity].
  - destruct Hwb as (Hs & HFw & Hr). destruct Hvb as (ls & -> & HFv).
    destruct (branch_tree_ok (otree_page fuel d) es ls p (ap_over a) Hs) as (kts & E & Hok).
    + assert (Hin : forall e, In e es -> wf_page d (snd e)) by (now apply Forall_forall).
      clear -HFv Hin IH Hf. induction HFv as [|e l es ls He _ IHr]; constructor.
      * apply (IH _ _ fuel (Hin e (or_introl eq_refl)) He). lia.
      * apply IHr. intros e' He'. apply Hin. now right.
    + intros j l Hj. destruct (Forall2_nth_error_r _ _ _ _ _ HFv Hj) as (e & He & Hve).
      apply (Hr j e l He). now exists h.
    + rewrite E. eexists. split; [reflexivity | exact Hok].
Qed.

Theorem otree_node_view : forall d h n l fuel, wf_node d n -> NodeView d h n l -> h <= S fuel ->
  exists t, otree_node fuel d n = Some t /\ tree_ok t l.
Proof.
  intros d. induction h as [|h IH]; intros n l fuel Hw Hv Hf; [inversion Hv|].
  destruct n as [p np og sq [l0|es] ks].
  - apply NodeView_leaf_inv in Hv. destruct Hv as [-> _]. rewrite otree_node_leaf.
    eexists. split; [reflexivity|]. split; [cbn [Tree.flatten]; apply map_ovl_ent | reflexivity].
  - apply NodeView_branch_inv in Hv. destruct Hv as (h0 & ls & Eh & -> & HFv). inversion Eh; subst h0.
    destruct (wf_node_branch_inv d p np og sq es ks Hw) as (Hs & HFw & Hr).
    rewrite otree_node_branch.
    destruct (branch_tree_ok (ochild fuel d ks) es ls p (np - 1)%N Hs) as (kts & E & Hok).
    + assert (Hin : forall e, In e es -> ChildWf d ks (snd e)) by (now apply Forall_forall).
      clear -HFv Hin IH Hf. induction HFv as [|e l es ls He _ IHr]; constructor.
      * specialize (Hin e (or_introl eq_refl)). unfold ChildView, ChildWf, ochild in *.
        destruct (find_kid (snd e) ks) as [kd|].
        -- apply (IH _ _ fuel Hin He). lia.
        -- apply (otree_page_view d h _ _ fuel Hin He). lia.
      * apply IHr. intros e' He'. apply Hin. now right.
    + intros j l Hj. destruct (Forall2_nth_error_r _ _ _ _ _ HFv Hj) as (e & He & Hve).
      apply (Hr j e l He). now exists h.
    + rewrite E. eexists. split; [reflexivity | exact Hok].
Qed.

(* the tree of a bucket of the overlay (fuel [fuel0] = 64; [bucket_view] carries the height bound) *)
Theorem b_tree_view : forall d b l, bucket_wf d b -> bucket_view d b l ->
  exists t, b_tree d b = Some t /\ flatten t = map ent_of l /\ NH.wf_tree_nh t = true.
Proof.
  intros d b l Hw (h & Hh & Hv). pose proof (bucket_view_sorted d h b l Hw Hv) as Hs.
  unfold b_tree, bucket_wf, BucketView in *.
  assert (H : exists t, match b_rootn b with Some n => otree_node fuel0 d n | None => otree_page fuel0 d (b_root_page b) end
                = Some t /\ tree_ok t l).
  { destruct (b_rootn b) as [n|].
    - apply (otree_node_view d h n l fuel0 Hw Hv). lia.
    - apply (otree_page_view d h _ l fuel0 Hw Hv Hh). }
  destruct H as (t & Ht & Hfl & Hnh). exists t. split; [exact Ht|]. split; [exact Hfl|].
  unfold NH.wf_tree_nh. apply andb_true_iff. split; [exact Hnh|]. now rewrite Hfl, map_key_ent_of.
Qed.

Corollary b_tree_neb : forall d b l t, bucket_wf d b -> bucket_view d b l -> b_tree d b = Some t ->
  flatten t = map ovl_ent l /\ no_empty_branch t = true.
Proof.
  intros d b l t Hw Hv Ht. destruct (b_tree_view d b l Hw Hv) as (t' & Ht' & Hfl & Hwf).
  rewrite Ht in Ht'. inversion Ht'; subst t'. split; [now rewrite map_ovl_ent|].
  apply NH.wf_nh_neb. unfold NH.wf_tree_nh in Hwf. apply andb_true_iff in Hwf. tauto.
Qed.

(* ====================================================================== *)
(** * 3. A full scan inside a write transaction *)

(* where a path leads in the reference: a bucket, nowhere, or through a plain value *)
Inductive at_ans := AtBucket (m : snode) | AtMissing | AtIncompat.
Fixpoint ref_at (path : list bytes) (m : snode) : at_ans :=
  match path with
  | [] => AtBucket m
  | nm :: rest =>
      match Spec.alookup nm (Spec.b_ents m) with
      | Some (SVal _) => AtIncompat
      | Some c => ref_at rest c
      | None => AtMissing
      end
  end.

(* get_bucket along a path through the overlay reaches a well-formed overlay bucket meaning the reference's *)
Theorem ovl_bucket_refines : forall d path b m, ovl_wf d b -> OvlAbs d b m ->
  match ref_at path m with
  | AtBucket c => exists bk, ovl_bucket d b path = Ok bk /\ ovl_wf d bk /\ OvlAbs d bk c
  | AtMissing => ovl_bucket d b path = Err "BucketMissing"%string
  | AtIncompat => ovl_bucket d b path = Err "IncompatibleValue"%string
  end.
Proof.
  intros d. induction path as [|nm rest IH]; intros b m Hw Ha; cbn [ref_at ovl_bucket].
  - exists b. auto.
  - destruct (sub_find nm (b_subs b)) as [sb|] eqn:Hsf.
    + destruct (sub_meaning d b m nm sb Hw Ha Hsf) as (c & Hc & Hac & Hwc). rewrite Hc.
      destruct (OvlAbs_bucket _ _ _ Hac) as [es Ec]. rewrite Ec. rewrite <- Ec. now apply IH.
    + destruct (ovl_both d b m Hw Ha) as (l & ents & Em & Hbw & Hbv & Hs & Hnd & Hsubs & HF & Hroot).
      pose proof (F2_alookup _ (OvlEnt_key d (b_subs b)) l ents nm HF) as Hlk.
      rewrite (b_lookup_refines d b l nm Hbw Hbv). cbn [bind]. subst m. cbn [Spec.b_ents].
      destruct (Spec.alookup nm (assoc l)) as [[k0 v|k0 r nx]|] eqn:Hal.
      * destruct Hlk as (x & Hx & He). apply OvlEnt_kv_inv in He. destruct He as [_ ->]. rewrite Hx. reflexivity.
      * destruct (alookup_assoc_key _ _ _ Hal) as [Ek _]. cbn [lkey] in Ek. subst k0.
        destruct Hlk as (x & Hx & He). rewrite Hx. apply OvlEnt_bk_inv in He.
        destruct He as [_ [(sb' & Hsf' & _) | (_ & Hc)]]; [congruence|].
        destruct (open_committed d r nx x Hc) as [Hw0 Ha0].
        destruct (CAbs_bucket _ _ _ _ Hc) as [es Ec]. rewrite Ec. rewrite <- Ec. now apply IH.
      * rewrite Hlk. reflexivity.
Qed.

Lemma ref_at_get_at : forall path m, SpecPathFacts.is_bucket m = true ->
  match Spec.get_at path m with
  | Some (SBucket o x es) => ref_at path m = AtBucket (SBucket o x es)
  | Some (SVal _) => ref_at path m = AtIncompat
  | None => ref_at path m = AtMissing \/ ref_at path m = AtIncompat
  end.
Proof.
  induction path as [|nm rest IH]; intros m Hb; cbn [Spec.get_at ref_at].
  - destruct m; [discriminate | reflexivity].
  - destruct (Spec.alookup nm (Spec.b_ents m)) as [[v|o x es]|]; [| now apply IH | now left].
    destruct rest; cbn [Spec.get_at Spec.b_ents Spec.alookup]; [reflexivity | now right].
Qed.

(* what the reference shows of an entry is what the cursor shows of the overlay's entry *)
Lemma OvlEnt_item : forall d subs e kv, OvlEnt d subs e kv -> Spec.to_item kv = Cursor.to_item (ent_of e).
Proof.
  intros d subs e kv H. inversion H as [| ? ? ? ? sb m Hs Hm | ? ? ? ? m Hs Hm]; subst; [reflexivity| |].
  - destruct (OvlAbs_bucket _ _ _ Hm) as [es ->]. reflexivity.
  - destruct (CAbs_bucket _ _ _ _ Hm) as [es ->]. reflexivity.
Qed.

Lemma OvlEnt_items : forall d subs l ents, Forall2 (OvlEnt d subs) l ents ->
  map Cursor.to_item (map ent_of l) = map Spec.to_item ents.
Proof.
  intros d subs l ents H. induction H as [|e kv l ents He _ IH]; [reflexivity|]. cbn [map].
  now rewrite IH, (OvlEnt_item _ _ _ _ He).
Qed.

(* one overlay bucket: its tree exists, is well formed for the cursor, and shows the reference's entries *)
Theorem ovl_bucket_tree : forall d b m, ovl_wf d b -> OvlAbs d b m ->
  exists t, b_tree d b = Some t /\ NH.wf_tree_nh t = true /\
    map Cursor.to_item (flatten t) = Spec.items_of m /\ Cursor.scan t = CVal (Spec.items_of m).
Proof.
  intros d b m Hw Ha.
  destruct (ovl_both d b m Hw Ha) as (l & ents & Em & Hbw & Hbv & Hs & Hnd & Hsubs & HF & Hroot).
  destruct (b_tree_view d b l Hbw Hbv) as (t & Ht & Hfl & Hwf). exists t.
  assert (Hit : map Cursor.to_item (flatten t) = Spec.items_of m).
  { subst m. unfold Spec.items_of. cbn [Spec.b_ents]. rewrite Hfl. eapply OvlEnt_items; eauto. }
  split; [exact Ht|]. split; [exact Hwf|]. split; [exact Hit|].
  rewrite NH.scan_spec_nh, Hit; [reflexivity|].
  unfold NH.wf_tree_nh in Hwf. apply andb_true_iff in Hwf. tauto.
Qed.

(* along any path *)
Theorem ovl_tree_refines : forall d path b m, ovl_wf d b -> OvlAbs d b m ->
  match ref_at path m with
  | AtBucket c => exists t, ovl_tree d b path = Ok t /\ NH.wf_tree_nh t = true /\
                    Cursor.scan t = CVal (Spec.items_of c)
  | AtMissing => ovl_tree d b path = Err "BucketMissing"%string
  | AtIncompat => ovl_tree d b path = Err "IncompatibleValue"%string
  end.
Proof.
  intros d path b m Hw Ha. pose proof (ovl_bucket_refines d path b m Hw Ha) as H. unfold ovl_tree.
  destruct (ref_at path m) as [c| |]; [|now rewrite H|now rewrite H].
  destruct H as (bk & -> & Hwk & Hak). cbn [bind].
  destruct (ovl_bucket_tree d bk c Hwk Hak) as (t & -> & Hwf & _ & Hsc). exists t. auto.
Qed.

(* THE SCAN THEOREM: after the operations [ops] of a write transaction, a full cursor scan of the bucket at ANY path
   returns exactly the reference's entries of that bucket in [sem_tx ops (abs_db st)], in key order, pairs and
   nested-bucket markers; a path through a plain value answers IncompatibleValue, a path leading nowhere
   BucketMissing (or IncompatibleValue when it runs through a plain value), as get_bucket does.
   No fuel hypothesis: [db_pages_wf] bounds the height of every committed tree by [fuel0] = 64, and the refinement
   ([ops_refine]) keeps that bound for the overlay ([bucket_view]). *)
Theorem tx_scans : forall st ops root' s', db_pages_wf st -> Forall (op_ok (d_disk st)) ops ->
  tx_fold st ops (root_bucket st, begin_w st) = Ok (root', s') ->
  forall path,
    match Spec.get_at path (sem_tx ops (abs_db st)) with
    | Some (SBucket o x es) =>
        exists t, ovl_tree (d_disk st) root' path = Ok t /\ NH.wf_tree_nh t = true /\
          Cursor.scan t = CVal (Spec.items_of (SBucket o x es))
    | Some (SVal _) => ovl_tree (d_disk st) root' path = Err "IncompatibleValue"%string
    | None => ovl_tree (d_disk st) root' path = Err "BucketMissing"%string \/
              ovl_tree (d_disk st) root' path = Err "IncompatibleValue"%string
    end.
Proof.
  intros st ops root' s' Hdb Hok Hf path.
  destruct (ops_refine st ops Hdb Hok) as (r1 & s1 & Hf1 & Hw & Ha & _).
  rewrite Hf in Hf1. inversion Hf1; subst r1 s1.
  pose proof (ovl_tree_refines (d_disk st) path root' _ Hw Ha) as H.
  pose proof (ref_at_get_at path _ (OvlAbs_is_bucket _ _ _ Ha)) as Hg.
  destruct (Spec.get_at path (sem_tx ops (abs_db st))) as [[v|o x es]|].
  - now rewrite Hg in H.
  - now rewrite Hg in H.
  - destruct Hg as [Hg|Hg]; rewrite Hg in H; [now left | now right].
Qed.

(* ... on the executable [tx_scan] (the transaction state exists: the operation phase never fails) *)
Corollary tx_scan_spec : forall st ops path, db_pages_wf st -> Forall (op_ok (d_disk st)) ops ->
  match Spec.get_at path (sem_tx ops (abs_db st)) with
  | Some (SBucket o x es) => tx_scan st ops path = Ok (CVal (Spec.items_of (SBucket o x es)))
  | Some (SVal _) => tx_scan st ops path = Err "IncompatibleValue"%string
  | None => tx_scan st ops path = Err "BucketMissing"%string \/ tx_scan st ops path = Err "IncompatibleValue"%string
  end.
Proof.
  intros st ops path Hdb Hok.
  destruct (ops_refine st ops Hdb Hok) as (r1 & s1 & Hf & _).
  pose proof (tx_scans st ops r1 s1 Hdb Hok Hf path) as H.
  unfold tx_scan, ovl_scan. rewrite tx_state_fold, Hf. cbn [bind].
  destruct (Spec.get_at path (sem_tx ops (abs_db st))) as [[v|o x es]|].
  - now rewrite H.
  - destruct H as (t & -> & _ & Hsc). cbn [bind]. now rewrite Hsc.
  - destruct H as [-> | ->]; [now left | now right].
Qed.

(* ====================================================================== *)
(** * 4. get / range / seek inside a write transaction

    The overlay tree may contain EMPTY LEAVES (a delete that empties a leaf leaves it in place until commit's
    rebalance). [NH.wf_nh] asks nothing of a leaf, and [get_spec_nh] / [seek_spec_nh] / [range_spec_nh] are proved from
    [NH.wf_tree_nh] alone: they hold for trees with empty leaves, so all four reads agree with the reference. *)

Lemma alookup_assoc_find : forall l k, sorted_keys (map lkey l) = true ->
  Spec.alookup k (assoc l) = find (fun e => beq (lkey e) k) l.
Proof.
  intros l k Hs. pose proof (alookup_find (fun e => e) l k Hs) as H.
  unfold assoc, kv_of. rewrite H. now destruct (find _ l).
Qed.

Theorem cursor_agrees_ovl : forall d subs t l ents o nx, NH.wf_tree_nh t = true -> flatten t = map ent_of l ->
  sorted_keys (map lkey l) = true -> Forall2 (OvlEnt d subs) l ents ->
  cursor_agrees t (SBucket o nx ents).
Proof.
  intros d subs t l ents o nx Hwf Hfl Hs HF.
  assert (Hitems : map Cursor.to_item (flatten t) = Spec.items_of (SBucket o nx ents)).
  { rewrite Hfl. unfold Spec.items_of. cbn [Spec.b_ents]. eapply OvlEnt_items; eauto. }
  assert (Hlk : forall k,
            match find (fun e => beq (lkey e) k) l with
            | Some e => exists x, Spec.alookup k ents = Some x /\ OvlEnt d subs e (k, x)
            | None => Spec.alookup k ents = None
            end).
  { intros k. rewrite <- (alookup_assoc_find l k Hs). apply (F2_alookup _ (OvlEnt_key d subs) l ents k HF). }
  split; [|split; [|split]].
  - intros k. rewrite (NH.get_spec_nh t k Hwf), Hfl, find_map_ent_of.
    unfold ref_get. cbn [Spec.b_ents]. specialize (Hlk k).
    destruct (find (fun e => beq (lkey e) k) l) as [e|]; [|now rewrite Hlk].
    destruct Hlk as (x & -> & He). cbn [option_map]. now rewrite (OvlEnt_item _ _ _ _ He).
  - assert (Hneb : NH.wf_nh t = true) by (unfold NH.wf_tree_nh in Hwf; apply andb_true_iff in Hwf; tauto).
    now rewrite (NH.scan_spec_nh t Hneb), Hitems.
  - intros lo hi. now rewrite (NH.range_spec_nh t lo hi Hwf), Hitems.
  - intros k. destruct (NH.seek_spec_nh t k Hwf) as (ex & l0 & Hss & Hex & Ht & Hf). rewrite Hitems in Ht, Hf.
    exists l0. assert (Hfound : ref_found (SBucket o nx ents) k = ex).
    { unfold ref_found. cbn [Spec.b_ents]. specialize (Hlk k). rewrite Hfl, map_key_ent_of in Hex.
      destruct (find (fun e => beq (lkey e) k) l) as [e|] eqn:Ef.
      - destruct Hlk as (x & -> & _). apply find_some in Ef. destruct Ef as [Hin Ek]. apply beq_true in Ek.
        symmetry. apply Hex. rewrite <- Ek. now apply in_map.
      - rewrite Hlk. destruct ex; [|reflexivity]. pose proof (proj1 Hex eq_refl) as Hk.
        apply in_map_iff in Hk. destruct Hk as (e & Ek & Hin).
        pose proof (find_none _ _ Ef e Hin) as Hn. cbn beta in Hn. rewrite Ek in Hn.
        assert (beq k k = true) by now apply beq_true. congruence. }
    rewrite Hfound. split; [exact Hss|]. destruct ex; [now apply Ht | now apply Hf].
Qed.

(* one overlay bucket *)
Theorem ovl_bucket_agrees : forall d b m, ovl_wf d b -> OvlAbs d b m ->
  exists t, b_tree d b = Some t /\ NH.wf_tree_nh t = true /\ cursor_agrees t m.
Proof.
  intros d b m Hw Ha.
  destruct (ovl_both d b m Hw Ha) as (l & ents & Em & Hbw & Hbv & Hs & Hnd & Hsubs & HF & Hroot).
  destruct (b_tree_view d b l Hbw Hbv) as (t & Ht & Hfl & Hwf). exists t.
  split; [exact Ht|]. split; [exact Hwf|]. subst m. eapply cursor_agrees_ovl; eauto.
Qed.

Theorem ovl_tree_agrees : forall d path b m, ovl_wf d b -> OvlAbs d b m ->
  match ref_at path m with
  | AtBucket c => exists t, ovl_tree d b path = Ok t /\ NH.wf_tree_nh t = true /\ cursor_agrees t c
  | AtMissing => ovl_tree d b path = Err "BucketMissing"%string
  | AtIncompat => ovl_tree d b path = Err "IncompatibleValue"%string
  end.
Proof.
  intros d path b m Hw Ha. pose proof (ovl_bucket_refines d path b m Hw Ha) as H. unfold ovl_tree.
  destruct (ref_at path m) as [c| |]; [|now rewrite H|now rewrite H].
  destruct H as (bk & -> & Hwk & Hak). cbn [bind].
  destruct (ovl_bucket_agrees d bk c Hwk Hak) as (t & -> & Hwf & Hag). exists t. auto.
Qed.

(* ALL FOUR READS of the cursor API inside a write transaction, at any path, after any operations:
   get, full scan, range scan (every kind of bound), seek followed by iteration = the reference's answers on the
   bucket at that path in [sem_tx ops (abs_db st)] *)
Theorem tx_cursor_agrees : forall st ops root' s', db_pages_wf st -> Forall (op_ok (d_disk st)) ops ->
  tx_fold st ops (root_bucket st, begin_w st) = Ok (root', s') ->
  forall path o x es, Spec.get_at path (sem_tx ops (abs_db st)) = Some (SBucket o x es) ->
    exists t, ovl_tree (d_disk st) root' path = Ok t /\ NH.wf_tree_nh t = true /\
      cursor_agrees t (SBucket o x es).
Proof.
  intros st ops root' s' Hdb Hok Hf path o x es Hg.
  destruct (ops_refine st ops Hdb Hok) as (r1 & s1 & Hf1 & Hw & Ha & _).
  rewrite Hf in Hf1. inversion Hf1; subst r1 s1.
  pose proof (ovl_tree_agrees (d_disk st) path root' _ Hw Ha) as H.
  pose proof (ref_at_get_at path _ (OvlAbs_is_bucket _ _ _ Ha)) as Hr. rewrite Hg in Hr. now rewrite Hr in H.
Qed.

(* ... on the executable tx_cget / tx_range / tx_seek *)
Corollary tx_reads_cursor : forall st ops path o x es, db_pages_wf st -> Forall (op_ok (d_disk st)) ops ->
  Spec.get_at path (sem_tx ops (abs_db st)) = Some (SBucket o x es) ->
  let b := SBucket o x es in
  (forall k, tx_cget st ops path k = Ok (ref_get b k)) /\
  tx_scan st ops path = Ok (CVal (Spec.items_of b)) /\
  (forall lo hi, tx_range st ops path lo hi =
     Ok (CVal (filter (fun i => Spec.in_bounds lo hi (Spec.item_key i)) (Spec.items_of b)))) /\
  (forall k, exists l, tx_seek st ops path k = Ok (ref_found b k, CVal l) /\
     if ref_found b k then l = Spec.from_succ k (Spec.items_of b)
     else l = Spec.from_pred k (Spec.items_of b) \/ l = Spec.from_succ k (Spec.items_of b)).
Proof.
  intros st ops path o x es Hdb Hok Hg b.
  destruct (ops_refine st ops Hdb Hok) as (r1 & s1 & Hf & _).
  destruct (tx_cursor_agrees st ops r1 s1 Hdb Hok Hf path o x es Hg) as (t & Ht & _ & Hget & Hscan & Hrange & Hseek).
  unfold tx_cget, tx_scan, tx_range, tx_seek, ovl_cget, ovl_scan, ovl_range, ovl_seek.
  rewrite tx_state_fold, Hf. cbn [bind]. rewrite Ht. cbn [bind]. split; [|split; [|split]].
  - intros k. now rewrite Hget.
  - now rewrite Hscan.
  - intros lo hi. now rewrite Hrange.
  - intros k. destruct (Hseek k) as (l & Hs & Hl). exists l. split; [now rewrite Hs | exact Hl].
Qed.

(* the errors are the same for all of them: they are those of [ovl_tree] ([tx_scans]) *)

(* ====================================================================== *)
(** * 5. The statements of section 2 in the vocabulary of model/EngineScan.v, and the point read *)

Corollary otree_node_neb : forall d h n l fuel, wf_node d n -> NodeView d h n l -> h <= S fuel ->
  exists t, otree_node fuel d n = Some t /\ flatten t = map ovl_ent l /\ no_empty_branch t = true.
Proof.
  intros d h n l fuel Hw Hv Hf. destruct (otree_node_view d h n l fuel Hw Hv Hf) as (t & Ht & Hfl & Hnh).
  exists t. split; [exact Ht|]. split; [now rewrite map_ovl_ent | now apply NH.wf_nh_neb].
Qed.

Corollary otree_page_neb : forall d h p l fuel, wf_page d p -> PageView d h p l -> h <= fuel ->
  exists t, otree_page fuel d p = Some t /\ flatten t = map ovl_ent l /\ no_empty_branch t = true.
Proof.
  intros d h p l fuel Hw Hv Hf. destruct (otree_page_view d h p l fuel Hw Hv Hf) as (t & Ht & Hfl & Hnh).
  exists t. split; [exact Ht|]. split; [now rewrite map_ovl_ent | now apply NH.wf_nh_neb].
Qed.

(* [wf_node] cannot be dropped: a view alone allows a branch without entries, whose tree the cursor panics on *)
Example neb_needs_wf :
  let n := Node 5 1 None 0 (Branches []) [] in
  NodeView [] 1 n [] /\ otree_node 1 [] n = Some (TB 5 0 []) /\ no_empty_branch (TB 5 0 []) = false /\
  Cursor.scan (TB 5 0 []) = CPanic.
Proof.
  cbn zeta. split; [|vm_compute; repeat split; reflexivity].
  apply (NV_branch [] 0 5%N 1%N None 0%N [] [] []). constructor.
Qed.

(* the point read of the executable model is [ovl_lookup]: [tx_reads] speaks about [tx_get] *)
Corollary tx_get_reads : forall st ops path k, db_pages_wf st -> Forall (op_ok (d_disk st)) ops ->
  exists r, tx_get st ops path k = r /\ rd_matches k (ref_lookup path (sem_tx ops (abs_db st)) k) r.
Proof.
  intros st ops path k Hdb Hok. destruct (ops_refine st ops Hdb Hok) as (r1 & s1 & Hf & _).
  eexists. split; [reflexivity|]. unfold tx_get. rewrite tx_state_fold, Hf. cbn [bind]. rewrite ovl_get_lookup.
  exact (tx_reads st ops r1 s1 Hdb Hok Hf path k).
Qed.

Print Assumptions txm_step_eq.
Print Assumptions tx_state_fold.
Print Assumptions ovl_get_lookup.
Print Assumptions ovl_ent_eq.
Print Assumptions otree_page_tree_of.
Print Assumptions otree_page_view.
Print Assumptions otree_node_view.
Print Assumptions otree_node_neb.
Print Assumptions otree_page_neb.
Print Assumptions b_tree_view.
Print Assumptions b_tree_neb.
Print Assumptions ovl_bucket_refines.
Print Assumptions ovl_bucket_tree.
Print Assumptions ovl_tree_refines.
Print Assumptions tx_scans.
Print Assumptions tx_scan_spec.
Print Assumptions cursor_agrees_ovl.
Print Assumptions ovl_bucket_agrees.
Print Assumptions ovl_tree_agrees.
Print Assumptions tx_cursor_agrees.
Print Assumptions tx_reads_cursor.
Print Assumptions neb_needs_wf.
Print Assumptions tx_get_reads.
