(* THE BRIDGE between the write half (Engine / EngineAbs: abstract pages, [run_tx], refinement theorem
   [run_txs_refines_init']) and the read half (Codec / Tree / Cursor: decoded pages, [Tree.tree], the cursor machine,
   [get_spec] / [scan_spec]).

   1. [ent_of], [tree_of]: the [Tree.tree] stored below an engine page; [tree_of_flatten]:
      flatten t = map ent_of (page_ents F d root).
   2. [wf_nh] (= [Tree.wf_shape] without its equal-height conjunct), [uniform] (that conjunct), [wf_tree_split];
      [PInv_tree]: the engine's strict invariant [PInv] gives a tree, [wf_nh] of it, and global key order.
      [PInv] does NOT give equal leaf depth ([PInv_not_uniform], [db_okz_not_uniform]); the read half never uses it:
      [get_spec_nh], [scan_spec_nh], [seek_spec_nh], [range_spec_nh] are the read specifications from [wf_nh] + key
      order alone (module NH; the proofs are those of SearchFacts / SeekFacts with the weaker hypothesis).
   3. End to end: [cursor_agrees] (get / scan / range / seek = the reference's OGet / OScan / ORange / OSeek),
      [read_bucket], [read_at_path], [state_read], [history_read], [put_then_get].
   4. Byte level: [encode_decode_apage], [file_encodes], [build_tree_of], [history_read_bytes], and a file exists:
      [image_encodes], [history_image_read].

   Everything is closed under the global context (see the [Print Assumptions] at the end). *)
From Coq Require Import List NArith Bool Arith Lia ZifyN ZifyNat ZifyBool.
From Coq.Strings Require Import Byte.
From Jamm Require Spec Tree Cursor Codec CodecFacts BytesFacts.
From Jamm Require Import Bytes SearchFacts CursorFacts SeekFacts.
From Jamm Require Import Engine EngineAbs EngineFacts EngineSpillFacts EngineModifyFacts EngineBridgeFacts EngineRebalanceFacts.
From Jamm Require Import EngineTxInvFacts EngineRefines EngineOwnDefs EngineOwnSpill EngineAllocInv.
Import ListNotations.
Local Open Scope list_scope. Local Open Scope nat_scope.
Set Warnings "-abstract-large-number".
Arguments N.add : simpl never. Arguments N.sub : simpl never. Arguments N.mul : simpl never.
Arguments N.div : simpl never. Arguments N.ltb : simpl never. Arguments N.leb : simpl never.
Arguments N.eqb : simpl never.

Notation tree := Tree.tree.
Notation TL := Tree.TL.
Notation TB := Tree.TB.
Notation lent := Codec.lent.
Notation EKv := Codec.EKv.
Notation EBk := Codec.EBk.
Notation lent_key := Codec.lent_key.
Notation flatten := Tree.flatten.

(* ====================================================================== *)
(** * 1. From abstract pages to the decoded tree *)

Definition ent_of (e : leafent) : lent :=
  match e with LKv k v => EKv k v | LBk k r nx => EBk k r nx end.

Lemma lent_key_ent_of : forall e, lent_key (ent_of e) = lkey e.
Proof. intros [k v|k r nx]; reflexivity. Qed.

Lemma map_key_ent_of : forall l, map lent_key (map ent_of l) = map lkey l.
Proof. intros l. rewrite map_map. apply map_ext. apply lent_key_ent_of. Qed.

Lemma ent_of_inj : forall a b, ent_of a = ent_of b -> a = b.
Proof. intros [k v|k r nx] [k' v'|k' r' nx'] H; inversion H; reflexivity. Qed.

(* all-or-nothing map *)
Fixpoint omap {A B} (f : A -> option B) (l : list A) : option (list B) :=
  match l with
  | [] => Some []
  | x :: l' => match f x with
               | None => None
               | Some y => match omap f l' with None => None | Some ys => Some (y :: ys) end
               end
  end.

Lemma omap_Forall2 : forall {A B} (f : A -> option B) l ys, omap f l = Some ys -> Forall2 (fun x y => f x = Some y) l ys.
Proof.
  induction l as [|x l IH]; intros ys H; cbn [omap] in H.
  - inversion H. constructor.
  - destruct (f x) as [y|] eqn:Ef; [|discriminate]. destruct (omap f l) as [ys'|] eqn:Eo; [|discriminate].
    inversion H; subst ys. constructor; [exact Ef | now apply IH].
Qed.

Lemma Forall2_omap : forall {A B} (f : A -> option B) l ys, Forall2 (fun x y => f x = Some y) l ys -> omap f l = Some ys.
Proof.
  intros A B f l ys H. induction H as [|x y l ys Hx _ IH]; [reflexivity|]. cbn [omap]. now rewrite Hx, IH.
Qed.

(* the tree below page [p]: a [Leaves] page is a tree leaf, a [Branches] page a tree branch over the trees of its
   children, with the same separators; page id and overflow count are carried along. [None]: a page is missing or
   the fuel (an upper bound on the height) is exhausted. *)
Fixpoint tree_of (fuel : nat) (d : disk) (p : N) : option tree :=
  match fuel with
  | O => None
  | S f =>
      match dget d p with
      | None => None
      | Some a =>
          match ap_body a with
          | Leaves l => Some (TL p (ap_over a) (map ent_of l))
          | Branches es =>
              option_map (TB p (ap_over a))
                (omap (fun e : bytes * N => option_map (pair (fst e)) (tree_of f d (snd e))) es)
          end
      end
  end.

(* the bucket rooted at page [r], as the read half sees it *)
Definition bucket_tree (d : disk) (r : N) : option tree := tree_of fuel0 d r.

Lemma tree_of_leaf : forall f d p a l, dget d p = Some a -> ap_body a = Leaves l ->
  tree_of (S f) d p = Some (TL p (ap_over a) (map ent_of l)).
Proof. intros f d p a l Hg Hb. cbn [tree_of]. now rewrite Hg, Hb. Qed.

Lemma tree_of_branch_inv : forall f d p a es t, dget d p = Some a -> ap_body a = Branches es ->
  tree_of (S f) d p = Some t ->
  exists ks, t = TB p (ap_over a) ks /\
    Forall2 (fun (e : bytes * N) (kt : bytes * tree) => fst kt = fst e /\ tree_of f d (snd e) = Some (snd kt)) es ks.
Proof.
  intros f d p a es t Hg Hb H. cbn [tree_of] in H. rewrite Hg, Hb in H.
  destruct (omap _ es) as [ks|] eqn:Eo; [|discriminate]. cbn [option_map] in H. inversion H; subst t.
  exists ks. split; [reflexivity|]. apply omap_Forall2 in Eo.
  eapply Forall2_impl; [|exact Eo]. cbn beta. intros e kt He.
  destruct (tree_of f d (snd e)) as [c|]; [|discriminate]. cbn [option_map] in He. inversion He. cbn [fst snd]. auto.
Qed.

Lemma tree_of_branch_intro : forall f d p a es ks, dget d p = Some a -> ap_body a = Branches es ->
  Forall2 (fun (e : bytes * N) (kt : bytes * tree) => fst kt = fst e /\ tree_of f d (snd e) = Some (snd kt)) es ks ->
  tree_of (S f) d p = Some (TB p (ap_over a) ks).
Proof.
  intros f d p a es ks Hg Hb H. cbn [tree_of]. rewrite Hg, Hb.
  rewrite (Forall2_omap _ es ks); [reflexivity|].
  eapply Forall2_impl; [|exact H]. cbn beta. intros e [k c] [E1 E2]. cbn [fst snd] in *. now rewrite E2, E1.
Qed.

(** ** [tree_of] and the engine's own reading [PageView] / [page_ents] *)

Lemma flat_map_concat_F2 : forall (ks : list (bytes * tree)) (ls : list (list leafent)),
  Forall2 (fun kt l => flatten (snd kt) = map ent_of l) ks ls ->
  flat_map (fun kt => flatten (snd kt)) ks = map ent_of (concat ls).
Proof.
  intros ks ls H. induction H as [|kt l ks ls Hx _ IH]; [reflexivity|].
  cbn [flat_map concat]. now rewrite map_app, Hx, IH.
Qed.

(* a page the engine can view has a tree, with the viewed entries as its leaves *)
Theorem PageView_tree : forall d h p l, PageView d h p l -> forall f, h <= f ->
  exists t, tree_of f d p = Some t /\ flatten t = map ent_of l /\ Tree.t_pid t = p.
Proof.
  intros d. induction h as [|h IH]; intros p l H f Hf; [inversion H|].
  destruct f as [|f]; [lia|].
  inversion H as [? ? a l0 Hg Hb | ? ? a es ls Hg Hb HF]; subst.
  - eexists. split; [eapply tree_of_leaf; eauto|]. split; reflexivity.
  - assert (Hks : exists ks, Forall2 (fun (e : bytes * N) (kt : bytes * tree) =>
                     fst kt = fst e /\ tree_of f d (snd e) = Some (snd kt)) es ks /\
                   Forall2 (fun kt l => flatten (snd kt) = map ent_of l) ks ls).
    { clear Hb Hg H. induction HF as [|e l0 es ls He _ IHr]; [exists []; split; constructor|].
      destruct IHr as (ks & H1 & H2). destruct (IH _ _ He f ltac:(lia)) as (c & Hc & Hfl & _).
      exists ((fst e, c) :: ks). split; constructor; cbn [fst snd]; auto. }
    destruct Hks as (ks & H1 & H2). exists (TB p (ap_over a) ks).
    split; [eapply tree_of_branch_intro; eauto|]. split; [|reflexivity].
    cbn [Tree.flatten]. now apply flat_map_concat_F2.
Qed.

(* conversely a tree is a view; so [tree_of] answers exactly where [PageView] holds *)
Theorem tree_of_PageView : forall f d p t, tree_of f d p = Some t ->
  exists l, PageView d f p l /\ flatten t = map ent_of l.
Proof.
  induction f as [|f IH]; intros d p t H; [discriminate|].
  cbn [tree_of] in H. destruct (dget d p) as [a|] eqn:Hg; [|discriminate].
  destruct (ap_body a) as [l|es] eqn:Hb.
  - inversion H; subst t. exists l. split; [eapply PV_leaf; eauto | reflexivity].
  - assert (H' : tree_of (S f) d p = Some t) by (cbn [tree_of]; now rewrite Hg, Hb).
    destruct (tree_of_branch_inv f d p a es t Hg Hb H') as (ks & -> & HF).
    assert (Hls : exists ls, Forall2 (fun e l => PageView d f (snd e) l) es ls /\
                   Forall2 (fun (kt : bytes * tree) l => flatten (snd kt) = map ent_of l) ks ls).
    { clear H H' Hb Hg. induction HF as [|e kt es ks [_ He] _ IHr]; [exists []; split; constructor|].
      destruct IHr as (ls & H1 & H2). destruct (IH _ _ _ He) as (l0 & Hv & Hfl).
      exists (l0 :: ls). split; constructor; auto. }
    destruct Hls as (ls & H1 & H2). exists (concat ls). split; [eapply PV_branch; eauto|].
    cbn [Tree.flatten]. now apply flat_map_concat_F2.
Qed.

(* GOAL 1: the leaves of the tree are the entries the abstraction function [abs_bucket] reads *)
Theorem tree_of_flatten : forall f d p t, tree_of f d p = Some t -> forall F, f <= F ->
  flatten t = map ent_of (page_ents F d p).
Proof.
  intros f d p t H F HF. destruct (tree_of_PageView f d p t H) as (l & Hv & Hfl).
  now rewrite (PageView_page_ents d f p l Hv F HF).
Qed.

Lemma tree_of_mono : forall f d p t, tree_of f d p = Some t -> forall f', f <= f' -> tree_of f' d p = Some t.
Proof.
  induction f as [|f IH]; intros d p t H f' Hf; [discriminate|]. destruct f' as [|f']; [lia|].
  cbn [tree_of] in H. destruct (dget d p) as [a|] eqn:Hg; [|discriminate].
  destruct (ap_body a) as [l|es] eqn:Hb.
  - inversion H; subst t. eapply tree_of_leaf; eauto.
  - assert (H' : tree_of (S f) d p = Some t) by (cbn [tree_of]; now rewrite Hg, Hb).
    destruct (tree_of_branch_inv f d p a es t Hg Hb H') as (ks & -> & HF).
    eapply tree_of_branch_intro; eauto.
    eapply EngineModifyFacts.Forall2_impl; [|exact HF]. cbn beta. intros e kt [E1 E2]. split; [exact E1|].
    apply (IH _ _ _ E2). lia.
Qed.

(* ====================================================================== *)
(** * 2a. The read half without the equal-height demand

    [Tree.wf_shape] asks five things of a branch: non-empty, children well-formed, separators ascending,
    separators bounding the subtrees, all children of the same height. The engine's invariant [PInv] bounds the
    height but does not say that all leaves have the same depth (see [PInv_not_uniform] in section 2b), so
    [Tree.wf_tree] is NOT a consequence of [PInv]. The cursor's correctness never uses the height conjunct:
    [wf_nh] is [wf_shape] without it, and [get_spec_nh] / [scan_spec_nh] are [get_spec] / [scan_spec] from it. *)
Module NH.
Import Tree Cursor Spec.
Local Open Scope nat_scope.

Fixpoint wf_nh (t : tree) : bool :=
  match t with
  | TL _ _ _ => true
  | TB _ _ ks =>
      negb (match ks with [] => true | _ => false end) &&
      forallb (fun kt : bytes * tree => wf_nh (snd kt)) ks &&
      sorted_keys (map fst ks) &&
      seps_ok true (map (fun kt : bytes * tree => (fst kt, flatten (snd kt))) ks)
  end.
Fixpoint uniform (t : tree) : bool :=
  match t with
  | TL _ _ _ => true
  | TB _ _ ks =>
      forallb (fun kt : bytes * tree => uniform (snd kt)) ks &&
      match ks with
      | [] => true
      | (_, c) :: ks' => forallb (fun kt : bytes * tree => Nat.eqb (height (snd kt)) (height c)) ks'
      end
  end.
(* the read half's hypothesis without / with the height demand *)
Definition wf_tree_nh (t : tree) : bool := wf_nh t && sorted_keys (map lent_key (flatten t)).

Lemma forallb_andb : forall {A} (f g : A -> bool) l, forallb (fun x => f x && g x) l = forallb f l && forallb g l.
Proof.
  induction l as [|x l IH]; [reflexivity|]. cbn [forallb]. rewrite IH.
  destruct (f x), (g x), (forallb f l), (forallb g l); reflexivity.
Qed.

Lemma forallb_ext_in : forall {A} (f g : A -> bool) l, Forall (fun x => f x = g x) l -> forallb f l = forallb g l.
Proof. intros A f g l H. induction H as [|x l Hx _ IH]; [reflexivity|]. cbn [forallb]. now rewrite Hx, IH. Qed.

Theorem wf_shape_split : forall t, wf_shape t = wf_nh t && uniform t.
Proof.
  induction t as [p o l | p o ks IH] using CursorFacts.tree_ind'; [reflexivity|].
  cbn [wf_shape wf_nh uniform].
  rewrite (forallb_ext_in (fun kt : bytes * tree => wf_shape (snd kt))
             (fun kt => wf_nh (snd kt) && uniform (snd kt)) ks IH).
  rewrite forallb_andb.
  destruct (negb _), (forallb (fun kt : bytes * tree => wf_nh (snd kt)) ks),
    (forallb (fun kt : bytes * tree => uniform (snd kt)) ks), (sorted_keys (map fst ks)), (seps_ok true _);
    cbn [andb]; try reflexivity; destruct ks as [|[k c] ks']; try reflexivity;
    destruct (forallb _ ks'); reflexivity.
Qed.

Corollary wf_tree_split : forall t, wf_tree t = wf_tree_nh t && uniform t.
Proof.
  intros t. unfold wf_tree, wf_tree_nh. rewrite wf_shape_split.
  destruct (wf_nh t), (uniform t), (sorted_keys _); reflexivity.
Qed.

Lemma wf_nh_TB : forall p o ks, wf_nh (TB p o ks) = true ->
  ks <> [] /\
  (forall kt, In kt ks -> wf_nh (snd kt) = true) /\
  seps_ok true (map fl ks) = true /\ sorted_keys (map fst ks) = true.
Proof.
  intros p o ks H. cbn [wf_nh] in H.
  apply andb_true_iff in H. destruct H as [H H4].
  apply andb_true_iff in H. destruct H as [H H3].
  apply andb_true_iff in H. destruct H as [H1 H2].
  split; [|split; [|split]].
  - destruct ks; [discriminate | discriminate].
  - intros kt Hin. rewrite forallb_forall in H2. now apply H2.
  - exact H4.
  - exact H3.
Qed.

Lemma wf_nh_seps_sorted : forall t, wf_nh t = true -> seps_sorted t = true.
Proof.
  induction t as [p o l | p o ks IH] using CursorFacts.tree_ind'; intros Hwf; [reflexivity|].
  destruct (wf_nh_TB p o ks Hwf) as (_ & Hwc & _ & Hs).
  cbn [seps_sorted]. apply andb_true_iff. split.
  - now apply sorted_keys_tl'.
  - apply forallb_forall. intros kt Hin. rewrite Forall_forall in IH. apply IH; auto.
Qed.

Lemma wf_nh_neb : forall t, wf_nh t = true -> no_empty_branch t = true.
Proof.
  induction t as [p o l | p o ks IH] using CursorFacts.tree_ind'; intros Hwf; [reflexivity|].
  destruct (wf_nh_TB p o ks Hwf) as (Hne & Hwc & _).
  cbn [no_empty_branch]. apply andb_true_iff. split.
  - destruct ks; [congruence | reflexivity].
  - apply forallb_forall. intros kt Hin. rewrite Forall_forall in IH. apply IH; auto.
Qed.

(** ** [SearchFacts.branch_split], [search_path_wf], [get_spec_gen] with [wf_nh] in place of [wf_shape]
    (the proofs are the originals: they only ever used [wf_shape_TB], which drops the height conjunct) *)
Lemma branch_split_nh : forall p o ks k,
  wf_nh (TB p o ks) = true -> sorted_keys (tl (map fst ks)) = true ->
  exists ks1 kc c ks2,
    ks = ks1 ++ (kc, c) :: ks2 /\ length ks1 = fst (index_of (TB p o ks) k) /\
    (forall e, In e (flat_map (fun kt => flatten (snd kt)) ks1) -> bcmp (lent_key e) k = Lt) /\
    (forall e, In e (flat_map (fun kt => flatten (snd kt)) ks2) -> bcmp (lent_key e) k = Gt).
Proof.
  intros p o ks k Hwf Hss.
  destruct (wf_nh_TB p o ks Hwf) as (Hne & _ & Hseps & _).
  rewrite index_of_slot. cbn [keys_of].
  assert (Hkne : map fst ks <> []) by (destruct ks; [congruence | discriminate]).
  destruct (slot_spec (map fst ks) k Hkne (sorted_from1_of_tl _ Hss)) as (Hs & Hlo & Hhi).
  cbv zeta in Hs, Hlo, Hhi. remember (slot (map fst ks) k) as s eqn:Es. clear Es.
  rewrite map_length in Hs, Hhi.
  assert (Hkey : forall j, nth j (map fst ks) [] = fst (nth j ks dkt)).
  { intros j. change (@nil byte) with (fst dkt). apply map_nth. }
  assert (Hfl : forall j, nth j (map fl ks) ([], []) = fl (nth j ks dkt)).
  { intros j. change (@nil byte, @nil lent) with (fl dkt). apply map_nth. }
  pose proof (seps_ok_nth (map fl ks) true Hseps) as Hsep. rewrite map_length in Hsep.
  exists (firstn s ks), (fst (nth s ks dkt)), (snd (nth s ks dkt)), (skipn (S s) ks).
  split; [|split; [|split]].
  - rewrite <- surjective_pairing. apply split_at_nth. exact Hs.
  - apply firstn_length_le. lia.
  - intros e Hin. apply in_flat_map in Hin. destruct Hin as (kt & Hkt & He).
    destruct (In_firstn_nth dkt s ks kt Hkt) as (j & Hjs & Hjl & Hn). subst kt.
    destruct (Hsep j Hjl) as [_ Hlt]. specialize (Hlt ltac:(lia)).
    rewrite !Hfl in Hlt. cbn [fl fst snd] in Hlt.
    unfold all_keys_lt in Hlt. rewrite forallb_forall in Hlt. specialize (Hlt e He).
    apply blt_true in Hlt. eapply bcmp_lt_le_trans; [exact Hlt|].
    rewrite <- Hkey. apply Hlo; lia.
  - intros e Hin. apply in_flat_map in Hin. destruct Hin as (kt & Hkt & He).
    destruct (In_skipn_nth dkt (S s) ks kt Hkt) as (j & Hjs & Hjl & Hn). subst kt.
    destruct (Hsep j Hjl) as [Hge _]. specialize (Hge ltac:(left; lia)).
    rewrite !Hfl in Hge. cbn [fl fst snd] in Hge.
    unfold all_keys_ge in Hge. rewrite forallb_forall in Hge. specialize (Hge e He).
    apply ble_true in Hge. apply bcmp_lt_gt. eapply bcmp_lt_le_trans; [|exact Hge].
    apply bcmp_lt_gt. rewrite <- Hkey. apply Hhi; lia.
Qed.


Theorem search_path_nh : forall k fuel t acc ex st,
  height t < fuel -> wf_nh t = true -> seps_sorted t = true ->
  search fuel t k acc = (ex, st) ->
  exists lf i pre before after,
    st = ((lf, i) :: pre) ++ acc /\ descent k t ((lf, i) :: pre) /\
    is_leaf lf = true /\ index_of lf k = (i, ex) /\
    flatten t = before ++ flatten lf ++ after /\
    (forall e, In e before -> bcmp (lent_key e) k = Lt) /\
    (forall e, In e after -> bcmp (lent_key e) k = Gt).
Proof.
  intros k. induction fuel as [|f IH]; intros t acc ex st Hn Hwf Hss H.
  { lia. }
  cbn [search] in H.
  destruct (index_of t k) as [i e] eqn:Ei.
  assert (Hi : i = fst (index_of t k)) by (now rewrite Ei).
  destruct t as [p o l | p o ks].
  - cbn [is_leaf] in H. inversion H; subst st e.
    exists (TL p o l), i, [], [], []. cbn [app flatten]. rewrite app_nil_r.
    repeat split; auto.
    + rewrite Hi. constructor.
    + intros e0 [].
    + intros e0 [].
  - cbn [is_leaf] in H.
    destruct (seps_sorted_TB p o ks Hss) as [Hsk Hsc].
    destruct (wf_nh_TB p o ks Hwf) as (_ & Hwc & _).
    destruct (branch_split_nh p o ks k Hwf Hsk) as (ks1 & kc & c & ks2 & Hks & Hlen & Hbef & Haft).
    rewrite <- Hi in Hlen.
    assert (Hin : In (kc, c) ks) by (rewrite Hks; apply in_or_app; right; now left).
    assert (Hc : child_at (TB p o ks) i = Some c).
    { cbn [child_at]. rewrite Hks, nth_error_app2 by lia.
      replace (i - length ks1) with 0 by lia. reflexivity. }
    rewrite Hc in H.
    pose proof (height_child_lt p o ks (kc, c) Hin) as Hnc. cbn [snd] in Hnc.
    destruct (IH c _ ex st ltac:(lia) (Hwc _ Hin) (Hsc _ Hin) H)
      as (lf & j & pre & b & a & Hst & Hd & Hlf & Hidx & Hfl & Hb & Ha).
    exists lf, j, (pre ++ [(TB p o ks, i)]),
           (flat_map (fun kt => flatten (snd kt)) ks1 ++ b),
           (a ++ flat_map (fun kt => flatten (snd kt)) ks2).
    split; [|split; [|split; [|split; [|split; [|split]]]]].
    + rewrite Hst. cbn [app]. now rewrite <- app_assoc.
    + change ((lf, j) :: pre ++ [(TB p o ks, i)]) with (((lf, j) :: pre) ++ [(TB p o ks, i)]).
      rewrite Hi. apply descent_step with (c := c); [rewrite <- Hi; exact Hc | exact Hd].
    + exact Hlf.
    + exact Hidx.
    + cbn [flatten]. rewrite Hks, flat_map_app. cbn [flat_map snd]. rewrite Hfl.
      now rewrite <- !app_assoc.
    + intros e0 He. apply in_app_or in He. destruct He; auto.
    + intros e0 He. apply in_app_or in He. destruct He; auto.
Qed.


Theorem get_spec_nh : forall t k, wf_tree_nh t = true ->
  Cursor.get t k = option_map Cursor.to_item (find (fun e => beq (lent_key e) k) (flatten t)).
Proof.
  intros t k Hwf. unfold wf_tree_nh in Hwf. apply andb_true_iff in Hwf. destruct Hwf as [Hsh Hsorted].
  pose proof (wf_nh_seps_sorted t Hsh) as Hss. unfold get. destruct (search (S (nodes t)) t k []) as [ex st] eqn:Es.
  destruct (search_path_nh k (S (nodes t)) t [] ex st ltac:(pose proof (height_le_nodes t); lia) Hsh Hss Es)
    as (lf & i & pre & b & a & Hst & _ & Hlf & Hidx & Hfl & Hb & Ha).
  subst st. cbn [app].
  destruct lf as [p o l | ]; [|discriminate]. cbn [flatten] in Hfl.
  rewrite Hfl in Hsorted. rewrite !map_app in Hsorted.
  apply sorted_keys_app in Hsorted. destruct Hsorted as [_ Hsorted].
  apply sorted_keys_app in Hsorted. destruct Hsorted as [Hsl _].
  rewrite (leaf_lookup p o l k i ex Hsl Hidx).
  rewrite Hfl, !find_app.
  rewrite (find_none_all _ b) by (intros e He; apply beq_false_lt; auto).
  rewrite (find_none_all _ a) by (intros e He; apply beq_false_gt; auto).
  now destruct (find _ l).
Qed.


(* the entry the cursor stands on after an exact search: [Cursor.get] before its [to_item] (this is how the library
   opens a nested bucket: seek to the name, read root page and counter from the leaf element) *)
Definition get_ent (t : tree) (k : bytes) : option lent :=
  let '(ex, st) := search (S (nodes t)) t k [] in
  if ex then match st with (lf, i) :: _ => val_at lf i | [] => None end else None.

Lemma get_get_ent : forall t k, Cursor.get t k = option_map Cursor.to_item (get_ent t k).
Proof.
  intros t k. unfold get, get_ent. destruct (search (S (nodes t)) t k []) as [ex st].
  destruct ex; [|reflexivity]. destruct st as [|[lf i] st']; reflexivity.
Qed.

Lemma leaf_lookup_ent : forall p o l k i ex,
  sorted_keys (map lent_key l) = true -> index_of (TL p o l) k = (i, ex) ->
  (if ex then val_at (TL p o l) i else None) = find (fun e => beq (lent_key e) k) l.
Proof.
  intros p o l k i ex Hs Hidx. unfold index_of in Hidx. cbn [keys_of] in Hidx.
  destruct (bsearch (map lent_key l) k) as [[|] i'] eqn:Eb; inversion Hidx; subst.
  - apply bsearch_found in Eb; [|exact Hs]. rewrite nth_error_map in Eb.
    cbn [val_at]. destruct (nth_error l i) as [e|] eqn:En; [|discriminate].
    cbn in Eb. inversion Eb as [Hk].
    now rewrite (find_sorted_leaf l i e (lent_key e) Hs En eq_refl).
  - pose proof (bsearch_missing_notin _ _ _ Hs Eb) as Hnot.
    rewrite find_none_all; [reflexivity|].
    intros e He. destruct (beq (lent_key e) k) eqn:E; [|reflexivity].
    apply beq_true in E. exfalso. apply Hnot. rewrite <- E. now apply in_map.
Qed.

Theorem get_ent_spec_nh : forall t k, wf_tree_nh t = true ->
  get_ent t k = find (fun e => beq (lent_key e) k) (flatten t).
Proof.
  intros t k Hwf. unfold wf_tree_nh in Hwf. apply andb_true_iff in Hwf. destruct Hwf as [Hsh Hsorted].
  pose proof (wf_nh_seps_sorted t Hsh) as Hss. unfold get_ent.
  destruct (search (S (nodes t)) t k []) as [ex st] eqn:Es.
  destruct (search_path_nh k (S (nodes t)) t [] ex st ltac:(pose proof (height_le_nodes t); lia) Hsh Hss Es)
    as (lf & i & pre & b & a & Hst & _ & Hlf & Hidx & Hfl & Hb & Ha).
  subst st. cbn [app].
  destruct lf as [p o l | ]; [|discriminate]. cbn [flatten] in Hfl.
  rewrite Hfl in Hsorted. rewrite !map_app in Hsorted.
  apply sorted_keys_app in Hsorted. destruct Hsorted as [_ Hsorted].
  apply sorted_keys_app in Hsorted. destruct Hsorted as [Hsl _].
  rewrite (leaf_lookup_ent p o l k i ex Hsl Hidx).
  rewrite Hfl, !find_app.
  rewrite (find_none_all _ b) by (intros e He; apply beq_false_lt; auto).
  rewrite (find_none_all _ a) by (intros e He; apply beq_false_gt; auto).
  now destruct (find _ l).
Qed.

Theorem scan_spec_nh : forall t, wf_nh t = true -> scan t = CVal (map Cursor.to_item (flatten t)).
Proof. intros t Hwf. apply cursor_all. now apply wf_nh_neb. Qed.

(** ** [SeekFacts]' seek / range specifications with [wf_tree_nh] in place of [wf_tree] (proofs: the originals) *)
Lemma wf_tree_nh_parts : forall t, wf_tree_nh t = true ->
  wf_nh t = true /\ sorted_keys (map lent_key (flatten t)) = true /\ no_empty_branch t = true.
Proof.
  intros t H. unfold wf_tree_nh in H. apply andb_true_iff in H. destruct H as [H1 H2].
  repeat split; auto. now apply wf_nh_neb.
Qed.

Corollary search_path_api_nh : forall k t ex st,
  wf_nh t = true ->
  search (S (nodes t)) t k [] = (ex, st) ->
  exists lf i pre before after,
    st = (lf, i) :: pre /\ descent k t st /\
    is_leaf lf = true /\ index_of lf k = (i, ex) /\
    flatten t = before ++ flatten lf ++ after /\
    (forall e, In e before -> bcmp (lent_key e) k = Lt) /\
    (forall e, In e after -> bcmp (lent_key e) k = Gt).
Proof.
  intros k t ex st Hwf H. pose proof (wf_nh_seps_sorted t Hwf) as Hss.
  destruct (search_path_nh k (S (nodes t)) t [] ex st
              ltac:(pose proof (height_le_nodes t); lia) Hwf Hss H)
    as (lf & i & pre & b & a & Hst & Hd & Hlf & Hidx & Hfl & Hb & Ha).
  rewrite app_nil_r in Hst. subst st.
  exists lf, i, pre, b, a. repeat split; assumption.
Qed.

Lemma descent_split_nh : forall k t st, descent k t st -> wf_nh t = true ->
  forall lf i pre, st = (lf, i) :: pre ->
  exists B, flatten t = B ++ flatten lf ++ after_e pre /\ keys_lt B k /\ keys_gt (after_e pre) k.
Proof.
  intros k t st H. induction H as [t | t c st Hc Hd IH]; intros Hwf lf i pre Hst.
  - inversion Hst; subst. exists []. cbn [app after flat_map]. rewrite app_nil_r.
    repeat split; intros e [].
  - destruct st as [|[lf0 i0] pre0]; [exfalso; eapply descent_nonempty; eauto|].
    cbn [app] in Hst. inversion Hst; subst lf0 i0 pre. clear Hst.
    destruct (child_at_inv _ _ _ Hc) as (p & o & ks & kc0 & -> & Hnth).
    pose proof (wf_nh_seps_sorted _ Hwf) as Hss.
    destruct (seps_sorted_TB p o ks Hss) as [Hsk _].
    destruct (wf_nh_TB p o ks Hwf) as (_ & Hwc & _).
    destruct (branch_split_nh p o ks k Hwf Hsk) as (ks1 & kc & c' & ks2 & Hks & Hlen & Hbef & Haft).
    remember (fst (index_of (TB p o ks) k)) as s eqn:Es.
    assert (Hcc : (kc0, c) = (kc, c')).
    { rewrite Hks, nth_error_app2 in Hnth by lia.
      replace (s - length ks1) with 0 in Hnth by lia. cbn in Hnth. congruence. }
    inversion Hcc; subst kc0 c'. clear Hcc.
    assert (Hin : In (kc, c) ks) by (rewrite Hks; apply in_or_app; right; now left).
    destruct (IH (Hwc _ Hin) lf i pre0 eq_refl) as (B & Hfl & HB & HA).
    exists (flat_map (fun kt => flatten (snd kt)) ks1 ++ B).
    clear Hnth Hc Hwf Hss Hsk Hwc Hin IH. subst ks.
    rewrite after_e_snoc, <- Hlen, frame_after_branch.
    split; [|split].
    + cbn [flatten]. rewrite flat_map_app. cbn [flat_map snd]. rewrite Hfl.
      now rewrite <- !app_assoc.
    + apply keys_lt_app; assumption.
    + apply keys_gt_app; assumption.
Qed.

Theorem search_pos_nh : forall t k ex st, wf_tree_nh t = true ->
  search (S (nodes t)) t k [] = (ex, st) ->
  exists lf i pre, st = (lf, i) :: pre /\ is_leaf lf = true /\
    wf_stack t st /\ settled st /\ top_ok st /\ seek_pos t k lf ex st.
Proof.
  intros t k ex st Hwf Hs. destruct (wf_tree_nh_parts t Hwf) as (Hsh & Hsorted & _).
  destruct (search_path_api_nh k t ex st Hsh Hs)
    as (lf & i & pre & _ & _ & Hst & Hd & Hlf & Hidx & _).
  destruct (descent_split_nh k t st Hd Hsh lf i pre Hst) as (B & Hfl & HB & HA).
  exists lf, i, pre. split; [exact Hst|]. split; [exact Hlf|].
  split; [eapply descent_wf_stack; eauto|].
  destruct lf as [p o L|]; [|discriminate]. cbn [flatten] in Hfl.
  assert (HsL : sorted_keys (map lent_key L) = true).
  { rewrite Hfl, !map_app in Hsorted.
    apply sorted_keys_app in Hsorted. destruct Hsorted as [_ Hsorted].
    apply sorted_keys_app in Hsorted. apply Hsorted. }
  subst st. split; [reflexivity|].
  assert (Hfrom : from_e ((TL p o L, i) :: pre) = skipn i L ++ after_e pre) by reflexivity.
  assert (Hcur : current ((TL p o L, i) :: pre) = CVal (option_map Cursor.to_item (nth_error L i)))
    by reflexivity.
  destruct (leaf_pos p o L k i ex HsL Hidx)
    as [(-> & e & Hn & Hk & Hf & Hg) | [(-> & e & Hn & Hk & Hf & Hg) | (-> & -> & Hg)]].
  - split.
    { cbn [top_ok]. right. rewrite tlen_TL. apply nth_error_Some. congruence. }
    apply (sp_exact _ _ _ _ _ (B ++ firstn i L) e (skipn (S i) L ++ after_e pre)); auto.
    + cbn [flatten]. eapply nth_error_In; eauto.
    + apply keys_lt_app; assumption.
    + apply keys_gt_app; assumption.
    + rewrite Hfl. rewrite <- (firstn_skipn i L) at 1. rewrite (skipn_nth_error _ _ _ Hn).
      now rewrite <- !app_assoc.
    + rewrite Hfrom, (skipn_nth_error _ _ _ Hn). reflexivity.
    + rewrite Hcur, Hn. reflexivity.
  - split.
    { cbn [top_ok]. right. rewrite tlen_TL. apply nth_error_Some. congruence. }
    apply (sp_pred _ _ _ _ _ (B ++ firstn i L) e (skipn (S i) L ++ after_e pre)); auto.
    + cbn [flatten]. eapply nth_error_In; eauto.
    + apply keys_lt_app; assumption.
    + apply keys_gt_app; assumption.
    + rewrite Hfl. rewrite <- (firstn_skipn i L) at 1. rewrite (skipn_nth_error _ _ _ Hn).
      now rewrite <- !app_assoc.
    + rewrite Hfrom, (skipn_nth_error _ _ _ Hn). reflexivity.
    + rewrite Hcur, Hn. reflexivity.
  - split; [cbn [top_ok]; now left|].
    apply (sp_succ _ _ _ _ _ B (L ++ after_e pre)); auto.
    + apply keys_gt_app; assumption.
    + rewrite Hcur. destruct L as [|e0 L']; [now left|]. right. exists e0.
      split; [reflexivity|]. apply Hg. now left.
Qed.

Theorem seek_spec_precise_nh : forall t k, wf_tree_nh t = true ->
  let items := map Cursor.to_item (flatten t) in
  exists ex lf i pre l,
    search (S (nodes t)) t k [] = (ex, (lf, i) :: pre) /\ is_leaf lf = true /\
    seek_scan t k = (ex, CVal l) /\
    (ex = true <-> In k (map lent_key (flatten t))) /\
    l = (if ex then from_succ k items
         else if leaf_has_lt lf k then from_pred k items else from_succ k items).
Proof.
  intros t k Hwf items. destruct (wf_tree_nh_parts t Hwf) as (Hsh & Hsorted & Hneb).
  destruct (search (S (nodes t)) t k []) as [ex st] eqn:Es.
  destruct (search_pos_nh t k ex st Hwf Es) as (lf & i & pre & Hst & Hlf & Hwfs & Hset & Htop & Hpos).
  pose proof (next_yields_seek t (S (nodes t)) st Hneb (Nat.lt_succ_diag_r _) Hwfs Hset Htop) as Hy.
  pose proof (from_e_bound t st Hwfs) as Hb.
  pose proof (iterate_yields t (S (nodes t)) Hneb (Nat.lt_succ_diag_r _) _ _ (S (nodes t)) Hy
                ltac:(lia)) as Hit.
  exists ex, lf, i, pre, (map Cursor.to_item (from_e st)).
  split; [now rewrite Hst|]. split; [exact Hlf|].
  split; [rewrite (seek_scan_unfold t k ex st Es), Hit; reflexivity|].
  subst items.
  destruct Hpos as [A e G Hex Hk Hin HA HG Hfl Hfrom _
                   | A e G Hex Hk Hin HA HG Hfl Hfrom _
                   | A G Hex Hlfgt HA HG Hfl Hfrom _]; subst ex.
  - split.
    + split; [intros _|reflexivity]. rewrite Hfl, map_app. apply in_or_app. right. left. exact Hk.
    + rewrite Hfrom, Hfl. symmetry. apply from_succ_split; [exact HA|].
      intros x [<- | Hx]; [rewrite Hk; apply ble_refl | apply ble_of_gt; now apply HG].
  - split.
    + split; [discriminate|]. intros Hink. exfalso. rewrite Hfl in Hink.
      apply in_map_iff in Hink. destruct Hink as (x & Hxk & Hx).
      apply in_app_or in Hx. destruct Hx as [Hx | [<- | Hx]].
      * apply HA in Hx. rewrite Hxk, bcmp_refl in Hx. discriminate.
      * rewrite Hxk, bcmp_refl in Hk. discriminate.
      * apply HG in Hx. rewrite Hxk, bcmp_refl in Hx. discriminate.
    + assert (Hl : leaf_has_lt lf k = true).
      { unfold leaf_has_lt. apply existsb_exists. exists e. split; [exact Hin|]. now apply blt_true. }
      rewrite Hl, Hfrom, Hfl. symmetry. now apply from_pred_split.
  - split.
    + split; [discriminate|]. intros Hink. exfalso. rewrite Hfl in Hink.
      apply in_map_iff in Hink. destruct Hink as (x & Hxk & Hx).
      apply in_app_or in Hx. destruct Hx as [Hx | Hx].
      * apply HA in Hx. rewrite Hxk, bcmp_refl in Hx. discriminate.
      * apply HG in Hx. rewrite Hxk, bcmp_refl in Hx. discriminate.
    + assert (Hl : leaf_has_lt lf k = false).
      { unfold leaf_has_lt. destruct (existsb _ (flatten lf)) eqn:E; [|reflexivity].
        apply existsb_exists in E. destruct E as (x & Hx & Hlt). apply blt_true in Hlt.
        rewrite (Hlfgt x Hx) in Hlt. discriminate. }
      rewrite Hl, Hfrom, Hfl. symmetry. apply from_succ_split; [exact HA|].
      intros x Hx. apply ble_of_gt. now apply HG.
Qed.

Theorem seek_spec_nh : forall t k, wf_tree_nh t = true ->
  let items := map Cursor.to_item (flatten t) in
  exists ex l,
    seek_scan t k = (ex, CVal l) /\
    (ex = true <-> In k (map lent_key (flatten t))) /\
    (ex = true -> l = from_succ k items) /\
    (ex = false -> l = from_pred k items \/ l = from_succ k items).
Proof.
  intros t k Hwf items.
  destruct (seek_spec_precise_nh t k Hwf) as (ex & lf & i & pre & l & _ & _ & Hss & Hex & Hl).
  exists ex, l. split; [exact Hss|]. split; [exact Hex|]. fold items in Hl. split.
  - intros ->. exact Hl.
  - intros ->. destruct (leaf_has_lt lf k); auto.
Qed.

Lemma range_start_spec_nh : forall t lo, wf_tree_nh t = true ->
  exists c1, range_start (S (nodes t)) (new_cursor t) lo = CVal c1 /\
             next_yields t (S (nodes t)) c1 (filter (lo_f lo) (flatten t)).
Proof.
  intros t lo Hwf. destruct (wf_tree_nh_parts t Hwf) as (Hsh & Hsorted & Hneb).
  set (F := S (nodes t)). assert (HF : nodes t < F) by (unfold F; lia).
  unfold range_start, new_cursor. cbn [c_next_called].
  destruct lo as [s|s|].
  - (* inclusive *)
    unfold seek. cbn [c_root]. destruct (search F t s []) as [ex st] eqn:Es.
    destruct (search_pos_nh t s ex st Hwf Es) as (lf & i & pre & Hst & Hlf & Hwfs & Hset & Htop & Hpos).
    pose proof (next_yields_seek t F st Hneb HF Hwfs Hset Htop) as Hy. cbn [c_stack].
    destruct Hpos as [A e G Hex Hk Hin HA HG Hfl Hfrom Hcur
                     | A e G Hex Hk Hin HA HG Hfl Hfrom Hcur
                     | A G Hex Hlfgt HA HG Hfl Hfrom Hcur]; subst ex.
    + eexists. split; [reflexivity|]. rewrite Hfrom in Hy.
      replace (filter (lo_f (BIncl s)) (flatten t)) with (e :: G); [exact Hy|].
      rewrite Hfl. symmetry. apply filter_split; unfold lo_f; cbn [lo_ok].
      * intros x Hx. apply ble_of_lt. now apply HA.
      * intros x [<- | Hx]; [rewrite Hk; apply ble_refl | apply ble_of_gt; now apply HG].
    + rewrite Hcur, item_key_to_item. rewrite (proj2 (blt_true _ _) Hk).
      rewrite Hfrom in Hy. cbn [next_yields] in Hy. destruct Hy as (c' & Hnx & Hc' & Hrem).
      rewrite Hnx. exists c'. split; [reflexivity|].
      replace (filter (lo_f (BIncl s)) (flatten t)) with G.
      { rewrite <- Hrem. now apply next_yields_cinv. }
      rewrite Hfl. change (A ++ e :: G) with (A ++ [e] ++ G). rewrite app_assoc.
      symmetry. apply filter_split; unfold lo_f; cbn [lo_ok].
      * intros x Hx. apply ble_of_lt. apply in_app_or in Hx.
        destruct Hx as [Hx | [<- | []]]; [now apply HA | exact Hk].
      * intros x Hx. apply ble_of_gt. now apply HG.
    + assert (Hres : filter (lo_f (BIncl s)) (flatten t) = G).
      { rewrite Hfl. apply filter_split; unfold lo_f; cbn [lo_ok].
        - intros x Hx. apply ble_of_lt. now apply HA.
        - intros x Hx. apply ble_of_gt. now apply HG. }
      rewrite Hres. rewrite Hfrom in Hy.
      destruct Hcur as [Hcur | (e0 & Hcur & He0)]; rewrite Hcur.
      * eexists. split; [reflexivity | exact Hy].
      * rewrite item_key_to_item.
        assert (Hlt : blt (lent_key e0) s = false) by (unfold blt; now rewrite He0).
        rewrite Hlt. eexists. split; [reflexivity | exact Hy].
  - (* exclusive *)
    unfold seek. cbn [c_root]. destruct (search F t s []) as [ex st] eqn:Es.
    destruct (search_pos_nh t s ex st Hwf Es) as (lf & i & pre & Hst & Hlf & Hwfs & Hset & Htop & Hpos).
    pose proof (next_yields_seek t F st Hneb HF Hwfs Hset Htop) as Hy. cbn [c_stack].
    destruct Hpos as [A e G Hex Hk Hin HA HG Hfl Hfrom Hcur
                     | A e G Hex Hk Hin HA HG Hfl Hfrom Hcur
                     | A G Hex Hlfgt HA HG Hfl Hfrom Hcur]; subst ex.
    + rewrite Hcur, item_key_to_item. rewrite Hk, ble_refl.
      rewrite Hfrom in Hy. cbn [next_yields] in Hy. destruct Hy as (c' & Hnx & Hc' & Hrem).
      rewrite Hnx. exists c'. split; [reflexivity|].
      replace (filter (lo_f (BExcl s)) (flatten t)) with G.
      { rewrite <- Hrem. now apply next_yields_cinv. }
      rewrite Hfl. change (A ++ e :: G) with (A ++ [e] ++ G). rewrite app_assoc.
      symmetry. apply filter_split; unfold lo_f; cbn [lo_ok].
      * intros x Hx. apply in_app_or in Hx.
        destruct Hx as [Hx | [<- | []]]; [apply blt_of_lt; now apply HA | rewrite Hk; apply blt_irrefl].
      * intros x Hx. apply blt_of_gt. now apply HG.
    + rewrite Hcur, item_key_to_item.
      assert (Hle : ble (lent_key e) s = true) by (apply ble_true; rewrite Hk; discriminate).
      rewrite Hle.
      rewrite Hfrom in Hy. cbn [next_yields] in Hy. destruct Hy as (c' & Hnx & Hc' & Hrem).
      rewrite Hnx. exists c'. split; [reflexivity|].
      replace (filter (lo_f (BExcl s)) (flatten t)) with G.
      { rewrite <- Hrem. now apply next_yields_cinv. }
      rewrite Hfl. change (A ++ e :: G) with (A ++ [e] ++ G). rewrite app_assoc.
      symmetry. apply filter_split; unfold lo_f; cbn [lo_ok].
      * intros x Hx. apply blt_of_lt. apply in_app_or in Hx.
        destruct Hx as [Hx | [<- | []]]; [now apply HA | exact Hk].
      * intros x Hx. apply blt_of_gt. now apply HG.
    + assert (Hres : filter (lo_f (BExcl s)) (flatten t) = G).
      { rewrite Hfl. apply filter_split; unfold lo_f; cbn [lo_ok].
        - intros x Hx. apply blt_of_lt. now apply HA.
        - intros x Hx. apply blt_of_gt. now apply HG. }
      rewrite Hres. rewrite Hfrom in Hy.
      destruct Hcur as [Hcur | (e0 & Hcur & He0)]; rewrite Hcur.
      * eexists. split; [reflexivity | exact Hy].
      * rewrite item_key_to_item.
        assert (Hle : ble (lent_key e0) s = false) by (unfold ble; now rewrite He0).
        rewrite Hle. eexists. split; [reflexivity | exact Hy].
  - (* unbounded *)
    eexists. split; [reflexivity|].
    replace (filter (lo_f BUnb) (flatten t)) with (rem (new_cursor t)).
    + apply next_yields_cinv; auto. apply cinv_new.
    + symmetry. apply filter_all. reflexivity.
Qed.

Theorem range_spec_nh : forall t lo hi, wf_tree_nh t = true ->
  range_scan t lo hi
  = CVal (filter (fun i => in_bounds lo hi (item_key i)) (map Cursor.to_item (flatten t))).
Proof.
  intros t lo hi Hwf. destruct (wf_tree_nh_parts t Hwf) as (Hsh & Hsorted & Hneb).
  destruct (range_start_spec_nh t lo Hwf) as (c1 & Hstart & Hy).
  unfold range_scan.
  rewrite (range_iterate_first t (S (nodes t)) lo hi Hneb (Nat.lt_succ_diag_r _)
             (new_cursor t) c1 (filter (lo_f lo) (flatten t)) (S (nodes t)) Hstart Hy).
  - f_equal. rewrite (filter_map_to_item (fun x => in_bounds lo hi x)). f_equal.
    rewrite filter_filter. reflexivity.
  - now apply sorted_filter.
  - pose proof (filter_len (lo_f lo) (flatten t)). pose proof (flatten_le_nodes t). lia.
Qed.

Corollary range_spec_empty_nh : forall t lo hi, wf_tree_nh t = true ->
  (forall k, in_bounds lo hi k = false) -> range_scan t lo hi = CVal [].
Proof.
  intros t lo hi Hwf He. rewrite (range_spec_nh t lo hi Hwf). f_equal.
  apply filter_none. intros x _. apply He.
Qed.

(* with equal heights, everything else the read half proves applies as it stands *)
Lemma wf_tree_of_nh : forall t, wf_tree_nh t = true -> uniform t = true -> wf_tree t = true.
Proof. intros t H1 H2. now rewrite wf_tree_split, H1, H2. Qed.

End NH.
Import NH.

(* ====================================================================== *)
(** * 2b. The engine's invariant gives the read half's *)

Notation sorted_keys := Tree.sorted_keys.

(* children whose keys lie in the intervals [cbs] assigns them satisfy the separator check of [wf_shape] *)
Lemma seps_ok_cbs : forall (ksf : list (bytes * list lent)) (f : bytes -> option bytes) (first : bool) hi,
  Forall2 (fun kc b => Forall (inb (fst b) (snd b)) (map lent_key (snd kc))) ksf (cbs f (map fst ksf) hi) ->
  (first = false -> forall s, f s = Some s) ->
  Tree.seps_ok first ksf = true.
Proof.
  induction ksf as [|[k c] rest IH]; intros f first hi H Hf; [reflexivity|].
  cbn [map fst cbs] in H. inversion H as [|? ? ? ? Hc Hrest]; subst. cbn [fst snd] in Hc.
  cbn [Tree.seps_ok]. apply andb_true_iff. split; [apply andb_true_iff; split|].
  - destruct first; [reflexivity|]. cbn [orb]. unfold Tree.all_keys_ge. apply forallb_forall. intros e He.
    rewrite Forall_forall in Hc. destruct (Hc (lent_key e) (in_map _ _ _ He)) as [Hlo _].
    rewrite (Hf eq_refl k) in Hlo. cbn [le_lo] in Hlo. now apply ble_true.
  - destruct rest as [|[k' c'] rest']; [reflexivity|]. cbn [map fst nxt] in Hc.
    unfold Tree.all_keys_lt. apply forallb_forall. intros e He.
    rewrite Forall_forall in Hc. destruct (Hc (lent_key e) (in_map _ _ _ He)) as [_ Hhi].
    cbn [lt_hi] in Hhi. now apply blt_true.
  - apply (IH Some false hi Hrest). reflexivity.
Qed.

Lemma Forall2_same_length_nil : forall {A B} (R : A -> B -> Prop) xs ys, Forall2 R xs ys -> xs <> [] -> ys <> [].
Proof. intros A B R xs ys H Hne. destruct H; [congruence | discriminate]. Qed.

Lemma Forall2_map_fst_eq : forall {A B C} (R : A * B -> A * C -> Prop) xs ys,
  Forall2 R xs ys -> (forall x y, R x y -> fst y = fst x) -> map fst ys = map fst xs.
Proof. intros A B C R xs ys H Hr. induction H as [|x y xs ys Hx _ IH]; [reflexivity|]. cbn [map]. now rewrite IH, (Hr _ _ Hx). Qed.

(* three-way zip of Forall2 *)
Lemma Forall2_zip3 : forall {A B C} (P : A -> B -> Prop) (Q : A -> C -> Prop) (R : B -> C -> Prop) xs ys zs,
  Forall2 P xs ys -> Forall2 Q xs zs -> (forall x y z, P x y -> Q x z -> R y z) -> Forall2 R ys zs.
Proof.
  intros A B C P Q R xs ys zs HP. revert zs. induction HP as [|x y xs ys Hx _ IH]; intros zs HQ Hr.
  - inversion HQ. constructor.
  - inversion HQ as [|? z ? zs' Hz HQ']; subst. constructor; [eapply Hr; eauto | apply IH; auto].
Qed.

Lemma tree_keys_inb : forall h d lo hi ok q f t, PInv h d lo hi ok q -> tree_of f d q = Some t ->
  Forall (inb lo hi) (map lent_key (flatten t)).
Proof.
  intros h d lo hi ok q f t HP Ht. destruct (tree_of_PageView f d q t Ht) as (l & Hv & Hfl).
  rewrite Hfl, map_key_ent_of. eapply PInv_view_bounds; eauto.
Qed.

Theorem PInv_wf_nh : forall h d lo hi ok q f t, PInv h d lo hi ok q -> tree_of f d q = Some t -> wf_nh t = true.
Proof.
  induction h as [|h IH]; intros d lo hi ok q f t HP Ht; [destruct HP|].
  cbn [PInv] in HP. destruct HP as (a & Hg & _ & Hb).
  destruct f as [|f]; [discriminate|].
  destruct (ap_body a) as [l|es] eqn:Eb.
  - rewrite (tree_of_leaf f d q a l Hg Eb) in Ht. inversion Ht. reflexivity.
  - destruct Hb as (Hne & Hs & _ & _ & HC).
    destruct (tree_of_branch_inv f d q a es t Hg Eb Ht) as (ks & -> & HF).
    assert (Hfst : map fst ks = map fst es).
    { apply (Forall2_map_fst_eq _ _ _ HF). intros x y [E _]. exact E. }
    cbn [wf_nh]. repeat (apply andb_true_iff; split).
    + pose proof (Forall2_same_length_nil _ _ _ HF Hne) as Hk. destruct ks; [congruence | reflexivity].
    + apply forallb_forall. intros kt Hin.
      destruct (EngineRefines.Forall2_In_r _ _ _ _ HF Hin) as (e & He & _ & Hte).
      destruct (In_nth_error _ _ He) as [j Hj].
      destruct (Forall2_nth_error_l _ _ _ _ _ HC Hj) as (b & Hbj & HPj).
      eapply IH; eauto.
    + now rewrite Hfst.
    + apply (seps_ok_cbs _ (lo0 lo) true hi); [|discriminate].
      rewrite map_map. cbn [fst]. change (map (fun x : bytes * tree => fst x) ks) with (map fst ks).
      rewrite Hfst. fold (cbounds lo (map fst es) hi).
      assert (HZ : Forall2 (fun (b : option bytes * option bytes) (kt : bytes * tree) =>
                      Forall (inb (fst b) (snd b)) (map lent_key (flatten (snd kt))))
                     (cbounds lo (map fst es) hi) ks).
      { apply (Forall2_zip3 _ _ _ es _ _ HC HF). intros e b kt HPe [_ Hte]. eapply tree_keys_inb; eauto. }
      clear -HZ. induction HZ; cbn [map]; constructor; auto.
Qed.

(* GOAL 2: a strict page ([PInv]) has a tree; the tree passes the read half's checker minus the height demand;
   its keys lie in the page's interval; its leaves are what [abs_bucket] reads *)
Theorem PInv_tree : forall h d lo hi ok q, PInv h d lo hi ok q -> forall f, h <= f ->
  exists t, tree_of f d q = Some t /\ wf_tree_nh t = true /\
    Forall (inb lo hi) (map lent_key (flatten t)) /\
    (forall F, f <= F -> flatten t = map ent_of (page_ents F d q)).
Proof.
  intros h d lo hi ok q HP f Hf. destruct (PInv_PageView h d lo hi ok q HP) as [l Hv].
  destruct (PageView_tree d h q l Hv f Hf) as (t & Ht & Hfl & _). exists t.
  split; [exact Ht|]. split; [|split].
  - unfold wf_tree_nh. apply andb_true_iff. split; [eapply PInv_wf_nh; eauto|].
    rewrite Hfl, map_key_ent_of. eapply wf_page_sorted; [eapply PInv_wf_page; eauto | exact Hv].
  - eapply tree_keys_inb; eauto.
  - intros F HF. eapply tree_of_flatten; eauto.
Qed.

(* the two read specifications on the tree of a strict page *)
Corollary PInv_get : forall h d lo hi ok q f t k, PInv h d lo hi ok q -> tree_of f d q = Some t ->
  Cursor.get t k = option_map Cursor.to_item (find (fun e => beq (lent_key e) k) (flatten t)).
Proof.
  intros h d lo hi ok q f t k HP Ht. apply get_spec_nh.
  destruct (tree_of_PageView f d q t Ht) as (l & Hv & Hfl).
  unfold wf_tree_nh. apply andb_true_iff. split; [eapply PInv_wf_nh; eauto|].
  rewrite Hfl, map_key_ent_of. eapply wf_page_sorted; [eapply PInv_wf_page; eauto | exact Hv].
Qed.
Corollary PInv_scan : forall h d lo hi ok q f t, PInv h d lo hi ok q -> tree_of f d q = Some t ->
  Cursor.scan t = Cursor.CVal (map Cursor.to_item (flatten t)).
Proof. intros h d lo hi ok q f t HP Ht. apply scan_spec_nh. eapply PInv_wf_nh; eauto. Qed.

(** ** [PInv] does not give equal leaf depth: a strict tree the full checker [Tree.wf_tree] rejects, on which
    the cursor nevertheless answers correctly (as [PInv_get] says it must) *)
Module NotUniform.
Local Open Scope N_scope.
Definition ka : bytes := ["a"%byte]. Definition kc : bytes := ["c"%byte]. Definition ke : bytes := ["e"%byte].
(* root 3 = branch over leaf 4 and branch 5; branch 5 over leaf 6 *)
Definition dsk : disk :=
  [ (3, {| ap_over := 0; ap_body := Branches [(ka, 4); (kc, 5)] |});
    (4, {| ap_over := 0; ap_body := Leaves [LKv ka [x01]] |});
    (5, {| ap_over := 0; ap_body := Branches [(kc, 6)] |});
    (6, {| ap_over := 0; ap_body := Leaves [LKv kc [x02]; LKv ke [x03]] |}) ].
Definition tr : tree :=
  TB 3 0 [(ka, TL 4 0 [EKv ka [x01]]); (kc, TB 5 0 [(kc, TL 6 0 [EKv kc [x02]; EKv ke [x03]])])].
End NotUniform.

Example PInv_not_uniform :
  PInv 3 NotUniform.dsk None None None 3%N /\ NoDup (ppages 3 NotUniform.dsk 3%N) /\
  bucket_tree NotUniform.dsk 3%N = Some NotUniform.tr /\
  uniform NotUniform.tr = false /\ Tree.wf_tree NotUniform.tr = false /\ wf_tree_nh NotUniform.tr = true /\
  Cursor.get NotUniform.tr NotUniform.ke = Some (Spec.IKv NotUniform.ke [x03]).
Proof.
  split; [|split; [|repeat split; vm_compute; reflexivity]].
  - cbn [PInv]. eexists. split; [reflexivity|]. split; [exact I|]. cbn [ap_body].
    split; [discriminate|]. split; [reflexivity|].
    split; [repeat constructor; cbn; intuition (try discriminate; try lia)|].
    split; [Ex3.solve_inb|]. cbn [map fst cbounds cbs nxt lo0].
    apply Forall2_cons; [|apply Forall2_cons; [|apply Forall2_nil]]; cbn [fst snd].
    + Ex3.leaf_PInv.
    + eexists. split; [reflexivity|]. split; [reflexivity|]. cbn [ap_body].
      split; [discriminate|]. split; [reflexivity|]. split; [repeat constructor; cbn; intuition|].
      split; [Ex3.solve_inb|]. cbn [map fst cbounds cbs nxt lo0].
      apply Forall2_cons; [|apply Forall2_nil]; cbn [fst snd]. Ex3.leaf_PInv.
  - vm_compute. repeat constructor; cbn; intuition (try discriminate; try lia).
Qed.

(* ====================================================================== *)
(** * 3. End to end: what the cursor returns on a committed state is what the reference map returns *)

(* one entry of the abstraction function *)
Definition sn_of (f : nat) (d : disk) (e : leafent) : bytes * Spec.snode :=
  match e with LKv k v => (k, Spec.SVal v) | LBk k r nx => (k, abs_bucket f d r nx) end.

Lemma abs_bucket_S : forall f d r nx,
  abs_bucket (S f) d r nx = Spec.SBucket 0 nx (map (sn_of f d) (page_ents fuel0 d r)).
Proof. reflexivity. Qed.

Lemma abs_bucket_is_bucket : forall f d r nx, exists es, abs_bucket f d r nx = Spec.SBucket 0 nx es.
Proof. intros [|f] d r nx; eexists; reflexivity. Qed.

Lemma fst_sn_of : forall f d e, fst (sn_of f d e) = lkey e.
Proof. intros f d [k v|k r nx]; reflexivity. Qed.

(* the reference's item for an entry is the cursor's item for the decoded entry *)
Lemma to_item_sn_of : forall f d e, Spec.to_item (sn_of f d e) = Cursor.to_item (ent_of e).
Proof.
  intros f d [k v|k r nx]; [reflexivity|]. cbn [sn_of ent_of Cursor.to_item]. unfold Spec.to_item. cbn [fst snd].
  destruct (abs_bucket_is_bucket f d r nx) as [es ->]. reflexivity.
Qed.

(* on a list with ascending keys the reference's lookup is a plain search *)
Lemma alookup_find : forall {A} (g : leafent -> A) (l : list leafent) k, sorted_keys (map lkey l) = true ->
  Spec.alookup k (map (fun e => (lkey e, g e)) l) = option_map g (find (fun e => beq (lkey e) k) l).
Proof.
  intros A g l k. induction l as [|e l IH]; intros Hs; [reflexivity|].
  cbn [map] in Hs. destruct (sorted_keys_cons _ _ Hs) as [Hall Hs'].
  cbn [map Spec.alookup find]. destruct (bcmp k (lkey e)) eqn:E.
  - apply bcmp_eq in E. subst k. replace (beq (lkey e) (lkey e)) with true by (symmetry; now apply beq_true).
    reflexivity.
  - assert (E' : bcmp (lkey e) k = Gt) by now apply bcmp_lt_gt.
    rewrite (beq_false_gt _ _ E'). rewrite find_none_all; [reflexivity|].
    intros x Hx. apply beq_false_gt. apply bcmp_lt_gt.
    rewrite Forall_forall in Hall. eapply bcmp_lt_trans; [exact E|]. apply Hall. now apply in_map.
  - assert (E' : bcmp (lkey e) k = Lt) by now apply bcmp_lt_gt.
    rewrite (beq_false_lt _ _ E'). now apply IH.
Qed.

Lemma sn_of_eta : forall f d e, sn_of f d e = (lkey e, snd (sn_of f d e)).
Proof. intros f d [k v|k r nx]; reflexivity. Qed.

Lemma alookup_sn_of : forall f d l k, sorted_keys (map lkey l) = true ->
  Spec.alookup k (map (sn_of f d) l) = option_map (fun e => snd (sn_of f d e)) (find (fun e => beq (lkey e) k) l).
Proof.
  intros f d l k Hs. rewrite <- (alookup_find (fun e => snd (sn_of f d e)) l k Hs).
  f_equal. apply map_ext. apply sn_of_eta.
Qed.

Lemma find_map_ent_of : forall l k,
  find (fun e => beq (lent_key e) k) (map ent_of l) = option_map ent_of (find (fun e => beq (lkey e) k) l).
Proof.
  induction l as [|e l IH]; intros k; [reflexivity|]. cbn [map find]. rewrite lent_key_ent_of.
  destruct (beq (lkey e) k); [reflexivity | apply IH].
Qed.

(* what [sbk] says about one bucket, in the vocabulary of this file *)
Lemma sbk_bucket : forall n d r, sbk (S n) d r ->
  exists t l, bucket_tree d r = Some t /\ wf_tree_nh t = true /\ flatten t = map ent_of l /\
    page_ents fuel0 d r = l /\ sorted_keys (map lkey l) = true /\
    Forall (fun e => match e with LBk _ r' _ => sbk n d r' | LKv _ _ => True end) l.
Proof.
  intros n d r H. cbn [sbk] in H. destruct H as (h & l & Hh & HP & _ & Hv & HF).
  destruct (PageView_tree d h r l Hv fuel0 Hh) as (t & Ht & Hfl & _). exists t, l.
  split; [exact Ht|]. assert (Hs : sorted_keys (map lkey l) = true).
  { eapply wf_page_sorted; [eapply PInv_wf_page; eauto | exact Hv]. }
  split; [|split; [exact Hfl|split; [eapply PageView_page_ents; eauto|split; [exact Hs | exact HF]]]].
  unfold wf_tree_nh. apply andb_true_iff. split; [eapply PInv_wf_nh; eauto|].
  now rewrite Hfl, map_key_ent_of.
Qed.

(* the reference's answers on one bucket node *)
Definition ref_get (b : Spec.snode) (k : bytes) : option Spec.item :=
  option_map (fun c => Spec.to_item (k, c)) (Spec.alookup k (Spec.b_ents b)).

(* found flag of the reference's seek *)
Definition ref_found (b : Spec.snode) (k : bytes) : bool :=
  match Spec.alookup k (Spec.b_ents b) with Some _ => true | None => false end.

(* THE CURSOR ON TREE [t] AGREES WITH THE REFERENCE ON BUCKET NODE [b]: the four read operations of the API --
   get, full scan, range scan (all bound kinds), seek followed by iteration -- return what Spec.step returns for
   OGet / OScan / ORange / OSeek (for a seek of an absent key the reference allows the two neighbours) *)
Definition cursor_agrees (t : tree) (b : Spec.snode) : Prop :=
  (forall k, Cursor.get t k = ref_get b k) /\
  Cursor.scan t = Cursor.CVal (Spec.items_of b) /\
  (forall lo hi, Cursor.range_scan t lo hi
     = Cursor.CVal (filter (fun i => Spec.in_bounds lo hi (Spec.item_key i)) (Spec.items_of b))) /\
  (forall k, exists l, Cursor.seek_scan t k = (ref_found b k, Cursor.CVal l) /\
     if ref_found b k then l = Spec.from_succ k (Spec.items_of b)
     else l = Spec.from_pred k (Spec.items_of b) \/ l = Spec.from_succ k (Spec.items_of b)).

Lemma cursor_agrees_intro : forall t l f d o nx, wf_tree_nh t = true -> flatten t = map ent_of l ->
  sorted_keys (map lkey l) = true -> cursor_agrees t (Spec.SBucket o nx (map (sn_of f d) l)).
Proof.
  intros t l f d o nx Hwf Hfl Hs.
  assert (Hitems : map Cursor.to_item (flatten t) = Spec.items_of (Spec.SBucket o nx (map (sn_of f d) l))).
  { rewrite Hfl. unfold Spec.items_of. cbn [Spec.b_ents]. rewrite !map_map. apply map_ext. intros e.
    symmetry. apply to_item_sn_of. }
  split; [|split; [|split]].
  - intros k. rewrite (get_spec_nh t k Hwf), Hfl, find_map_ent_of.
    unfold ref_get. cbn [Spec.b_ents]. rewrite (alookup_sn_of f d l k Hs).
    destruct (find (fun e => beq (lkey e) k) l) as [e|] eqn:Ef; [|reflexivity].
    cbn [option_map]. apply find_some in Ef. destruct Ef as [_ Ek]. apply beq_true in Ek.
    rewrite <- to_item_sn_of with (f := f) (d := d). rewrite (sn_of_eta f d e), Ek. reflexivity.
  - assert (Hneb : wf_nh t = true) by (unfold wf_tree_nh in Hwf; apply andb_true_iff in Hwf; tauto).
    now rewrite (scan_spec_nh t Hneb), Hitems.
  - intros lo hi. now rewrite (range_spec_nh t lo hi Hwf), Hitems.
  - intros k. destruct (seek_spec_nh t k Hwf) as (ex & l0 & Hss & Hex & Ht & Hf). rewrite Hitems in Ht, Hf.
    exists l0. assert (Hfound : ref_found (Spec.SBucket o nx (map (sn_of f d) l)) k = ex).
    { unfold ref_found. cbn [Spec.b_ents]. rewrite (alookup_sn_of f d l k Hs).
      rewrite Hfl, map_key_ent_of in Hex.
      destruct (find (fun e => beq (lkey e) k) l) as [e|] eqn:Ef; cbn [option_map].
      - apply find_some in Ef. destruct Ef as [Hin Ek]. apply beq_true in Ek. symmetry. apply Hex.
        rewrite <- Ek. now apply in_map.
      - destruct ex; [|reflexivity]. pose proof (proj1 Hex eq_refl) as Hk. apply in_map_iff in Hk. destruct Hk as (e & Ek & Hin).
        pose proof (find_none _ _ Ef e Hin) as Hn. cbn beta in Hn. rewrite Ek in Hn.
        assert (beq k k = true) by now apply beq_true. congruence. }
    rewrite Hfound. split; [exact Hss|]. destruct ex; [now apply Ht | now apply Hf].
Qed.

(* ONE BUCKET: the cursor on the tree of a committed bucket returns what the reference returns on its abstraction *)
Theorem read_bucket : forall n d r nx, sbk (S n) d r ->
  exists t, bucket_tree d r = Some t /\ wf_tree_nh t = true /\ cursor_agrees t (abs_bucket (S n) d r nx).
Proof.
  intros n d r nx H. destruct (sbk_bucket n d r H) as (t & l & Ht & Hwf & Hfl & Hpe & Hs & _).
  exists t. split; [exact Ht|]. split; [exact Hwf|]. rewrite abs_bucket_S, Hpe. now apply cursor_agrees_intro.
Qed.

(** ** nested buckets: following a path of names *)

(* the engine side: the root page of the bucket reached from [r] by the names [path], each name looked up by the
   cursor's search on the decoded tree, root page read from the entry it stops on ([None]: a name is absent or names
   a plain value, or a tree cannot be built) *)
Fixpoint root_at (d : disk) (r : N) (path : list bytes) : option N :=
  match path with
  | [] => Some r
  | nm :: rest =>
      match bucket_tree d r with
      | None => None
      | Some t =>
          match get_ent t nm with
          | Some (EBk _ r' _) => root_at d r' rest
          | _ => None
          end
      end
  end.

(* ANY NESTED BUCKET: if the reference has a bucket at [path], the engine state has a tree there (found by
   [root_at]) on which the cursor returns the reference's answers; if the reference has no bucket there (absent,
   or a plain value), neither has the engine state *)
Definition reads_as (d : disk) (r : N) (b : Spec.snode) : Prop :=
  exists t, bucket_tree d r = Some t /\ wf_tree_nh t = true /\ cursor_agrees t b.

Theorem read_at_path : forall n d r nx path, sbk n d r ->
  match Spec.get_at path (abs_bucket n d r nx) with
  | Some (Spec.SBucket o x es) => exists r', root_at d r path = Some r' /\ reads_as d r' (Spec.SBucket o x es)
  | _ => root_at d r path = None
  end.
Proof.
  induction n as [|n IH]; intros d r nx path H; [destruct H|].
  destruct path as [|nm rest].
  - cbn [Spec.get_at root_at]. rewrite abs_bucket_S. exists r. split; [reflexivity|].
    rewrite <- abs_bucket_S. exact (read_bucket n d r nx H).
  - destruct (sbk_bucket n d r H) as (t & l & Ht & Hwf & Hfl & Hpe & Hs & HF).
    cbn [Spec.get_at root_at]. rewrite Ht, (get_ent_spec_nh t nm Hwf), Hfl, find_map_ent_of.
    rewrite abs_bucket_S, Hpe. cbn [Spec.b_ents]. rewrite (alookup_sn_of n d l nm Hs).
    destruct (find (fun e => beq (lkey e) nm) l) as [e|] eqn:Ef; cbn [option_map].
    2:{ reflexivity. }
    apply find_some in Ef. destruct Ef as [Hin _]. rewrite Forall_forall in HF. specialize (HF e Hin).
    destruct e as [k v|k r' nx']; cbn [sn_of snd ent_of].
    + destruct rest as [|nm' rest']; cbn [Spec.get_at Spec.b_ents Spec.alookup]; reflexivity.
    + exact (IH d r' nx' rest HF).
Qed.

(** ** committed states and histories *)

(* a state satisfying the engine's invariant *)
Theorem state_read : forall st path, db_strict st ->
  match Spec.get_at path (abs_db st) with
  | Some (Spec.SBucket o x es) =>
      exists r', root_at (d_disk st) (d_root st) path = Some r' /\ reads_as (d_disk st) r' (Spec.SBucket o x es)
  | _ => root_at (d_disk st) (d_root st) path = None
  end.
Proof. intros st path H. exact (read_at_path 16 (d_disk st) (d_root st) (d_next st) path H). Qed.

Lemma db_okz_strict : forall st, db_okz st -> db_strict st.
Proof. intros st [[H _] _]. exact H. Qed.

(* GOAL 3: any history from the empty database. What a read transaction on the committed state returns -- point
   lookups and full scans, by the cursor machine, in the root bucket and in every nested bucket -- is what the
   reference map returns after the same history; where the reference has no bucket, the engine finds none *)
Theorem history_read : forall P txs st', (0 < P)%N -> txs_ok' (init_db P) txs ->
  run_txs (init_db P) txs = Engine.Ok st' ->
  forall path,
  match Spec.get_at path (sem_txs txs (Spec.SBucket 0 0 [])) with
  | Some (Spec.SBucket o x es) =>
      exists r t, root_at (d_disk st') (d_root st') path = Some r /\ bucket_tree (d_disk st') r = Some t /\
        wf_tree_nh t = true /\ cursor_agrees t (Spec.SBucket o x es)
  | _ => root_at (d_disk st') (d_root st') path = None
  end.
Proof.
  intros P txs st' HP Htx Hrun path.
  destruct (run_txs_refines_init' P txs st' HP Htx Hrun) as [Hok Habs].
  pose proof (state_read st' path (db_okz_strict st' Hok)) as H. rewrite Habs in H.
  destruct (Spec.get_at path _) as [[v|o x es]|]; try exact H.
  destruct H as (r & Hr & t & Ht & Hwf & Hag). exists r, t. auto.
Qed.

(* the root bucket *)
Corollary history_read_root : forall P txs st', (0 < P)%N -> txs_ok' (init_db P) txs ->
  run_txs (init_db P) txs = Engine.Ok st' ->
  exists t, bucket_tree (d_disk st') (d_root st') = Some t /\ wf_tree_nh t = true /\
    cursor_agrees t (sem_txs txs (Spec.SBucket 0 0 [])).
Proof.
  intros P txs st' HP Htx Hrun. pose proof (history_read P txs st' HP Htx Hrun []) as H.
  destruct (run_txs_refines_init' P txs st' HP Htx Hrun) as [_ Habs].
  cbn [Spec.get_at root_at] in H. rewrite <- Habs in *. unfold abs_db in *. rewrite abs_bucket_S in *.
  destruct H as (r & t & Hr & H). inversion Hr; subst r. exists t. exact H.
Qed.

(** ** put, then get *)

Lemma alookup_ainsert_same : forall {A} k (v : A) l, Spec.alookup k (Spec.ainsert k v l) = Some v.
Proof.
  intros A k v. induction l as [|[k' v'] l IH]; cbn [Spec.ainsert Spec.alookup].
  - now rewrite bcmp_refl.
  - destruct (bcmp k k') eqn:E; cbn [Spec.alookup]; rewrite ?bcmp_refl, ?E; auto.
Qed.

(* the reference: after an operation applied at [path], the bucket at [path] is the operation's result *)
Lemma sem_at_get_at : forall path f b b', sem_at path f b = Some b' -> exists b0, Spec.get_at path b' = Some (f b0).
Proof.
  induction path as [|nm rest IH]; intros f b b' H; cbn [sem_at] in H.
  - inversion H. exists b. reflexivity.
  - destruct (Spec.alookup nm (Spec.b_ents b)) as [c|] eqn:El.
    + destruct c as [v|o x es]; [discriminate|].
      destruct (sem_at rest f (Spec.SBucket o x es)) as [c'|] eqn:Es; [|discriminate]. inversion H; subst b'.
      cbn [Spec.get_at]. unfold set_ents. cbn [Spec.b_ents]. rewrite alookup_ainsert_same. eapply IH; eauto.
    + destruct (sem_at rest f (Spec.SBucket 0 0 [])) as [c'|] eqn:Es; [|discriminate]. inversion H; subst b'.
      cbn [Spec.get_at]. unfold set_ents. cbn [Spec.b_ents]. rewrite alookup_ainsert_same. eapply IH; eauto.
Qed.

(* the reference's put: afterwards the key reads as the value put -- unless it named a bucket (IncompatibleValue:
   no effect); the result is a bucket node in every case *)
Lemma ref_get_sem_put : forall k v b0, exists o x es, sem_put k v b0 = Spec.SBucket o x es /\
  (ref_get (sem_put k v b0) k = Some (Spec.IKv k v) \/
   (ref_get (sem_put k v b0) k = Some (Spec.IBk k) /\
    exists o' x' es', Spec.alookup k (Spec.b_ents b0) = Some (Spec.SBucket o' x' es'))).
Proof.
  intros k v b0. unfold sem_put, ref_get.
  destruct (Spec.alookup k (Spec.b_ents b0)) as [[w|o' x' es']|] eqn:El; unfold set_ents.
  - do 3 eexists. split; [reflexivity|]. left. cbn [Spec.b_ents]. now rewrite alookup_ainsert_same.
  - destruct b0 as [w|o x es]; [discriminate|]. do 3 eexists. split; [reflexivity|]. right.
    rewrite El. split; [reflexivity | eauto].
  - do 3 eexists. split; [reflexivity|]. left. cbn [Spec.b_ents]. now rewrite alookup_ainsert_same.
Qed.

Lemma sem_txs_app : forall a b m, sem_txs (a ++ b) m = sem_txs b (sem_txs a m).
Proof. induction a as [|[ops ord] a IH]; intros b m; cbn [app sem_txs]; [reflexivity | apply IH]. Qed.

Lemma sem_tx_snoc : forall ops o m, sem_tx (ops ++ [o]) m = sem_op o (sem_tx ops m).
Proof. intros ops o m. unfold sem_tx. now rewrite fold_left_app. Qed.

(* PUT THEN GET, one theorem across both halves: a history whose last committed operation is [Put path k v].
   If the reference accepts the path (no component of it names a plain value; always so for the root bucket), then in
   the state the ENGINE commits, the bucket at [path] is found, and the CURSOR's point lookup of [k] in it returns
   the value put -- or the bucket item when [k] already named a nested bucket there (the put is then refused with
   IncompatibleValue by library, engine and reference alike) *)
Theorem put_then_get : forall P txs ops ord path k v st' m',
  let hist := txs ++ [(ops ++ [Put path k v], ord)] in
  (0 < P)%N -> txs_ok' (init_db P) hist -> run_txs (init_db P) hist = Engine.Ok st' ->
  sem_at path (sem_put k v) (sem_tx ops (sem_txs txs (Spec.SBucket 0 0 []))) = Some m' ->
  exists r t, root_at (d_disk st') (d_root st') path = Some r /\ bucket_tree (d_disk st') r = Some t /\
    (Cursor.get t k = Some (Spec.IKv k v) \/
     Cursor.get t k = Some (Spec.IBk k)).
Proof.
  intros P txs ops ord path k v st' m' hist HP Htx Hrun Hsem.
  pose proof (history_read P hist st' HP Htx Hrun path) as H.
  assert (Hm : sem_txs hist (Spec.SBucket 0 0 []) = m').
  { unfold hist. rewrite sem_txs_app. cbn [sem_txs]. rewrite sem_tx_snoc.
    unfold sem_op. cbn [op_path op_fun]. now rewrite Hsem. }
  rewrite Hm in H. destruct (sem_at_get_at path _ _ _ Hsem) as [b0 Hg]. rewrite Hg in H.
  destruct (ref_get_sem_put k v b0) as (o & x & es & E & Hcase). rewrite E in H.
  destruct H as (r & t & Hr & Ht & _ & Hget & _). exists r, t. split; [exact Hr|]. split; [exact Ht|].
  rewrite (Hget k), <- E. destruct Hcase as [Hc | [Hc _]]; auto.
Qed.

(* the same with the refused case excluded by a hypothesis on the reference *)
Corollary put_then_get_kv : forall P txs ops ord path k v st' m',
  let hist := txs ++ [(ops ++ [Put path k v], ord)] in
  (0 < P)%N -> txs_ok' (init_db P) hist -> run_txs (init_db P) hist = Engine.Ok st' ->
  sem_at path (sem_put k v) (sem_tx ops (sem_txs txs (Spec.SBucket 0 0 []))) = Some m' ->
  (forall b, Spec.get_at path m' = Some b -> ref_get b k <> Some (Spec.IBk k)) ->
  exists r t, root_at (d_disk st') (d_root st') path = Some r /\ bucket_tree (d_disk st') r = Some t /\
    Cursor.get t k = Some (Spec.IKv k v).
Proof.
  intros P txs ops ord path k v st' m' hist HP Htx Hrun Hsem Hnb.
  pose proof (history_read P hist st' HP Htx Hrun path) as H.
  assert (Hm : sem_txs hist (Spec.SBucket 0 0 []) = m').
  { unfold hist. rewrite sem_txs_app. cbn [sem_txs]. rewrite sem_tx_snoc.
    unfold sem_op. cbn [op_path op_fun]. now rewrite Hsem. }
  rewrite Hm in H. destruct (sem_at_get_at path _ _ _ Hsem) as [b0 Hg]. rewrite Hg in H.
  destruct (ref_get_sem_put k v b0) as (o & x & es & E & Hcase). rewrite E in H.
  destruct H as (r & t & Hr & Ht & _ & Hget & _). exists r, t. split; [exact Hr|]. split; [exact Ht|].
  rewrite (Hget k), <- E. destruct Hcase as [Hc | [Hc _]]; [exact Hc|]. exfalso. exact (Hnb _ Hg Hc).
Qed.

(** ** the full checker [Tree.wf_tree] (what [Tree.inv_check] demands of every bucket) holds under the equal-height check *)
Theorem reads_as_full : forall d r b t, reads_as d r b -> bucket_tree d r = Some t -> uniform t = true ->
  Tree.wf_tree t = true.
Proof.
  intros d r b t (t' & Ht' & Hwf & _) Ht Hu. rewrite Ht in Ht'. inversion Ht'; subst t'. now apply wf_tree_of_nh.
Qed.

(* ====================================================================== *)
(** * 3'. The theorems at work on the example states of EngineRefines / EngineTxInvFacts *)
Module Examples.
Import Ex3 ExHistory.

(* the two-transaction history: nested bucket kb/km, through [history_read] *)
Example hist_read_km : exists r t,
  root_at (d_disk hist_st) (d_root hist_st) [kb; km] = Some r /\ bucket_tree (d_disk hist_st) r = Some t /\
  Cursor.get t ke = Some (Spec.IKv ke [x04]) /\ Cursor.get t ka = None /\
  Cursor.scan t = Cursor.CVal [Spec.IKv ke [x04]].
Proof.
  pose proof (history_read 4096 hist hist_st eq_refl hist_ok' hist_run_ok [kb; km]) as H.
  assert (E : Spec.get_at [kb; km] (sem_txs hist (Spec.SBucket 0 0 [])) = Some (Spec.SBucket 0 1 [(ke, Spec.SVal [x04])]))
    by (vm_compute; reflexivity).
  rewrite E in H. destruct H as (r & t & Hr & Ht & _ & Hget & Hscan & _). exists r, t.
  rewrite !Hget, Hscan. repeat split; auto.
Qed.

(* bucket kb: a value and a nested bucket; the bucket reads as a bucket item *)
Example hist_read_kb : exists r t,
  root_at (d_disk hist_st) (d_root hist_st) [kb] = Some r /\ bucket_tree (d_disk hist_st) r = Some t /\
  Cursor.get t kd = Some (Spec.IKv kd [x03]) /\ Cursor.get t km = Some (Spec.IBk km) /\ Cursor.get t kc = None /\
  Cursor.scan t = Cursor.CVal [Spec.IKv kd [x03]; Spec.IBk km].
Proof.
  pose proof (history_read 4096 hist hist_st eq_refl hist_ok' hist_run_ok [kb]) as H.
  assert (E : Spec.get_at [kb] (sem_txs hist (Spec.SBucket 0 0 []))
              = Some (Spec.SBucket 0 3 [(kd, Spec.SVal [x03]); (km, Spec.SBucket 0 1 [(ke, Spec.SVal [x04])])]))
    by (vm_compute; reflexivity).
  rewrite E in H. destruct H as (r & t & Hr & Ht & _ & Hget & Hscan & _). exists r, t.
  rewrite !Hget, Hscan. repeat split; auto.
Qed.

(* where the reference has a plain value / nothing, the engine state has no bucket *)
Example hist_read_none :
  root_at (d_disk hist_st) (d_root hist_st) [kb; kd] = None /\ root_at (d_disk hist_st) (d_root hist_st) [ka] = None.
Proof.
  split.
  - exact (history_read 4096 hist hist_st eq_refl hist_ok' hist_run_ok [kb; kd]).
  - exact (history_read 4096 hist hist_st eq_refl hist_ok' hist_run_ok [ka]).
Qed.

(* both sides evaluated directly (no theorem): page ids, the decoded trees, cursor and reference answers *)
Example hist_eval :
  root_at (d_disk hist_st) (d_root hist_st) [kb; km] = Some 2%N /\
  bucket_tree (d_disk hist_st) 2 = Some (TL 2 0 [EKv ke [x04]]) /\
  root_at (d_disk hist_st) (d_root hist_st) [kb] = Some 3%N /\
  bucket_tree (d_disk hist_st) 3 = Some (TL 3 0 [EKv kd [x03]; EBk km 2 1]) /\
  option_map (fun t => Cursor.get t km) (bucket_tree (d_disk hist_st) 3)
    = Some (ref_get (Spec.SBucket 0 3 [(kd, Spec.SVal [x03]); (km, Spec.SBucket 0 1 [(ke, Spec.SVal [x04])])]) km).
Proof. vm_compute. repeat split; reflexivity. Qed.

(* put then get through [put_then_get_kv]: tx1, then a transaction ending in the put of kb/km/ke *)
Definition tx2' : list op * list bytes := ([Del [] ka] ++ [Put [kb; km] ke [x04]], [kb; km]).
Definition hist' : list (list op * list bytes) := [tx1] ++ [tx2'].
Definition hist'_run := Eval vm_compute in run_txs (init_db 4096) hist'.
Definition hist'_st : db := match hist'_run with Engine.Ok st => st | _ => init_db 4096 end.
Example hist'_run_ok : run_txs (init_db 4096) hist' = Engine.Ok hist'_st.
Proof. vm_compute. reflexivity. Qed.
Example hist'_ok : txs_ok' (init_db 4096) hist'.
Proof.
  cbn [txs_ok' hist' tx1 tx2' app]. split; [repeat constructor; cbn; lia|].
  intros st1 H1. vm_compute in H1. inversion H1; subst st1. clear H1.
  split; [apply readableb_ok; vm_compute; reflexivity|].
  split; [repeat constructor; cbn; lia|].
  intros st2 H2. vm_compute in H2. inversion H2; subst st2. clear H2.
  split; [apply readableb_ok; vm_compute; reflexivity | exact I].
Qed.
Example hist'_put_then_get : exists r t,
  root_at (d_disk hist'_st) (d_root hist'_st) [kb; km] = Some r /\ bucket_tree (d_disk hist'_st) r = Some t /\
  Cursor.get t ke = Some (Spec.IKv ke [x04]).
Proof.
  eapply (put_then_get_kv 4096 [tx1] [Del [] ka] [kb; km] [kb; km] ke [x04] hist'_st _ eq_refl hist'_ok hist'_run_ok).
  - vm_compute. reflexivity.
  - intros b Hb. vm_compute in Hb. inversion Hb; subst b. vm_compute. discriminate.
Qed.

(* the transaction of Ex3 (a three-leaf branch tree; rebalance merges two leaves), through [state_read] *)
Example ex3_read_kn : exists r t,
  root_at (d_disk Ex3R.ex3_st') (d_root Ex3R.ex3_st') [kn] = Some r /\ bucket_tree (d_disk Ex3R.ex3_st') r = Some t /\
  (forall k, Cursor.get t k = ref_get (Spec.SBucket 0 6 [(kb, Spec.SVal [x01]); (kc, Spec.SVal [x02]); (kd, Spec.SVal [x03]);
                                                         (kf, Spec.SVal [x05]); (kg, Spec.SVal [x06])]) k) /\
  Cursor.scan t = Cursor.CVal [Spec.IKv kb [x01]; Spec.IKv kc [x02]; Spec.IKv kd [x03]; Spec.IKv kf [x05]; Spec.IKv kg [x06]] /\
  Tree.height t = 1 /\ uniform t = true.
Proof.
  pose proof (state_read Ex3R.ex3_st' [kn] (db_okz_strict _ ex3_st'_okz)) as H.
  assert (E : Spec.get_at [kn] (abs_db Ex3R.ex3_st')
              = Some (Spec.SBucket 0 6 [(kb, Spec.SVal [x01]); (kc, Spec.SVal [x02]); (kd, Spec.SVal [x03]);
                                        (kf, Spec.SVal [x05]); (kg, Spec.SVal [x06])]))
    by (vm_compute; reflexivity).
  rewrite E in H. destruct H as (r & Hr & t & Ht & _ & Hget & Hscan & _). exists r, t.
  split; [exact Hr|]. split; [exact Ht|]. split; [exact Hget|]. split; [exact Hscan|].
  vm_compute in Hr. inversion Hr; subst r. vm_compute in Ht. inversion Ht; subst t. split; reflexivity.
Qed.
(* range scan and seek on the same bucket (a branch over two leaves after the merge), through the theorem *)
Example ex3_range_seek_kn : exists r t,
  root_at (d_disk Ex3R.ex3_st') (d_root Ex3R.ex3_st') [kn] = Some r /\ bucket_tree (d_disk Ex3R.ex3_st') r = Some t /\
  Cursor.range_scan t (Spec.BIncl kc) (Spec.BExcl kf) = Cursor.CVal [Spec.IKv kc [x02]; Spec.IKv kd [x03]] /\
  Cursor.seek_scan t kd = (true, Cursor.CVal [Spec.IKv kd [x03]; Spec.IKv kf [x05]; Spec.IKv kg [x06]]) /\
  (exists l, Cursor.seek_scan t ke = (false, Cursor.CVal l) /\
     (l = [Spec.IKv kd [x03]; Spec.IKv kf [x05]; Spec.IKv kg [x06]] \/ l = [Spec.IKv kf [x05]; Spec.IKv kg [x06]])).
Proof.
  pose proof (state_read Ex3R.ex3_st' [kn] (db_okz_strict _ ex3_st'_okz)) as H.
  assert (E : Spec.get_at [kn] (abs_db Ex3R.ex3_st')
              = Some (Spec.SBucket 0 6 [(kb, Spec.SVal [x01]); (kc, Spec.SVal [x02]); (kd, Spec.SVal [x03]);
                                        (kf, Spec.SVal [x05]); (kg, Spec.SVal [x06])]))
    by (vm_compute; reflexivity).
  rewrite E in H. destruct H as (r & Hr & t & Ht & _ & _ & _ & Hrange & Hseek). exists r, t.
  split; [exact Hr|]. split; [exact Ht|]. split; [rewrite Hrange; vm_compute; reflexivity|]. split.
  - destruct (Hseek kd) as (l & Hl & Hc). vm_compute in Hc. subst l. rewrite Hl. reflexivity.
  - destruct (Hseek ke) as (l & Hl & Hc). exists l. split; [rewrite Hl; reflexivity|]. vm_compute in Hc. exact Hc.
Qed.
End Examples.

(* The COMPLETE committed-state invariant [db_okz] of the refinement theorem does not imply equal leaf depth either:
   a state with the tree of [PInv_not_uniform] satisfies it. (Whether the engine can REACH such a state is a
   separate question -- its merges and splits look height-preserving -- but no proved invariant excludes it, which
   is why the read specifications above are proved from [wf_tree_nh].) *)
Definition nu_db : db :=
  {| d_disk := NotUniform.dsk; d_root := 3; d_next := 3; d_np := 7; d_fl := 2; d_fln := 1; d_flids := [];
     d_tx := 1; d_free := []; d_pending := []; d_psz := 4096 |}.
Example db_okz_not_uniform :
  db_okz nu_db /\ bucket_tree (d_disk nu_db) (d_root nu_db) = Some NotUniform.tr /\ Tree.wf_tree NotUniform.tr = false.
Proof.
  split; [|split; vm_compute; reflexivity].
  split; [|reflexivity]. apply db_ok'b_ok; [|vm_compute; reflexivity].
  unfold db_strict. cbn [d_disk d_root nu_db sbk].
  destruct PInv_not_uniform as (HP & Hnd & _).
  exists 3, [LKv NotUniform.ka [x01]; LKv NotUniform.kc [x02]; LKv NotUniform.ke [x03]].
  split; [unfold fuel0; lia|]. split; [exact HP|]. split; [exact Hnd|]. split; [|repeat constructor].
  change [LKv NotUniform.ka [x01]; LKv NotUniform.kc [x02]; LKv NotUniform.ke [x03]]
    with (concat [[LKv NotUniform.ka [x01]]; concat [[LKv NotUniform.kc [x02]; LKv NotUniform.ke [x03]]]]).
  eapply PV_branch; [reflexivity | reflexivity |].
  apply Forall2_cons; [eapply PV_leaf; reflexivity|]. apply Forall2_cons; [|apply Forall2_nil].
  eapply PV_branch; [reflexivity | reflexivity |]. apply Forall2_cons; [eapply PV_leaf; reflexivity | apply Forall2_nil].
Qed.

(* ====================================================================== *)
(** * 4. The byte level: the bytes the model would write decode to that tree *)
Module BytesLevel.
Import Codec CodecFacts.
Local Open Scope N_scope.

(* the page body the encoder is given for an abstract page (commit: Page::write_node of the node's data) *)
Definition body_of (a : apage) : pbody :=
  match ap_body a with Leaves l => PLeaf (map ent_of l) | Branches es => PBranch es end.
(* the bytes commit writes at offset [p * P] for the page stored at [p] *)
Definition page_bytes (pad : N -> byte) (p : N) (a : apage) : bytes := encode_page pad p (ap_over a) (body_of a).

(* the physical limits, which the abstract engine (unbounded numbers) cannot know: every field fits its 8 bytes, and
   the node fits its page run *)
Definition page_fits (P p : N) (a : apage) : Prop :=
  p < 2^64 /\ ap_over a < 2^64 /\ body_ok (body_of a) /\ body_size (body_of a) < 2^64 /\
  body_size (body_of a) <= (ap_over a + 1) * P.

(* the size the encoder uses is the size the engine allocates by: [node_size] *)
Lemma body_size_node_size : forall a, body_size (body_of a) = 40 + dsize (ap_body a).
Proof.
  intros a. unfold body_of, body_size. change Meta.page_hdr_size with 40. f_equal.
  destruct (ap_body a) as [l|es]; cbn [dsize].
  - change leaf_hdr with 32. unfold llen. rewrite map_length. generalize (32 * N.of_nat (List.length l)).
    induction l as [|e l IH]; intros acc; [reflexivity|]. cbn [map fold_left]. rewrite IH. f_equal.
    destruct e as [k v|k r nx]; cbn [ent_of lent_key lent_val lsize]; [lia|].
    unfold blen at 2. rewrite app_length, !BytesFacts.le_enc_length. unfold blen. lia.
  - reflexivity.
Qed.

(* ONE PAGE: decode (encode page) = page *)
Theorem encode_decode_apage : forall pad P p a rd, 0 < P -> page_fits P p a ->
  reads_buffer rd (p * P) (page_bytes pad p a) ->
  decode_page rd P p = Ok (mkPhdr p (body_type (body_of a)) (body_count (body_of a)) (ap_over a), body_of a).
Proof. intros pad P p a rd HP (H1 & H2 & H3 & H4 & H5) Hrd. now apply (codec_page pad). Qed.

(* the file holds, for every page of the set [R], the bytes the model writes for it *)
Definition file_encodes (pad : N -> byte) (rd : reader) (P : N) (d : disk) (R : list N) : Prop :=
  forall p a, In p R -> dget d p = Some a -> page_fits P p a /\ reads_buffer rd (p * P) (page_bytes pad p a).

Lemma mapM_Forall2 : forall {A B} (f : A -> res B) l ys, Forall2 (fun x y => f x = Ok y) l ys -> mapM f l = Ok ys.
Proof. intros A B f l ys H. induction H as [|x y l ys Hx _ IH]; [reflexivity|]. cbn [mapM]. rewrite Hx. cbn [bind]. now rewrite IH. Qed.

(* THE TREE: the read half's [build_tree], run on the bytes, builds the tree [tree_of] of the abstract pages *)
Theorem build_tree_of : forall pad rd P d R, (0 < P) -> closedR d R -> file_encodes pad rd P d R ->
  forall f r t, In r R -> tree_of f d r = Some t -> Tree.build_tree f rd P r = Ok t.
Proof.
  intros pad rd P d R HP HC HE. induction f as [|f IH]; intros r t Hr Ht; [discriminate|].
  cbn [tree_of] in Ht. destruct (dget d r) as [a|] eqn:Hg; [|discriminate].
  destruct (HE r a Hr Hg) as [Hfit Hrd].
  cbn [Tree.build_tree]. rewrite (encode_decode_apage pad P r a rd HP Hfit Hrd). cbn [bind].
  pose proof (HC r a Hr Hg) as Hcl. unfold body_of. destruct (ap_body a) as [l|es] eqn:Hb.
  - cbn [ph_overflow]. now inversion Ht.
  - assert (Ht' : tree_of (S f) d r = Some t) by (cbn [tree_of]; now rewrite Hg, Hb).
    destruct (tree_of_branch_inv f d r a es t Hg Hb Ht') as (ks & -> & HF).
    rewrite (mapM_Forall2 _ es ks); [reflexivity|].
    assert (Hin : forall e, In e es -> In (snd e) R) by exact Hcl.
    clear -HF IH Hin. induction HF as [|e [k c] es ks [E1 E2] _ IHF]; constructor.
    + cbn [fst snd] in *. rewrite (IH (snd e) c (Hin e (or_introl eq_refl)) E2). cbn [bind]. now rewrite E1.
    + apply IHF. intros e' He'. apply Hin. now right.
Qed.

(* navigation on the bytes: as [root_at], each bucket's tree built by the read half's [build_tree] from the file *)
Fixpoint root_at_b (rd : reader) (P : N) (r : N) (path : list bytes) : option N :=
  match path with
  | [] => Some r
  | nm :: rest =>
      match Tree.build_tree fuel0 rd P r with
      | Bad _ => None
      | Ok t =>
          match get_ent t nm with
          | Some (EBk _ r' _) => root_at_b rd P r' rest
          | _ => None
          end
      end
  end.

Lemma root_at_bytes : forall pad rd P d R, (0 < P) -> closedR d R -> file_encodes pad rd P d R ->
  forall path n r, In r R -> sbk n d r ->
    root_at_b rd P r path = root_at d r path /\ (forall r', root_at d r path = Some r' -> In r' R).
Proof.
  intros pad rd P d R HP HC HE. induction path as [|nm rest IH]; intros n r Hr Hs.
  - cbn [root_at_b root_at]. split; [reflexivity|]. intros r' E. inversion E; subst r'. exact Hr.
  - destruct n as [|n]; [destruct Hs|].
    destruct (sbk_bucket n d r Hs) as (t & l & Ht & Hwf & Hfl & Hpe & Hso & HF).
    cbn [root_at_b root_at]. rewrite Ht. unfold bucket_tree in Ht.
    rewrite (build_tree_of pad rd P d R HP HC HE fuel0 r t Hr Ht).
    rewrite (get_ent_spec_nh t nm Hwf), Hfl, find_map_ent_of.
    destruct (find (fun e => beq (lkey e) nm) l) as [e|] eqn:Ef; cbn [option_map].
    2:{ split; [reflexivity | discriminate]. }
    apply find_some in Ef. destruct Ef as [Hin _].
    destruct e as [k v|k r' nx']; cbn [ent_of]; [split; [reflexivity | discriminate]|].
    rewrite Forall_forall in HF. specialize (HF _ Hin). cbn beta iota in HF.
    destruct (tree_of_PageView fuel0 d r t Ht) as (l' & Hv & Hfl').
    assert (l' = l).
    { rewrite Hfl in Hfl'. clear -Hfl'. revert l' Hfl'. induction l as [|x l IHl]; intros [|y l'] H; try discriminate; auto.
      cbn [map] in H. inversion H as [[H1 H2]]. apply ent_of_inj in H1. subst y. f_equal. now apply IHl. }
    subst l'. pose proof (closed_view_entry d R fuel0 r l k r' nx' HC Hr Hv Hin) as Hr'.
    exact (IH n r' Hr' HF).
Qed.

(* a committed state and a file holding the bytes of its reachable pages ([Rof st] = every head page of the nested
   bucket tree; stale pages of the abstract disk, which may overlap live ones, are of no concern) *)
Theorem state_read_bytes : forall st pad rd P, db_okz st -> 0 < P -> file_encodes pad rd P (d_disk st) (Rof st) ->
  forall path,
  match Spec.get_at path (abs_db st) with
  | Some (Spec.SBucket o x es) =>
      exists r t, root_at_b rd P (d_root st) path = Some r /\ Tree.build_tree fuel0 rd P r = Ok t /\
        wf_tree_nh t = true /\ cursor_agrees t (Spec.SBucket o x es)
  | _ => root_at_b rd P (d_root st) path = None
  end.
Proof.
  intros st pad rd P Hok HP HE path.
  pose proof (db_okz_strict st Hok) as Hs. destruct Hok as [(_ & Hal & _) _].
  destruct Hal as (_ & _ & _ & _ & _ & _ & Hroot & HC & _).
  destruct (root_at_bytes pad rd P (d_disk st) (Rof st) HP HC HE path 16 (d_root st) Hroot Hs) as [E Hin].
  pose proof (state_read st path Hs) as H. rewrite E.
  destruct (Spec.get_at path (abs_db st)) as [[v|o x es]|]; try exact H.
  destruct H as (r & Hr & t & Ht & Hwf & Hag). exists r, t. split; [exact Hr|].
  split; [|auto]. exact (build_tree_of pad rd P _ _ HP HC HE fuel0 r t (Hin r Hr) Ht).
Qed.

(* GOAL 4: any history from the empty database, any file that holds the bytes the model writes for the reachable
   pages of the committed state: the read half -- page decoder, tree builder, cursor -- run on those BYTES returns
   the reference's answers, in the root bucket and in every nested bucket *)
Theorem history_read_bytes : forall P0 txs st' pad rd P, (0 < P0) -> txs_ok' (init_db P0) txs ->
  run_txs (init_db P0) txs = Engine.Ok st' ->
  0 < P -> file_encodes pad rd P (d_disk st') (Rof st') ->
  forall path,
  match Spec.get_at path (sem_txs txs (Spec.SBucket 0 0 [])) with
  | Some (Spec.SBucket o x es) =>
      exists r t, root_at_b rd P (d_root st') path = Some r /\ Tree.build_tree fuel0 rd P r = Ok t /\
        wf_tree_nh t = true /\ cursor_agrees t (Spec.SBucket o x es)
  | _ => root_at_b rd P (d_root st') path = None
  end.
Proof.
  intros P0 txs st' pad rd P HP0 Htx Hrun HP HE path.
  destruct (run_txs_refines_init' P0 txs st' HP0 Htx Hrun) as [Hok Habs].
  rewrite <- Habs. exact (state_read_bytes st' pad rd P Hok HP HE path).
Qed.

(** ** such a file exists: the image of the reachable pages *)

Lemma slice_splice_inside : forall z o v o' l,
  (N.to_nat o + List.length v <= List.length z)%nat -> o' + l <= blen v ->
  slice (splice z o v) (o + o') l = slice v o' l.
Proof.
  intros z o v o' l Hz Hv. unfold blen in Hv.
  rewrite BytesFacts.slice_some by (rewrite BytesFacts.splice_length by assumption; lia).
  rewrite BytesFacts.slice_some by lia. f_equal. apply BytesFacts.nth_error_ext'. intros i.
  rewrite !BytesFacts.nth_error_firstn'. destruct (Nat.ltb_spec i (N.to_nat l)) as [L|L]; [|reflexivity].
  rewrite !BytesFacts.nth_error_skipn', BytesFacts.nth_error_splice by assumption.
  destruct (Nat.ltb_spec (N.to_nat (o + o') + i) (N.to_nat o)); [lia|].
  destruct (Nat.ltb_spec (N.to_nat (o + o') + i) (N.to_nat o + List.length v)); [|lia].
  f_equal. lia.
Qed.

(* every listed page written at its position into [z] *)
Definition image (pad : N -> byte) (P : N) (d : disk) (R : list N) (z : bytes) : bytes :=
  fold_right (fun p f => match dget d p with Some a => splice f (p * P) (page_bytes pad p a) | None => f end) z R.

Lemma prun_some : forall d p a, dget d p = Some a -> prun d p = nrun p (ap_over a + 1).
Proof. intros d p a H. unfold prun. now rewrite H. Qed.

Lemma image_spec : forall pad P d np, 0 < P -> forall R z, List.length z = N.to_nat (np * P) ->
  NoDup (flat_map (prun d) R) ->
  (forall p a, In p R -> dget d p = Some a -> page_fits P p a) ->
  (forall x, In x (flat_map (prun d) R) -> x < np) ->
  List.length (image pad P d R z) = List.length z /\
  forall p a, In p R -> dget d p = Some a -> forall o l, o + l <= blen (page_bytes pad p a) ->
    slice (image pad P d R z) (p * P + o) l = slice (page_bytes pad p a) o l.
Proof.
  intros pad P d np HP. induction R as [|q R IH]; intros z Hz Hnd Hfit Hnp.
  - split; [reflexivity|]. intros p a [].
  - cbn [flat_map] in Hnd, Hnp. cbn [image fold_right]. fold (image pad P d R z).
    destruct (IH z Hz (NoDup_app_r _ _ Hnd) (fun p a Hp => Hfit p a (or_intror Hp))
                (fun x Hx => Hnp x (in_or_app _ _ _ (or_intror Hx)))) as [IHlen IHrd].
    destruct (dget d q) as [aq|] eqn:Hq.
    2:{ split; [exact IHlen|]. intros p a [->|Hp] Hg; [congruence | now apply IHrd]. }
    destruct (Hfit q aq (or_introl eq_refl) Hq) as (_ & _ & _ & _ & Hroomq).
    pose proof (CodecFacts.encode_page_length pad q (ap_over aq) (body_of aq)) as Hlq. fold (page_bytes pad q aq) in Hlq.
    assert (Hinq : forall x, q <= x < q + (ap_over aq + 1) -> x < np).
    { intros x Hx. apply Hnp. apply in_or_app. left. rewrite (prun_some d q aq Hq). now apply In_nrun. }
    assert (Hzq : (N.to_nat (q * P) + List.length (page_bytes pad q aq) <= List.length (image pad P d R z))%nat).
    { rewrite IHlen, Hz. unfold blen in Hlq. specialize (Hinq (q + ap_over aq) ltac:(lia)). nia. }
    split; [rewrite BytesFacts.splice_length by exact Hzq; exact IHlen|].
    intros p a [->|Hp] Hg o l Hol.
    + rewrite Hq in Hg. inversion Hg; subst a. now apply slice_splice_inside.
    + destruct (Hfit p a (or_intror Hp) Hg) as (_ & _ & _ & _ & Hroomp).
      pose proof (CodecFacts.encode_page_length pad p (ap_over a) (body_of a)) as Hlp. fold (page_bytes pad p a) in Hlp.
      rewrite BytesFacts.slice_splice_other; [now apply IHrd | exact Hzq |].
      (* the two page runs are disjoint integer intervals *)
      assert (Hdis : forall x, q <= x < q + (ap_over aq + 1) -> p <= x < p + (ap_over a + 1) -> False).
      { intros x Hx1 Hx2. apply (NoDup_app_disj _ _ x Hnd).
        - rewrite (prun_some d q aq Hq). now apply In_nrun.
        - apply in_flat_map. exists p. split; [exact Hp|]. rewrite (prun_some d p a Hg). now apply In_nrun. }
      unfold blen in Hlq. rewrite <- Hlq in Hroomq. rewrite Hlp in Hol.
      destruct (N.le_gt_cases p q) as [Hpq|Hpq].
      * left. assert (p + (ap_over a + 1) <= q) by (apply N.le_ngt; intros Hc; apply (Hdis q); lia). nia.
      * right. assert (q + (ap_over aq + 1) <= p) by (apply N.le_ngt; intros Hc; apply (Hdis p); lia).
        unfold blen. nia.
Qed.

(* the image of the reachable pages of a state satisfying the invariant encodes them *)
Theorem image_encodes : forall st pad P, db_okz st -> 0 < P ->
  (forall p a, In p (Rof st) -> dget (d_disk st) p = Some a -> page_fits P p a) ->
  file_encodes pad (reader_of (image pad P (d_disk st) (Rof st) (zeros (N.to_nat (d_np st * P))))) P (d_disk st) (Rof st).
Proof.
  intros st pad P [(_ & Hal & Hnd & _) _] HP Hfit.
  destruct Hal as (_ & _ & _ & _ & _ & _ & _ & _ & Hlive).
  destruct (image_spec pad P (d_disk st) (d_np st) HP (Rof st) (zeros (N.to_nat (d_np st * P)))
              (BytesFacts.zeros_length _) (NoDup_app_l _ _ Hnd) Hfit) as [_ Hrd].
  { intros x Hx. apply (Hlive x). unfold live_of. apply in_or_app. now left. }
  intros p a Hp Hg. split; [now apply Hfit|]. intros o l Hol. unfold reader_of. now apply Hrd.
Qed.

(* GOAL 4, closed form: write the committed state's reachable pages with the page encoder into a zeroed file; the
   read half on that file returns the reference's answers. The only hypothesis beyond the history is that the pages
   respect the physical limits ([page_fits]: 8-byte fields, node within its run) *)
Theorem history_image_read : forall P0 txs st' pad P, (0 < P0) -> txs_ok' (init_db P0) txs ->
  run_txs (init_db P0) txs = Engine.Ok st' -> 0 < P ->
  (forall p a, In p (Rof st') -> dget (d_disk st') p = Some a -> page_fits P p a) ->
  let rd := reader_of (image pad P (d_disk st') (Rof st') (zeros (N.to_nat (d_np st' * P)))) in
  forall path,
  match Spec.get_at path (sem_txs txs (Spec.SBucket 0 0 [])) with
  | Some (Spec.SBucket o x es) =>
      exists r t, root_at_b rd P (d_root st') path = Some r /\ Tree.build_tree fuel0 rd P r = Ok t /\
        wf_tree_nh t = true /\ cursor_agrees t (Spec.SBucket o x es)
  | _ => root_at_b rd P (d_root st') path = None
  end.
Proof.
  intros P0 txs st' pad P HP0 Htx Hrun HP Hfit rd path.
  destruct (run_txs_refines_init' P0 txs st' HP0 Htx Hrun) as [Hok _].
  exact (history_read_bytes P0 txs st' pad rd P HP0 Htx Hrun HP (image_encodes st' pad P Hok HP Hfit) path).
Qed.


(** ** [page_fits] is decidable *)
Definition lent_okb (e : lent) : bool :=
  (blen (lent_key e) <? 2^64) && (blen (lent_val e) <? 2^64) &&
  match e with EBk _ r n => (r <? 2^64) && (n <? 2^64) | EKv _ _ => true end.
Definition body_okb (b : pbody) : bool :=
  match b with
  | PLeaf l => forallb lent_okb l
  | PBranch es => forallb (fun e : bytes * N => (blen (fst e) <? 2^64) && (snd e <? 2^64)) es
  | PFree ids => forallb (fun i => i <? 2^64) ids
  end.
Definition page_fitsb (P p : N) (a : apage) : bool :=
  (p <? 2^64) && (ap_over a <? 2^64) && body_okb (body_of a) && (body_size (body_of a) <? 2^64) &&
  (body_size (body_of a) <=? (ap_over a + 1) * P).
Definition fitsb (P : N) (d : disk) (R : list N) : bool :=
  forallb (fun p => match dget d p with Some a => page_fitsb P p a | None => true end) R.

Lemma body_okb_ok : forall b, body_okb b = true -> body_ok b.
Proof.
  intros [l|es|ids] H; cbn [body_okb body_ok] in *; rewrite forallb_forall in H; apply Forall_forall; intros x Hx;
    specialize (H x Hx).
  - unfold lent_okb in H. apply andb_true_iff in H. destruct H as [H H3]. apply andb_true_iff in H. destruct H as [H1 H2].
    apply N.ltb_lt in H1. apply N.ltb_lt in H2. split; [exact H1|]. split; [exact H2|].
    destruct x as [k v|k r n]; [exact I|]. apply andb_true_iff in H3. destruct H3 as [H3 H4].
    apply N.ltb_lt in H3. apply N.ltb_lt in H4. auto.
  - apply andb_true_iff in H. destruct H as [H1 H2]. apply N.ltb_lt in H1. apply N.ltb_lt in H2. auto.
  - now apply N.ltb_lt in H.
Qed.

Lemma fitsb_ok : forall P d R, fitsb P d R = true -> forall p a, In p R -> dget d p = Some a -> page_fits P p a.
Proof.
  intros P d R H p a Hp Hg. unfold fitsb in H. rewrite forallb_forall in H. specialize (H p Hp). rewrite Hg in H.
  unfold page_fitsb in H. repeat (apply andb_true_iff in H; destruct H as [H ?]).
  repeat match goal with Hx : (_ <? _) = true |- _ => apply N.ltb_lt in Hx | Hx : (_ <=? _) = true |- _ => apply N.leb_le in Hx end.
  unfold page_fits. repeat split; auto. now apply body_okb_ok.
Qed.
End BytesLevel.

Module BytesExamples.
Import BytesLevel Codec CodecFacts.
Local Open Scope N_scope.
(** ** the byte level at work on the two-transaction history *)
Import Ex3 ExHistory.
Definition ex_pad : N -> byte := fun _ => xa5.          (* what the implementation leaves uninitialised *)
Definition hist_file : bytes :=
  image ex_pad 4096 (d_disk hist_st) (Rof hist_st) (zeros (N.to_nat (d_np hist_st * 4096))).

Example hist_fits : forall p a, In p (Rof hist_st) -> dget (d_disk hist_st) p = Some a -> page_fits 4096 p a.
Proof. apply fitsb_ok. vm_compute. reflexivity. Qed.

(* through the theorem: the nested bucket kb/km read from the file *)
Example hist_file_read_km : exists r t,
  root_at_b (reader_of hist_file) 4096 (d_root hist_st) [kb; km] = Some r /\
  Tree.build_tree fuel0 (reader_of hist_file) 4096 r = Ok t /\
  Cursor.get t ke = Some (Spec.IKv ke [x04]) /\ Cursor.scan t = Cursor.CVal [Spec.IKv ke [x04]].
Proof.
  pose proof (history_image_read 4096 hist hist_st ex_pad 4096 eq_refl hist_ok' hist_run_ok eq_refl hist_fits [kb; km]) as H.
  cbv zeta in H. fold hist_file in H.
  assert (E : Spec.get_at [kb; km] (sem_txs hist (Spec.SBucket 0 0 [])) = Some (Spec.SBucket 0 1 [(ke, Spec.SVal [x04])]))
    by (vm_compute; reflexivity).
  rewrite E in H. destruct H as (r & t & Hr & Ht & _ & Hget & Hscan & _). exists r, t.
  rewrite Hget, Hscan. repeat split; auto.
Qed.

(* evaluated directly: 8 pages of 4096 bytes, decoded and searched *)
Example hist_file_eval :
  blen hist_file = 36864 /\
  root_at_b (reader_of hist_file) 4096 (d_root hist_st) [kb; km] = Some 2 /\
  Tree.build_tree fuel0 (reader_of hist_file) 4096 2 = Ok (TL 2 0 [EKv ke [x04]]) /\
  Tree.build_tree fuel0 (reader_of hist_file) 4096 (d_root hist_st) = Ok (TL 7 0 [EBk kb 3 3]) /\
  bucket_tree (d_disk hist_st) (d_root hist_st) = Some (TL 7 0 [EBk kb 3 3]).
Proof. vm_compute. repeat split; reflexivity. Qed.
End BytesExamples.

(* ====================================================================== *)
(* Summary.
   1. [ent_of], [tree_of] / [bucket_tree]; [PageView_tree], [tree_of_PageView], [tree_of_flatten], [tree_of_mono].
   2. [wf_nh] + [uniform] = [Tree.wf_shape] ([wf_shape_split], [wf_tree_split]); [get_spec_nh], [get_ent_spec_nh],
      [scan_spec_nh]: the read specifications without the equal-height demand; [PInv_wf_nh], [PInv_tree]: the
      engine's invariant gives [wf_tree_nh] of the tree. NOT provable from the engine's invariants: [uniform]
      ([PInv_not_uniform], [db_okz_not_uniform]); so [Tree.wf_tree] (hence [Tree.inv_check]'s shape check) follows
      only under the decidable extra check [uniform t = true] ([reads_as_full]); no read operation needs it:
      [seek_spec_nh], [range_spec_nh].
   3. [cursor_agrees], [read_bucket], [read_at_path], [state_read], [history_read], [history_read_root],
      [put_then_get], [put_then_get_kv].
   4. [encode_decode_apage], [build_tree_of], [state_read_bytes], [history_read_bytes]; a file exists:
      [image_encodes], [history_image_read]; [page_fits] (physical limits) is a hypothesis, decidable by [fitsb]. *)

Print Assumptions tree_of_flatten.
Print Assumptions PageView_tree.
Print Assumptions wf_tree_split.
Print Assumptions get_spec_nh.
Print Assumptions get_ent_spec_nh.
Print Assumptions scan_spec_nh.
Print Assumptions seek_spec_nh.
Print Assumptions range_spec_nh.
Print Assumptions cursor_agrees_intro.
Print Assumptions PInv_wf_nh.
Print Assumptions PInv_tree.
Print Assumptions PInv_not_uniform.
Print Assumptions db_okz_not_uniform.
Print Assumptions read_bucket.
Print Assumptions read_at_path.
Print Assumptions state_read.
Print Assumptions history_read.
Print Assumptions history_read_root.
Print Assumptions put_then_get.
Print Assumptions put_then_get_kv.
Print Assumptions reads_as_full.
Print Assumptions BytesLevel.encode_decode_apage.
Print Assumptions BytesLevel.build_tree_of.
Print Assumptions BytesLevel.state_read_bytes.
Print Assumptions BytesLevel.history_read_bytes.
Print Assumptions BytesLevel.image_encodes.
Print Assumptions BytesLevel.history_image_read.
Print Assumptions BytesLevel.fitsb_ok.
Print Assumptions Examples.hist_read_km.
Print Assumptions Examples.hist'_put_then_get.
Print Assumptions Examples.ex3_read_kn.
Print Assumptions Examples.ex3_range_seek_kn.
Print Assumptions BytesExamples.hist_file_read_km.
Print Assumptions BytesExamples.hist_file_eval.
