(* NOTHING IS LEAKED: the exact page partition is an invariant of the engine model.

   [db_exact st] := [db_okz st] (EngineAllocInv: nothing live is free or pending, no page run shared) and
   [no_leak st]: every page id of [2, d_np st) is live (a page of the run of a reachable tree page, or of the
   free-list run), free, or pending.  Together: the committed file accounts for each page exactly once.

   Layers (each file closed under the global context):
     EngineNoLeakDefs   [no_leak], [db_exact], the boolean checker [no_leakb]
     EngineNoLeakFree   delete_bucket's page walk frees the WHOLE footprint ([free_tree_foot_complete])
     EngineNoLeakWr     exact accounting of the allocator state through write_node / the tail of spill_node ([xframe])
     EngineNoLeakNode   spill_node / spill_root: every page written is in the new tree or was handed back; every unloaded
                        child stays linked; every loaded node's old run is handed back
     EngineNoLeakCov    the completeness invariant [Cov] of the overlay (converse of [OwnI])
     EngineNoLeakOps    the operations establish [Cov]          EngineNoLeakReb   rebalance keeps [Cov]
     EngineNoLeakSpill  spill_bucket: the whole committed footprint and every written page is in the new tree or handed back
   This file: commit, the assembly [run_tx_exact], the initial state, histories, examples. *)
From Coq Require Import List NArith Bool Arith Lia ZifyN ZifyNat ZifyBool Permutation.
From Coq.Strings Require Import Byte.
From Jamm Require Spec.
From Jamm Require Import Bytes BytesFacts Tree Cursor SearchFacts Engine EngineAbs EngineFacts EngineMergeFacts.
From Jamm Require Import EngineModifyFacts EngineSpillFacts EnginePathFacts EngineBridgeFacts EngineRebalanceFacts.
From Jamm Require FreelistFacts EngineAllocFacts EngineSpillWfFacts.
From Jamm Require Import EngineTxInvFacts EngineSpillBucketFacts EngineRefines.
From Jamm Require Import EngineOwnDefs EngineOwnWr EngineOwnOps EngineOwnReb EngineOwnSpill EngineOwnLnk EngineAllocInv.
From Jamm Require Import EngineNoLeakDefs EngineNoLeakFree EngineNoLeakWr EngineNoLeakNode EngineNoLeakCov.
From Jamm Require Import EngineNoLeakOps EngineNoLeakReb EngineNoLeakSpill.
Import ListNotations.
Import Coq.Strings.String.StringSyntax. Delimit Scope string_scope with string.
Local Open Scope list_scope. Local Open Scope nat_scope.
Set Warnings "-abstract-large-number".
Arguments N.add : simpl never. Arguments N.sub : simpl never. Arguments N.mul : simpl never.
Arguments N.div : simpl never. Arguments N.ltb : simpl never. Arguments N.leb : simpl never.
Arguments N.eqb : simpl never.

(* ====================================================================== *)
(** * 1. The writer starts with every page accounted for *)

Lemma release_complete : forall t pd fr fr' pd', Forall (fun b : N * list N => (fst b < t)%N) pd ->
  release t fr pd = (fr', pd') -> forall x, In x fr \/ In x (pend_all pd) -> In x fr'.
Proof.
  intros t. induction pd as [|[u ps] pd IH]; intros fr fr' pd' Hall H x Hx; cbn [release] in H.
  - inversion H; subst. destruct Hx as [Hx|[]]. exact Hx.
  - inversion Hall as [|? ? H1 H2]; subst. cbn [fst] in H1. destruct (N.ltb_spec u t); [|lia].
    apply (IH _ _ _ H2 H x). unfold pend_all in Hx. cbn [flat_map snd] in Hx. rewrite in_app_iff in Hx.
    destruct Hx as [Hx|[Hx|Hx]]; [left | left | right; exact Hx]; apply FreelistFacts.fold_sins_In; tauto.
Qed.

Lemma begin_w_accounted : forall st, pend_le st -> no_leak st ->
  forall x, (2 <= x < np (begin_w st))%N -> In x (live_of st (Rof st)) \/ In x (free (begin_w st)).
Proof.
  intros st Hpl Hnl x Hx. unfold begin_w in *.
  destruct (release (d_tx st + 1) (d_free st) (d_pending st)) as [fr pd] eqn:Er. cbn [np free] in *.
  destruct (Hnl x Hx) as [A|A]; [now left | right].
  eapply release_complete; [|exact Er | exact A].
  eapply Forall_impl; [|exact Hpl]. cbn beta. intros b Hb. lia.
Qed.

(* ====================================================================== *)
(** * 2. [commit] *)

Theorem commit_no_leak : forall st b s ord st' b1 s1 m,
  db_ok' st -> dget (d_disk st) 0%N = None ->
  rebalance fuel0 (d_disk st) b s = Ok (b1, s1) ->
  fresh_inv (live_of st (Rof st)) s1 -> wr s1 = [] ->
  pend_ids_ok s1 ->
  (forall x, In x (pend_all (pending s1)) -> freed_in_tx s1 x = true) ->
  (forall x, freed_in_tx s1 x = true -> In x (foot (d_disk st) 16 (d_root st))) ->
  SReady (d_disk st) (Rof st) b1 -> OvlAbs (d_disk st) b1 m -> SReadyX (d_disk st) (Rof st) b1 ->
  OwnI (d_disk st) 16 s1 b1 (d_root st) -> Lnk (d_disk st) 16 b1 (d_root st) ->
  Cov (d_disk st) 16 s1 b1 (d_root st) ->
  (forall x, (2 <= x < np s1)%N -> In x (live_of st (Rof st)) \/ In x (free s1)) ->
  commit st b s ord = Ok st' -> readable st' -> no_leak st'.
Proof.
  intros st b s ord st' b1 s1 m (Hstrict & HA & HndL & _) Hz Hreb Hfi Hwr Hpid Hpf Hff HS HO HSX HOw HLk HCv Hacc H Hrd.
  set (d := d_disk st) in *. set (R := Rof st) in *. set (L := live_of st R) in *.
  pose proof HA as (_ & _ & _ & _ & _ & _ & Hroot & HCR & Hlive).
  assert (Hr0 : d_root st <> 0%N).
  { destruct (Hlive _ (R_live st _ _ Hroot)) as [Hge _]. lia. }
  assert (HkL : forall q x, In q R -> In x (prun d q) -> In x L).
  { intros q x Hq Hx. unfold L, live_of. apply in_or_app. left. apply in_flat_map. eauto. }
  assert (HfL : incl (foot d 16 (d_root st)) L) by (intros x Hx; now apply foot_live).
  rewrite commit_apply_wr in H. unfold commit_with_apply_wr in H. fold d in H. rewrite Hreb in H. cbn [bind] in H.
  apply bind_ok_inv in H. destruct H as ([[[r nx] s2] ord'] & Hsp & H).
  assert (Hp0 : pend_ok0 s1).
  { intros x Hx. apply (fi_live _ _ Hfi), HfL, Hff, Hpf, Hx. }
  assert (H16 : 16 <= fuel0) by (unfold fuel0; lia).
  assert (Hu : unwritten R s1) by (intros x _; rewrite Hwr; reflexivity).
  assert (Hwl : forall q, wr_get (wr s1) q <> None -> In q L) by (intros q Hq; rewrite Hwr in Hq; now contradiction Hq).
  pose proof (RecCov_all d R L HCR Hz HkL fuel0 16 L b1 s1 ord (r, nx, s2, ord') (d_root st) m H16 Hfi
                (fun x Hx => Hx) Hu (wr_ok_nil L s1 Hwr) Hp0 Hpid HS HO HSX HOw HLk HfL Hwl HCv Hsp) as HP.
  cbn [CovPost] in HP. destruct HP as (alloc & dead & F1 & X12 & HLater).
  set (s3 := free_pages s2 (d_fl st) (d_fln st)) in H.
  destruct (tx_allocate s3 (40 + 8 * llen (all_pages s3))) as [[flp fln] s4] eqn:Hal.
  inversion H; subst st'. clear H.
  pose proof (fr_fresh _ _ _ _ _ F1) as Hfi2.
  pose proof (free_pages_frame (alloc ++ L) s2 (d_fl st) (d_fln st) Hfi2) as G1. fold s3 in G1.
  assert (Hpos : (0 < 40 + 8 * llen (all_pages s3))%N) by lia.
  pose proof (fr_fresh _ _ _ _ _ G1) as Hfi3. cbn [app] in Hfi3.
  destruct (tx_allocate_frame (alloc ++ L) s3 _ flp fln s4 Hfi3 Hpos Hal) as [G2 _].
  pose proof (frame_trans _ _ _ _ _ _ _ _ G1 G2) as G4.
  unfold readable in Hrd. cbn [d_disk d_root] in Hrd. fold (later_disk d s4) in Hrd.
  destruct (HLater s4 _ _ G4 Hrd) as [Hfoot Hwrc].
  destruct (alloc_exact _ _ _ _ _ _ Hfi3 Hpos Hal) as [Hex1 Hex2].
  destruct (free_pages_fields s2 (d_fl st) (d_fln st)) as (E1 & E2 & _). fold s3 in E1, E2.
  (* the three ways a page is accounted for in the new state *)
  unfold no_leak. cbn [d_np d_free d_pending]. unfold Rof, live_of. cbn [d_disk d_root d_fl d_fln].
  fold (later_disk d s4). set (d4 := later_disk d s4) in *.
  assert (Htree : forall x, InT d 16 s4 r x ->
            In x (flat_map (prun d4) (fpg 16 d4 r) ++ nrun flp fln)) by (intros x Hx; apply in_or_app; left; exact Hx).
  assert (Hfreed4 : forall x, freed_in_tx s4 x = true -> In x (pend_all (pending s4))) by (intros x Hx; now apply freed_pend).
  assert (Hf34 : forall x, freed_in_tx s3 x = true -> freed_in_tx s4 x = true).
  { intros x Hx. apply (fr_freed _ _ _ _ _ G2). now left. }
  assert (Hf23 : forall x, freed_in_tx s2 x = true -> freed_in_tx s3 x = true).
  { intros x Hx. apply (fr_freed _ _ _ _ _ G1). now left. }
  assert (Hacc2 : forall x, Acc s2 x ->
            In x (flat_map (prun d4) (fpg 16 d4 r) ++ nrun flp fln) \/ In x (free s4) \/ In x (pend_all (pending s4))).
  { intros x [Hx|[Hx|(q & v & Hq & Hx)]].
    - rewrite <- E1 in Hx. destruct (Hex1 x Hx) as [A|A]; [right; now left | left].
      apply in_or_app. right. now apply In_nrun.
    - right; right. apply (fr_pend _ _ _ _ _ G2). left. apply (fr_pend _ _ _ _ _ G1). now left.
    - destruct (Hwrc q v x Hq Hx) as [A|[A|A]].
      + exfalso. apply A. now rewrite Hwr.
      + right; right. now apply Hfreed4.
      + left. now apply Htree. }
  intros x Hx.
  destruct (N.lt_ge_cases x (np s1)) as [Hlt|Hge].
  - destruct (Hacc x ltac:(lia)) as [HxL|Hxf].
    + unfold L, live_of in HxL. fold d R in HxL. apply in_app_or in HxL. destruct HxL as [HxL|HxL].
      * assert (Hxf : In x (foot d 16 (d_root st))).
        { unfold foot. destruct (N.eqb_spec (d_root st) 0); [contradiction | exact HxL]. }
        destruct (Hfoot x Hxf) as [A|A]; [right; right; now apply Hfreed4 | left; now apply Htree].
      * right; right. apply Hfreed4, Hf34. unfold s3. apply free_pages_freed. right. now apply In_nrun.
    + apply Hacc2. apply (xf_acc _ _ X12). now left.
  - destruct (N.lt_ge_cases x (np s2)) as [Hlt2|Hge2].
    + apply Hacc2. apply (xf_new _ _ X12). lia.
    + left. apply in_or_app. right. apply In_nrun. apply Hex2. rewrite E2. lia.
Qed.

(* ====================================================================== *)
(** * 3. One transaction: the exact partition is re-established *)

Theorem run_tx_no_leak : forall st ops ord st', db_exact st -> Forall (op_ok (d_disk st)) ops ->
  run_tx st ops ord = Ok st' -> readable st' -> no_leak st'.
Proof.
  intros st ops ord st' [[Hok' Hz] Hnl] Hops Hrun Hrd.
  pose proof (db_ok'_db_ok st Hok') as Hok. pose proof Hok' as (Hdb & HA & Hnd & Hpl).
  set (R := Rof st) in *.
  destruct (run_tx_rebalance_ready st ops ord st' Hdb Hops Hrun)
    as (root' & s' & b1r & s1r & fv & v & Hf & _ & _ & Hfr & [f HSD] & Hrr & _ & _ & _ & Tx & _).
  destruct (run_tx_commit_ready st R ops ord st' Hdb HA Hops Hrun)
    as (root2 & s2' & b1 & s1 & Hf2 & Hc & Hr & _ & _ & Hfi & Hwr & HS & HO).
  rewrite Hf in Hf2. inversion Hf2; subst root2 s2'. rewrite Hrr in Hr. inversion Hr; subst b1r s1r.
  pose proof HA as (_ & _ & _ & _ & _ & _ & _ & HC & _).
  assert (HSX : SReadyX (d_disk st) R b1).
  { eapply (rebalance_SReadyX (d_disk st) R HC fuel0 f 9); eauto; [unfold fuel0; lia|]. eapply tx_ops_XDF; eauto. }
  destruct (tx_fold_own st ops root' s' Hok' Hf) as (HO1 & HF1 & HI1 & Hb0).
  pose proof (tx_frees_pend_cur _ _ Hb0 Hfr) as HPC1.
  destruct (rebalance_own_missing0 (d_disk st) fuel0 f 16 s' root' (d_root st) b1 s1 Hz HSD HO1 HI1 HPC1 Hrr) as (HO2 & HF2 & HI2 & HPC2).
  assert (HF2' : forall x, freed_in_tx s1 x = true -> In x (foot (d_disk st) 16 (d_root st))).
  { intros x Hx. destruct (HF2 x Hx) as [A|A]; [now apply HF1 | exact A]. }
  pose proof (run_Lnk st ops root' s' b1 s1 Hok' Hops Hf Hrr) as HL.
  (* completeness: the operations establish [Cov], rebalance keeps it *)
  pose proof (tx_fold_cov st ops root' s' Hok' Hf) as HCv1.
  destruct (rebalance_cov (d_disk st) fuel0 f 16 s' root' (d_root st) b1 s1 Hz HSD HO1 HI1 HPC1 HCv1 Hrr) as [HCv2 _].
  (* every page is accounted for when the spill starts *)
  assert (Hacc : forall x, (2 <= x < np s1)%N -> In x (live_of st (Rof st)) \/ In x (free s1)).
  { destruct Hfr as (F1 & _ & F3 & _). destruct Tx as (T1 & _ & T3 & _).
    intros x Hx. rewrite T1, F1. apply (begin_w_accounted st Hpl Hnl). rewrite <- F3, <- T3. exact Hx. }
  exact (commit_no_leak st root' s' ord st' b1 s1 _ Hok' Hz Hrr Hfi Hwr HI2 HPC2 HF2' HS HO HSX HO2 HL HCv2 Hacc Hc Hrd).
Qed.

Theorem run_tx_exact : forall st ops ord st', db_exact st -> Forall (op_ok (d_disk st)) ops ->
  run_tx st ops ord = Ok st' -> readable st' -> db_exact st'.
Proof.
  intros st ops ord st' Hex Hops Hrun Hrd. split; [|eapply run_tx_no_leak; eauto].
  eapply run_tx_okz; eauto. exact (proj1 Hex).
Qed.

(* with the meaning equation *)
Theorem run_tx_exact_refines : forall st ops ord st', db_exact st -> Forall (op_ok (d_disk st)) ops ->
  run_tx st ops ord = Ok st' -> readable st' -> db_exact st' /\ abs_db st' = sem_tx ops (abs_db st).
Proof.
  intros st ops ord st' Hex Hops Hrun Hrd. split; [eapply run_tx_exact; eauto|].
  exact (proj2 (run_tx_refines' st ops ord st' (proj1 Hex) Hops Hrun Hrd)).
Qed.

(* ====================================================================== *)
(** * 4. The initial state; histories *)

Lemma init_db_exact : forall P, (0 < P)%N -> db_exact (init_db P).
Proof.
  intros P HP. split; [now apply init_db_okz|]. intros x Hx. cbn [d_np init_db] in Hx. left.
  unfold live_of, Rof. cbn [d_disk d_root d_fl d_fln init_db].
  assert (Hx' : x = 2%N \/ x = 3%N) by lia. destruct Hx' as [->| ->]; vm_compute; tauto.
Qed.

Corollary run_txs_exact : forall txs st st', db_exact st -> txs_ok' st txs -> run_txs st txs = Ok st' ->
  db_exact st' /\ abs_db st' = sem_txs txs (abs_db st).
Proof.
  induction txs as [|[ops ord] txs IH]; intros st st' Hex Htx H; cbn [run_txs sem_txs] in *.
  - inversion H; subst. auto.
  - apply bind_ok_inv in H. destruct H as (st1 & H1 & H2). destruct Htx as [Hops Hnext].
    destruct (Hnext st1 H1) as [Hrd Htx1].
    destruct (run_tx_exact_refines st ops ord st1 Hex Hops H1 Hrd) as [Hex1 E1].
    destruct (IH st1 st' Hex1 Htx1 H2) as [Hex' E']. split; [exact Hex'|]. now rewrite E', E1.
Qed.

(* every history of the engine model from the empty database keeps the exact page partition *)
Corollary run_txs_exact_init : forall P txs st', (0 < P)%N -> txs_ok' (init_db P) txs ->
  run_txs (init_db P) txs = Ok st' -> db_exact st' /\ abs_db st' = sem_txs txs (SBucket 0 0 []).
Proof. intros P txs st' HP Htx H. exact (run_txs_exact txs _ _ (init_db_exact P HP) Htx H). Qed.

(* the example states, by the checker and through the theorem *)
Example init_db_4096_exact : db_exact (init_db 4096).
Proof. now apply init_db_exact. Qed.
(* [db_okz] alone does not exclude leaks: the hand-made state of Ex3 satisfies it, with the pages 4..9 unaccounted *)
Example ex3_db_leaks : db_okz Ex3.ex3_db /\ leaked Ex3.ex3_db = [4; 5; 6; 7; 8; 9]%N.
Proof. split; [exact ex3_db_okz | vm_compute; reflexivity]. Qed.
Example hist_exact : db_exact ExHistory.hist_st.
Proof. exact (proj1 (run_txs_exact_init 4096 ExHistory.hist ExHistory.hist_st eq_refl hist_ok' ExHistory.hist_run_ok)). Qed.

(* a third transaction deletes the bucket b (which holds the nested bucket m): the whole footprint is handed back
   (checked by computation; the theorem applies under [free_tree_ok], the termination side condition of [op_ok]) *)
Definition tx3 : list op * list bytes := ([DelB [] Ex3.kb; Put [] Ex3.ka [x09]], []).
Definition hist3 : list (list op * list bytes) := [ExHistory.tx1; ExHistory.tx2; tx3].
Definition hist3_run := Eval vm_compute in run_txs (init_db 4096) hist3.
Definition hist3_st : db := match hist3_run with Ok st => st | _ => init_db 4096 end.
Example hist3_run_ok : run_txs (init_db 4096) hist3 = Ok hist3_st.
Proof. vm_compute. reflexivity. Qed.
Example hist3_checked : no_leakb hist3_st = true /\ db_ok'b hist3_st = true.
Proof. vm_compute. split; reflexivity. Qed.
Example hist3_pending : pend_all (d_pending hist3_st) <> [].
Proof. vm_compute. discriminate. Qed.

(* ====================================================================== *)
(** * 5. The ids recorded on the free-list page are the right ones *)

(* [d_flids] (what the free-list page stores, and what the next open loads as free: [reopen_db]) is a permutation of
   the free and the pending ids; with [db_exact]: exactly the pages of [2, d_np) that are not live *)
Definition flids_ok (st : db) : Prop := Permutation (d_flids st) (d_free st ++ pend_all (d_pending st)).

Lemma commit_flids : forall st b s ord st', commit st b s ord = Ok st' -> flids_ok st'.
Proof.
  intros st b s ord st' H. rewrite commit_apply_wr in H. unfold commit_with_apply_wr in H.
  apply bind_ok_inv in H. destruct H as ([b1 s1] & _ & H).
  apply bind_ok_inv in H. destruct H as ([[[r nx] s2] ord'] & _ & H).
  destruct (tx_allocate (free_pages s2 (d_fl st) (d_fln st))
              (40 + 8 * llen (all_pages (free_pages s2 (d_fl st) (d_fln st))))) as [[flp fln] s4].
  inversion H; subst st'. unfold flids_ok. cbn [d_flids d_free d_pending].
  exact (proj1 (EngineAllocFacts.engine_all_pages_perm s4)).
Qed.

Theorem run_tx_flids : forall st ops ord st', run_tx st ops ord = Ok st' -> flids_ok st'.
Proof.
  intros st ops ord st' H. rewrite run_tx_fold in H. apply bind_ok_inv in H. destruct H as ([rb s] & _ & H).
  eapply commit_flids; eauto.
Qed.

Lemma init_db_flids : forall P, flids_ok (init_db P).
Proof. intros P. unfold flids_ok. cbn. constructor. Qed.

(* the full statement: each page of [2, d_np) is accounted for exactly once, and the recorded ids are the
   non-live ones *)
Definition db_exact_rec (st : db) : Prop := db_exact st /\ flids_ok st.

Theorem run_tx_exact_rec : forall st ops ord st', db_exact st -> Forall (op_ok (d_disk st)) ops ->
  run_tx st ops ord = Ok st' -> readable st' -> db_exact_rec st'.
Proof.
  intros st ops ord st' Hex Hops Hrun Hrd. split; [eapply run_tx_exact; eauto | eapply run_tx_flids; eauto].
Qed.

(* the recorded ids are exactly the page ids of [2, d_np) that are not live *)
Corollary flids_exact : forall st, db_exact_rec st ->
  forall x, In x (d_flids st) <-> ((2 <= x < d_np st)%N /\ ~ In x (live_of st (Rof st))).
Proof.
  intros st [[[(_ & HA & _) _] Hnl] Hp] x. destruct HA as (_ & _ & _ & Hge & Hlt & Hpd & _ & _ & Hlive).
  split.
  - intros Hx. apply (Permutation_in _ Hp) in Hx. apply in_app_or in Hx. split.
    + destruct Hx as [Hx|Hx].
      * unfold FreelistFacts.ge2 in Hge. rewrite Forall_forall in Hge. specialize (Hge x Hx). specialize (Hlt x Hx). lia.
      * rewrite Forall_forall in Hpd. exact (Hpd x Hx).
    + intros Hl. destruct (Hlive x Hl) as (_ & A & B). destruct Hx; contradiction.
  - intros [Hr Hn]. apply (Permutation_in _ (Permutation_sym Hp)). apply in_or_app.
    destruct (Hnl x Hr) as [A|[A|A]]; [contradiction | now left | now right].
Qed.

Print Assumptions run_tx_no_leak.
Print Assumptions run_tx_exact.
Print Assumptions run_tx_exact_refines.
Print Assumptions init_db_exact.
Print Assumptions run_txs_exact_init.
Print Assumptions hist_exact.
Print Assumptions run_tx_exact_rec.
Print Assumptions flids_exact.
