(* The exact page partition of committed states: definitions, the boolean checker, examples.
   [db_exact st]: [db_okz st] (nothing live is free) and NOTHING IS LEAKED: every page id of [2, d_np) is live
   (a page of the run of a reachable tree page, or of the free-list run), free, or pending. *)
From Coq Require Import List NArith Bool Arith Lia ZifyN ZifyNat ZifyBool Permutation.
From Coq.Strings Require Import Byte.
From Jamm Require Spec.
From Jamm Require Import Bytes BytesFacts Tree Cursor SearchFacts Engine EngineAbs EngineFacts EngineMergeFacts.
From Jamm Require Import EngineModifyFacts EngineSpillFacts EnginePathFacts EngineBridgeFacts EngineRebalanceFacts.
From Jamm Require FreelistFacts EngineAllocFacts EngineSpillWfFacts.
From Jamm Require Import EngineTxInvFacts EngineSpillBucketFacts EngineRefines.
From Jamm Require Import EngineOwnDefs EngineOwnWr EngineOwnOps EngineOwnReb EngineOwnSpill EngineOwnLnk EngineAllocInv.
Import ListNotations.
Import Coq.Strings.String.StringSyntax. Delimit Scope string_scope with string.
Local Open Scope list_scope. Local Open Scope nat_scope.
Set Warnings "-abstract-large-number".
Arguments N.add : simpl never. Arguments N.sub : simpl never. Arguments N.mul : simpl never.
Arguments N.div : simpl never. Arguments N.ltb : simpl never. Arguments N.leb : simpl never.
Arguments N.eqb : simpl never.

(* nothing leaked *)
Definition no_leak (st : db) : Prop :=
  forall x, (2 <= x < d_np st)%N ->
    In x (live_of st (Rof st)) \/ In x (d_free st) \/ In x (pend_all (d_pending st)).

Definition db_exact (st : db) : Prop := db_okz st /\ no_leak st.

(* the ids [lo, lo + n) *)
Definition no_leakb (st : db) : bool :=
  forallb (fun x => memb x (live_of st (Rof st)) || memb x (d_free st) || memb x (pend_all (d_pending st)))
          (nrun 2 (d_np st - 2)).

Lemma no_leakb_ok : forall st, no_leakb st = true -> no_leak st.
Proof.
  intros st H x Hx. unfold no_leakb in H. rewrite forallb_forall in H.
  assert (Hin : In x (nrun 2 (d_np st - 2))) by (apply In_nrun; lia).
  specialize (H x Hin). apply orb_true_iff in H. destruct H as [H|H].
  - apply orb_true_iff in H. destruct H as [H|H]; [left | right; left]; now apply memb_In.
  - right; right. now apply memb_In.
Qed.

(* the leaked pages of a state *)
Definition leaked (st : db) : list N :=
  filter (fun x => negb (memb x (live_of st (Rof st)) || memb x (d_free st) || memb x (pend_all (d_pending st))))
         (nrun 2 (d_np st - 2)).

Print Assumptions no_leakb_ok.
