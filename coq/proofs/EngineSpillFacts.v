(* Spill: allocation freshness, reading back what a transaction wrote, and the pages produced by
   [spill_node] / [spill_root] of model/Engine.v.

     Stage 1  [apply_wr] (the disk built by [commit]), [fresh_inv] / [pend_ok], [tx_allocate], [free_pages],
              [write_node]
     Stage 2  [dget] of [apply_wr]; the tail of [spill_node] (split, write, double write, siblings); leaves
     Stage 3  [spill_node] on an overlay node whose kids are spilled recursively; [spill_root]

   No axioms: every main theorem is closed under the global context (see the end of the file). *)
From Coq Require Import List NArith PeanoNat Bool Lia ZifyN ZifyNat ZifyBool Sorted Permutation.
From Coq.Strings Require Import Byte.
From Jamm Require PL Freelist FreelistFacts EngineAllocFacts EngineFacts.
From Jamm Require Import Bytes Tree SearchFacts Engine EngineAbs EngineMergeFacts.
Import ListNotations.
Import Coq.Strings.String.StringSyntax. Delimit Scope string_scope with string.
Local Open Scope list_scope. Local Open Scope N_scope.
Arguments N.add : simpl never. Arguments N.sub : simpl never. Arguments N.mul : simpl never.
Arguments N.div : simpl never. Arguments N.modulo : simpl never.
Arguments N.ltb : simpl never. Arguments N.leb : simpl never. Arguments N.eqb : simpl never.

Notation asc := FreelistFacts.asc.
Notation ge2 := FreelistFacts.ge2.
Notation pages_for := Freelist.pages_for.
Notation pend_all := PL.pend_all.
Notation pend_at := FreelistFacts.pend_at.

(* ====================================================================== *)
(** * 0. Projections of the record updates *)

Section Proj.
  Variable s : txs.
  Lemma free_upd_free f : free (upd_free s f) = f. Proof. reflexivity. Qed.
  Lemma pending_upd_free f : pending (upd_free s f) = pending s. Proof. reflexivity. Qed.
  Lemma txid_upd_free f : txid (upd_free s f) = txid s. Proof. reflexivity. Qed.
  Lemma np_upd_free f : np (upd_free s f) = np s. Proof. reflexivity. Qed.
  Lemma psz_upd_free f : psz (upd_free s f) = psz s. Proof. reflexivity. Qed.
  Lemma wr_upd_free f : wr (upd_free s f) = wr s. Proof. reflexivity. Qed.
  Lemma flw_upd_free f : flw (upd_free s f) = flw s. Proof. reflexivity. Qed.
  Lemma seqc_upd_free f : seqc (upd_free s f) = seqc s. Proof. reflexivity. Qed.

  Lemma free_upd_pending f : free (upd_pending s f) = free s. Proof. reflexivity. Qed.
  Lemma pending_upd_pending f : pending (upd_pending s f) = f. Proof. reflexivity. Qed.
  Lemma txid_upd_pending f : txid (upd_pending s f) = txid s. Proof. reflexivity. Qed.
  Lemma np_upd_pending f : np (upd_pending s f) = np s. Proof. reflexivity. Qed.
  Lemma psz_upd_pending f : psz (upd_pending s f) = psz s. Proof. reflexivity. Qed.
  Lemma wr_upd_pending f : wr (upd_pending s f) = wr s. Proof. reflexivity. Qed.
  Lemma flw_upd_pending f : flw (upd_pending s f) = flw s. Proof. reflexivity. Qed.
  Lemma seqc_upd_pending f : seqc (upd_pending s f) = seqc s. Proof. reflexivity. Qed.

  Lemma free_upd_np f : free (upd_np s f) = free s. Proof. reflexivity. Qed.
  Lemma pending_upd_np f : pending (upd_np s f) = pending s. Proof. reflexivity. Qed.
  Lemma txid_upd_np f : txid (upd_np s f) = txid s. Proof. reflexivity. Qed.
  Lemma np_upd_np f : np (upd_np s f) = f. Proof. reflexivity. Qed.
  Lemma psz_upd_np f : psz (upd_np s f) = psz s. Proof. reflexivity. Qed.
  Lemma wr_upd_np f : wr (upd_np s f) = wr s. Proof. reflexivity. Qed.
  Lemma flw_upd_np f : flw (upd_np s f) = flw s. Proof. reflexivity. Qed.
  Lemma seqc_upd_np f : seqc (upd_np s f) = seqc s. Proof. reflexivity. Qed.

  Lemma free_upd_wr f : free (upd_wr s f) = free s. Proof. reflexivity. Qed.
  Lemma pending_upd_wr f : pending (upd_wr s f) = pending s. Proof. reflexivity. Qed.
  Lemma txid_upd_wr f : txid (upd_wr s f) = txid s. Proof. reflexivity. Qed.
  Lemma np_upd_wr f : np (upd_wr s f) = np s. Proof. reflexivity. Qed.
  Lemma psz_upd_wr f : psz (upd_wr s f) = psz s. Proof. reflexivity. Qed.
  Lemma wr_upd_wr f : wr (upd_wr s f) = f. Proof. reflexivity. Qed.
  Lemma flw_upd_wr f : flw (upd_wr s f) = flw s. Proof. reflexivity. Qed.
  Lemma seqc_upd_wr f : seqc (upd_wr s f) = seqc s. Proof. reflexivity. Qed.

  Lemma free_upd_flw f : free (upd_flw s f) = free s. Proof. reflexivity. Qed.
  Lemma pending_upd_flw f : pending (upd_flw s f) = pending s. Proof. reflexivity. Qed.
  Lemma txid_upd_flw f : txid (upd_flw s f) = txid s. Proof. reflexivity. Qed.
  Lemma np_upd_flw f : np (upd_flw s f) = np s. Proof. reflexivity. Qed.
  Lemma psz_upd_flw f : psz (upd_flw s f) = psz s. Proof. reflexivity. Qed.
  Lemma wr_upd_flw f : wr (upd_flw s f) = wr s. Proof. reflexivity. Qed.
  Lemma flw_upd_flw f : flw (upd_flw s f) = f. Proof. reflexivity. Qed.
  Lemma seqc_upd_flw f : seqc (upd_flw s f) = seqc s. Proof. reflexivity. Qed.

  Lemma free_next_seq : free (snd (next_seq s)) = free s. Proof. reflexivity. Qed.
  Lemma pending_next_seq : pending (snd (next_seq s)) = pending s. Proof. reflexivity. Qed.
  Lemma txid_next_seq : txid (snd (next_seq s)) = txid s. Proof. reflexivity. Qed.
  Lemma np_next_seq : np (snd (next_seq s)) = np s. Proof. reflexivity. Qed.
  Lemma psz_next_seq : psz (snd (next_seq s)) = psz s. Proof. reflexivity. Qed.
  Lemma wr_next_seq : wr (snd (next_seq s)) = wr s. Proof. reflexivity. Qed.
  Lemma flw_next_seq : flw (snd (next_seq s)) = flw s. Proof. reflexivity. Qed.
End Proj.
#[global] Hint Rewrite
  free_upd_free pending_upd_free txid_upd_free np_upd_free psz_upd_free wr_upd_free flw_upd_free seqc_upd_free
  free_upd_pending pending_upd_pending txid_upd_pending np_upd_pending psz_upd_pending wr_upd_pending
  flw_upd_pending seqc_upd_pending
  free_upd_np pending_upd_np txid_upd_np np_upd_np psz_upd_np wr_upd_np flw_upd_np seqc_upd_np
  free_upd_wr pending_upd_wr txid_upd_wr np_upd_wr psz_upd_wr wr_upd_wr flw_upd_wr seqc_upd_wr
  free_upd_flw pending_upd_flw txid_upd_flw np_upd_flw psz_upd_flw wr_upd_flw flw_upd_flw seqc_upd_flw
  free_next_seq pending_next_seq txid_next_seq np_next_seq psz_next_seq wr_next_seq flw_next_seq : txs_proj.

(* ====================================================================== *)
(** * 1. Stage 1: the disk built by commit; allocation freshness *)

(* number of pages of a node of [size] bytes; the page image written for (size, data) *)
Definition mk_apage (P : N) (v : N * ndata) : apage :=
  {| ap_over := (if fst v mod P =? 0 then fst v / P else fst v / P + 1) - 1; ap_body := snd v |}.

(* exactly the fold of [commit] *)
Definition apply_wr (w : list (N * (N * ndata))) (P : N) (d : disk) : disk :=
  fold_left (fun dk w => let '(p, (size, dd)) := w in
               dput dk p {| ap_over := (if size mod P =? 0 then size / P else size / P + 1) - 1; ap_body := dd |})
            (rev w) d.

(* [commit] with the fold named *)
Definition commit_with_apply_wr (st : db) (b : bucket) (s : txs) (ord : list bytes) : res db :=
  '(b1, s1) <- rebalance fuel0 (d_disk st) b s ;;
  '(r, nx, s2, _) <- spill_bucket fuel0 (d_disk st) b1 s1 ord ;;
  let s3 := free_pages s2 (d_fl st) (d_fln st) in
  let flsize := 40 + 8 * llen (all_pages s3) in
  let '(flp, fln, s4) := tx_allocate s3 flsize in
  Ok {| d_disk := apply_wr (wr s4) (psz s4) (d_disk st); d_root := r; d_next := nx; d_np := np s4; d_fl := flp;
        d_fln := fln; d_flids := all_pages s4; d_tx := txid s4; d_free := free s4; d_pending := pending s4;
        d_psz := psz s4 |}.

Theorem commit_apply_wr : commit = commit_with_apply_wr.
Proof. reflexivity. Qed.

Lemma apply_wr_nil P d : apply_wr [] P d = d.
Proof. reflexivity. Qed.

Lemma apply_wr_cons p v w P d :
  apply_wr ((p, v) :: w) P d = dput (apply_wr w P d) p (mk_apage P v).
Proof.
  unfold apply_wr. cbn [rev]. rewrite fold_left_app. cbn [fold_left]. destruct v as [size dd]. reflexivity.
Qed.

(* the pages p, p+1, ..., p+n-1 *)
Definition nrun (p n : N) : list N := map (fun i => p + N.of_nat i) (seq 0 (N.to_nat n)).

Lemma In_nrun p n x : In x (nrun p n) <-> p <= x < p + n.
Proof.
  unfold nrun. rewrite in_map_iff. split.
  - intros (i & <- & Hi). apply in_seq in Hi. lia.
  - intros H. exists (N.to_nat (x - p)). split; [lia|]. apply in_seq. lia.
Qed.

(* [live]: pages that must not be handed out. The free set is strictly ascending, holds page ids >= 2 below
   the high-water mark, and is disjoint from [live]; every live page is below the high-water mark. *)
Record fresh_inv (live : list N) (s : txs) : Prop := {
  fi_psz : 0 < psz s;
  fi_np : 2 <= np s;
  fi_asc : asc (free s);
  fi_ge2 : ge2 (free s);
  fi_free_lt : forall x, In x (free s) -> x < np s;
  fi_live : forall x, In x live -> x < np s /\ ~ In x (free s) }.

(* pages waiting in the pending lists are dead: below the high-water mark, not free, not live *)
Definition pend_ok (live : list N) (s : txs) : Prop :=
  forall x, In x (pend_all (pending s)) -> x < np s /\ ~ In x (free s) /\ ~ In x live.

Lemma fresh_inv_sub live live' s :
  (forall x, In x live' -> In x live) -> fresh_inv live s -> fresh_inv live' s.
Proof.
  intros Hsub [H1 H2 H3 H4 H5 H6]. constructor; try assumption. intros x Hx. apply H6, Hsub, Hx.
Qed.

Lemma pend_ok_sub live live' s :
  (forall x, In x live' -> In x live) -> pend_ok live s -> pend_ok live' s.
Proof.
  intros Hsub H x Hx. destruct (H x Hx) as (A & B & C). repeat split; try assumption.
  intros Hl. apply C, Hsub, Hl.
Qed.

(* fresh_inv / pend_ok only look at free, np, psz, pending *)
Lemma fresh_inv_ext live s s' :
  free s' = free s -> np s' = np s -> psz s' = psz s -> fresh_inv live s -> fresh_inv live s'.
Proof.
  intros E1 E2 E3 [H1 H2 H3 H4 H5 H6]. constructor; rewrite ?E1, ?E2, ?E3; assumption.
Qed.

Lemma pend_ok_ext live s s' :
  free s' = free s -> np s' = np s -> pending s' = pending s -> pend_ok live s -> pend_ok live s'.
Proof. intros E1 E2 E3 H x. rewrite E1, E2, E3. apply H. Qed.

Lemma node_size_pos n : 0 < node_size n.
Proof. unfold node_size. lia. Qed.

(** ** tx_allocate *)
Theorem tx_allocate_fresh live s b p n s' :
  fresh_inv live s -> 0 < b -> tx_allocate s b = (p, n, s') ->
  n = pages_for (psz s) b /\ 0 < n /\ 2 <= p /\
  (forall x, p <= x < p + n -> ~ In x live) /\
  (forall x, p <= x < p + n -> x < np s' /\ ~ In x (free s')) /\
  fresh_inv (nrun p n ++ live) s' /\
  wr s' = wr s /\ pending s' = pending s /\ txid s' = txid s /\ psz s' = psz s /\
  flw s' = flw s /\ seqc s' = seqc s /\
  np s <= np s' /\ (forall x, In x (free s') -> In x (free s)) /\
  (forall x, p <= x < p + n -> In x (free s) \/ np s <= x).
Proof.
  intros [H1 H2 H3 H4 H5 H6] Hb Hal.
  destruct (EngineAllocFacts.engine_alloc_spec s b p n s' H3 H4 H1 Hb Hal)
    as (Hn & Hn0 & Etx & Epsz & Epd & Ewr & Eflw & Eseq & _ & Hcase).
  assert (Hrun : forall x, p <= x < p + n -> exists i, i < n /\ x = p + i).
  { intros x Hx. exists (x - p). lia. }
  destruct Hcase as [(Enp & Hin & Hfree' & Hasc' & Hge' & _) | (Ep & Enp & Efree & _)].
  - (* from the free set *)
    assert (Hp2 : 2 <= p).
    { specialize (Hin 0 Hn0). replace (p + 0) with p in Hin by lia.
      unfold FreelistFacts.ge2 in H4. rewrite Forall_forall in H4. apply H4, Hin. }
    assert (Hrf : forall x, p <= x < p + n -> In x (free s)).
    { intros x Hx. destruct (Hrun x Hx) as (i & Hi & ->). apply Hin, Hi. }
    repeat (split; [assumption|]).
    split. { intros x Hx Hl. apply (proj2 (H6 x Hl)), Hrf, Hx. }
    split. { intros x Hx. rewrite Enp. split; [apply H5, Hrf, Hx|]. intros Hf. apply Hfree' in Hf. tauto. }
    split.
    { constructor; rewrite ?Epsz, ?Enp; try assumption.
      - intros x Hx. apply Hfree' in Hx. apply H5, Hx.
      - intros x Hx. apply in_app_or in Hx. destruct Hx as [Hx|Hx].
        + apply In_nrun in Hx. split; [apply H5, Hrf, Hx|]. intros Hf. apply Hfree' in Hf. tauto.
        + destruct (H6 x Hx) as [A B]. split; [exact A|]. intros Hf. apply Hfree' in Hf. tauto. }
    repeat (split; [assumption|]). split; [lia|]. split.
    + intros x Hx. apply Hfree' in Hx. apply Hx.
    + intros x Hx. left. apply Hrf, Hx.
  - (* growth *)
    subst p.
    repeat (split; [assumption || lia|]).
    split. { intros x Hx Hl. destruct (H6 x Hl). lia. }
    split. { intros x Hx. rewrite Enp, Efree. split; [lia|]. intros Hf. apply H5 in Hf. lia. }
    split.
    { constructor; rewrite ?Epsz, ?Enp, ?Efree; try assumption; try lia.
      - intros x Hx. apply H5 in Hx. lia.
      - intros x Hx. apply in_app_or in Hx. destruct Hx as [Hx|Hx].
        + apply In_nrun in Hx. split; [lia|]. intros Hf. apply H5 in Hf. lia.
        + destruct (H6 x Hx) as [A B]. split; [lia|exact B]. }
    repeat (split; [assumption|]). split; [lia|]. split.
    + intros x. rewrite Efree. tauto.
    + intros x Hx. right. lia.
Qed.

Theorem tx_allocate_pend_ok live s b p n s' :
  fresh_inv live s -> pend_ok live s -> 0 < b -> tx_allocate s b = (p, n, s') ->
  pend_ok (nrun p n ++ live) s'.
Proof.
  intros Hfi Hpo Hb Hal.
  destruct (tx_allocate_fresh _ _ _ _ _ _ Hfi Hb Hal)
    as (_ & _ & _ & _ & _ & _ & _ & Epd & _ & _ & _ & _ & Hnp & Hfr & Hsrc).
  intros x Hx. rewrite Epd in Hx. destruct (Hpo x Hx) as (A & B & C).
  split; [lia|]. split; [intros Hf; apply B, Hfr, Hf|].
  intros Hl. apply in_app_or in Hl. destruct Hl as [Hl|Hl]; [|exact (C Hl)].
  apply In_nrun in Hl. destruct (Hsrc x Hl); [tauto|lia].
Qed.

(** ** free_pages *)
Theorem free_pages_fields s p n :
  free (free_pages s p n) = free s /\ np (free_pages s p n) = np s /\ wr (free_pages s p n) = wr s /\
  txid (free_pages s p n) = txid s /\ psz (free_pages s p n) = psz s /\
  flw (free_pages s p n) = flw s /\ seqc (free_pages s p n) = seqc s.
Proof.
  unfold free_pages. generalize (N.to_nat n) as k. intros k. revert s p.
  induction k as [|k IH]; intros s p; cbn [free_run]; [repeat split|].
  destruct (freed_in_tx s p); [apply IH|].
  destruct (IH (upd_pending s (pend_add (txid s) p (pending s))) (p + 1)) as (A & B & C & D & E & F & G).
  rewrite A, B, C, D, E, F, G. repeat split.
Qed.

Theorem free_pages_fresh live s p n : fresh_inv live s -> fresh_inv live (free_pages s p n).
Proof.
  destruct (free_pages_fields s p n) as (A & B & _ & _ & E & _). apply fresh_inv_ext; assumption.
Qed.

(* the freed pages leave [live] *)
Theorem free_pages_pend_ok live live' s p n :
  pend_ok live s ->
  (forall x, p <= x < p + n -> x < np s /\ ~ In x (free s)) ->
  (forall x, In x live' -> In x live /\ ~ (p <= x < p + n)) ->
  pend_ok live' (free_pages s p n).
Proof.
  intros Hpo Hrun Hsub x Hx. destruct (free_pages_fields s p n) as (A & B & _). rewrite A, B.
  apply EngineAllocFacts.engine_free_pend_all in Hx. destruct Hx as [Hx|Hx].
  - destruct (Hpo x Hx) as (H1 & H2 & H3). repeat split; try assumption. intros Hl. apply H3, Hsub, Hl.
  - destruct (Hrun x Hx) as (H1 & H2). repeat split; try assumption. intros Hl. apply Hsub in Hl. tauto.
Qed.

Theorem free_pages_freed s p n x :
  freed_in_tx (free_pages s p n) x = true <-> freed_in_tx s x = true \/ p <= x < p + n.
Proof. apply EngineAllocFacts.engine_free_freed. Qed.

Lemma freed_in_tx_pend_at s x : freed_in_tx s x = true <-> In x (pend_at (txid s) (pending s)).
Proof. apply EngineAllocFacts.freed_in_tx_iff. Qed.

(** ** free_node_page *)
Definition old_run (n : node) (x : N) : Prop := n_page n <> 0 /\ n_page n <= x < n_page n + n_np n.

Lemma free_node_page_fields s n :
  free (free_node_page s n) = free s /\ np (free_node_page s n) = np s /\ wr (free_node_page s n) = wr s /\
  txid (free_node_page s n) = txid s /\ psz (free_node_page s n) = psz s /\
  flw (free_node_page s n) = flw s /\ seqc (free_node_page s n) = seqc s.
Proof.
  unfold free_node_page. destruct (n_page n =? 0); [repeat split|apply free_pages_fields].
Qed.

Lemma free_node_page_freed s n x :
  freed_in_tx (free_node_page s n) x = true <-> freed_in_tx s x = true \/ old_run n x.
Proof.
  unfold free_node_page, old_run. destruct (N.eqb_spec (n_page n) 0) as [E|E].
  - split; [tauto|]. intros [H|[H _]]; [exact H|contradiction].
  - rewrite free_pages_freed. tauto.
Qed.

Lemma free_node_page_fresh live s n : fresh_inv live s -> fresh_inv live (free_node_page s n).
Proof.
  destruct (free_node_page_fields s n) as (A & B & _ & _ & E & _). apply fresh_inv_ext; assumption.
Qed.

Lemma free_node_page_pend_ok live live' s n :
  pend_ok live s ->
  (forall x, old_run n x -> x < np s /\ ~ In x (free s)) ->
  (forall x, In x live' -> In x live /\ ~ old_run n x) ->
  pend_ok live' (free_node_page s n).
Proof.
  intros Hpo Hrun Hsub. unfold free_node_page. destruct (N.eqb_spec (n_page n) 0) as [E|E].
  - eapply pend_ok_sub; [|exact Hpo]. intros x Hx. apply Hsub, Hx.
  - apply (free_pages_pend_ok live); [exact Hpo| |].
    + intros x Hx. apply Hrun. split; assumption.
    + intros x Hx. destruct (Hsub x Hx) as [A B]. split; [exact A|]. intros Hr. apply B. split; assumption.
Qed.

(** ** write_node *)
Definition wr_get (w : list (N * (N * ndata))) (p : N) : option (N * ndata) :=
  option_map snd (find (fun x => N.eqb (fst x) p) w).

Lemma wr_get_put w p v q : wr_get (wr_put w p v) q = if p =? q then Some v else wr_get w q.
Proof.
  unfold wr_get, wr_put. cbn [find fst]. destruct (N.eqb_spec p q) as [E|E]; [reflexivity|].
  f_equal. induction w as [|[a b] w IH]; [reflexivity|]. cbn [filter find fst].
  destruct (N.eqb_spec a p) as [E1|E1]; cbn [negb].
  - subst a. destruct (N.eqb_spec p q); [contradiction|exact IH].
  - cbn [find fst]. destruct (a =? q); [reflexivity|exact IH].
Qed.

Theorem write_node_spec live s n n' s' :
  fresh_inv live s -> write_node s n = (n', s') ->
  let p := n_page n' in let k := n_np n' in
  n' = set_page n p k /\ k = pages_for (psz s) (node_size n) /\ 0 < k /\ 2 <= p /\
  (forall x, p <= x < p + k -> ~ In x live) /\
  fresh_inv (nrun p k ++ live) s' /\
  wr s' = wr_put (wr s) p (node_size n, n_data n) /\
  txid s' = txid s /\ psz s' = psz s /\ flw s' = flw s /\ seqc s' = seqc s /\
  np s <= np s' /\ (forall x, In x (free s') -> In x (free s)) /\
  (forall x, freed_in_tx s' x = true <-> freed_in_tx s x = true \/ old_run n x) /\
  (forall x, old_run n x -> In x (pend_at (txid s') (pending s'))) /\
  pending s' = pending (free_node_page s n).
Proof.
  intros Hfi Hw. unfold write_node in Hw.
  destruct (tx_allocate (free_node_page s n) (node_size n)) as [[p k] s2] eqn:Hal.
  inversion Hw; subst n' s'; clear Hw.
  destruct (free_node_page_fields s n) as (F1 & F2 & F3 & F4 & F5 & F6 & F7).
  pose proof (free_node_page_fresh live s n Hfi) as Hfi1.
  destruct (tx_allocate_fresh _ _ _ _ _ _ Hfi1 (node_size_pos n) Hal)
    as (Hk & Hk0 & Hp2 & Hnl & _ & Hfi2 & Ewr & Epd & Etx & Epsz & Eflw & Eseq & Hnp & Hfr & _).
  assert (Epage : n_page (set_page n p k) = p) by (destruct n; reflexivity).
  assert (Enp : n_np (set_page n p k) = k) by (destruct n; reflexivity).
  cbv zeta. rewrite Epage, Enp. autorewrite with txs_proj.
  assert (Hfreed : forall x, freed_in_tx (upd_wr s2 (wr_put (wr s2) p (node_size n, n_data n))) x = true <->
                             freed_in_tx s x = true \/ old_run n x).
  { intros x. rewrite <- free_node_page_freed. unfold freed_in_tx. autorewrite with txs_proj.
    rewrite Epd, Etx. reflexivity. }
  split; [reflexivity|]. split; [rewrite Hk, F5; reflexivity|]. split; [exact Hk0|]. split; [exact Hp2|].
  split; [exact Hnl|].
  split. { eapply fresh_inv_ext; [| | |exact Hfi2]; reflexivity. }
  split; [rewrite Ewr, F3; reflexivity|]. split; [congruence|]. split; [congruence|].
  split; [congruence|]. split; [congruence|]. split; [lia|].
  split. { intros x Hx. rewrite <- F1. apply Hfr, Hx. }
  split; [exact Hfreed|]. split; [|exact Epd].
  intros x Hx.
  pose proof (proj2 (Hfreed x) (or_intror Hx)) as Hf. apply freed_in_tx_pend_at in Hf.
  autorewrite with txs_proj in Hf. exact Hf.
Qed.

(* the pending pages stay dead: the old page run of n leaves [live], the new run enters it *)
Theorem write_node_pend_ok live live' s n n' s' :
  fresh_inv live s -> pend_ok live s -> write_node s n = (n', s') ->
  (forall x, old_run n x -> x < np s /\ ~ In x (free s)) ->
  (forall x, In x live' -> (In x live /\ ~ old_run n x) \/ n_page n' <= x < n_page n' + n_np n') ->
  pend_ok live' s'.
Proof.
  intros Hfi Hpo Hw Hold Hsub. unfold write_node in Hw.
  destruct (tx_allocate (free_node_page s n) (node_size n)) as [[p k] s2] eqn:Hal.
  inversion Hw; subst n' s'; clear Hw.
  assert (Epage : n_page (set_page n p k) = p) by (destruct n; reflexivity).
  assert (Enp : n_np (set_page n p k) = k) by (destruct n; reflexivity).
  rewrite Epage, Enp in Hsub.
  pose proof (free_node_page_fresh live s n Hfi) as Hfi1.
  assert (Hfi1' : fresh_inv (filter (fun x => negb (negb (n_page n =? 0) && (n_page n <=? x) && (x <? n_page n + n_np n))) live)
                            (free_node_page s n)).
  { eapply fresh_inv_sub; [|exact Hfi1]. intros x Hx. apply filter_In in Hx. apply Hx. }
  assert (Hpo1 : pend_ok (filter (fun x => negb (negb (n_page n =? 0) && (n_page n <=? x) && (x <? n_page n + n_np n))) live)
                         (free_node_page s n)).
  { apply (free_node_page_pend_ok live); [exact Hpo|exact Hold|].
    intros x Hx. apply filter_In in Hx. destruct Hx as [A B]. split; [exact A|]. unfold old_run. lia. }
  pose proof (tx_allocate_pend_ok _ _ _ _ _ _ Hfi1' Hpo1 (node_size_pos n) Hal) as Hpo2.
  eapply pend_ok_sub; [|eapply pend_ok_ext; [| | |exact Hpo2]; reflexivity].
  intros x Hx. apply in_or_app. destruct (Hsub x Hx) as [[A B]|B].
  - right. apply filter_In. split; [exact A|]. unfold old_run in B. lia.
  - left. apply In_nrun, B.
Qed.

(* ====================================================================== *)
(** * 2. Stage 2: reading back what was written *)

Lemma dget_dput d p a q : dget (dput d p a) q = if p =? q then Some a else dget d q.
Proof.
  unfold dget, dput. cbn [find fst]. destruct (N.eqb_spec p q) as [E|E]; [reflexivity|].
  f_equal. induction d as [|[x b] d IH]; [reflexivity|]. cbn [filter find fst].
  destruct (N.eqb_spec x p) as [E1|E1]; cbn [negb].
  - subst x. destruct (N.eqb_spec p q); [contradiction|exact IH].
  - cbn [find fst]. destruct (x =? q); [reflexivity|exact IH].
Qed.

(* the page image of p after commit: the most recent entry of the write set for p (the write set is searched
   from its head: [wr_put] conses, and [commit] applies the reversed list), the old disk otherwise *)
Theorem dget_apply_wr w P d p :
  dget (apply_wr w P d) p = match wr_get w p with Some v => Some (mk_apage P v) | None => dget d p end.
Proof.
  induction w as [|[q v] w IH]; [reflexivity|].
  rewrite apply_wr_cons, dget_dput. unfold wr_get. cbn [find fst].
  destruct (q =? p); [reflexivity|exact IH].
Qed.

Corollary dget_apply_wr_some w P d p v :
  wr_get w p = Some v -> dget (apply_wr w P d) p = Some (mk_apage P v).
Proof. intros H. rewrite dget_apply_wr, H. reflexivity. Qed.

Corollary dget_apply_wr_none w P d p :
  wr_get w p = None -> dget (apply_wr w P d) p = dget d p.
Proof. intros H. rewrite dget_apply_wr, H. reflexivity. Qed.

(* w' has the same entries as w for the pages ps *)
Definition wr_agree (ps : list N) (w w' : list (N * (N * ndata))) : Prop :=
  forall q, In q ps -> wr_get w' q = wr_get w q.

(** ** frames: what a stretch of the spill does to the allocator state *)
(* [alloc]: every page handed out between s and s' (whole runs; also pages that were freed again);
   [dead]: every page freed between s and s' *)
Record frame (live : list N) (s s' : txs) (alloc dead : list N) : Prop := {
  fr_src : forall x, In x alloc -> In x (free s) \/ np s <= x;
  fr_fresh : fresh_inv (alloc ++ live) s';
  fr_wr : forall q, ~ In q alloc -> wr_get (wr s') q = wr_get (wr s) q;
  fr_txid : txid s' = txid s;
  fr_psz : psz s' = psz s;
  fr_np : np s <= np s';
  fr_free : forall x, In x (free s') -> In x (free s);
  fr_pend : forall x, In x (pend_all (pending s')) <-> In x (pend_all (pending s)) \/ In x dead;
  fr_freed : forall x, freed_in_tx s' x = true <-> freed_in_tx s x = true \/ In x dead }.

Lemma frame_refl live s : fresh_inv live s -> frame live s s [] [].
Proof.
  intros H. constructor; try reflexivity; try tauto; try lia.
  - intros x [].
  - intros x. cbn [In]. tauto.
  - intros x. cbn [In]. tauto.
Qed.

Lemma frame_new live s s' alloc dead x :
  fresh_inv live s -> frame live s s' alloc dead -> In x alloc -> ~ In x live.
Proof.
  intros Hfi Hfr Hx Hl. destruct (fi_live _ _ Hfi x Hl) as [A B].
  destruct (fr_src _ _ _ _ _ Hfr x Hx) as [C|C]; [exact (B C)|lia].
Qed.

Lemma frame_trans live s s1 s2 a1 d1 a2 d2 :
  frame live s s1 a1 d1 -> frame (a1 ++ live) s1 s2 a2 d2 -> frame live s s2 (a2 ++ a1) (d1 ++ d2).
Proof.
  intros F1 F2. constructor.
  - intros x Hx. apply in_app_or in Hx. destruct Hx as [Hx|Hx].
    + destruct (fr_src _ _ _ _ _ F2 x Hx) as [A|A].
      * left. apply (fr_free _ _ _ _ _ F1), A.
      * right. pose proof (fr_np _ _ _ _ _ F1). lia.
    + apply (fr_src _ _ _ _ _ F1), Hx.
  - eapply fresh_inv_sub; [|exact (fr_fresh _ _ _ _ _ F2)].
    intros x Hx. rewrite <- app_assoc in Hx. exact Hx.
  - intros q Hq. rewrite (fr_wr _ _ _ _ _ F2), (fr_wr _ _ _ _ _ F1); [reflexivity| |];
      intros Hi; apply Hq, in_or_app; tauto.
  - rewrite (fr_txid _ _ _ _ _ F2). apply (fr_txid _ _ _ _ _ F1).
  - rewrite (fr_psz _ _ _ _ _ F2). apply (fr_psz _ _ _ _ _ F1).
  - pose proof (fr_np _ _ _ _ _ F1). pose proof (fr_np _ _ _ _ _ F2). lia.
  - intros x Hx. apply (fr_free _ _ _ _ _ F1), (fr_free _ _ _ _ _ F2), Hx.
  - intros x. rewrite (fr_pend _ _ _ _ _ F2), (fr_pend _ _ _ _ _ F1), in_app_iff. tauto.
  - intros x. rewrite (fr_freed _ _ _ _ _ F2), (fr_freed _ _ _ _ _ F1), in_app_iff. tauto.
Qed.

(* a frame may be read with fewer live pages *)
Lemma frame_sub live live' s s' alloc dead :
  (forall x, In x live' -> In x live) -> frame live s s' alloc dead -> frame live' s s' alloc dead.
Proof.
  intros Hsub [A B C D E F G H I]. constructor; try assumption.
  eapply fresh_inv_sub; [|exact B]. intros x Hx. apply in_app_or in Hx. apply in_or_app.
  destruct Hx; [left; assumption|right; apply Hsub; assumption].
Qed.

(* the pending pages stay dead, provided every freed page was live or handed out before *)
Theorem frame_pend_ok live live' s s' alloc dead :
  fresh_inv live s -> pend_ok live s -> frame live s s' alloc dead ->
  (forall x, In x dead -> In x live \/ In x alloc) ->
  (forall x, In x live' -> (In x live \/ In x alloc) /\ ~ In x dead) ->
  pend_ok live' s'.
Proof.
  intros Hfi Hpo Hfr Hdead Hsub x Hx. apply (fr_pend _ _ _ _ _ Hfr) in Hx. destruct Hx as [Hx|Hx].
  - destruct (Hpo x Hx) as (A & B & C). pose proof (fr_np _ _ _ _ _ Hfr). split; [lia|].
    split; [intros Hf; apply B, (fr_free _ _ _ _ _ Hfr), Hf|].
    intros Hl. destruct (Hsub x Hl) as [[D|D] _]; [exact (C D)|].
    destruct (fr_src _ _ _ _ _ Hfr x D); [tauto|lia].
  - assert (Hin : In x (alloc ++ live)) by (apply in_or_app; destruct (Hdead x Hx); tauto).
    destruct (fi_live _ _ (fr_fresh _ _ _ _ _ Hfr) x Hin) as [A B]. repeat split; try assumption.
    intros Hl. apply (proj2 (Hsub x Hl)), Hx.
Qed.

(* the page run of a node that has one *)
Definition old_pages (n : node) : list N := if n_page n =? 0 then [] else nrun (n_page n) (n_np n).

Lemma In_old_pages n x : In x (old_pages n) <-> old_run n x.
Proof.
  unfold old_pages, old_run. destruct (N.eqb_spec (n_page n) 0) as [E|E].
  - cbn [In]. tauto.
  - rewrite In_nrun. tauto.
Qed.

Lemma free_node_page_pend_all s n x :
  In x (pend_all (pending (free_node_page s n))) <-> In x (pend_all (pending s)) \/ old_run n x.
Proof.
  unfold free_node_page, old_run. destruct (N.eqb_spec (n_page n) 0) as [E|E].
  - tauto.
  - rewrite EngineAllocFacts.engine_free_pend_all. tauto.
Qed.

Theorem write_node_frame live s n n' s' :
  fresh_inv live s -> write_node s n = (n', s') ->
  frame live s s' (nrun (n_page n') (n_np n')) (old_pages n) /\
  n' = set_page n (n_page n') (n_np n') /\ 2 <= n_page n' /\ 0 < n_np n' /\
  n_np n' = pages_for (psz s) (node_size n) /\
  wr_get (wr s') (n_page n') = Some (node_size n, n_data n).
Proof.
  intros Hfi Hw. pose proof (write_node_spec _ _ _ _ _ Hfi Hw) as H. cbv zeta in H.
  destruct H as (En & Ek & Hk0 & Hp2 & Hnl & Hfi' & Ewr & Etx & Epsz & _ & _ & Hnp & Hfr & Hfreed & _ & Epd).
  assert (Hsrc : forall x, In x (nrun (n_page n') (n_np n')) -> In x (free s) \/ np s <= x).
  { unfold write_node in Hw.
    destruct (tx_allocate (free_node_page s n) (node_size n)) as [[p k] s2] eqn:Hal.
    inversion Hw; subst n' s'.
    assert (Epage : n_page (set_page n p k) = p) by (destruct n; reflexivity).
    assert (Enp : n_np (set_page n p k) = k) by (destruct n; reflexivity).
    rewrite Epage, Enp. intros x Hx. apply In_nrun in Hx.
    destruct (free_node_page_fields s n) as (F1 & F2 & _).
    destruct (tx_allocate_fresh _ _ _ _ _ _ (free_node_page_fresh live s n Hfi) (node_size_pos n) Hal)
      as (_ & _ & _ & _ & _ & _ & _ & _ & _ & _ & _ & _ & _ & _ & Hs).
    rewrite <- F1, <- F2. apply Hs, Hx. }
  split; [|repeat (split; [assumption|]); rewrite Ewr, wr_get_put, N.eqb_refl; reflexivity].
  constructor; try assumption.
  - intros q Hq. rewrite Ewr, wr_get_put. destruct (N.eqb_spec (n_page n') q) as [E|E]; [|reflexivity].
    exfalso. apply Hq, In_nrun. lia.
  - intros x. rewrite Epd, free_node_page_pend_all, In_old_pages. reflexivity.
  - intros x. rewrite Hfreed, In_old_pages. reflexivity.
Qed.

(** ** the tail of [spill_node]: split, write (twice when the node is split), write the siblings *)
Definition spill_sib_step (acc : list (bytes * N) * txs) (dd : ndata) : res (list (bytes * N) * txs) :=
  let '(l, s0) := acc in
  fk <- first_key dd ;;
  let '(sn, s') := write_node s0 (Node 0 0 (Some fk) 0 dd []) in Ok (l ++ [(fk, n_page sn)], s').

Definition spill_tail (n : node) (d1 : ndata) (s1 : txs) : res (spill_out * txs) :=
  let '(d0, rest) := split s1 d1 in
  let n0 := set_kids (set_data n d0) [] in
  let '(n1, s2) := write_node s1 n0 in
  let '(n2, s3) := match rest with [] => (n1, s2) | _ => write_node s2 n1 end in
  '(sibs, s4) <- fold_res spill_sib_step rest ([], s3) ;;
  fk0 <- first_key (n_data n2) ;;
  Ok ((n_orig n, (fk0, n_page n2), sibs), s4).

Definition spill_kid_step (f : nat) (acc : ndata * txs) (k : node) : res (ndata * txs) :=
  let '(dd, s0) := acc in
  '(out, s') <- spill_node f k s0 ;;
  let '(ko, kb, sibs) := out in
  match dd with Leaves _ => Panic "CANNOT INSERT BRANCH INTO A LEAF NODE"%string | Branches es =>
    es1 <- insert_branch es ko kb ;;
    es2 <- fold_res (fun e sb => insert_branch e None sb) sibs es1 ;;
    Ok (Branches es2, s') end.

Definition kid_keys (ks : list node) : res (list (bytes * node)) :=
  fold_res (fun acc k => fk <- first_key (n_data k) ;; Ok (acc ++ [(fk, k)])) ks [].

Lemma spill_node_unfold f n s :
  spill_node (S f) n s =
  (ks <- kid_keys (n_kids n) ;;
   '(d1, s1) <- fold_res (spill_kid_step f) (map snd (isort_by fst ks)) (n_data n, s) ;;
   spill_tail n d1 s1).
Proof. reflexivity. Qed.

(* what the tail promises about one written piece: its key, its entry in the write set *)
Definition piece_written (w : list (N * (N * ndata))) (sb : bytes * N) (dd : ndata) : Prop :=
  first_key dd = Ok (fst sb) /\ wr_get w (snd sb) = Some (40 + dsize dd, dd).

Lemma sibs_fold_spec : forall rest live l s0 sibs s',
  fresh_inv live s0 -> fold_res spill_sib_step rest (l, s0) = Ok (sibs, s') ->
  exists new alloc,
    sibs = l ++ new /\ Forall2 (piece_written (wr s')) new rest /\
    NoDup (map snd new) /\ (forall q, In q (map snd new) -> In q alloc /\ 2 <= q) /\
    frame live s0 s' alloc [].
Proof.
  induction rest as [|dd rest IH]; intros live l s0 sibs s' Hfi H; cbn [fold_res] in H.
  - inversion H; subst. exists [], []. rewrite app_nil_r.
    split; [reflexivity|]. split; [constructor|]. split; [constructor|]. split; [intros q []|].
    apply frame_refl, Hfi.
  - destruct (spill_sib_step (l, s0) dd) as [[l1 s1]| |] eqn:Hstep; try discriminate. cbn [bind] in H.
    unfold spill_sib_step, bind in Hstep.
    destruct (first_key dd) as [fk| |] eqn:Efk; try discriminate.
    destruct (write_node s0 (Node 0 0 (Some fk) 0 dd [])) as [sn s1'] eqn:Hw.
    inversion Hstep; subst l1 s1'; clear Hstep.
    destruct (write_node_frame _ _ _ _ _ Hfi Hw) as (Hfr1 & Esn & Hp2 & Hk0 & _ & Hget).
    change (old_pages (Node 0 0 (Some fk) 0 dd [])) with (@nil N) in Hfr1.
    cbn [n_data node_size] in Hget. unfold node_size in Hget. cbn [n_data] in Hget.
    set (a1 := nrun (n_page sn) (n_np sn)) in *.
    destruct (IH (a1 ++ live) _ _ _ _ (fr_fresh _ _ _ _ _ Hfr1) H) as (new & alloc & Es & Hpw & Hnd & Hin & Hfr2).
    assert (Hpa : In (n_page sn) a1) by (apply In_nrun; lia).
    assert (Hnotin : ~ In (n_page sn) alloc).
    { intros Hi. apply (frame_new _ _ _ _ _ _ (fr_fresh _ _ _ _ _ Hfr1) Hfr2 Hi). apply in_or_app. left. exact Hpa. }
    exists ((fk, n_page sn) :: new), (alloc ++ a1). split; [rewrite Es, <- app_assoc; reflexivity|].
    split.
    { constructor; [|exact Hpw]. split; [exact Efk|]. cbn [snd].
      rewrite (fr_wr _ _ _ _ _ Hfr2 _ Hnotin). exact Hget. }
    split.
    { cbn [map snd]. constructor; [|exact Hnd]. intros Hi. apply Hnotin, (Hin _ Hi). }
    split.
    { intros q Hq. cbn [map snd In] in Hq. destruct Hq as [<-|Hq].
      - split; [apply in_or_app; right; exact Hpa|exact Hp2].
      - destruct (Hin q Hq) as [A B]. split; [apply in_or_app; left; exact A|exact B]. }
    apply (frame_trans _ _ _ _ _ _ _ _ Hfr1 Hfr2).
Qed.

Theorem spill_tail_spec live n d1 s1 orig fk p sibs s' :
  fresh_inv live s1 -> spill_tail n d1 s1 = Ok ((orig, (fk, p), sibs), s') ->
  exists d0 rest alloc stale,
    split s1 d1 = (d0, rest) /\ orig = n_orig n /\
    Forall2 (piece_written (wr s')) ((fk, p) :: sibs) (d0 :: rest) /\
    NoDup (p :: map snd sibs) /\
    (forall q, In q (p :: map snd sibs) -> In q alloc /\ 2 <= q /\ ~ In q stale) /\
    frame live s1 s' alloc (old_pages n ++ stale) /\
    (forall x, In x stale -> In x alloc) /\ (rest = [] -> stale = []) /\ (rest <> [] -> stale <> []).
Proof.
  intros Hfi H. unfold spill_tail in H.
  destruct (split s1 d1) as [d0 rest] eqn:Esp.
  destruct (write_node s1 (set_kids (set_data n d0) [])) as [n1 s2] eqn:Hw1.
  destruct (write_node_frame _ _ _ _ _ Hfi Hw1) as (Hfr1 & En1 & Hp1 & Hk1 & _ & Hget1).
  assert (Eold : old_pages (set_kids (set_data n d0) []) = old_pages n) by (destruct n; reflexivity).
  assert (Edata0 : n_data (set_kids (set_data n d0) []) = d0) by (destruct n; reflexivity).
  rewrite Eold in Hfr1. unfold node_size in Hget1. rewrite Edata0 in Hget1.
  assert (Edata1 : n_data n1 = d0).
  { rewrite En1. destruct n; reflexivity. }
  set (a1 := nrun (n_page n1) (n_np n1)) in *.
  assert (Hp1a : In (n_page n1) a1) by (apply In_nrun; lia).
  exists d0, rest.
  destruct rest as [|r0 rest'].
  - (* no split: one write *)
    cbn [fold_res] in H. unfold bind in H.
    destruct (first_key (n_data n1)) as [fk0| |] eqn:Efk; try discriminate.
    inversion H; subst orig fk p sibs s'. clear H.
    exists a1, []. split; [reflexivity|]. split; [reflexivity|].
    split. { constructor; [|constructor]. split; [rewrite <- Edata1; exact Efk|exact Hget1]. }
    split. { cbn [map]. constructor; [intros []|constructor]. }
    split. { intros q [<-|[]]. split; [exact Hp1a|]. split; [exact Hp1|intros []]. }
    split. { rewrite app_nil_r. exact Hfr1. }
    split; [intros x []|]. split; [reflexivity|]. intros Hne. exfalso. apply Hne. reflexivity.
  - (* split: the node is written a second time, the first page is freed again *)
    destruct (write_node s2 n1) as [n2 s3] eqn:Hw2.
    pose proof (fr_fresh _ _ _ _ _ Hfr1) as Hfi2.
    destruct (write_node_frame _ _ _ _ _ Hfi2 Hw2) as (Hfr2 & En2 & Hp2 & Hk2 & _ & Hget2).
    unfold node_size in Hget2. rewrite Edata1 in Hget2.
    assert (Edata2 : n_data n2 = d0). { rewrite En2. rewrite <- Edata1. destruct n1; reflexivity. }
    assert (Eold1 : old_pages n1 = a1).
    { unfold old_pages. destruct (N.eqb_spec (n_page n1) 0); [lia|reflexivity]. }
    rewrite Eold1 in Hfr2.
    set (a2 := nrun (n_page n2) (n_np n2)) in *.
    assert (Hp2a : In (n_page n2) a2) by (apply In_nrun; lia).
    pose proof (frame_trans _ _ _ _ _ _ _ _ Hfr1 Hfr2) as Hfr12.
    unfold bind in H.
    destruct (fold_res spill_sib_step (r0 :: rest') ([], s3)) as [[sibs0 s4]| |] eqn:Hsibs; try discriminate.
    destruct (first_key (n_data n2)) as [fk0| |] eqn:Efk; try discriminate.
    inversion H; subst orig fk p sibs0 s4. clear H.
    pose proof (fr_fresh _ _ _ _ _ Hfr2) as Hfi3.
    destruct (sibs_fold_spec _ _ _ _ _ _ Hfi3 Hsibs) as (new & alloc & Es & Hpw & Hnd & Hin & Hfr3).
    cbn [app] in Es. subst new.
    assert (Hfr3' : frame ((a2 ++ a1) ++ live) s3 s' alloc []).
    { eapply frame_sub; [|exact Hfr3]. intros x Hx. rewrite <- app_assoc in Hx. exact Hx. }
    pose proof (frame_trans _ _ _ _ _ _ _ _ Hfr12 Hfr3') as Hfr.
    assert (Hdisj12 : forall x, In x a2 -> ~ In x a1).
    { intros x Hx Hx1. apply (frame_new _ _ _ _ _ _ Hfi2 Hfr2 Hx). apply in_or_app. left. exact Hx1. }
    assert (Hdisj3 : forall x, In x alloc -> ~ In x a2 /\ ~ In x a1).
    { intros x Hx. pose proof (frame_new _ _ _ _ _ _ Hfi3 Hfr3 Hx) as Hn.
      split; intros Hi; apply Hn; apply in_or_app; [left; exact Hi|right; apply in_or_app; left; exact Hi]. }
    exists (alloc ++ a2 ++ a1), a1. split; [reflexivity|]. split; [reflexivity|].
    split.
    { constructor; [|exact Hpw]. split; [rewrite <- Edata2; exact Efk|]. cbn [snd].
      rewrite (fr_wr _ _ _ _ _ Hfr3); [exact Hget2|]. intros Hi. apply (proj1 (Hdisj3 _ Hi)), Hp2a. }
    split.
    { constructor; [|exact Hnd]. intros Hi. apply (proj1 (Hdisj3 _ (proj1 (Hin _ Hi)))), Hp2a. }
    split.
    { intros q [<-|Hq].
      - split; [apply in_or_app; right; apply in_or_app; left; exact Hp2a|]. split; [exact Hp2|].
        apply Hdisj12, Hp2a.
      - destruct (Hin q Hq) as [A B]. split; [apply in_or_app; left; exact A|]. split; [exact B|].
        apply (Hdisj3 _ A). }
    split.
    { replace (old_pages n ++ a1) with ((old_pages n ++ a1) ++ []) by apply app_nil_r. exact Hfr. }
    split. { intros x Hx. apply in_or_app. right. apply in_or_app. right. exact Hx. }
    split; [discriminate|]. intros _ E. rewrite E in Hp1a. destruct Hp1a.
Qed.

(** ** from the write set to the committed disk *)
Lemma pieces_on_disk w w' P d : forall sbs dds,
  Forall2 (piece_written w) sbs dds -> wr_agree (map snd sbs) w w' ->
  Forall2 (fun sb dd => dget (apply_wr w' P d) (snd sb) = Some (mk_apage P (40 + dsize dd, dd))) sbs dds.
Proof.
  induction 1 as [|sb dd sbs dds [_ Hg] _ IH]; intros Hag; constructor.
  - apply dget_apply_wr_some. rewrite Hag; [exact Hg|]. left. reflexivity.
  - apply IH. intros q Hq. apply Hag. right. exact Hq.
Qed.

Lemma Forall2_map_r {A B C} (R : A -> C -> Prop) (f : B -> C) : forall la lb,
  Forall2 R la (map f lb) <-> Forall2 (fun a b => R a (f b)) la lb.
Proof.
  intros la lb. split.
  - revert la. induction lb as [|b lb IH]; intros la H; inversion H; subst; constructor; auto.
  - induction 1; cbn [map]; constructor; auto.
Qed.

Lemma Forall2_impl {A B} (R R' : A -> B -> Prop) : (forall a b, R a b -> R' a b) ->
  forall la lb, Forall2 R la lb -> Forall2 R' la lb.
Proof. intros H la lb. induction 1; constructor; auto. Qed.

Lemma page_ents_leaf f d p a l : dget d p = Some a -> ap_body a = Leaves l -> page_ents (S f) d p = l.
Proof. intros H1 H2. cbn [page_ents]. rewrite H1, H2. reflexivity. Qed.

Lemma page_ents_branch f d p a es : dget d p = Some a -> ap_body a = Branches es ->
  page_ents (S f) d p = flat_map (fun e => page_ents f d (snd e)) es.
Proof. intros H1 H2. cbn [page_ents]. rewrite H1, H2. reflexivity. Qed.

Lemma concat_Forall2 {A B} (g : A -> list B) : forall la lb,
  Forall2 (fun a b => g a = b) la lb -> concat (map g la) = concat lb.
Proof. induction 1; cbn [map concat]; [reflexivity|]. congruence. Qed.

(** ** Stage 2, main theorem: spilling a leaf without kids *)
Theorem spill_leaf_spec live fuel n s l orig fk p sibs s' :
  fresh_inv live s -> n_kids n = [] -> n_data n = Leaves l -> l <> [] ->
  spill_node fuel n s = Ok ((orig, (fk, p), sibs), s') ->
  exists l0 ls alloc stale,
    split s (Leaves l) = (Leaves l0, map Leaves ls) /\ l0 ++ concat ls = l /\
    orig = n_orig n /\
    (exists e r, l = e :: r /\ fk = lkey e) /\
    Forall2 (fun sb piece => exists e r, piece = e :: r /\ fst sb = lkey e) ((fk, p) :: sibs) (l0 :: ls) /\
    NoDup (p :: map snd sibs) /\
    (forall q, In q (p :: map snd sibs) -> In q alloc /\ 2 <= q /\ ~ In q stale /\ ~ In q live) /\
    frame live s s' alloc (old_pages n ++ stale) /\
    (forall x, old_run n x -> freed_in_tx s' x = true) /\
    (forall x, In x stale -> In x alloc /\ freed_in_tx s' x = true) /\
    (ls = [] -> stale = []) /\ (ls <> [] -> stale <> []) /\
    (forall w' P d, wr_agree (p :: map snd sibs) (wr s') w' ->
       let d' := apply_wr w' P d in
       Forall2 (fun sb piece => page_ents 1 d' (snd sb) = piece) ((fk, p) :: sibs) (l0 :: ls) /\
       page_ents 1 d' p ++ concat (map (fun sb => page_ents 1 d' (snd sb)) sibs) = l).
Proof.
  intros Hfi Hk Hd Hne H. destruct fuel as [|f]; [discriminate|].
  rewrite spill_node_unfold, Hk, Hd in H. cbn [kid_keys fold_res bind isort_by map] in H.
  destruct (spill_tail_spec _ _ _ _ _ _ _ _ _ Hfi H)
    as (d0 & rest & alloc & stale & Esp & Eo & Hpw & Hnd & Hin & Hfr & Hst & Hst0 & Hst1).
  destruct (split_leaves s l) as (l0 & ls & Esp' & Hcat & _ & _ & Hlen).
  rewrite Esp' in Esp. inversion Esp; subst d0 rest. clear Esp.
  change (Leaves l0 :: map Leaves ls) with (map Leaves (l0 :: ls)) in Hpw.
  apply (proj1 (Forall2_map_r _ Leaves _ (l0 :: ls))) in Hpw.
  assert (Hkeys : Forall2 (fun sb piece => exists e r, piece = e :: r /\ fst sb = lkey e) ((fk, p) :: sibs) (l0 :: ls)).
  { eapply Forall2_impl; [|exact Hpw]. intros sb piece [Hf _]. destruct piece as [|e r]; [discriminate|].
    cbn [first_key] in Hf. inversion Hf. exists e, r. split; reflexivity. }
  exists l0, ls, alloc, stale. split; [exact Esp'|]. split; [exact Hcat|]. split; [exact Eo|].
  split.
  { inversion Hkeys as [|? ? ? ? (e & r & E1 & E2) _]; subst. exists e, (r ++ concat ls).
    split; [reflexivity|exact E2]. }
  split; [exact Hkeys|]. split; [exact Hnd|].
  split.
  { intros q Hq. destruct (Hin q Hq) as (A & B & C). repeat split; try assumption.
    apply (frame_new _ _ _ _ _ _ Hfi Hfr A). }
  split; [exact Hfr|].
  split. { intros x Hx. apply (fr_freed _ _ _ _ _ Hfr). right. apply in_or_app. left. apply In_old_pages, Hx. }
  split. { intros x Hx. split; [apply Hst, Hx|]. apply (fr_freed _ _ _ _ _ Hfr). right. apply in_or_app. right. exact Hx. }
  split. { intros E. apply Hst0. rewrite E. reflexivity. }
  split. { intros E. apply Hst1. destruct ls; [contradiction|discriminate]. }
  intros w' P d Hag. cbv zeta.
  assert (Hpw' : Forall2 (piece_written (wr s')) ((fk, p) :: sibs) (map Leaves (l0 :: ls))).
  { apply Forall2_map_r. exact Hpw. }
  pose proof (pieces_on_disk _ _ P d _ _ Hpw' Hag) as Hdisk.
  apply (proj1 (Forall2_map_r _ Leaves _ (l0 :: ls))) in Hdisk.
  assert (Hpe : Forall2 (fun sb piece => page_ents 1 (apply_wr w' P d) (snd sb) = piece) ((fk, p) :: sibs) (l0 :: ls)).
  { eapply Forall2_impl; [|exact Hdisk]. intros sb piece Hg. eapply page_ents_leaf; [exact Hg|reflexivity]. }
  split; [exact Hpe|].
  rewrite <- Hcat. inversion Hpe as [|? ? ? ? E1 E2]. cbn [snd] in E1. rewrite E1. f_equal.
  apply concat_Forall2 with (g := fun sb => page_ents 1 (apply_wr w' P d) (snd sb)). exact E2.
Qed.

(** ** Non-vacuity of stages 1 and 2 *)
Definition ex_live : list N := [3; 6; 8; 9; 10; 11].
Definition ex_s : txs :=
  {| free := [4; 5; 7]; pending := []; txid := 6; np := 12; psz := 1024; wr := []; flw := None; seqc := 1 |}.
(* six entries with 300-byte keys: splits in three pieces of two entries at page size 1024 *)
Definition ex_leaf6 : list leafent := EngineFacts.leaf6.
Definition ex_n : node := Node 3 1 (Some (EngineFacts.k300 x01)) 1 (Leaves ex_leaf6) [].

Ltac in_cases H := cbn [In] in H; repeat (destruct H as [<-|H]; [|]); try contradiction.

Example ex_fresh : fresh_inv ex_live ex_s /\ pend_ok ex_live ex_s.
Proof.
  split; [constructor|]; cbn [ex_s free np psz pending].
  - lia.
  - lia.
  - repeat constructor; lia.
  - repeat constructor; lia.
  - intros x Hx. in_cases Hx; lia.
  - intros x Hx. unfold ex_live in Hx. in_cases Hx; (split; [lia|]); intros Hf; in_cases Hf; lia.
  - intros x [].
Qed.

(* hypotheses of tx_allocate_fresh: both sources *)
Example ex_alloc_free : tx_allocate ex_s 1500 = (4, 2, upd_free ex_s [7]).
Proof. vm_compute. reflexivity. Qed.
Example ex_alloc_grow : tx_allocate ex_s 2500 = (12, 3, upd_np ex_s 15).
Proof. vm_compute. reflexivity. Qed.

(* write_node: the old page 3 goes to pending under txid 6, the node lands on free page 4 *)
Example ex_write_node :
  let '(n', s') := write_node ex_s ex_n in
  n_page n' = 4 /\ n_np n' = 2 /\ pending s' = [(6, [3])] /\ free s' = [7] /\
  map fst (wr s') = [4] /\ wr_get (wr s') 4 = Some (node_size ex_n, n_data ex_n).
Proof. vm_compute. repeat split. Qed.

(* the write set after spilling the leaf: the first piece was written to page 4 first, then again to page 5;
   page 4 is pending (freed) but its entry is still in the write set *)
Example ex_spill_leaf :
  n_kids ex_n = [] /\ n_data ex_n = Leaves ex_leaf6 /\ ex_leaf6 <> [] /\
  match spill_node 1 ex_n ex_s with
  | Ok ((orig, (fk, p), sibs), s') =>
      orig = Some (EngineFacts.k300 x01) /\ fk = EngineFacts.k300 x01 /\ p = 5 /\
      sibs = [(EngineFacts.k300 x03, 7); (EngineFacts.k300 x05, 12)] /\
      map fst (wr s') = [12; 7; 5; 4] /\ pending s' = [(6, [3; 4])] /\ free s' = [] /\ np s' = 13 /\
      let d' := apply_wr (wr s') (psz s') [(3, {| ap_over := 0; ap_body := Leaves [] |})] in
      map (page_ents 1 d') [5; 7; 12] = [firstn 2 ex_leaf6; firstn 2 (skipn 2 ex_leaf6); skipn 4 ex_leaf6] /\
      page_ents 1 d' 4 = firstn 2 ex_leaf6
  | _ => False end.
Proof. vm_compute. repeat split; discriminate. Qed.

(* the theorem applied to the instance *)
Example ex_spill_leaf_thm :
  exists orig fk p sibs s', spill_node 1 ex_n ex_s = Ok ((orig, (fk, p), sibs), s') /\
    forall d, let d' := apply_wr (wr s') 1024 d in
      page_ents 1 d' p ++ concat (map (fun sb => page_ents 1 d' (snd sb)) sibs) = ex_leaf6.
Proof.
  destruct (spill_node 1 ex_n ex_s) as [[[[orig [fk p]] sibs] s']| |] eqn:E; try (vm_compute in E; discriminate).
  exists orig, fk, p, sibs, s'. split; [reflexivity|]. intros d.
  assert (Hne : ex_leaf6 <> []) by (vm_compute; discriminate).
  destruct (spill_leaf_spec ex_live 1 ex_n ex_s ex_leaf6 _ _ _ _ _ (proj1 ex_fresh) eq_refl eq_refl Hne E)
    as (l0 & ls & alloc & stale & _ & _ & _ & _ & _ & _ & _ & _ & _ & _ & _ & _ & Hd).
  apply (Hd (wr s') 1024 d). intros q _. reflexivity.
Qed.

(* ====================================================================== *)
(** * 3. Stage 3: [spill_node] on an overlay node, [spill_root] *)

(** ** 3a. binary search and [insert_branch] at a known position *)
Lemma sorted_mid : forall a t b, sorted_keys (a ++ t :: b) = true ->
  Forall (fun x => bcmp x t = Lt) a /\ Forall (fun x => bcmp t x = Lt) b.
Proof.
  induction a as [|x a IH]; intros t b H.
  - split; [constructor|]. apply (sorted_keys_cons _ _ H).
  - cbn [app] in H. destruct (sorted_keys_cons _ _ H) as [Hx Hs]. destruct (IH _ _ Hs) as [A B].
    split; [|exact B]. constructor; [|exact A].
    rewrite Forall_forall in Hx. apply Hx. apply in_or_app. right. left. reflexivity.
Qed.

Lemma sorted_drop_mid : forall a b c, sorted_keys (a ++ b ++ c) = true -> sorted_keys (a ++ c) = true.
Proof.
  induction a as [|x a IH]; intros b c H.
  - cbn [app] in *. apply (sorted_keys_app b c H).
  - cbn [app] in *. destruct (sorted_keys_cons _ _ H) as [Hx Hs]. apply sorted_keys_cons_intro.
    + rewrite Forall_forall in *. intros y Hy. apply Hx. apply in_app_or in Hy. apply in_or_app.
      destruct Hy; [left; assumption|right; apply in_or_app; right; assumption].
    + apply (IH b c Hs).
Qed.

Lemma bsearch_pos_found k1 t k2 :
  sorted_keys (k1 ++ t :: k2) = true -> bsearch (k1 ++ t :: k2) t = (true, N.of_nat (List.length k1)).
Proof.
  intros Hs. destruct (EngineFacts.ebsearch_complete _ t Hs) as [i Hi].
  { apply in_or_app. right. left. reflexivity. }
  rewrite Hi. f_equal. pose proof (EngineFacts.ebsearch_found _ _ _ Hs Hi) as Hn.
  assert (Hn2 : nth_error (k1 ++ t :: k2) (List.length k1) = Some t).
  { rewrite nth_error_app2 by lia. rewrite Nat.sub_diag. reflexivity. }
  pose proof (sorted_NoDup _ Hs) as Hnd.
  assert (E : N.to_nat i = List.length k1).
  { eapply (proj1 (NoDup_nth_error _) Hnd); [|congruence]. apply nth_error_Some. congruence. }
  lia.
Qed.

Lemma bsearch_pos_missing k1 k2 t :
  sorted_keys (k1 ++ k2) = true ->
  Forall (fun x => bcmp x t = Lt) k1 -> Forall (fun x => bcmp t x = Lt) k2 ->
  bsearch (k1 ++ k2) t = (false, N.of_nat (List.length k1)).
Proof.
  intros Hs H1 H2. rewrite Forall_forall in H1, H2.
  destruct (bsearch (k1 ++ k2) t) as [[|] i] eqn:E.
  - exfalso. pose proof (EngineFacts.ebsearch_found _ _ _ Hs E) as Hn. apply nth_error_In in Hn.
    apply in_app_or in Hn. destruct Hn as [Hn|Hn]; [apply H1 in Hn|apply H2 in Hn];
      rewrite bcmp_refl in Hn; discriminate.
  - f_equal. destruct (EngineFacts.ebsearch_missing _ _ _ Hs E) as (Hle & Hlt & Hgt).
    rewrite app_length in Hle.
    destruct (Nat.lt_trichotomy (N.to_nat i) (List.length k1)) as [Hc|[Hc|Hc]]; [| lia |].
    + exfalso. specialize (Hgt (N.to_nat i)). rewrite app_length in Hgt.
      rewrite app_nth1 in Hgt by lia. specialize (Hgt ltac:(lia)).
      rewrite (H1 (nth (N.to_nat i) k1 [])) in Hgt; [discriminate|]. apply nth_In. lia.
    + exfalso. specialize (Hlt (List.length k1) Hc). rewrite app_nth2, Nat.sub_diag in Hlt by lia.
      assert (Hin : In (nth 0 k2 []) k2) by (apply nth_In; lia).
      apply H2, bcmp_lt_gt in Hin. congruence.
Qed.

Lemma replace_at_mid {A} (x : list A) e y v : replace_at (x ++ e :: y) (List.length x) v = x ++ v :: y.
Proof. induction x as [|a x IH]; cbn [app List.length replace_at]; [reflexivity|]. now rewrite IH. Qed.

Lemma insert_at_mid {A} (x y : list A) v : insert_at (x ++ y) (List.length x) v = x ++ v :: y.
Proof. induction x as [|a x IH]; cbn [app List.length insert_at]; [destruct y; reflexivity|]. now rewrite IH. Qed.

Lemma insert_branch_replace (X Y : list (bytes * N)) ko q kb :
  sorted_keys (map fst (X ++ (ko, q) :: Y)) = true ->
  insert_branch (X ++ (ko, q) :: Y) (Some ko) kb = Ok (X ++ kb :: Y).
Proof.
  intros Hs. unfold insert_branch. rewrite map_app in *. cbn [map fst] in *.
  rewrite (bsearch_pos_found _ _ _ Hs), Nat2N.id, map_length, replace_at_mid. reflexivity.
Qed.

Lemma insert_branch_new (X Y : list (bytes * N)) sb :
  sorted_keys (map fst (X ++ sb :: Y)) = true ->
  insert_branch (X ++ Y) None sb = Ok (X ++ sb :: Y).
Proof.
  intros Hs. unfold insert_branch. rewrite map_app in *. cbn [map] in Hs.
  destruct (sorted_mid _ _ _ Hs) as [H1 H2].
  rewrite (bsearch_pos_missing _ _ _ (sorted_drop_mid _ [fst sb] _ Hs) H1 H2), Nat2N.id, map_length, insert_at_mid.
  reflexivity.
Qed.

Lemma insert_branch_sibs : forall (sibs X D Y : list (bytes * N)),
  sorted_keys (map fst (X ++ (D ++ sibs) ++ Y)) = true ->
  fold_res (fun e sb => insert_branch e None sb) sibs (X ++ D ++ Y) = Ok (X ++ (D ++ sibs) ++ Y).
Proof.
  induction sibs as [|sb sibs IH]; intros X D Y Hs; cbn [fold_res].
  - rewrite app_nil_r. reflexivity.
  - replace (X ++ D ++ Y) with ((X ++ D) ++ Y) by (rewrite app_assoc; reflexivity).
    rewrite insert_branch_new.
    + cbn [bind]. replace ((X ++ D) ++ sb :: Y) with (X ++ (D ++ [sb]) ++ Y)
        by (rewrite <- !app_assoc; reflexivity).
      rewrite IH; [rewrite <- !app_assoc; reflexivity|].
      rewrite <- !app_assoc in *. exact Hs.
    + replace ((X ++ D) ++ sb :: Y) with (X ++ (D ++ [sb]) ++ Y) by (rewrite <- !app_assoc; reflexivity).
      replace (X ++ (D ++ sb :: sibs) ++ Y) with ((X ++ D ++ [sb]) ++ sibs ++ Y) in Hs
        by (rewrite <- !app_assoc; reflexivity).
      rewrite map_app, (map_app _ sibs Y) in Hs. apply sorted_drop_mid in Hs. rewrite <- map_app in Hs.
      rewrite <- !app_assoc in *. exact Hs.
Qed.

(* the whole effect of one kid on its parent's entries *)
Lemma insert_outs (X Y : list (bytes * N)) ko q kb sibs :
  sorted_keys (map fst (X ++ (ko, q) :: Y)) = true ->
  sorted_keys (map fst (X ++ (kb :: sibs) ++ Y)) = true ->
  (es1 <- insert_branch (X ++ (ko, q) :: Y) (Some ko) kb ;;
   fold_res (fun e sb => insert_branch e None sb) sibs es1) = Ok (X ++ (kb :: sibs) ++ Y).
Proof.
  intros H1 H2. rewrite (insert_branch_replace _ _ _ _ _ H1). cbn [bind].
  apply (insert_branch_sibs sibs X [kb] Y). exact H2.
Qed.

(** ** 3b. key ranges, the hypotheses on an overlay node *)
(* lo <= k < hi, a missing bound is no bound *)
Definition in_range (lo hi : option bytes) (k : bytes) : Prop :=
  match lo with Some l => bcmp l k <> Gt | None => True end /\
  match hi with Some h => bcmp k h = Lt | None => True end.

Definition keys_ok (lo hi : option bytes) (ks : list bytes) : Prop :=
  ks <> [] /\ sorted_keys ks = true /\ forall k, In k ks -> in_range lo hi k.

(* the key range of each child: child 0 inherits the lower bound of the node, child i > 0 starts at its own
   separator; every child ends at the next separator, the last one at the upper bound of the node *)
Fixpoint chb (lo hi : option bytes) (es : list (bytes * N)) : list (option bytes * option bytes * (bytes * N)) :=
  match es with
  | [] => []
  | e :: es' => let h := match es' with [] => hi | e' :: _ => Some (fst e') end in (lo, h, e) :: chb h hi es'
  end.

Lemma chb_In lo hi es e : In e es -> exists l h, In (l, h, e) (chb lo hi es).
Proof.
  revert lo. induction es as [|e0 es IH]; intros lo H; [destruct H|]. cbn [chb]. destruct H as [->|H].
  - eexists _, _. left. reflexivity.
  - destruct (IH (match es with [] => hi | e' :: _ => Some (fst e') end) H) as (l & h & Hi).
    exists l, h. right. exact Hi.
Qed.

Lemma chb_In_inv lo hi es l h e : In (l, h, e) (chb lo hi es) -> In e es.
Proof.
  revert lo. induction es as [|e0 es IH]; intros lo H; [destruct H|]. cbn [chb] in H. destruct H as [H|H].
  - inversion H. left. reflexivity.
  - right. apply (IH _ H).
Qed.

(* replacing every entry by a non-empty sorted run of entries within the entry's range keeps the whole sorted
   and within the range of the node *)
Lemma segs_sorted (g : bytes * N -> list (bytes * N)) : forall es lo hi,
  sorted_keys (map fst es) = true -> (forall k, In k (map fst es) -> in_range lo hi k) ->
  (forall l h e, In (l, h, e) (chb lo hi es) -> keys_ok l h (map fst (g e))) ->
  sorted_keys (map fst (flat_map g es)) = true /\
  forall k, In k (map fst (flat_map g es)) -> in_range lo hi k.
Proof.
  induction es as [|e es IH]; intros lo hi Hs Hr Hg; [split; [reflexivity|intros k []]|].
  cbn [flat_map]. rewrite map_app. cbn [chb] in Hg.
  destruct es as [|e' es''].
  - cbn [flat_map map]. rewrite app_nil_r. destruct (Hg lo hi e (or_introl eq_refl)) as (_ & A & B). split; assumption.
  - set (es' := e' :: es'') in *.
    assert (Hs' : sorted_keys (map fst es') = true) by (cbn [map] in Hs; apply (sorted_keys_tl _ _ Hs)).
    assert (Hk' : in_range lo hi (fst e')) by (apply Hr; right; left; reflexivity).
    assert (Hr' : forall k, In k (map fst es') -> in_range (Some (fst e')) hi k).
    { intros k Hk. split; [|apply (Hr k); right; exact Hk].
      cbn [es' map] in Hk. destruct Hk as [<-|Hk]; [rewrite bcmp_refl; discriminate|].
      cbn [es' map] in Hs'. destruct (sorted_keys_cons _ _ Hs') as [Hall _]. rewrite Forall_forall in Hall.
      rewrite (Hall k Hk). discriminate. }
    destruct (IH (Some (fst e')) hi Hs' Hr') as [IH1 IH2].
    { intros l h e0 Hi. apply Hg. right. exact Hi. }
    destruct (Hg lo (Some (fst e')) e (or_introl eq_refl)) as (_ & A & B).
    split.
    + apply sorted_app_intro; [exact A|exact IH1|]. intros x y Hx Hy.
      destruct (B x Hx) as [_ Bx]. destruct (IH2 y Hy) as [By _]. cbn in Bx, By.
      eapply bcmp_lt_le_trans; eassumption.
    + intros k Hk. apply in_app_or in Hk. destruct Hk as [Hk|Hk].
      * destruct (B k Hk) as [B1 B2]. split; [exact B1|]. destruct Hk' as [_ Hh].
        destruct hi as [h|]; [|exact I]. cbn in B2. eapply bcmp_lt_trans; eassumption.
      * destruct (IH2 k Hk) as [C1 C2]. split; [|exact C2]. destruct Hk' as [Hl _].
        destruct lo as [l|]; [|exact I]. cbn in C1. eapply bcmp_le_trans; eassumption.
Qed.

(* the first keys of the pieces of a sorted list are sorted *)
Lemma heads_sorted : forall (pieces : list (list bytes)) (ks : list bytes),
  Forall2 (fun k piece => exists r, piece = k :: r) ks pieces ->
  sorted_keys (concat pieces) = true ->
  sorted_keys ks = true /\ forall k, In k ks -> In k (concat pieces).
Proof.
  intros pieces ks H. induction H as [|k piece ks pieces (r & ->) _ IH]; intros Hs; [split; [reflexivity|intros k []]|].
  cbn [concat] in *. cbn [app] in Hs. destruct (sorted_keys_cons _ _ Hs) as [Hall Hs1].
  destruct (sorted_keys_app _ _ Hs1) as [_ Hs2]. destruct (IH Hs2) as [IH1 IH2]. split.
  - apply sorted_keys_cons_intro; [|exact IH1]. rewrite Forall_forall in *. intros x Hx. apply Hall.
    apply in_or_app. right. apply IH2, Hx.
  - intros x [<-|Hx]; [left; reflexivity|]. right. apply in_or_app. right. apply IH2, Hx.
Qed.

(* the outputs of the spilled kids, by the kid's old page *)
Definition find_out (outs : list (N * list (bytes * N))) (q : N) : option (list (bytes * N)) :=
  option_map snd (find (fun x => N.eqb (fst x) q) outs).
Definition seg_of (outs : list (N * list (bytes * N))) (e : bytes * N) : list (bytes * N) :=
  match find_out outs (snd e) with Some o => o | None => [e] end.

Lemma find_out_cons outs q o q' : find_out ((q, o) :: outs) q' = if q =? q' then Some o else find_out outs q'.
Proof. unfold find_out. cbn [find fst]. destruct (q =? q'); reflexivity. Qed.

(* on-disk subtree below page q: every page is in [keep], and [fuel] is enough to read it *)
Fixpoint stable (fuel : nat) (d : disk) (keep : list N) (q : N) : Prop :=
  match fuel with
  | O => False
  | S f => In q keep /\
           match dget d q with
           | None => True
           | Some a => match ap_body a with
                       | Leaves _ => True
                       | Branches es => forall e, In e es -> stable f d keep (snd e) end end
  end.

Lemma stable_ents d d' keep : (forall x, In x keep -> dget d' x = dget d x) ->
  forall fuel q F, stable fuel d keep q -> (fuel <= F)%nat -> page_ents F d' q = page_leaves fuel d q.
Proof.
  intros Hk. induction fuel as [|f IH]; intros q F Hst HF; [destruct Hst|].
  destruct F as [|F]; [lia|]. cbn [stable] in Hst. destruct Hst as [Hq Hst].
  cbn [page_ents page_leaves]. rewrite (Hk q Hq). destruct (dget d q) as [a|]; [|reflexivity].
  destruct (ap_body a) as [l|es]; [reflexivity|]. apply flat_map_ext_in. intros e He. apply IH; [apply Hst, He|lia].
Qed.

(* depth of the overlay *)
Fixpoint ndepth (n : node) : nat :=
  match n with
  | Node _ _ _ _ _ kids =>
      S ((fix go (ks : list node) : nat := match ks with [] => O | k :: ks' => Nat.max (ndepth k) (go ks') end) kids)
  end.

Lemma ndepth_kid n k : In k (n_kids n) -> (ndepth k < ndepth n)%nat.
Proof.
  destruct n as [p np o sq dd kids]. cbn [n_kids ndepth].
  induction kids as [|k0 kids IH]; intros H; [destruct H|]. destruct H as [->|H]; [lia|].
  specialize (IH H). lia.
Qed.

(* the hypotheses on an overlay node that is about to be spilled, with the key range [lo, hi) it is
   responsible for; kids are found by page ([find_kid]), the children without a kid are read from disk d *)
Inductive swf (fuel : nat) (d : disk) (keep : list N) : option bytes -> option bytes -> node -> Prop :=
| swf_leaf lo hi pg npg o sq l :
    keys_ok lo hi (map lkey l) ->
    swf fuel d keep lo hi (Node pg npg o sq (Leaves l) [])
| swf_branch lo hi pg npg o sq es kids :
    keys_ok lo hi (map fst es) ->
    NoDup (map snd es) -> NoDup (map n_page kids) ->
    (forall kd, In kd kids -> exists k, n_orig kd = Some k /\ In (k, n_page kd) es) ->
    (forall l h e kd, In (l, h, e) (chb lo hi es) -> find_kid (snd e) kids = Some kd -> swf fuel d keep l h kd) ->
    (forall e, In e es -> find_kid (snd e) kids = None -> stable fuel d keep (snd e)) ->
    swf fuel d keep lo hi (Node pg npg o sq (Branches es) kids).

(* the page runs of the overlay nodes (the pages the spill frees) all lie in L *)
Inductive old_in (L : list N) : node -> Prop :=
| old_in_node n : (forall x, old_run n x -> In x L) -> (forall k, In k (n_kids n) -> old_in L k) -> old_in L n.

(* reading the output entries [out] of a spilled node in any later write set that keeps the pages [good]
   and leaves [keep] alone gives [target] *)
Definition ents_ok (d : disk) (keep good : list N) (s' : txs) (fmin : nat)
                   (out : list (bytes * N)) (target : list leafent) : Prop :=
  forall w' P, wr_agree good (wr s') w' -> (forall x, In x keep -> wr_get w' x = None) ->
  forall F, (fmin <= F)%nat ->
    flat_map (fun sb => page_ents F (apply_wr w' P d) (snd sb)) out = target.

Lemma ents_ok_mono d keep good good2 s' s2 fmin out target :
  ents_ok d keep good s' fmin out target ->
  (forall q, In q good -> In q good2) ->
  (forall q, In q good -> wr_get (wr s2) q = wr_get (wr s') q) ->
  ents_ok d keep good2 s2 fmin out target.
Proof.
  intros H Hsub Hwr w' P Hag Hk F HF. apply H; try assumption.
  intros q Hq. rewrite (Hag q (Hsub q Hq)). apply Hwr, Hq.
Qed.

(** ** 3c. the pieces written by the tail, for any kind of node *)
Lemma first_key_dkeys dd k : first_key dd = Ok k -> exists r, dkeys dd = k :: r.
Proof.
  destruct dd as [[|e l]|[|e es]]; cbn [first_key dkeys map]; intros H; try discriminate; inversion H; eexists; reflexivity.
Qed.

Lemma split_dkeys s dd d0 rest : split s dd = (d0, rest) -> concat (map dkeys (d0 :: rest)) = dkeys dd.
Proof.
  intros H. destruct dd as [l|es].
  - destruct (split_leaves s l) as (l0 & ls & E & Hc & _). rewrite E in H. inversion H; subst d0 rest.
    cbn [map dkeys concat]. rewrite map_map. cbn [dkeys]. rewrite <- Hc, map_app, concat_map. reflexivity.
  - destruct (split_branches s es) as (e0 & ess & E & Hc & _). rewrite E in H. inversion H; subst d0 rest.
    cbn [map dkeys concat]. rewrite map_map. cbn [dkeys]. rewrite <- Hc, map_app, concat_map. reflexivity.
Qed.

Lemma tail_keys_ok lo hi w outs pieces dd :
  Forall2 (piece_written w) outs pieces -> concat (map dkeys pieces) = dkeys dd -> outs <> [] ->
  sorted_keys (dkeys dd) = true -> (forall k, In k (dkeys dd) -> in_range lo hi k) ->
  keys_ok lo hi (map fst outs).
Proof.
  intros Hpw Hc Hne Hs Hr.
  assert (H2 : Forall2 (fun k piece => exists r, piece = k :: r) (map fst outs) (map dkeys pieces)).
  { clear Hc Hne. induction Hpw as [|sb p0 outs pieces [Hf _] _ IH]; cbn [map]; constructor; [|exact IH].
    apply first_key_dkeys, Hf. }
  rewrite <- Hc in Hs. destruct (heads_sorted _ _ H2 Hs) as [A B]. split; [|split].
  - destruct outs; [contradiction|discriminate].
  - exact A.
  - intros k Hk. apply Hr. rewrite <- Hc. apply B, Hk.
Qed.

Lemma read_pieces_leaves P d' F : forall (sbs : list (bytes * N)) ls,
  Forall2 (fun sb dd => dget d' (snd sb) = Some (mk_apage P (40 + dsize dd, dd))) sbs (map Leaves ls) ->
  flat_map (fun sb => page_ents (S F) d' (snd sb)) sbs = concat ls.
Proof.
  intros sbs ls H. apply (proj1 (Forall2_map_r _ Leaves _ ls)) in H.
  induction H as [|sb l sbs ls Hg _ IH]; [reflexivity|]. cbn [flat_map concat]. rewrite IH. f_equal.
  eapply page_ents_leaf; [exact Hg|reflexivity].
Qed.

Lemma read_pieces_branches P d' F : forall (sbs : list (bytes * N)) ess,
  Forall2 (fun sb dd => dget d' (snd sb) = Some (mk_apage P (40 + dsize dd, dd))) sbs (map Branches ess) ->
  flat_map (fun sb => page_ents (S F) d' (snd sb)) sbs = flat_map (fun e => page_ents F d' (snd e)) (concat ess).
Proof.
  intros sbs ess H. apply (proj1 (Forall2_map_r _ Branches _ ess)) in H.
  induction H as [|sb es sbs ess Hg _ IH]; [reflexivity|]. cbn [flat_map concat]. rewrite IH, flat_map_app. f_equal.
  eapply page_ents_branch; [exact Hg|reflexivity].
Qed.

Lemma find_kid_NoDup kids kd : NoDup (map n_page kids) -> In kd kids -> find_kid (n_page kd) kids = Some kd.
Proof.
  unfold find_kid. induction kids as [|k kids IH]; intros Hnd Hin; [destruct Hin|].
  cbn [map] in Hnd. inversion Hnd as [|? ? Hk Hnd']; subst. cbn [find].
  destruct Hin as [->|Hin]; [rewrite N.eqb_refl; reflexivity|].
  destruct (N.eqb_spec (n_page k) (n_page kd)) as [E|E]; [|apply IH; assumption].
  exfalso. apply Hk. rewrite E. apply in_map, Hin.
Qed.

Lemma find_kid_In q kids kd : find_kid q kids = Some kd -> In kd kids /\ n_page kd = q.
Proof.
  unfold find_kid. intros H. apply find_some in H. destruct H as [A B]. apply N.eqb_eq in B. split; assumption.
Qed.

Lemma find_kid_none q kids : find_kid q kids = None -> ~ In q (map n_page kids).
Proof.
  unfold find_kid. intros H Hin. apply in_map_iff in Hin. destruct Hin as (k & E & Hk).
  pose proof (find_none _ _ H k Hk) as Hf. cbn in Hf. rewrite E, N.eqb_refl in Hf. discriminate.
Qed.

(** ** 3d. the specification of [spill_node], and the fold over the kids *)
Section Spill.
  Variables (fuel : nat) (d : disk) (keep : list N).

  Definition spill_spec (f : nat) : Prop :=
    forall live lo hi n s orig fk p sibs s',
      fresh_inv live s -> swf fuel d keep lo hi n ->
      spill_node f n s = Ok ((orig, (fk, p), sibs), s') ->
      exists alloc dead good,
        frame live s s' alloc dead /\ (forall q, In q good -> In q alloc) /\
        (forall q, In q (p :: map snd sibs) -> In q good) /\
        orig = n_orig n /\
        keys_ok lo hi (map fst ((fk, p) :: sibs)) /\
        NoDup (p :: map snd sibs) /\ (forall x, old_run n x -> In x dead) /\
        ents_ok d keep good s' (ndepth n + fuel) ((fk, p) :: sibs) (view_leaves fuel d n) /\
        (* every freed page was live before or handed out here, and is not a page of the new subtree *)
        (forall L, (forall x, In x L -> In x live) -> old_in L n ->
           forall x, In x dead -> (In x L \/ In x alloc) /\ ~ In x good).

  Section Fold.
    Variables (f : nat) (lo hi : option bytes) (es : list (bytes * N)) (kids : list node).
    Hypothesis IHf : spill_spec f.
    Hypothesis Hes : keys_ok lo hi (map fst es).
    Hypothesis Hnd_es : NoDup (map snd es).
    Hypothesis Hnd_kids : NoDup (map n_page kids).
    Hypothesis Horig : forall kd, In kd kids -> exists k, n_orig kd = Some k /\ In (k, n_page kd) es.
    Hypothesis Hkids : forall l h e kd, In (l, h, e) (chb lo hi es) -> find_kid (snd e) kids = Some kd ->
                                        swf fuel d keep l h kd.

    Lemma kids_fold : forall todo outs live s d1 s1,
      fresh_inv live s ->
      NoDup (map n_page todo) -> (forall kd, In kd todo -> In kd kids) ->
      (forall kd, In kd todo -> find_out outs (n_page kd) = None) ->
      (forall l h e, In (l, h, e) (chb lo hi es) -> keys_ok l h (map fst (seg_of outs e))) ->
      fold_res (spill_kid_step f) todo (Branches (flat_map (seg_of outs) es), s) = Ok (d1, s1) ->
      exists outs' alloc dead good,
        d1 = Branches (flat_map (seg_of outs') es) /\
        frame live s s1 alloc dead /\ (forall q, In q good -> In q alloc) /\
        (forall l h e, In (l, h, e) (chb lo hi es) -> keys_ok l h (map fst (seg_of outs' e))) /\
        (forall q, ~ In q (map n_page todo) -> find_out outs' q = find_out outs q) /\
        (forall kd, In kd todo -> exists out, find_out outs' (n_page kd) = Some out /\
             ents_ok d keep good s1 (ndepth kd + fuel) out (view_leaves fuel d kd)) /\
        (forall L, (forall x, In x L -> In x live) -> (forall kd, In kd todo -> old_in L kd) ->
           forall x, In x dead -> (In x L \/ In x alloc) /\ ~ In x good).
    Proof.
      induction todo as [|kd todo IH]; intros outs live s d1 s1 Hfi Hnd Hsub Hnone Hsegs H.
      - cbn [fold_res] in H. inversion H; subst d1 s1. exists outs, [], [], [].
        split; [reflexivity|]. split; [apply frame_refl, Hfi|]. split; [intros q []|]. split; [exact Hsegs|].
        split; [reflexivity|]. split; [intros k []|]. intros L _ _ x [].
      - cbn [fold_res] in H.
        destruct (spill_kid_step f (Branches (flat_map (seg_of outs) es), s) kd) as [[d2 s2]| |] eqn:Hstep;
          try discriminate.
        cbn [bind] in H. unfold spill_kid_step in Hstep.
        destruct (spill_node f kd s) as [[[[ko [fk p]] sibs] sk]| |] eqn:Hsp; try discriminate.
        cbn [bind] in Hstep.
        assert (Hkd : In kd kids) by (apply Hsub; left; reflexivity).
        destruct (Horig kd Hkd) as (k & Eorig & Hin_es).
        set (q := n_page kd) in *.
        destruct (chb_In lo hi es _ Hin_es) as (l & h & Hchb).
        pose proof (find_kid_NoDup kids kd Hnd_kids Hkd) as Hfk. fold q in Hfk.
        pose proof (Hkids l h (k, q) kd Hchb Hfk) as Hswf.
        destruct (IHf _ _ _ _ _ _ _ _ _ _ Hfi Hswf Hsp)
          as (a1 & dd1 & g1 & Hfr1 & Hg1a & Hg1p & Eko & _ & _ & _ & Hents1 & Hdead1).
        rewrite Eorig in Eko. subst ko.
        (* the range of the kid's output, for every range attached to its entry *)
        assert (HK : forall l' h', In (l', h', (k, q)) (chb lo hi es) ->
                                   keys_ok l' h' (map fst ((fk, p) :: sibs))).
        { intros l' h' Hc. pose proof (Hkids l' h' (k, q) kd Hc Hfk) as Hswf'.
          destruct (IHf _ _ _ _ _ _ _ _ _ _ Hfi Hswf' Hsp) as (_ & _ & _ & _ & _ & _ & _ & Hk & _). exact Hk. }
        set (K := (fk, p) :: sibs) in *.
        set (outs1 := (q, K) :: outs).
        assert (Hq_none : find_out outs q = None) by (apply Hnone; left; reflexivity).
        assert (Hseg_same : forall e, In e es -> e <> (k, q) -> seg_of outs1 e = seg_of outs e).
        { intros e He Hne. unfold seg_of, outs1. rewrite find_out_cons.
          destruct (N.eqb_spec q (snd e)) as [E|E]; [|reflexivity].
          exfalso. apply Hne. apply (NoDup_map_inj snd es _ _ Hnd_es He Hin_es). cbn [snd]. congruence. }
        assert (Hseg_q : seg_of outs1 (k, q) = K).
        { unfold seg_of, outs1. rewrite find_out_cons. cbn [snd]. rewrite N.eqb_refl. reflexivity. }
        assert (Hseg_q0 : seg_of outs (k, q) = [(k, q)]).
        { unfold seg_of. cbn [snd]. rewrite Hq_none. reflexivity. }
        assert (Hsegs1 : forall l' h' e, In (l', h', e) (chb lo hi es) -> keys_ok l' h' (map fst (seg_of outs1 e))).
        { intros l' h' e Hc. destruct (N.eq_dec (snd e) q) as [E|E].
          - assert (e = (k, q)).
            { apply (NoDup_map_inj snd es _ _ Hnd_es (chb_In_inv _ _ _ _ _ _ Hc) Hin_es). exact E. }
            subst e. rewrite Hseg_q. apply HK, Hc.
          - rewrite Hseg_same; [apply Hsegs, Hc|apply (chb_In_inv _ _ _ _ _ _ Hc)|].
            intros E'. apply E. rewrite E'. reflexivity. }
        destruct Hes as (_ & Hes_s & Hes_r).
        destruct (segs_sorted (seg_of outs) es lo hi Hes_s Hes_r Hsegs) as [Hsort0 _].
        destruct (segs_sorted (seg_of outs1) es lo hi Hes_s Hes_r Hsegs1) as [Hsort1 _].
        destruct (in_split _ _ Hin_es) as (A & B & EAB).
        assert (HA : forall e, In e A -> seg_of outs1 e = seg_of outs e).
        { intros e He. apply Hseg_same.
          - rewrite EAB. apply in_or_app. left. exact He.
          - intros ->. rewrite EAB, map_app in Hes_s. cbn [map fst] in Hes_s.
            destruct (sorted_mid _ _ _ Hes_s) as [HlA _]. rewrite Forall_forall in HlA.
            specialize (HlA k (in_map fst _ _ He)). rewrite bcmp_refl in HlA. discriminate. }
        assert (HB : forall e, In e B -> seg_of outs1 e = seg_of outs e).
        { intros e He. apply Hseg_same.
          - rewrite EAB. apply in_or_app. right. right. exact He.
          - intros ->. rewrite EAB, map_app in Hes_s. cbn [map fst] in Hes_s.
            destruct (sorted_mid _ _ _ Hes_s) as [_ HlB]. rewrite Forall_forall in HlB.
            specialize (HlB k (in_map fst _ _ He)). rewrite bcmp_refl in HlB. discriminate. }
        assert (E0 : flat_map (seg_of outs) es = flat_map (seg_of outs) A ++ (k, q) :: flat_map (seg_of outs) B).
        { rewrite EAB at 1. rewrite flat_map_app. cbn [flat_map]. rewrite Hseg_q0. reflexivity. }
        assert (E1 : flat_map (seg_of outs1) es = flat_map (seg_of outs) A ++ K ++ flat_map (seg_of outs) B).
        { rewrite EAB at 1. rewrite flat_map_app. cbn [flat_map]. rewrite Hseg_q.
          rewrite (flat_map_ext_in _ _ A HA), (flat_map_ext_in _ _ B HB). reflexivity. }
        rewrite E0 in Hsort0, Hstep. rewrite E1 in Hsort1.
        rewrite (insert_branch_replace _ _ _ _ (fk, p) Hsort0) in Hstep. cbn [bind] in Hstep.
        change (flat_map (seg_of outs) A ++ (fk, p) :: flat_map (seg_of outs) B)
          with (flat_map (seg_of outs) A ++ [(fk, p)] ++ flat_map (seg_of outs) B) in Hstep.
        rewrite (insert_branch_sibs sibs _ [(fk, p)] _ Hsort1) in Hstep. cbn [bind] in Hstep.
        inversion Hstep; subst d2 s2. clear Hstep.
        assert (EH : flat_map (seg_of outs) A ++ (fk, p) :: sibs ++ flat_map (seg_of outs) B
                     = flat_map (seg_of outs1) es) by (rewrite E1; reflexivity).
        rewrite EH in H. clear EH.
        (* the remaining kids *)
        inversion Hnd as [|? ? Hq_notin Hnd']; subst.
        assert (Hnone1 : forall kd', In kd' todo -> find_out outs1 (n_page kd') = None).
        { intros kd' Hk'. unfold outs1. rewrite find_out_cons.
          destruct (N.eqb_spec q (n_page kd')) as [E|E].
          - exfalso. apply Hq_notin. fold q. rewrite E. apply in_map, Hk'.
          - apply Hnone. right. exact Hk'. }
        destruct (IH outs1 (a1 ++ live) sk d1 s1 (fr_fresh _ _ _ _ _ Hfr1) Hnd'
                     (fun kd' Hk' => Hsub kd' (or_intror Hk')) Hnone1 Hsegs1 H)
          as (outs' & a2 & dd2 & g2 & Ed1 & Hfr2 & Hg2a & Hsegs' & Hother & Hdone & Hdead2).
        exists outs', (a2 ++ a1), (dd1 ++ dd2), (g2 ++ g1).
        split; [exact Ed1|]. split; [apply (frame_trans _ _ _ _ _ _ _ _ Hfr1 Hfr2)|].
        split. { intros x Hx. apply in_app_or in Hx. apply in_or_app. destruct Hx; [left; apply Hg2a|right; apply Hg1a]; assumption. }
        split; [exact Hsegs'|].
        split.
        { intros x Hx. rewrite Hother; [|intros Hi; apply Hx; right; exact Hi].
          unfold outs1. rewrite find_out_cons. destruct (N.eqb_spec q x) as [E|E]; [|reflexivity].
          exfalso. apply Hx. left. exact E. }
        split.
        2:{ intros L HL Hold x Hx. pose proof (fr_fresh _ _ _ _ _ Hfr1) as Hfik.
            apply in_app_or in Hx. destruct Hx as [Hx|Hx].
            - destruct (Hdead1 L HL (Hold kd (or_introl eq_refl)) x Hx) as [Ha Hb]. split.
              + destruct Ha as [Ha|Ha]; [left|right; apply in_or_app; right]; exact Ha.
              + intros Hg. apply in_app_or in Hg. destruct Hg as [Hg|Hg]; [|exact (Hb Hg)].
                apply (frame_new _ _ _ _ _ x Hfik Hfr2 (Hg2a x Hg)). apply in_or_app.
                destruct Ha as [Ha|Ha]; [right; apply HL|left]; exact Ha.
            - destruct (Hdead2 L (fun y Hy => in_or_app _ _ _ (or_intror (HL y Hy)))
                               (fun kd' Hk' => Hold kd' (or_intror Hk')) x Hx) as [Ha Hb]. split.
              + destruct Ha as [Ha|Ha]; [left|right; apply in_or_app; left]; exact Ha.
              + intros Hg. apply in_app_or in Hg. destruct Hg as [Hg|Hg]; [exact (Hb Hg)|].
                destruct Ha as [Ha|Ha].
                * apply (frame_new _ _ _ _ _ x Hfi Hfr1 (Hg1a x Hg)), HL, Ha.
                * apply (frame_new _ _ _ _ _ x Hfik Hfr2 Ha). apply in_or_app. left. apply Hg1a, Hg. }
        intros kd' [<-|Hk'].
        + exists K. split.
          * fold q. rewrite Hother by exact Hq_notin. unfold outs1. rewrite find_out_cons, N.eqb_refl. reflexivity.
          * eapply ents_ok_mono; [exact Hents1| |].
            -- intros x Hx. apply in_or_app. right. exact Hx.
            -- intros x Hx. apply (fr_wr _ _ _ _ _ Hfr2). intros Hi.
               apply (frame_new _ _ _ _ _ _ (fr_fresh _ _ _ _ _ Hfr1) Hfr2 Hi). apply in_or_app. left. apply Hg1a, Hx.
        + destruct (Hdone kd' Hk') as (out & Ho & He). exists out. split; [exact Ho|].
          eapply ents_ok_mono; [exact He| |reflexivity]. intros x Hx. apply in_or_app. left. exact Hx.
    Qed.
  End Fold.
End Spill.

(** ** 3e. [spill_node] *)
Lemma kid_keys_snd : forall kids ks, kid_keys kids = Ok ks -> map snd ks = kids.
Proof.
  unfold kid_keys.
  assert (G : forall kids acc ks,
    fold_res (fun acc k => fk <- first_key (n_data k) ;; Ok (acc ++ [(fk, k)])) kids acc = Ok ks ->
    map snd ks = map snd acc ++ kids).
  { induction kids as [|k kids IH]; intros acc ks H; cbn [fold_res] in H.
    - inversion H. rewrite app_nil_r. reflexivity.
    - destruct (first_key (n_data k)) as [fk| |]; cbn [bind] in H; try discriminate.
      rewrite (IH _ _ H), map_app, <- app_assoc. reflexivity. }
  intros kids ks H. apply (G kids [] ks H).
Qed.

Lemma chb_self : forall es lo hi,
  sorted_keys (map fst es) = true -> (forall k, In k (map fst es) -> in_range lo hi k) ->
  forall l h e, In (l, h, e) (chb lo hi es) -> in_range l h (fst e).
Proof.
  induction es as [|e0 es IH]; intros lo hi Hs Hr l h e Hi; [destruct Hi|].
  cbn [chb] in Hi. destruct es as [|e' es''].
  - destruct Hi as [Hi|[]]. inversion Hi; subst. apply Hr. left. reflexivity.
  - set (es' := e' :: es'') in *.
    assert (Hs' : sorted_keys (map fst es') = true) by (cbn [map] in Hs; apply (sorted_keys_tl _ _ Hs)).
    destruct Hi as [Hi|Hi].
    + inversion Hi; subst. split; [apply (Hr (fst e)); left; reflexivity|]. cbn.
      cbn [map] in Hs. destruct (sorted_keys_cons _ _ Hs) as [Hall _]. rewrite Forall_forall in Hall.
      apply Hall. left. reflexivity.
    + apply (IH (Some (fst e')) hi Hs'); [|exact Hi]. intros k Hk. split; [|apply (Hr k); right; exact Hk].
      cbn [es' map] in Hk. destruct Hk as [<-|Hk]; [rewrite bcmp_refl; discriminate|].
      cbn [es' map] in Hs'. destruct (sorted_keys_cons _ _ Hs') as [Hall _]. rewrite Forall_forall in Hall.
      rewrite (Hall k Hk). discriminate.
Qed.

Lemma flat_map_flat_map {A B C} (g : B -> list C) (h : A -> list B) l :
  flat_map g (flat_map h l) = flat_map (fun x => flat_map g (h x)) l.
Proof. induction l as [|x l IH]; [reflexivity|]. cbn [flat_map]. rewrite flat_map_app, IH. reflexivity. Qed.

Lemma flat_map_single {A} (l : list A) : flat_map (fun e => [e]) l = l.
Proof. induction l as [|x l IH]; [reflexivity|]. cbn [flat_map app]. rewrite IH. reflexivity. Qed.

Lemma keep_dget w' P d keep : (forall x, In x keep -> wr_get w' x = None) ->
  forall x, In x keep -> dget (apply_wr w' P d) x = dget d x.
Proof. intros H x Hx. apply dget_apply_wr_none, H, Hx. Qed.

Theorem spill_node_spec fuel d keep : forall f, spill_spec fuel d keep f.
Proof.
  induction f as [|f IHf]; intros live lo hi n s orig fk p sibs s' Hfi Hswf H; [discriminate|].
  rewrite spill_node_unfold in H.
  inversion Hswf as [lo0 hi0 pg npg o sq l Hkeys | lo0 hi0 pg npg o sq es kids Hes Hnd_es Hnd_kids Horig Hkids Hstab];
    subst lo0 hi0 n.
  - (* a leaf: no kids *)
    cbn [n_kids n_data kid_keys fold_res bind isort_by map] in H.
    set (n := Node pg npg o sq (Leaves l) []) in *.
    destruct (spill_tail_spec _ _ _ _ _ _ _ _ _ Hfi H)
      as (d0 & rest & alloc & stale & Esp & Eo & Hpw & Hnd & Hin & Hfr & Hst & _).
    exists alloc, (old_pages n ++ stale), (p :: map snd sibs).
    split; [exact Hfr|]. split; [intros q Hq; apply (Hin q Hq)|]. split; [tauto|]. split; [exact Eo|].
    destruct Hkeys as (_ & Hks & Hkr).
    split.
    { eapply tail_keys_ok; [exact Hpw|apply (split_dkeys _ _ _ _ Esp)|discriminate|exact Hks|exact Hkr]. }
    split; [exact Hnd|]. split; [intros x Hx; apply in_or_app; left; apply In_old_pages, Hx|].
    split.
    2:{ intros L HL Hold x Hx. inversion Hold as [? Ho _]. apply in_app_or in Hx. destruct Hx as [Hx|Hx].
        - apply In_old_pages in Hx. split; [left; apply Ho, Hx|]. intros Hg.
          apply (frame_new _ _ _ _ _ x Hfi Hfr (proj1 (Hin x Hg))), HL, Ho, Hx.
        - split; [right; apply Hst, Hx|]. intros Hg. apply (proj2 (proj2 (Hin x Hg))), Hx. }
    intros w' P Hag _ F HF. destruct F as [|F]; [unfold n in HF; cbn [ndepth] in HF; lia|].
    pose proof (pieces_on_disk _ _ P d _ _ Hpw Hag) as Hdisk.
    destruct (split_leaves s l) as (l0 & ls & Esp' & Hcat & _). rewrite Esp' in Esp. inversion Esp; subst d0 rest.
    change (Leaves l0 :: map Leaves ls) with (map Leaves (l0 :: ls)) in Hdisk.
    rewrite (read_pieces_leaves _ _ _ _ _ Hdisk). cbn [concat view_leaves n]. exact Hcat.
  - (* a branch: the kids first *)
    cbn [n_kids n_data] in H.
    set (n := Node pg npg o sq (Branches es) kids) in *.
    destruct (kid_keys kids) as [ks| |] eqn:Hkk; try discriminate. cbn [bind] in H.
    set (todo := map snd (isort_by fst ks)) in *.
    assert (Hperm : Permutation todo kids).
    { unfold todo. rewrite <- (kid_keys_snd _ _ Hkk). apply Permutation_map, isort_by_perm. }
    destruct (fold_res (spill_kid_step f) todo (Branches es, s)) as [[d1 s1]| |] eqn:Hfold; try discriminate.
    cbn [bind] in H.
    destruct Hes as (Hes_ne & Hes_s & Hes_r).
    assert (Hsegs0 : forall l h e, In (l, h, e) (chb lo hi es) -> keys_ok l h (map fst (seg_of [] e))).
    { intros l h e Hi. cbn [seg_of find_out find option_map map]. split; [discriminate|]. split; [reflexivity|].
      intros k [<-|[]]. apply (chb_self es lo hi Hes_s Hes_r _ _ _ Hi). }
    assert (E0 : es = flat_map (seg_of []) es) by (symmetry; apply flat_map_single).
    rewrite E0 in Hfold at 1.
    destruct (kids_fold fuel d keep f lo hi es kids IHf (conj Hes_ne (conj Hes_s Hes_r)) Hnd_es Hnd_kids Horig Hkids
                todo [] live s d1 s1 Hfi)
      as (outs & a1 & dd1 & g1 & Ed1 & Hfr1 & Hg1a & Hsegs & Hother & Hdone & Hdead1); try assumption.
    { apply (Permutation_NoDup (l := map n_page kids)); [apply Permutation_map; symmetry; exact Hperm|exact Hnd_kids]. }
    { intros kd Hk. apply (Permutation_in _ Hperm Hk). }
    { reflexivity. }
    subst d1. set (es_fin := flat_map (seg_of outs) es) in *.
    destruct (segs_sorted (seg_of outs) es lo hi Hes_s Hes_r Hsegs) as [Hfin_s Hfin_r].
    pose proof (fr_fresh _ _ _ _ _ Hfr1) as Hfi1.
    destruct (spill_tail_spec _ _ _ _ _ _ _ _ _ Hfi1 H)
      as (d0 & rest & a2 & stale & Esp & Eo & Hpw & Hnd & Hin & Hfr2 & Hst & _).
    exists (a2 ++ a1), (dd1 ++ old_pages n ++ stale), ((p :: map snd sibs) ++ g1).
    split; [apply (frame_trans _ _ _ _ _ _ _ _ Hfr1 Hfr2)|].
    split.
    { intros q Hq. apply in_app_or in Hq. apply in_or_app. destruct Hq as [Hq|Hq]; [left; apply (Hin q Hq)|right; apply Hg1a, Hq]. }
    split; [intros q Hq; apply in_or_app; left; exact Hq|]. split; [exact Eo|].
    split.
    { eapply tail_keys_ok; [exact Hpw|apply (split_dkeys _ _ _ _ Esp)|discriminate|exact Hfin_s|exact Hfin_r]. }
    split; [exact Hnd|].
    split; [intros x Hx; apply in_or_app; right; apply in_or_app; left; apply In_old_pages, Hx|].
    split.
    2:{ intros L HL Hold x Hx. inversion Hold as [? Ho Hok]. cbn [n n_kids] in Hok.
        assert (Hgood_a2 : forall q, In q (p :: map snd sibs) -> ~ In q (a1 ++ live)).
        { intros q Hq. apply (frame_new _ _ _ _ _ q Hfi1 Hfr2 (proj1 (Hin q Hq))). }
        apply in_app_or in Hx. destruct Hx as [Hx|Hx]; [|apply in_app_or in Hx; destruct Hx as [Hx|Hx]].
        - assert (Hok' : forall kd, In kd todo -> old_in L kd).
          { intros kd Hk. apply Hok, (Permutation_in _ Hperm Hk). }
          destruct (Hdead1 L HL Hok' x Hx) as [A B]. split.
          + destruct A as [A|A]; [left|right; apply in_or_app; right]; exact A.
          + intros Hg. apply in_app_or in Hg. destruct Hg as [Hg|Hg]; [|exact (B Hg)].
            apply (Hgood_a2 x Hg). apply in_or_app. destruct A as [A|A]; [right; apply HL|left]; exact A.
        - apply In_old_pages in Hx. split; [left; apply Ho, Hx|]. intros Hg. apply in_app_or in Hg.
          destruct Hg as [Hg|Hg].
          + apply (Hgood_a2 x Hg). apply in_or_app. right. apply HL, Ho, Hx.
          + apply (frame_new _ _ _ _ _ x Hfi Hfr1 (Hg1a x Hg)), HL, Ho, Hx.
        - split; [right; apply in_or_app; left; apply Hst, Hx|]. intros Hg. apply in_app_or in Hg.
          destruct Hg as [Hg|Hg].
          + apply (proj2 (proj2 (Hin x Hg))), Hx.
          + apply (frame_new _ _ _ _ _ x Hfi1 Hfr2 (Hst x Hx)). apply in_or_app. left. apply Hg1a, Hg. }
    intros w' P Hag Hkeep F HF. destruct F as [|F]; [unfold n in HF; cbn [ndepth] in HF; lia|].
    assert (Hag1 : wr_agree (map snd ((fk, p) :: sibs)) (wr s') w').
    { intros q Hq. apply Hag. apply in_or_app. left. exact Hq. }
    pose proof (pieces_on_disk _ _ P d _ _ Hpw Hag1) as Hdisk.
    destruct (split_branches s1 es_fin) as (e0 & ess & Esp' & Hcat & _). rewrite Esp' in Esp.
    inversion Esp; subst d0 rest.
    change (Branches e0 :: map Branches ess) with (map Branches (e0 :: ess)) in Hdisk.
    rewrite (read_pieces_branches _ _ _ _ _ Hdisk). cbn [concat]. rewrite Hcat. unfold es_fin.
    rewrite flat_map_flat_map, view_leaves_eq. cbn [n n_data n_kids].
    apply flat_map_ext_in. intros e He. unfold child_view.
    destruct (find_kid (snd e) kids) as [kd|] eqn:Hfk.
    + destruct (find_kid_In _ _ _ Hfk) as [Hkd Epg].
      assert (Hkt : In kd todo) by (apply (Permutation_in _ (Permutation_sym Hperm) Hkd)).
      destruct (Hdone kd Hkt) as (out & Ho & Hents). unfold seg_of. rewrite <- Epg, Ho.
      apply (Hents w' P).
      * intros q Hq. rewrite (Hag q) by (apply in_or_app; right; exact Hq).
        apply (fr_wr _ _ _ _ _ Hfr2). intros Hi. apply (frame_new _ _ _ _ _ _ Hfi1 Hfr2 Hi).
        apply in_or_app. left. apply Hg1a, Hq.
      * exact Hkeep.
      * pose proof (ndepth_kid n kd Hkd) as Hd. lia.
    + assert (Hno : find_out outs (snd e) = None).
      { rewrite Hother; [reflexivity|]. intros Hi. apply (find_kid_none _ _ Hfk).
        apply (Permutation_in _ (Permutation_map n_page Hperm) Hi). }
      unfold seg_of. rewrite Hno. cbn [flat_map]. rewrite app_nil_r.
      apply (stable_ents d _ keep (keep_dget w' P d keep Hkeep)); [apply Hstab; assumption|].
      unfold n in HF. cbn [ndepth] in HF. lia.
Qed.

(* the same statement, unfolded *)
Corollary spill_node_overlay fuel d keep f live lo hi n s orig fk p sibs s' :
  fresh_inv live s -> swf fuel d keep lo hi n ->
  spill_node f n s = Ok ((orig, (fk, p), sibs), s') ->
  exists alloc dead good,
    frame live s s' alloc dead /\ (forall q, In q good -> In q alloc) /\
    (forall q, In q (p :: map snd sibs) -> In q good) /\
    orig = n_orig n /\
    keys_ok lo hi (map fst ((fk, p) :: sibs)) /\
    NoDup (p :: map snd sibs) /\ (forall x, old_run n x -> In x dead) /\
    (forall w' P, wr_agree good (wr s') w' -> (forall x, In x keep -> wr_get w' x = None) ->
       forall F, (ndepth n + fuel <= F)%nat ->
         let d' := apply_wr w' P d in
         page_ents F d' p ++ concat (map (fun sb => page_ents F d' (snd sb)) sibs) = view_leaves fuel d n) /\
    (forall L, (forall x, In x L -> In x live) -> old_in L n ->
       forall x, In x dead -> (In x L \/ In x alloc) /\ ~ In x good).
Proof.
  intros Hfi Hswf H.
  destruct (spill_node_spec fuel d keep f _ _ _ _ _ _ _ _ _ _ Hfi Hswf H)
    as (alloc & dead & good & A1 & A2 & A3 & A4 & A5 & A6 & A7 & A8 & A9).
  exists alloc, dead, good. repeat (split; [assumption|]). split; [|exact A9].
  intros w' P Hag Hk F HF. cbv zeta. specialize (A8 w' P Hag Hk F HF). cbn [flat_map snd] in A8.
  rewrite flat_map_concat_map in A8. exact A8.
Qed.

(** ** 3f. [spill_root]: new root levels until a single page is left *)
Lemma spill_node_nokids f n s : n_kids n = [] -> spill_node (S f) n s = spill_tail n (n_data n) s.
Proof. intros E. rewrite spill_node_unfold, E. reflexivity. Qed.

Lemma root_loop d keep : forall f live s fk p sibs target m good0 p' s',
  fresh_inv live s -> (forall q, In q good0 -> In q live) -> In p good0 ->
  ents_ok d keep good0 s m ((fk, p) :: sibs) target ->
  match sibs with
  | [] => Ok (p, s)
  | _ => spill_root f (Node 0 0 (Some fk) 0 (Branches ((fk, p) :: sibs)) []) s
  end = Ok (p', s') ->
  exists alloc dead good lv,
    frame live s s' alloc dead /\ (forall q, In q good -> In q alloc \/ In q good0) /\ In p' good /\
    (lv <= f)%nat /\ (forall x, In x dead -> In x alloc /\ ~ In x good) /\
    forall w' P, wr_agree good (wr s') w' -> (forall x, In x keep -> wr_get w' x = None) ->
      forall F, (lv + m <= F)%nat -> page_ents F (apply_wr w' P d) p' = target.
Proof.
  induction f as [|f IH]; intros live s fk p sibs target m good0 p' s' Hfi Hg0 Hp Hents H.
  - destruct sibs as [|sb sibs]; [|discriminate]. inversion H; subst p' s'.
    exists [], [], good0, 0%nat. split; [apply frame_refl, Hfi|]. split; [tauto|]. split; [exact Hp|]. split; [lia|].
    split; [intros x []|].
    intros w' P Hag Hk F HF. specialize (Hents w' P Hag Hk F HF). cbn [flat_map snd] in Hents.
    rewrite app_nil_r in Hents. exact Hents.
  - destruct sibs as [|sb sibs].
    + inversion H; subst p' s'.
      exists [], [], good0, 0%nat. split; [apply frame_refl, Hfi|]. split; [tauto|]. split; [exact Hp|]. split; [lia|].
      split; [intros x []|].
      intros w' P Hag Hk F HF. specialize (Hents w' P Hag Hk F HF). cbn [flat_map snd] in Hents.
      rewrite app_nil_r in Hents. exact Hents.
    + set (K := (fk, p) :: sb :: sibs) in *. set (nr := Node 0 0 (Some fk) 0 (Branches K) []) in *.
      cbn [spill_root] in H. cbn [nr n_data K] in H. fold K in H. fold nr in H.
      destruct (spill_node fuel0 nr s) as [[[[o1 [fk1 p1]] sibs1] s1]| |] eqn:Hsp; try discriminate.
      cbn [bind] in H.
      change fuel0 with (S 63) in Hsp. rewrite spill_node_nokids in Hsp by reflexivity. cbn [nr n_data] in Hsp. fold nr in Hsp.
      destruct (spill_tail_spec _ _ _ _ _ _ _ _ _ Hfi Hsp)
        as (d0 & rest & a1 & stale & Esp & _ & Hpw & _ & Hin & Hfr1 & Hst & _).
      set (good1 := (p1 :: map snd sibs1) ++ good0).
      assert (Hents1 : ents_ok d keep good1 s1 (S m) ((fk1, p1) :: sibs1) target).
      { intros w' P Hag Hk F HF. destruct F as [|F]; [lia|].
        assert (Hag1 : wr_agree (map snd ((fk1, p1) :: sibs1)) (wr s1) w').
        { intros q Hq. apply Hag. apply in_or_app. left. exact Hq. }
        pose proof (pieces_on_disk _ _ P d _ _ Hpw Hag1) as Hdisk.
        destruct (split_branches s K) as (e0 & ess & Esp' & Hcat & _). rewrite Esp' in Esp.
        inversion Esp; subst d0 rest.
        change (Branches e0 :: map Branches ess) with (map Branches (e0 :: ess)) in Hdisk.
        rewrite (read_pieces_branches _ _ _ _ _ Hdisk). cbn [concat]. rewrite Hcat.
        apply (Hents w' P); [|exact Hk|lia].
        intros q Hq. rewrite (Hag q) by (apply in_or_app; right; exact Hq).
        apply (fr_wr _ _ _ _ _ Hfr1). intros Hi. apply (frame_new _ _ _ _ _ _ Hfi Hfr1 Hi), Hg0, Hq. }
      assert (Hg1 : forall q, In q good1 -> In q (a1 ++ live)).
      { intros q Hq. apply in_app_or in Hq. apply in_or_app.
        destruct Hq as [Hq|Hq]; [left; apply (Hin q Hq)|right; apply Hg0, Hq]. }
      destruct (IH (a1 ++ live) s1 fk1 p1 sibs1 target (S m) good1 p' s' (fr_fresh _ _ _ _ _ Hfr1) Hg1
                   ltac:(left; reflexivity) Hents1 H)
        as (a2 & dd2 & good & lv & Hfr2 & Hgood & Hp' & Hlv & Hdead2 & Hfin).
      exists (a2 ++ a1), ((old_pages nr ++ stale) ++ dd2), good, (S lv).
      split; [apply (frame_trans _ _ _ _ _ _ _ _ Hfr1 Hfr2)|].
      split.
      { intros q Hq. destruct (Hgood q Hq) as [A|A]; [left; apply in_or_app; left; exact A|].
        apply in_app_or in A. destruct A as [A|A]; [left; apply in_or_app; right; apply (Hin q A)|right; exact A]. }
      split; [exact Hp'|]. split; [lia|].
      split.
      { intros x Hx. apply in_app_or in Hx. destruct Hx as [Hx|Hx].
        - change (old_pages nr) with (@nil N) in Hx. cbn [app] in Hx. split; [apply in_or_app; right; apply Hst, Hx|].
          intros Hg. destruct (Hgood x Hg) as [A|A].
          + apply (frame_new _ _ _ _ _ x (fr_fresh _ _ _ _ _ Hfr1) Hfr2 A). apply in_or_app. left. apply Hst, Hx.
          + apply in_app_or in A. destruct A as [A|A].
            * apply (proj2 (proj2 (Hin x A))), Hx.
            * apply (frame_new _ _ _ _ _ x Hfi Hfr1 (Hst x Hx)), Hg0, A.
        - destruct (Hdead2 x Hx) as [A B]. split; [apply in_or_app; left; exact A|exact B]. }
      intros w' P Hag Hk F HF. apply (Hfin w' P Hag Hk). lia.
Qed.

Theorem spill_root_spec fuel d keep live f n s p s' :
  fresh_inv live s -> (n_data n = Leaves [] \/ swf fuel d keep None None n) ->
  spill_root f n s = Ok (p, s') ->
  exists alloc dead good lv,
    frame live s s' alloc dead /\ (forall q, In q good -> In q alloc) /\ In p good /\ (lv <= f)%nat /\
    (forall x, old_run n x -> In x dead) /\
    (forall L, (forall x, In x L -> In x live) -> old_in L n ->
       forall x, In x dead -> (In x L \/ In x alloc) /\ ~ In x good) /\
    forall w' P, wr_agree good (wr s') w' -> (forall x, In x keep -> wr_get w' x = None) ->
      forall F, (lv + ndepth n + fuel <= F)%nat -> page_ents F (apply_wr w' P d) p = view_leaves fuel d n.
Proof.
  intros Hfi Hn H. destruct f as [|f]; [discriminate|]. cbn [spill_root] in H.
  destruct Hn as [Hn|Hswf].
  - (* the empty root leaf *)
    rewrite Hn in H. destruct (write_node s (set_kids n [])) as [n1 s1] eqn:Hw. cbn [bind] in H.
    inversion H; subst p s'. clear H.
    destruct (write_node_frame _ _ _ _ _ Hfi Hw) as (Hfr & _ & Hp2 & Hk0 & _ & Hget).
    assert (Ed : n_data (set_kids n []) = Leaves []) by (destruct n; exact Hn). rewrite Ed in Hget.
    exists (nrun (n_page n1) (n_np n1)), (old_pages (set_kids n [])), [n_page n1], 0%nat.
    split; [exact Hfr|]. split; [intros q [<-|[]]; apply In_nrun; lia|]. split; [left; reflexivity|]. split; [lia|].
    split. { intros x Hx. apply In_old_pages. destruct n; exact Hx. }
    split.
    { intros L HL Hold x Hx. inversion Hold as [? Ho _].
      assert (Hx' : old_run n x) by (apply In_old_pages in Hx; destruct n; exact Hx).
      split; [left; apply Ho, Hx'|]. intros [<-|[]].
      apply (frame_new _ _ _ _ _ (n_page n1) Hfi Hfr); [apply In_nrun; lia|apply HL, Ho, Hx']. }
    intros w' P Hag _ F HF. destruct F as [|F]; [destruct n; cbn [ndepth] in HF; lia|].
    rewrite view_leaves_eq, Hn.
    eapply page_ents_leaf; [apply dget_apply_wr_some; rewrite (Hag _ (or_introl eq_refl)); exact Hget|reflexivity].
  - assert (Hsp : exists o fk p1 sibs s1, spill_node fuel0 n s = Ok ((o, (fk, p1), sibs), s1) /\
                    match sibs with [] => Ok (p1, s1)
                    | _ => spill_root f (Node 0 0 (Some fk) 0 (Branches ((fk, p1) :: sibs)) []) s1 end = Ok (p, s')).
    { assert (E : (match n_data n with
                   | Leaves [] => let '(n1, s'0) := write_node s (set_kids n []) in Ok ((n_orig n, ([], n_page n1), []), s'0)
                   | _ => spill_node fuel0 n s end) = spill_node fuel0 n s).
      { inversion Hswf as [? ? ? ? ? ? l Hk|]; subst; cbn [n_data]; [|reflexivity].
        destruct l as [|e l]; [destruct Hk as [Hk _]; exfalso; apply Hk; reflexivity|reflexivity]. }
      rewrite E in H. destruct (spill_node fuel0 n s) as [[[[o [fk p1]] sibs] s1]| |]; try discriminate.
      cbn [bind] in H. exists o, fk, p1, sibs, s1. split; [reflexivity|exact H]. }
    destruct Hsp as (o & fk & p1 & sibs & s1 & Hsp & Hloop).
    destruct (spill_node_spec fuel d keep fuel0 _ _ _ _ _ _ _ _ _ _ Hfi Hswf Hsp)
      as (a1 & dd1 & g1 & Hfr1 & Hg1a & Hg1p & _ & _ & _ & Hold & Hents & Hdead1).
    assert (Hg1 : forall q, In q g1 -> In q (a1 ++ live)) by (intros q Hq; apply in_or_app; left; apply Hg1a, Hq).
    destruct (root_loop d keep f (a1 ++ live) s1 fk p1 sibs _ _ g1 p s' (fr_fresh _ _ _ _ _ Hfr1) Hg1
                (Hg1p _ (or_introl eq_refl)) Hents Hloop)
      as (a2 & dd2 & good & lv & Hfr2 & Hgood & Hp' & Hlv & Hdead2 & Hfin).
    exists (a2 ++ a1), (dd1 ++ dd2), good, lv.
    split; [apply (frame_trans _ _ _ _ _ _ _ _ Hfr1 Hfr2)|].
    split. { intros q Hq. apply in_or_app. destruct (Hgood q Hq) as [A|A]; [left; exact A|right; apply Hg1a, A]. }
    split; [exact Hp'|]. split; [lia|].
    split; [intros x Hx; apply in_or_app; left; apply Hold, Hx|].
    split.
    { intros L HL Hol x Hx. apply in_app_or in Hx. destruct Hx as [Hx|Hx].
      - destruct (Hdead1 L HL Hol x Hx) as [A B]. split.
        + destruct A as [A|A]; [left|right; apply in_or_app; right]; exact A.
        + intros Hg. destruct (Hgood x Hg) as [C|C]; [|exact (B C)].
          apply (frame_new _ _ _ _ _ x (fr_fresh _ _ _ _ _ Hfr1) Hfr2 C). apply in_or_app.
          destruct A as [A|A]; [right; apply HL|left]; exact A.
      - destruct (Hdead2 x Hx) as [A B]. split; [right; apply in_or_app; left; exact A|exact B]. }
    intros w' P Hag Hk F HF. apply (Hfin w' P Hag Hk). lia.
Qed.

(** ** 3g. using the theorems at commit time: the write set of any later state of the transaction qualifies *)
Theorem frame_later_ok live s s' alloc dead good keep s'' a2 d2 :
  fresh_inv live s -> frame live s s' alloc dead ->
  (forall q, In q good -> In q alloc) -> (forall x, In x keep -> In x live) ->
  (forall x, In x keep -> wr_get (wr s) x = None) ->
  frame (alloc ++ live) s' s'' a2 d2 ->
  wr_agree good (wr s') (wr s'') /\ (forall x, In x keep -> wr_get (wr s'') x = None).
Proof.
  intros Hfi Hfr Hg Hk Hk0 Hfr2. pose proof (fr_fresh _ _ _ _ _ Hfr) as Hfi'. split.
  - intros q Hq. apply (fr_wr _ _ _ _ _ Hfr2). intros Hi. apply (frame_new _ _ _ _ _ _ Hfi' Hfr2 Hi).
    apply in_or_app. left. apply Hg, Hq.
  - intros x Hx. rewrite (fr_wr _ _ _ _ _ Hfr2), (fr_wr _ _ _ _ _ Hfr); [apply Hk0, Hx| |].
    + intros Hi. apply (frame_new _ _ _ _ _ _ Hfi Hfr Hi), Hk, Hx.
    + intros Hi. apply (frame_new _ _ _ _ _ _ Hfi' Hfr2 Hi). apply in_or_app. right. apply Hk, Hx.
Qed.

(* the root page of a bucket after a later state s'' of the same transaction is committed *)
Corollary spill_root_committed fuel d keep live f n s p s' s'' a2 d2 :
  fresh_inv live s -> (n_data n = Leaves [] \/ swf fuel d keep None None n) ->
  (forall x, In x keep -> In x live) -> (forall x, In x keep -> wr_get (wr s) x = None) ->
  spill_root f n s = Ok (p, s') ->
  exists alloc dead lv,
    frame live s s' alloc dead /\ In p alloc /\ ~ In p live /\ (lv <= f)%nat /\
    (forall x, old_run n x -> freed_in_tx s' x = true) /\
    (frame (alloc ++ live) s' s'' a2 d2 ->
     forall P F, (lv + ndepth n + fuel <= F)%nat ->
       page_ents F (apply_wr (wr s'') P d) p = view_leaves fuel d n) /\
    (* the pending pages stay dead, and the new root is not one of them *)
    (old_in live n -> ~ In p dead /\
       (pend_ok live s -> forall live', (forall x, In x live' -> (In x live \/ In x alloc) /\ ~ In x dead) ->
          pend_ok live' s')).
Proof.
  intros Hfi Hn Hk Hk0 H.
  destruct (spill_root_spec fuel d keep live f n s p s' Hfi Hn H)
    as (alloc & dead & good & lv & Hfr & Hga & Hp & Hlv & Hold & Hdead & Hfin).
  exists alloc, dead, lv. split; [exact Hfr|]. split; [apply Hga, Hp|].
  split; [apply (frame_new _ _ _ _ _ _ Hfi Hfr), Hga, Hp|]. split; [exact Hlv|].
  split; [intros x Hx; apply (fr_freed _ _ _ _ _ Hfr); right; apply Hold, Hx|].
  split.
  { intros Hfr2 P F HF.
    destruct (frame_later_ok _ _ _ _ _ _ _ _ _ _ Hfi Hfr Hga Hk Hk0 Hfr2) as [A B].
    apply (Hfin (wr s'') P A B F HF). }
  intros Hol. pose proof (Hdead live (fun x Hx => Hx) Hol) as Hd. split.
  - intros Hi. apply (proj2 (Hd p Hi)), Hp.
  - intros Hpo live' Hl'. apply (frame_pend_ok live live' s s' alloc dead Hfi Hpo Hfr); [|exact Hl'].
    intros x Hx. apply (proj1 (Hd x Hx)).
Qed.

(** ** Non-vacuity of stage 3 *)
Definition kM : bytes := [x01].
Definition kN : bytes := [x02].
(* committed: branch page 9 over leaf pages 3 and 10; the transaction has materialised 9 and 3 (with six big
   entries now), page 10 is read from disk *)
Definition ex_d : disk :=
  [(10, {| ap_over := 0; ap_body := Leaves [LKv kM [x0a]; LKv kN [x0b]] |});
   (9, {| ap_over := 0; ap_body := Branches [(EngineFacts.k300 x01, 3); (kM, 10)] |});
   (3, {| ap_over := 0; ap_body := Leaves [LKv (EngineFacts.k300 x01) [x01]] |})].
Definition ex_br : node :=
  Node 9 1 (Some (EngineFacts.k300 x01)) 0 (Branches [(EngineFacts.k300 x01, 3); (kM, 10)]) [ex_n].

Example ex_swf_leaf : swf 1 ex_d [10] None (Some kM) ex_n.
Proof.
  apply swf_leaf. split; [discriminate|]. split; [vm_compute; reflexivity|].
  intros k Hk. split; [exact I|]. vm_compute in Hk.
  repeat (destruct Hk as [<-|Hk]; [vm_compute; reflexivity|]). destruct Hk.
Qed.

Example ex_swf : swf 1 ex_d [10] None None ex_br.
Proof.
  apply swf_branch.
  - split; [discriminate|]. split; [vm_compute; reflexivity|]. intros k _. split; exact I.
  - cbn [map snd]. repeat constructor; cbn [In]; intuition discriminate.
  - cbn [map n_page ex_n]. repeat constructor; cbn [In]; intuition discriminate.
  - intros kd [<-|[]]. exists (EngineFacts.k300 x01). split; [reflexivity|left; reflexivity].
  - intros l h e kd Hi Hf. cbn [chb fst] in Hi. destruct Hi as [Hi|[Hi|[]]]; inversion Hi; subst l h e; clear Hi.
    + vm_compute in Hf. inversion Hf. subst kd. exact ex_swf_leaf.
    + vm_compute in Hf. discriminate.
  - intros e [<-|[<-|[]]] Hf; [vm_compute in Hf; discriminate|].
    cbn [stable snd]. split; [left; reflexivity|]. vm_compute. exact I.
Qed.

(* spill_node: the kid on page 3 is split in three (pages 5, 7, 12; 4 is stale), the branch gets four entries *)
Example ex_spill_branch :
  match spill_node 2 ex_br ex_s with
  | Ok ((orig, (fk, p), sibs), s') =>
      orig = Some (EngineFacts.k300 x01) /\ fk = EngineFacts.k300 x01 /\ p = 13 /\ sibs = [] /\
      map fst (wr s') = [13; 12; 7; 5; 4] /\ pending s' = [(6, [3; 4; 9])] /\ np s' = 15 /\
      wr_get (wr s') 13 = Some (1037, Branches [(EngineFacts.k300 x01, 5); (EngineFacts.k300 x03, 7);
                                                 (EngineFacts.k300 x05, 12); (kM, 10)]) /\
      let d' := apply_wr (wr s') (psz s') ex_d in
      page_ents 2 d' 13 = view_leaves 1 ex_d ex_br /\ List.length (page_ents 2 d' 13) = 8%nat
  | _ => False end.
Proof. vm_compute. repeat split. Qed.

(* spill_root on the same node: one page, no new level; the theorem applied, with the final write set *)
Example ex_spill_root_thm :
  match spill_root 3 ex_br ex_s with
  | Ok (p, s') => forall F, (6 <= F)%nat -> page_ents F (apply_wr (wr s') 1024 ex_d) p = view_leaves 1 ex_d ex_br
  | _ => False end.
Proof.
  destruct (spill_root 3 ex_br ex_s) as [[p s']| |] eqn:E; try (vm_compute in E; discriminate).
  assert (Hk : forall x, In x [10] -> In x ex_live) by (intros x [<-|[]]; vm_compute; tauto).
  assert (Hk0 : forall x, In x [10] -> wr_get (wr ex_s) x = None) by (intros x _; reflexivity).
  destruct (spill_root_committed 1 ex_d [10] ex_live 3 ex_br ex_s p s' s' [] []
              (proj1 ex_fresh) (or_intror ex_swf) Hk Hk0 E)
    as (alloc & dead & lv & Hfr & _ & _ & Hlv & _ & Hfin & _).
  intros F HF. apply Hfin; [apply frame_refl, (fr_fresh _ _ _ _ _ Hfr)|].
  change (ndepth ex_br) with 2%nat. lia.
Qed.

(* spill_root on the six-entry leaf as a root: three leaf pages and a new branch level above them *)
Example ex_spill_root_levels :
  swf 0 [] [] None None ex_n /\
  match spill_root 3 ex_n ex_s with
  | Ok (p, s') =>
      p = 13 /\ map fst (wr s') = [13; 12; 7; 5; 4] /\
      wr_get (wr s') 13 = Some (1012, Branches [(EngineFacts.k300 x01, 5); (EngineFacts.k300 x03, 7);
                                                 (EngineFacts.k300 x05, 12)]) /\
      page_ents 2 (apply_wr (wr s') 1024 []) p = ex_leaf6 /\ page_ents 1 (apply_wr (wr s') 1024 []) p = []
  | _ => False end.
Proof.
  split.
  - apply swf_leaf. split; [discriminate|]. split; [vm_compute; reflexivity|]. intros k _. split; exact I.
  - vm_compute. repeat split.
Qed.

(* the pages the spill frees are live before: the last hypothesis of [spill_root_committed]; and indeed none of
   the pages of the new tree is pending afterwards *)
Example ex_old_in : old_in ex_live ex_br.
Proof.
  constructor.
  - intros x [_ Hx]. cbn [ex_br n_page n_np] in Hx. assert (x = 9) by lia. subst x. vm_compute. tauto.
  - intros k [<-|[]]. constructor; [|intros k []].
    intros x [_ Hx]. cbn [ex_n n_page n_np] in Hx. assert (x = 3) by lia. subst x. vm_compute. tauto.
Qed.

Example ex_spill_root_pend :
  match spill_root 3 ex_br ex_s with
  | Ok (p, s') => pending s' = [(6, [3; 4; 9])] /\ p = 13 /\ free s' = [] /\ np s' = 15 /\
                  map fst (wr s') = [13; 12; 7; 5; 4]
  | _ => False end.
Proof. vm_compute. repeat split. Qed.

Example ex_spill_root_pend_thm :
  match spill_root 3 ex_br ex_s with
  | Ok (p, s') => pend_ok [p; 6; 8; 10; 11] s'
  | _ => False end.
Proof.
  destruct (spill_root 3 ex_br ex_s) as [[p s']| |] eqn:E; try (vm_compute in E; discriminate).
  assert (Hk : forall x, In x [10] -> In x ex_live) by (intros x [<-|[]]; vm_compute; tauto).
  assert (Hk0 : forall x, In x [10] -> wr_get (wr ex_s) x = None) by (intros x _; reflexivity).
  destruct (spill_root_committed 1 ex_d [10] ex_live 3 ex_br ex_s p s' s' [] []
              (proj1 ex_fresh) (or_intror ex_swf) Hk Hk0 E)
    as (alloc & dead & lv & Hfr & Hpa & _ & _ & Hold & _ & Hpend).
  destruct (Hpend ex_old_in) as [Hp Hpo]. apply (Hpo (proj2 ex_fresh)).
  intros x [<-|Hx]; [split; [right; exact Hpa|exact Hp]|].
  split; [left; vm_compute; vm_compute in Hx; tauto|].
  (* 6, 8, 10, 11 are not freed: the freed pages are exactly the pending ones *)
  intros Hd. assert (Hf : freed_in_tx s' x = true) by (apply (fr_freed _ _ _ _ _ Hfr); right; exact Hd).
  vm_compute in E. inversion E; subst p s'. clear E.
  repeat (destruct Hx as [<-|Hx]; [vm_compute in Hf; discriminate|]). destruct Hx.
Qed.

(* the key-range hypothesis of [swf] is needed: here the kid on page 3 holds keys up to k300 6, beyond the next
   separator k300 4 of its parent. The third piece of the kid is inserted AFTER the entry of page 10, so the
   committed pages list the entries in a different order than the transaction saw them. *)
Definition bad_d : disk :=
  [(10, {| ap_over := 0; ap_body := Leaves [LKv (EngineFacts.k300 x04 ++ [x01]) [x0a]] |})].
Definition bad_br : node :=
  Node 9 1 (Some (EngineFacts.k300 x01)) 0 (Branches [(EngineFacts.k300 x01, 3); (EngineFacts.k300 x04, 10)]) [ex_n].
Example ex_range_needed :
  match spill_node 2 bad_br ex_s with
  | Ok ((_, (_, p), sibs), s') =>
      let d' := apply_wr (wr s') 1024 bad_d in
      sibs = [] /\
      option_map (fun v => match snd v with Branches es => map snd es | _ => [] end) (wr_get (wr s') p)
        = Some [5; 7; 10; 12] /\
      map (fun e => last (lkey e) x00) (page_ents 2 d' p) = [x01; x02; x03; x04; x01; x05; x06] /\
      map (fun e => last (lkey e) x00) (view_leaves 1 bad_d bad_br) = [x01; x02; x03; x04; x05; x06; x01]
  | _ => False end.
Proof. vm_compute. repeat split. Qed.

(* [dget_apply_wr]: the head-most entry for a page wins, an unwritten page keeps its committed image *)
Example ex_dget_apply_wr :
  let w := [(5, (10, Leaves [])); (5, (2000, Branches [])); (7, (2048, Leaves []))] in
  let d := [(5, {| ap_over := 3; ap_body := Branches [] |}); (8, {| ap_over := 0; ap_body := Leaves [] |})] in
  dget (apply_wr w 1024 d) 5 = Some {| ap_over := 0; ap_body := Leaves [] |} /\
  dget (apply_wr w 1024 d) 7 = Some {| ap_over := 1; ap_body := Leaves [] |} /\
  dget (apply_wr w 1024 d) 8 = Some {| ap_over := 0; ap_body := Leaves [] |} /\
  dget (apply_wr w 1024 d) 9 = None.
Proof. vm_compute. repeat split. Qed.

(* ====================================================================== *)
Print Assumptions commit_apply_wr.
Print Assumptions tx_allocate_fresh.
Print Assumptions tx_allocate_pend_ok.
Print Assumptions free_pages_fresh.
Print Assumptions free_pages_pend_ok.
Print Assumptions write_node_spec.
Print Assumptions write_node_pend_ok.
Print Assumptions write_node_frame.
Print Assumptions frame_pend_ok.
Print Assumptions dget_apply_wr.
Print Assumptions spill_tail_spec.
Print Assumptions spill_leaf_spec.
Print Assumptions kids_fold.
Print Assumptions spill_node_spec.
Print Assumptions spill_node_overlay.
Print Assumptions spill_root_spec.
Print Assumptions frame_later_ok.
Print Assumptions spill_root_committed.
