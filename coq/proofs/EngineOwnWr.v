(* Shared definitions of the allocation-invariant layer (EngineAllocInv): footprints of committed bucket trees,
   the no-sharing invariant, the strengthened committed-state invariant [db_ok'], and the ownership invariant
   [OwnI] of the transaction overlay. *)
From Coq Require Import List NArith Bool Arith Lia ZifyN ZifyNat ZifyBool Permutation.
From Coq.Strings Require Import Byte.
From Jamm Require Spec.
From Jamm Require Import Bytes BytesFacts Tree Cursor SearchFacts Engine EngineAbs EngineFacts EngineMergeFacts.
From Jamm Require Import EngineModifyFacts EngineSpillFacts EnginePathFacts EngineBridgeFacts EngineRebalanceFacts.
From Jamm Require FreelistFacts EngineAllocFacts EngineSpillWfFacts.
From Jamm Require Import EngineTxInvFacts EngineSpillBucketFacts EngineRefines.
Import ListNotations.
Import Coq.Strings.String.StringSyntax. Delimit Scope string_scope with string.
Local Open Scope list_scope. Local Open Scope nat_scope.
Set Warnings "-abstract-large-number".
Arguments N.add : simpl never. Arguments N.sub : simpl never. Arguments N.mul : simpl never.
Arguments N.div : simpl never. Arguments N.ltb : simpl never. Arguments N.leb : simpl never.
Arguments N.eqb : simpl never.

From Jamm Require Import EngineOwnDefs.

(* Layer W1: the pages written by the running transaction form disjoint allocated runs, handed back only as a
   whole ([wr_ok]); pending pages stay below the high-water mark and off the free list ([pend_ok0]); no pending
   batch beyond the running transaction ([pend_ids_ok]). Kept by write_node, spill_node, spill_root, by freeing
   live pages, by allocation, by sequence-counter steps. *)

Definition WOK (live : list N) (s : txs) : Prop := wr_ok live s /\ pend_ok0 s /\ pend_ids_ok s.

Lemma wrun_pages_for : forall P q sz dd, (0 < Freelist.pages_for P sz)%N ->
  wrun P q (sz, dd) = nrun q (Freelist.pages_for P sz).
Proof.
  intros P q sz dd H. unfold wrun, mk_apage, Freelist.pages_for in *. cbn [fst snd ap_over]. f_equal. lia.
Qed.

Lemma In_wrun_head : forall P q v, In q (wrun P q v).
Proof. intros P q v. unfold wrun. apply In_nrun. lia. Qed.

(* the node handed to [write_node]: its old run is live (or it has none), or it is exactly a written run *)
Definition node_cond (live : list N) (s : txs) (n : node) : Prop :=
  (forall x, old_run n x -> In x live) \/
  (exists v, wr_get (wr s) (n_page n) = Some v /\ forall x, old_run n x <-> In x (wrun (psz s) (n_page n) v)).

Theorem write_node_wok : forall live s n n' s',
  fresh_inv live s -> WOK live s -> node_cond live s n -> write_node s n = (n', s') ->
  fresh_inv live s' /\ WOK live s' /\
  wr_get (wr s') (n_page n') = Some (node_size n, n_data n) /\
  (forall x, old_run n' x <-> In x (wrun (psz s') (n_page n') (node_size n, n_data n))) /\
  n' = set_page n (n_page n') (n_np n').
Proof.
  intros live s n n' s' Hfi (Hw & Hp & Hi) Hnc Hwn.
  pose proof (write_node_spec _ _ _ _ _ Hfi Hwn) as Hs. cbv zeta in Hs.
  destruct Hs as (En & Ek & Hk0 & Hp2 & Hnl & Hfi' & Ewr & Etx & Epsz & _ & _ & Hnp & Hfr & Hfreed & _ & Epd).
  destruct (write_node_frame _ _ _ _ _ Hfi Hwn) as (Hframe & _ & _ & _ & _ & Hget).
  pose proof (fr_src _ _ _ _ _ Hframe) as Hsrc.
  set (p := n_page n') in *. set (k := n_np n') in *.
  assert (Erun : wrun (psz s') p (node_size n, n_data n) = nrun p k).
  { rewrite Epsz, wrun_pages_for; [now rewrite <- Ek | rewrite <- Ek; exact Hk0]. }
  assert (Hfi1 : fresh_inv live s').
  { eapply fresh_inv_sub; [|exact Hfi']. intros x Hx. apply in_or_app. now right. }
  (* a page of the new run is not a page of an earlier written run *)
  assert (Hnew_old : forall q v x, wr_get (wr s) q = Some v -> In x (wrun (psz s) q v) -> In x (nrun p k) -> False).
  { intros q v x Hq Hx Hn. destruct (wo_range _ _ Hw q v x Hq Hx) as (R1 & R2 & _).
    destruct (Hsrc x Hn) as [A|A]; [exact (R2 A) | lia]. }
  (* what an old run of n is *)
  assert (Hold_new : forall x, old_run n x -> In x (nrun p k) -> False).
  { intros x Ho Hn. destruct Hnc as [HA | (v & Hv & HB)].
    - apply (Hnl x); [apply In_nrun, Hn | apply HA, Ho].
    - apply (Hnew_old _ _ x Hv); [apply HB, Ho | exact Hn]. }
  assert (Hget' : forall q v, wr_get (wr s') q = Some v ->
            (q = p /\ v = (node_size n, n_data n)) \/ (q <> p /\ wr_get (wr s) q = Some v)).
  { intros q v Hq. rewrite Ewr, wr_get_put in Hq. destruct (N.eqb_spec p q) as [E|E].
    - left. inversion Hq. auto.
    - right. auto. }
  split; [exact Hfi1|]. split; [split; [|split]|].
  - (* wr_ok *)
    constructor.
    + intros q v x Hq Hx. destruct (Hget' q v Hq) as [[-> ->] | [Hne Hq0]].
      * rewrite Erun in Hx. destruct (fi_live _ _ Hfi' x (in_or_app _ _ _ (or_introl Hx))) as [A B].
        apply In_nrun in Hx. split; [lia|]. split; [exact B | apply Hnl; exact Hx].
      * rewrite Epsz in Hx. destruct (wo_range _ _ Hw q v x Hq0 Hx) as (R1 & R2 & R3).
        split; [lia|]. split; [intros Hf; apply R2, Hfr, Hf | exact R3].
    + intros q1 v1 q2 v2 x H1 H2 X1 X2.
      destruct (Hget' q1 v1 H1) as [[-> ->] | [Hne1 H10]]; destruct (Hget' q2 v2 H2) as [[-> ->] | [Hne2 H20]].
      * reflexivity.
      * exfalso. rewrite Erun in X1. rewrite Epsz in X2. eapply Hnew_old; eauto.
      * exfalso. rewrite Erun in X2. rewrite Epsz in X1. eapply Hnew_old; eauto.
      * rewrite Epsz in X1, X2. eapply (wo_disj _ _ Hw); eauto.
    + intros q v x Hq Hx Hf. apply Hfreed in Hf. apply Hfreed.
      destruct (Hget' q v Hq) as [[-> ->] | [Hne Hq0]].
      * exfalso. rewrite Erun in Hx. destruct Hf as [Hf | Hf]; [|exact (Hold_new x Hf Hx)].
        apply freed_in_tx_pend_at in Hf. apply FreelistFacts.pend_at_sub in Hf.
        destruct (Hp x Hf) as [A B]. destruct (Hsrc x Hx) as [C|C]; [exact (B C) | lia].
      * rewrite Epsz in Hx. destruct Hf as [Hf | Hf]; [left; eapply (wo_freed _ _ Hw); eauto|].
        destruct Hnc as [HA | (v0 & Hv0 & HB)].
        -- exfalso. destruct (wo_range _ _ Hw q v x Hq0 Hx) as (_ & _ & R3). apply R3, HA, Hf.
        -- right. apply HB. apply HB in Hf.
           assert (q = n_page n) by (eapply (wo_disj _ _ Hw); eauto). subst q.
           rewrite Hv0 in Hq0. inversion Hq0; subst v0. apply In_wrun_head.
  - (* pend_ok0 *)
    intros x Hx. rewrite Epd in Hx. apply free_node_page_pend_all in Hx. destruct Hx as [Hx | Hx].
    + destruct (Hp x Hx) as [A B]. split; [lia | intros Hf; apply B, Hfr, Hf].
    + destruct Hnc as [HA | (v0 & Hv0 & HB)].
      * apply (fi_live _ _ Hfi1 x), HA, Hx.
      * apply HB in Hx. destruct (wo_range _ _ Hw _ _ x Hv0 Hx) as (R1 & R2 & _).
        split; [lia | intros Hf; apply R2, Hfr, Hf].
  - (* pend_ids_ok *)
    apply (pend_ids_ok_ext (free_node_page s n)); [exact Epd | |now apply free_node_page_pend_ids].
    rewrite Etx. destruct (free_node_page_fields s n) as (_ & _ & _ & T & _). now rewrite T.
  - split; [exact Hget|]. split; [|exact En].
    intros x. rewrite Erun, In_nrun. unfold old_run. fold p k. split; [tauto|]. intros H. split; [lia | exact H].
Qed.

Lemma node_cond_nopage : forall live s n, n_page n = 0%N -> node_cond live s n.
Proof. intros live s n E. left. intros x [H _]. contradiction. Qed.

Lemma sibs_fold_wok : forall live rest acc s sibs s', fresh_inv live s -> WOK live s ->
  fold_res spill_sib_step rest (acc, s) = Ok (sibs, s') -> fresh_inv live s' /\ WOK live s'.
Proof.
  intros live. induction rest as [|dd rest IH]; intros acc s sibs s' Hfi Hw H; cbn [fold_res] in H.
  - inversion H; subst. auto.
  - apply bind_ok_inv in H. destruct H as ([l1 s1] & Hst & H). unfold spill_sib_step in Hst.
    destruct (first_key dd) as [fk| |]; cbn [bind] in Hst; try discriminate.
    destruct (write_node s (Node 0 0 (Some fk) 0 dd [])) as [sn s2] eqn:Hwn. inversion Hst; subst l1 s1.
    destruct (write_node_wok live s _ sn s2 Hfi Hw (node_cond_nopage live s (Node 0 0 (Some fk) 0 dd []) eq_refl) Hwn) as (F & W & _).
    eapply IH; eauto.
Qed.

Lemma spill_tail_wok : forall live n d1 s1 out s', fresh_inv live s1 -> WOK live s1 ->
  (forall x, old_run n x -> In x live) -> spill_tail n d1 s1 = Ok (out, s') -> fresh_inv live s' /\ WOK live s'.
Proof.
  intros live n d1 s1 out s' Hfi Hw Hold H. unfold spill_tail in H.
  destruct (split s1 d1) as [d0 rest].
  destruct (write_node s1 (set_kids (set_data n d0) [])) as [n1 s2] eqn:W1.
  assert (Hc0 : node_cond live s1 (set_kids (set_data n d0) [])).
  { left. intros x Hx. apply Hold. destruct n; exact Hx. }
  destruct (write_node_wok live s1 _ n1 s2 Hfi Hw Hc0 W1) as (F2 & W2 & G1 & G2 & _).
  assert (Hs3 : exists n2 s3, (match rest with [] => (n1, s2) | _ => write_node s2 n1 end) = (n2, s3) /\
                  fresh_inv live s3 /\ WOK live s3).
  { destruct rest as [|r0 rest'].
    - exists n1, s2. auto.
    - destruct (write_node s2 n1) as [n2 s3] eqn:W3. exists n2, s3. split; [reflexivity|].
      assert (Hc1 : node_cond live s2 n1) by (right; eexists; split; [exact G1 | exact G2]).
      destruct (write_node_wok live s2 n1 n2 s3 F2 W2 Hc1 W3) as (F3 & W3' & _). auto. }
  destruct Hs3 as (n2 & s3 & E3 & F3 & W3). rewrite E3 in H.
  apply bind_ok_inv in H. destruct H as ([sibs s4] & Hsf & H).
  destruct (sibs_fold_wok live rest [] s3 sibs s4 F3 W3 Hsf) as [F4 W4].
  destruct (first_key (n_data n2)) as [fk0| |]; cbn [bind] in H; try discriminate. inversion H; subst. auto.
Qed.

Lemma old_in_inv : forall L n, old_in L n -> (forall x, old_run n x -> In x L) /\ (forall k, In k (n_kids n) -> old_in L k).
Proof. intros L n H. inversion H; auto. Qed.

Theorem spill_node_wok : forall f live n s out s', fresh_inv live s -> WOK live s -> old_in live n ->
  spill_node f n s = Ok (out, s') -> fresh_inv live s' /\ WOK live s'.
Proof.
  induction f as [|f IH]; intros live n s out s' Hfi Hw Hold H; [discriminate|].
  rewrite spill_node_unfold in H. destruct (old_in_inv _ _ Hold) as [Ho Hk].
  apply bind_ok_inv in H. destruct H as (ks & Hkk & H).
  apply bind_ok_inv in H. destruct H as ([d1 s1] & Hfold & H).
  assert (Hkids : forall k, In k (map snd (isort_by fst ks)) -> old_in live k).
  { intros k Hin. apply Hk. rewrite <- (kid_keys_snd _ _ Hkk).
    eapply Permutation_in; [apply Permutation_map; apply EngineMergeFacts.isort_by_perm | exact Hin]. }
  assert (G : forall todo dd s0 d1' s1', (forall k, In k todo -> old_in live k) -> fresh_inv live s0 -> WOK live s0 ->
            fold_res (spill_kid_step f) todo (dd, s0) = Ok (d1', s1') -> fresh_inv live s1' /\ WOK live s1').
  { induction todo as [|k todo IHt]; intros dd s0 d1' s1' Hall F0 W0 Hf; cbn [fold_res] in Hf.
    - inversion Hf; subst. auto.
    - apply bind_ok_inv in Hf. destruct Hf as ([d2 s2] & Hst & Hf). unfold spill_kid_step in Hst.
      apply bind_ok_inv in Hst. destruct Hst as ([[[ko kb] sibs] sk] & Hsp & Hst).
      destruct (IH live k s0 _ sk F0 W0 (Hall k (or_introl eq_refl)) Hsp) as [Fk Wk].
      assert (s2 = sk).
      { destruct dd as [l|es]; [discriminate|]. apply bind_ok_inv in Hst. destruct Hst as (es1 & _ & Hst).
        apply bind_ok_inv in Hst. destruct Hst as (es2 & _ & Hst). now inversion Hst. }
      subst s2. eapply IHt; eauto. intros k' Hk'. apply Hall. now right. }
  destruct (G _ _ _ _ _ Hkids Hfi Hw Hfold) as [F1 W1].
  eapply spill_tail_wok; eauto.
Qed.

Theorem spill_root_wok : forall f live n s p s', fresh_inv live s -> WOK live s -> old_in live n ->
  spill_root f n s = Ok (p, s') -> fresh_inv live s' /\ WOK live s'.
Proof.
  induction f as [|f IH]; intros live n s p s' Hfi Hw Hold H; [discriminate|]. cbn [spill_root] in H.
  apply bind_ok_inv in H. destruct H as ([[[o [fk p1]] sibs] s1] & Hfirst & H).
  assert (Hs1 : fresh_inv live s1 /\ WOK live s1).
  { destruct (old_in_inv _ _ Hold) as [Ho _].
    assert (Hleaf : forall (X : res (spill_out * txs)),
              (let '(n1, s'0) := write_node s (set_kids n []) in Ok ((n_orig n, ([], n_page n1), []), s'0)) = X ->
              X = Ok ((o, (fk, p1), sibs), s1) -> fresh_inv live s1 /\ WOK live s1).
    { intros X EX E. subst X. destruct (write_node s (set_kids n [])) as [n1 s0] eqn:Hwn. inversion E; subst.
      assert (Hc : node_cond live s (set_kids n [])) by (left; intros x Hx; apply Ho; destruct n; exact Hx).
      destruct (write_node_wok live s _ n1 s1 Hfi Hw Hc Hwn) as (F & W & _). auto. }
    destruct (n_data n) as [[|e l]|es]; [eapply Hleaf; [reflexivity | exact Hfirst] | |];
      eapply spill_node_wok; eauto. }
  destruct Hs1 as [F1 W1]. destruct sibs as [|sb sibs]; [inversion H; subst; auto|].
  eapply IH; [exact F1 | exact W1 | | exact H].
  constructor; [intros x [Hx _]; cbn [n_page] in Hx; contradiction | intros k []].
Qed.

(* ---------- the statements in the form used by the spill layer ---------- *)

Theorem W1a : forall live f n s p s', fresh_inv live s -> wr_ok live s -> pend_ok0 s -> pend_ids_ok s -> old_in live n ->
  spill_root f n s = Ok (p, s') -> wr_ok live s' /\ pend_ok0 s' /\ pend_ids_ok s'.
Proof.
  intros live f n s p s' Hfi A B C Hold H.
  destruct (spill_root_wok f live n s p s' Hfi (conj A (conj B C)) Hold H) as [_ W]. exact W.
Qed.

Theorem W1b : forall live s p n, fresh_inv live s -> wr_ok live s -> pend_ok0 s -> pend_ids_ok s ->
  (forall x, In x (nrun p n) -> In x live) ->
  wr_ok live (free_pages s p n) /\ pend_ok0 (free_pages s p n) /\ pend_ids_ok (free_pages s p n).
Proof.
  intros live s p n Hfi Hw Hp Hi Hl.
  destruct (free_pages_fields s p n) as (F1 & F2 & F3 & F4 & F5 & _).
  split; [|split; [|now apply free_pages_pend_ids]].
  - constructor.
    + intros q v x Hq Hx. rewrite F3 in Hq. rewrite F5 in Hx. rewrite F1, F2. eapply (wo_range _ _ Hw); eauto.
    + intros q1 v1 q2 v2 x H1 H2 X1 X2. rewrite F3 in H1, H2. rewrite F5 in X1, X2. eapply (wo_disj _ _ Hw); eauto.
    + intros q v x Hq Hx Hf. rewrite F3 in Hq. rewrite F5 in Hx. apply free_pages_freed in Hf. apply free_pages_freed.
      destruct Hf as [Hf | Hf]; [left; eapply (wo_freed _ _ Hw); eauto|].
      exfalso. destruct (wo_range _ _ Hw q v x Hq Hx) as (_ & _ & R3). apply R3, Hl, In_nrun, Hf.
  - intros x Hx. rewrite F1, F2. apply EngineAllocFacts.engine_free_pend_all in Hx. destruct Hx as [Hx | Hx].
    + apply Hp, Hx.
    + apply (fi_live _ _ Hfi x), Hl, In_nrun, Hx.
Qed.

Theorem W1c : forall live s bts p n s', fresh_inv live s -> wr_ok live s -> pend_ok0 s -> pend_ids_ok s -> (0 < bts)%N ->
  tx_allocate s bts = (p, n, s') ->
  wr_ok live s' /\ pend_ok0 s' /\ pend_ids_ok s' /\
  (forall q v x, wr_get (wr s') q = Some v -> In x (wrun (psz s') q v) -> ~ In x (nrun p n)).
Proof.
  intros live s bts p n s' Hfi Hw Hp Hi Hb Hal.
  destruct (tx_allocate_fresh _ _ _ _ _ _ Hfi Hb Hal)
    as (_ & _ & _ & _ & _ & _ & Ewr & Epd & Etx & Epsz & _ & _ & Hnp & Hfr & Hsrc).
  split; [|split; [|split]].
  - constructor.
    + intros q v x Hq Hx. rewrite Ewr in Hq. rewrite Epsz in Hx. destruct (wo_range _ _ Hw q v x Hq Hx) as (R1 & R2 & R3).
      split; [lia|]. split; [intros Hf; apply R2, Hfr, Hf | exact R3].
    + intros q1 v1 q2 v2 x H1 H2 X1 X2. rewrite Ewr in H1, H2. rewrite Epsz in X1, X2. eapply (wo_disj _ _ Hw); eauto.
    + intros q v x Hq Hx Hf. rewrite Ewr in Hq. rewrite Epsz in Hx. unfold freed_in_tx in *. rewrite Epd, Etx in *.
      eapply (wo_freed _ _ Hw); eauto.
  - intros x Hx. rewrite Epd in Hx. destruct (Hp x Hx) as [A B]. split; [lia | intros Hf; apply B, Hfr, Hf].
  - apply (pend_ids_ok_ext s); assumption.
  - intros q v x Hq Hx Hn. rewrite Ewr in Hq. rewrite Epsz in Hx. destruct (wo_range _ _ Hw q v x Hq Hx) as (R1 & R2 & _).
    apply In_nrun in Hn. destruct (Hsrc x Hn) as [A|A]; [exact (R2 A) | lia].
Qed.

Theorem W1d : forall live s s', same_but_seqc s s' -> wr_ok live s -> pend_ok0 s -> pend_ids_ok s ->
  wr_ok live s' /\ pend_ok0 s' /\ pend_ids_ok s'.
Proof.
  intros live s s' (A1 & A2 & A3 & A4 & A5 & A6 & A7 & A8) Hw Hp Hi.
  assert (Efr : forall x, freed_in_tx s' x = freed_in_tx s x) by (intros x; unfold freed_in_tx; rewrite A2, A3; reflexivity).
  split; [|split].
  - constructor.
    + intros q v x Hq Hx. replace (wr s') with (wr s) in Hq by congruence. replace (psz s') with (psz s) in Hx by congruence.
      replace (np s') with (np s) by congruence. replace (free s') with (free s) by congruence. eapply (wo_range _ _ Hw); eauto.
    + intros q1 v1 q2 v2 x H1 H2 X1 X2. replace (wr s') with (wr s) in H1, H2 by congruence.
      replace (psz s') with (psz s) in X1, X2 by congruence. eapply (wo_disj _ _ Hw); eauto.
    + intros q v x Hq Hx Hf. replace (wr s') with (wr s) in Hq by congruence. replace (psz s') with (psz s) in Hx by congruence.
      rewrite Efr in *. eapply (wo_freed _ _ Hw); eauto.
  - intros x Hx. replace (pending s') with (pending s) in Hx by congruence.
    replace (np s') with (np s) by congruence. replace (free s') with (free s) by congruence. apply Hp, Hx.
  - apply (pend_ids_ok_ext s); [congruence | congruence | exact Hi].
Qed.

Print Assumptions W1a.
Print Assumptions W1b.
Print Assumptions W1c.
Print Assumptions W1d.
