(* The link invariant [Lnk] of the overlay (EngineOwnSpill, layer W2) holds after the operations ([ops_Lnk]),
   is kept by rebalance ([rebalance_Lnk]), hence holds for the overlay that [commit] spills ([run_Lnk]):
   the premise of [commit_alloc]. *)
From Coq Require Import List NArith Bool Arith Lia ZifyN ZifyNat ZifyBool Permutation.
From Coq.Strings Require Import Byte.
From Jamm Require Spec.
From Jamm Require Import Bytes BytesFacts Tree Cursor SearchFacts Engine EngineAbs EngineFacts EngineMergeFacts.
From Jamm Require Import EngineModifyFacts EngineSpillFacts EnginePathFacts EngineBridgeFacts EngineRebalanceFacts.
From Jamm Require FreelistFacts EngineAllocFacts EngineSpillWfFacts.
From Jamm Require Import EngineTxInvFacts EngineSpillBucketFacts EngineRefines.
From Jamm Require Import EngineOwnDefs.
From Jamm Require Import EngineOwnOps EngineOwnReb EngineOwnSpill.
Import ListNotations.
Import Coq.Strings.String.StringSyntax. Delimit Scope string_scope with string.
Local Open Scope list_scope. Local Open Scope nat_scope.
Set Warnings "-abstract-large-number".
Arguments N.add : simpl never. Arguments N.sub : simpl never. Arguments N.mul : simpl never.
Arguments N.div : simpl never. Arguments N.ltb : simpl never. Arguments N.leb : simpl never.
Arguments N.eqb : simpl never.

(* ====================================================================== *)
(** * 1. After the operations *)

(* [closedR d R] is not used by the proof; it is kept so that the statement matches the context in which [XDF]
   is available *)
Theorem ops_Lnk : forall d R k n s b r0, closedR d R -> SDeep d s b -> XDF d R k b -> OwnS d n s b r0 -> Lnk d n b r0.
Proof.
  intros d R k n. revert k. induction n as [|n IH]; intros k s b r0 HC HD HX HO; [exact I|].
  destruct (SDeep_inv _ _ _ HD) as (h & l & HL & (_ & HS2 & _)).
  destruct (XDF_inv _ _ _ _ _ _ _ HX HL) as (f' & Ek & _ & HN & _ & _ & HF).
  pose proof (BLoc_bucket_view _ _ _ _ _ HL) as Hv.
  pose proof (BLoc_sorted _ _ _ _ _ HL) as Hsorted.
  destruct (OwnS_inv _ _ _ _ _ _ HO Hv) as (Hrp & _ & _ & _ & _ & _ & _ & _ & E).
  cbn [Lnk]. split; [intros Hd; split; [now apply HN | exact Hrp]|].
  intros k0 sb Hin l2 r nx Hv2 He. rewrite (bucket_view_det _ _ _ _ Hv2 Hv) in He.
  destruct (E k0 sb Hin) as (r' & nx' & He' & HO').
  pose proof (same_key_same_entry l _ _ Hsorted He He' eq_refl) as Eq. inversion Eq; subst r' nx'.
  rewrite Forall_forall in HS2, HF.
  destruct (HS2 _ Hin) as [_ HDs]. pose proof (HF _ Hin) as HXs. cbn [snd] in HDs, HXs.
  exact (IH f' s sb r HC HDs HXs HO').
Qed.

(* ====================================================================== *)
(** * 2. Through rebalance *)

(* the general form, against (R)'s [Deep]: rebalance keeps every view list and the names of the opened
   sub-buckets; a bucket that was rebalanced is dirty *)
Lemma rebalance_Lnk_deep : forall d f fv n s b v r0 b' s', Deep fv d s b v -> Lnk d n b r0 ->
  rebalance f d b s = Ok (b', s') -> Lnk d n b' r0.
Proof.
  intros d. induction f as [|f IH]; intros fv n s b v r0 b' s' HD HLk H; [discriminate|].
  destruct (rebalance_view (S f) fv d s b v b' s' HD H) as (HD' & _ & _).
  destruct fv as [|fv]; [destruct HD|]. destruct v as [l vs]. cbn [Deep] in HD, HD'.
  destruct HD as [HG HS]. destruct HD' as [HG' _].
  pose proof (BGood_bucket_view _ _ _ _ HG) as Hv. pose proof (BGood_bucket_view _ _ _ _ HG') as Hv'.
  cbn [rebalance] in H. destruct (negb (is_dirty fuel0 b)).
  { inversion H; subst. exact HLk. }
  match type of H with bind ?r _ = _ => destruct r as [[subs' s1]| |] eqn:Ef end; cbn [bind] in H; try discriminate.
  destruct (merge_nodes_fields _ _ _ _ _ H) as (_ & Es & Edt). cbn [b_subs b_dirty] in Es, Edt.
  destruct (rebalance_fold_gen f d (fun s0 x => exists y, Deep fv d s0 (snd x) y)
              (fun x y => fst x = fst y /\ forall m r, Lnk d m (snd x) r -> Lnk d m (snd y) r))
           with (subs := b_subs b) (acc := @nil (bytes * bucket))
              (acc0 := @nil (bytes * bucket)) (s0 := s) (subs' := subs') (s1 := s1) as [R1 _].
  - intros s0 s0' x Hle [y Hy]. exists y. eapply Deep_seqc_mono; eauto.
  - intros s0 x bx sx [y Hy] Ex. destruct (rebalance_view f fv d s0 (snd x) y bx sx Hy Ex) as (_ & Tx & _).
    split; [apply (tx_frame_le _ _ Tx)|]. split; [reflexivity|]. cbn [snd]. intros m r Hm. eapply IH; eauto.
  - eapply Forall2_Forall_l; [exact HS|]. intros x y [_ Hy]. eauto.
  - constructor.
  - exact Ef.
  - cbn [app] in R1. destruct n as [|n]; [exact I|]. cbn [Lnk] in HLk |- *. destruct HLk as [_ HLk2].
    split; [intros Hc; rewrite Edt in Hc; discriminate|].
    intros k sb' Hin l2 r nx Hv2 He. rewrite Es in Hin. rewrite (bucket_view_det _ _ _ _ Hv2 Hv') in He.
    destruct (Forall2_In_r _ _ _ _ R1 Hin) as ([k0 sb] & Hin0 & Ek & Hp). cbn [fst snd] in Ek, Hp. subst k0.
    apply Hp. exact (HLk2 k sb Hin0 l r nx Hv He).
Qed.

Theorem rebalance_Lnk : forall d f fv n s b r0 b' s', SDeepF fv d s b -> Lnk d n b r0 ->
  rebalance f d b s = Ok (b', s') -> Lnk d n b' r0.
Proof.
  intros d f fv n s b r0 b' s' HD HLk H. destruct (SDeepF_Deep _ _ _ _ HD) as [v Hv].
  eapply rebalance_Lnk_deep; eauto.
Qed.

(* ====================================================================== *)
(** * 3. The overlay that [commit] spills *)

Theorem run_Lnk : forall st ops root' s' b1 s1, db_ok' st -> Forall (op_ok (d_disk st)) ops ->
  tx_fold st ops (root_bucket st, begin_w st) = Ok (root', s') ->
  rebalance fuel0 (d_disk st) root' s' = Ok (b1, s1) -> Lnk (d_disk st) 16 b1 (d_root st).
Proof.
  intros st ops root' s' b1 s1 Hok _ Hf Hr. pose proof Hok as (Hs & Ha & _ & _).
  pose proof Ha as (_ & _ & _ & _ & _ & _ & _ & HC & _).
  destruct (tx_fold_ownS st ops root' s' Hok Hf) as (HO & _).
  pose proof (tx_ops_SDeep' st ops root' s' Hs Hf) as HD.
  pose proof (tx_ops_XDF st (Rof st) ops root' s' Hs Ha Hf) as HX.
  pose proof (ops_Lnk _ _ _ _ _ _ _ HC HD HX HO) as HL.
  destruct HD as [fv HD]. eapply rebalance_Lnk; eauto.
Qed.

Print Assumptions ops_Lnk.
Print Assumptions rebalance_Lnk.
Print Assumptions run_Lnk.
