(* First layer of facts about the write-path model [Engine]: the building blocks.

   1. [Engine.bsearch] (N-indexed) is [Cursor.bsearch] (nat-indexed); [bsearch_spec] transported.
   2. [leaf_insert] refines [Spec.ainsert] on key-sorted association lists.
   3. [leaf_delete] refines [Spec.aremove].
   4. [isort_by] / [merge_data]: sorted permutation; identity on sorted input; the two ordered cases.
   5. [split_idx] / [split]: cut indices, concatenation, piece sizes, the no-split case.
   6. Non-vacuity examples.

   Everything is closed under the global context (see the [Print Assumptions] at the end). *)
From Coq Require Import List NArith Bool Arith Lia ZifyN ZifyNat ZifyBool Permutation Sorted.
From Coq.Strings Require Import Byte.
From Jamm Require Import Bytes Tree Spec Cursor SearchFacts Engine.
Import ListNotations.
Import Coq.Strings.String.StringSyntax. Delimit Scope string_scope with string.
Local Open Scope list_scope. Local Open Scope nat_scope.
Arguments N.add : simpl never. Arguments N.sub : simpl never. Arguments N.mul : simpl never.
Arguments N.div : simpl never. Arguments N.ltb : simpl never. Arguments N.leb : simpl never.
Arguments N.eqb : simpl never.

(* ====================================================================== *)
(** * 1. The two binary searches are the same function *)

Lemma bs_loop_sim : forall fuel keys t base size,
  Engine.bs_loop fuel keys t (N.of_nat base) (N.of_nat size)
  = N.of_nat (Cursor.bs_loop fuel keys t base size).
Proof.
  induction fuel as [|f IH]; intros keys t base size; [reflexivity|].
  cbn [Engine.bs_loop Cursor.bs_loop].
  assert (Hle : (N.of_nat size <=? 1)%N = (size <=? 1)) by lia.
  rewrite Hle. destruct (size <=? 1); [reflexivity|]. cbv zeta.
  assert (Hhalf : (N.of_nat size / 2)%N = N.of_nat (size / 2)).
  { change 2%N with (N.of_nat 2). symmetry. apply Nat2N.inj_div. }
  rewrite Hhalf, <- Nat2N.inj_add, Nat2N.id, <- Nat2N.inj_sub.
  destruct (bcmp (nth (base + size / 2) keys []) t); apply IH.
Qed.

Theorem bsearch_agree : forall keys t,
  Engine.bsearch keys t = (let '(b, i) := Cursor.bsearch keys t in (b, N.of_nat i)).
Proof.
  intros [|a keys'] t; [reflexivity|].
  remember (a :: keys') as keys eqn:Ek.
  unfold Engine.bsearch, Cursor.bsearch. cbv zeta.
  assert (Hn : (llen keys =? 0)%N = false) by (subst keys; unfold llen; cbn [length]; lia).
  rewrite Hn. unfold llen.
  change 0%N with (N.of_nat 0). rewrite bs_loop_sim, Nat2N.id.
  assert (Hc : forall (X : Type) (x y : X), match keys with [] => x | _ :: _ => y end = y)
    by (intros; now subst keys).
  rewrite Hc.
  destruct (bcmp (nth (Cursor.bs_loop (length keys) keys t 0 (length keys)) keys []) t);
    try reflexivity.
  f_equal. lia.
Qed.

(* the inverse reading: what Cursor.bsearch returns, given what Engine.bsearch returns *)
Lemma bsearch_agree_inv : forall keys t b i,
  Engine.bsearch keys t = (b, i) -> Cursor.bsearch keys t = (b, N.to_nat i).
Proof.
  intros keys t b i H. rewrite bsearch_agree in H.
  destruct (Cursor.bsearch keys t) as [b' i']. inversion H; subst. now rewrite Nat2N.id.
Qed.

Theorem ebsearch_found : forall keys t i, sorted_keys keys = true ->
  Engine.bsearch keys t = (true, i) -> nth_error keys (N.to_nat i) = Some t.
Proof.
  intros keys t i Hs H. apply bsearch_agree_inv in H. now apply bsearch_found.
Qed.

Theorem ebsearch_missing : forall keys t i, sorted_keys keys = true ->
  Engine.bsearch keys t = (false, i) ->
  N.to_nat i <= length keys /\
  (forall j, j < N.to_nat i -> bcmp (nth j keys []) t = Lt) /\
  (forall j, N.to_nat i <= j < length keys -> bcmp (nth j keys []) t = Gt).
Proof.
  intros keys t i Hs H. apply bsearch_agree_inv in H. now apply bsearch_missing.
Qed.

Theorem ebsearch_complete : forall keys t, sorted_keys keys = true ->
  In t keys -> exists i, Engine.bsearch keys t = (true, i).
Proof.
  intros keys t Hs Hin. destruct (bsearch_complete keys t Hs Hin) as [i Hi].
  exists (N.of_nat i). now rewrite bsearch_agree, Hi.
Qed.

Theorem ebsearch_spec : forall keys t, sorted_keys keys = true ->
  (forall i, Engine.bsearch keys t = (true, i) -> nth_error keys (N.to_nat i) = Some t) /\
  (forall i, Engine.bsearch keys t = (false, i) ->
     N.to_nat i <= length keys /\
     (forall j, j < N.to_nat i -> bcmp (nth j keys []) t = Lt) /\
     (forall j, N.to_nat i <= j < length keys -> bcmp (nth j keys []) t = Gt)) /\
  (In t keys -> exists i, Engine.bsearch keys t = (true, i)).
Proof.
  intros keys t Hs. split; [|split].
  - intros i. now apply ebsearch_found.
  - intros i. now apply ebsearch_missing.
  - now apply ebsearch_complete.
Qed.

Corollary ebsearch_missing_notin : forall keys t i, sorted_keys keys = true ->
  Engine.bsearch keys t = (false, i) -> ~ In t keys.
Proof.
  intros keys t i Hs H Hin. destruct (ebsearch_complete keys t Hs Hin) as [i' Hi']. congruence.
Qed.

(* ====================================================================== *)
(** * 2a. The reference map operations on association lists *)

Lemma bcmp_gt_lt : forall a b, bcmp a b = Gt -> bcmp b a = Lt.
Proof. intros a b H. now apply bcmp_lt_gt. Qed.
Lemma bcmp_lt_gt' : forall a b, bcmp a b = Lt -> bcmp b a = Gt.
Proof. intros a b H. now apply bcmp_lt_gt. Qed.
Lemma bcmp_lt_irrefl : forall a, bcmp a a <> Lt.
Proof. intros a. rewrite bcmp_refl. discriminate. Qed.

Lemma beq_refl : forall a, beq a a = true.
Proof. intros a. now apply beq_true. Qed.
Lemma beq_eq_bcmp : forall a b, beq a b = true -> bcmp a b = Eq.
Proof. intros a b H. apply beq_true in H. subst. apply bcmp_refl. Qed.

Section Assoc.
  Context {A : Type}.
  Implicit Types (l : list (bytes * A)) (k : bytes) (v : A).

  (* no hypothesis needed: ainsert always yields a list in which k is found *)
  Theorem alookup_ainsert : forall l k v k',
    Spec.alookup k' (Spec.ainsert k v l) = if beq k' k then Some v else Spec.alookup k' l.
  Proof.
    induction l as [|[k0 v0] l IH]; intros k v k'.
    - cbn [Spec.ainsert Spec.alookup]. unfold beq. now destruct (bcmp k' k).
    - cbn [Spec.ainsert]. destruct (bcmp k k0) eqn:E0.
      + apply bcmp_eq in E0. subst k0. cbn [Spec.alookup]. unfold beq. now destruct (bcmp k' k).
      + cbn [Spec.alookup]. unfold beq. destruct (bcmp k' k) eqn:E1; try reflexivity.
        now rewrite (bcmp_lt_trans _ _ _ E1 E0).
      + cbn [Spec.alookup]. destruct (bcmp k' k0) eqn:E1.
        * apply bcmp_eq in E1. subst k0. now rewrite (beq_false_lt _ _ (bcmp_gt_lt _ _ E0)).
        * now rewrite (beq_false_lt _ _ (bcmp_lt_trans _ _ _ E1 (bcmp_gt_lt _ _ E0))).
        * apply IH.
  Qed.

  Lemma alookup_below : forall l k,
    Forall (fun x => bcmp k x = Lt) (map fst l) -> Spec.alookup k l = None.
  Proof.
    intros [|[k0 v0] l] k H; [reflexivity|]. cbn [map fst] in H. inversion H as [|? ? H0 _]; subst.
    cbn [Spec.alookup]. now rewrite H0.
  Qed.

  Theorem alookup_aremove : forall l k k', sorted_keys (map fst l) = true ->
    Spec.alookup k' (Spec.aremove k l) = if beq k' k then None else Spec.alookup k' l.
  Proof.
    induction l as [|[k0 v0] l IH]; intros k k' Hs.
    - cbn. now destruct (beq k' k).
    - cbn [map fst] in Hs. destruct (sorted_keys_cons _ _ Hs) as [Hall Hs'].
      cbn [Spec.aremove]. destruct (bcmp k k0) eqn:E0.
      + apply bcmp_eq in E0. subst k0. cbn [Spec.alookup]. unfold beq.
        destruct (bcmp k' k) eqn:E1; try reflexivity.
        * apply bcmp_eq in E1. subst k'. now apply alookup_below.
        * apply alookup_below. eapply Forall_impl; [|exact Hall]. cbn. intros x Hx.
          eapply bcmp_lt_trans; eauto.
      + destruct (beq k' k) eqn:E1; [|reflexivity]. apply beq_true in E1. subst k'.
        cbn [Spec.alookup]. now rewrite E0.
      + cbn [Spec.alookup]. destruct (bcmp k' k0) eqn:E1.
        * apply bcmp_eq in E1. subst k0. now rewrite (beq_false_lt _ _ (bcmp_gt_lt _ _ E0)).
        * now rewrite (beq_false_lt _ _ (bcmp_lt_trans _ _ _ E1 (bcmp_gt_lt _ _ E0))).
        * now apply IH.
  Qed.

  Lemma ainsert_keys_above : forall l a k v,
    bcmp a k = Lt -> Forall (fun x => bcmp a x = Lt) (map fst l) ->
    Forall (fun x => bcmp a x = Lt) (map fst (Spec.ainsert k v l)).
  Proof.
    induction l as [|[k0 v0] l IH]; intros a k v Hak Hall.
    - cbn. constructor; [exact Hak | constructor].
    - cbn [map fst] in Hall. inversion Hall as [|? ? H0 Hl]; subst.
      cbn [Spec.ainsert]. destruct (bcmp k k0); cbn [map fst].
      + constructor; assumption.
      + constructor; [exact Hak | exact Hall].
      + constructor; [exact H0 | now apply IH].
  Qed.

  Theorem ainsert_sorted : forall l k v, sorted_keys (map fst l) = true ->
    sorted_keys (map fst (Spec.ainsert k v l)) = true.
  Proof.
    induction l as [|[k0 v0] l IH]; intros k v Hs; [reflexivity|].
    cbn [map fst] in Hs. destruct (sorted_keys_cons _ _ Hs) as [Hall Hs'].
    cbn [Spec.ainsert]. destruct (bcmp k k0) eqn:E0; cbn [map fst].
    - apply bcmp_eq in E0. subst k0. exact Hs.
    - apply sorted_keys_cons_intro; [|exact Hs]. constructor; [exact E0|].
      eapply Forall_impl; [|exact Hall]. cbn. intros x Hx. eapply bcmp_lt_trans; eauto.
    - apply sorted_keys_cons_intro; [|now apply IH].
      apply ainsert_keys_above; [now apply bcmp_gt_lt | exact Hall].
  Qed.

  Lemma aremove_keys_above : forall l a k,
    Forall (fun x => bcmp a x = Lt) (map fst l) ->
    Forall (fun x => bcmp a x = Lt) (map fst (Spec.aremove k l)).
  Proof.
    induction l as [|[k0 v0] l IH]; intros a k Hall; [constructor|].
    cbn [map fst] in Hall. inversion Hall as [|? ? H0 Hl]; subst.
    cbn [Spec.aremove]. destruct (bcmp k k0); cbn [map fst].
    - exact Hl.
    - exact Hall.
    - constructor; [exact H0 | now apply IH].
  Qed.

  Theorem aremove_sorted : forall l k, sorted_keys (map fst l) = true ->
    sorted_keys (map fst (Spec.aremove k l)) = true.
  Proof.
    induction l as [|[k0 v0] l IH]; intros k Hs; [reflexivity|].
    cbn [map fst] in Hs. destruct (sorted_keys_cons _ _ Hs) as [Hall Hs'].
    cbn [Spec.aremove]. destruct (bcmp k k0) eqn:E0; cbn [map fst].
    - exact Hs'.
    - exact Hs.
    - apply sorted_keys_cons_intro; [now apply aremove_keys_above | now apply IH].
  Qed.
End Assoc.

(* ====================================================================== *)
(** * 2b. Positional edits of a keyed list are the reference operations *)

Section Keyed.
  Context {A : Type} (key : A -> bytes).
  Definition kv_by (e : A) : bytes * A := (key e, e).
  Definition assoc_by (l : list A) : list (bytes * A) := map kv_by l.

  Lemma assoc_by_keys : forall l, map fst (assoc_by l) = map key l.
  Proof. intros l. unfold assoc_by. rewrite map_map. reflexivity. Qed.

  (* [i] is the insertion point of [k] in [l] *)
  Definition ins_point (l : list A) (k : bytes) (i : nat) : Prop :=
    i <= length l /\
    (forall j, j < i -> bcmp (nth j (map key l) []) k = Lt) /\
    (forall j, i <= j < length l -> bcmp (nth j (map key l) []) k = Gt).

  Lemma ins_point_tl : forall a l k i, ins_point (a :: l) k (S i) -> ins_point l k i.
  Proof.
    intros a l k i (Hi & Hlt & Hgt). cbn [length] in *. split; [lia|]. split.
    - intros j Hj. apply (Hlt (S j)). lia.
    - intros j Hj. apply (Hgt (S j)). cbn [length]. lia.
  Qed.

  Lemma ainsert_cons : forall k (v : A) a r,
    Spec.ainsert k v (kv_by a :: r) =
    match bcmp k (key a) with
    | Eq => (k, v) :: r | Lt => (k, v) :: kv_by a :: r | Gt => kv_by a :: Spec.ainsert k v r end.
  Proof. reflexivity. Qed.
  Lemma aremove_cons : forall k a (r : list (bytes * A)),
    Spec.aremove k (kv_by a :: r) =
    match bcmp k (key a) with Eq => r | Lt => kv_by a :: r | Gt => kv_by a :: Spec.aremove k r end.
  Proof. reflexivity. Qed.

  Lemma insert_at_ainsert : forall l i e, ins_point l (key e) i ->
    assoc_by (insert_at l i e) = Spec.ainsert (key e) e (assoc_by l).
  Proof.
    unfold assoc_by. induction l as [|a l IH]; intros i e Hp.
    - destruct Hp as (Hi & _). cbn [length] in Hi. assert (i = 0) by lia. subst i. reflexivity.
    - destruct i as [|i].
      + destruct Hp as (_ & _ & Hgt). specialize (Hgt 0 ltac:(cbn [length]; lia)). cbn [map nth] in Hgt.
        cbn [insert_at map]. rewrite ainsert_cons, (bcmp_gt_lt _ _ Hgt). reflexivity.
      + pose proof Hp as (_ & Hlt & _). specialize (Hlt 0 ltac:(lia)). cbn [map nth] in Hlt.
        cbn [insert_at map]. rewrite ainsert_cons, (bcmp_lt_gt' _ _ Hlt).
        f_equal. apply IH. eapply ins_point_tl; eauto.
  Qed.

  Lemma nth_error_keys_lt : forall l i e a,
    sorted_keys (map key (a :: l)) = true -> nth_error l i = Some e -> bcmp (key a) (key e) = Lt.
  Proof.
    intros l i e a Hs Hn. cbn [map] in Hs. destruct (sorted_keys_cons _ _ Hs) as [Hall _].
    rewrite Forall_forall in Hall. apply Hall. apply in_map. eapply nth_error_In; eauto.
  Qed.

  Lemma replace_at_ainsert : forall l i e e0, sorted_keys (map key l) = true ->
    nth_error l i = Some e0 -> key e0 = key e ->
    assoc_by (replace_at l i e) = Spec.ainsert (key e) e (assoc_by l).
  Proof.
    unfold assoc_by. induction l as [|a l IH]; intros i e e0 Hs Hn Hk; [destruct i; discriminate|].
    destruct i as [|i]; cbn [nth_error] in Hn.
    - inversion Hn; subst a. cbn [replace_at map]. rewrite ainsert_cons, Hk, bcmp_refl. reflexivity.
    - pose proof (nth_error_keys_lt l i e0 a Hs Hn) as Hlt. rewrite Hk in Hlt.
      cbn [replace_at map]. rewrite ainsert_cons, (bcmp_lt_gt' _ _ Hlt).
      f_equal. eapply IH; eauto.
      cbn [map] in Hs. eapply sorted_keys_tl; eauto.
  Qed.

  Lemma remove_at_aremove : forall l i e0 k, sorted_keys (map key l) = true ->
    nth_error l i = Some e0 -> key e0 = k ->
    assoc_by (remove_at l i) = Spec.aremove k (assoc_by l).
  Proof.
    unfold assoc_by. induction l as [|a l IH]; intros i e0 k Hs Hn Hk; [destruct i; discriminate|].
    destruct i as [|i]; cbn [nth_error] in Hn.
    - inversion Hn; subst a. cbn [remove_at map]. rewrite aremove_cons, Hk, bcmp_refl. reflexivity.
    - pose proof (nth_error_keys_lt l i e0 a Hs Hn) as Hlt. rewrite Hk in Hlt.
      cbn [remove_at map]. rewrite aremove_cons, (bcmp_lt_gt' _ _ Hlt).
      f_equal. eapply IH; eauto.
      cbn [map] in Hs. eapply sorted_keys_tl; eauto.
  Qed.

  Lemma aremove_absent : forall l i k, ins_point l k i ->
    Spec.aremove k (assoc_by l) = assoc_by l.
  Proof.
    unfold assoc_by. induction l as [|a l IH]; intros i k Hp; [reflexivity|].
    destruct i as [|i].
    - destruct Hp as (_ & _ & Hgt). specialize (Hgt 0 ltac:(cbn [length]; lia)). cbn [map nth] in Hgt.
      cbn [map]. rewrite aremove_cons, (bcmp_gt_lt _ _ Hgt). reflexivity.
    - pose proof Hp as (_ & Hlt & _). specialize (Hlt 0 ltac:(lia)). cbn [map nth] in Hlt.
      cbn [map]. rewrite aremove_cons, (bcmp_lt_gt' _ _ Hlt).
      f_equal. eapply IH. eapply ins_point_tl; eauto.
  Qed.
End Keyed.

(* ====================================================================== *)
(** * 2c. [leaf_insert] *)

Definition kv_of (e : leafent) : bytes * leafent := (lkey e, e).
Definition assoc (l : list leafent) : list (bytes * leafent) := map kv_of l.

Lemma assoc_keys : forall l, map fst (assoc l) = map lkey l.
Proof. apply (assoc_by_keys lkey). Qed.

Lemma ebsearch_ins_point : forall (l : list leafent) k i, sorted_keys (map lkey l) = true ->
  Engine.bsearch (map lkey l) k = (false, i) -> ins_point lkey l k (N.to_nat i).
Proof.
  intros l k i Hs H. destruct (ebsearch_missing _ _ _ Hs H) as (Hi & Hlt & Hgt).
  rewrite map_length in Hi, Hgt. split; [exact Hi|]. split; assumption.
Qed.

Lemma ebsearch_found_ent : forall (l : list leafent) k i, sorted_keys (map lkey l) = true ->
  Engine.bsearch (map lkey l) k = (true, i) ->
  exists e0, nth_error l (N.to_nat i) = Some e0 /\ lkey e0 = k.
Proof.
  intros l k i Hs H. apply ebsearch_found in H; [|exact Hs]. rewrite nth_error_map in H.
  destruct (nth_error l (N.to_nat i)) as [e0|]; [|discriminate]. cbn in H. inversion H. eauto.
Qed.

Theorem leaf_insert_assoc : forall l e, sorted_keys (map lkey l) = true ->
  assoc (leaf_insert l e) = Spec.ainsert (lkey e) e (assoc l).
Proof.
  intros l e Hs. unfold leaf_insert.
  destruct (Engine.bsearch (map lkey l) (lkey e)) as [[|] i] eqn:Eb.
  - destruct (ebsearch_found_ent l _ i Hs Eb) as (e0 & Hn & Hk).
    exact (replace_at_ainsert lkey l _ e e0 Hs Hn Hk).
  - apply (insert_at_ainsert lkey). now apply ebsearch_ins_point.
Qed.

Theorem leaf_insert_sorted : forall l e, sorted_keys (map lkey l) = true ->
  sorted_keys (map lkey (leaf_insert l e)) = true.
Proof.
  intros l e Hs. rewrite <- assoc_keys, leaf_insert_assoc by exact Hs.
  apply ainsert_sorted. now rewrite assoc_keys.
Qed.

Theorem leaf_insert_lookup : forall l e k, sorted_keys (map lkey l) = true ->
  Spec.alookup k (assoc (leaf_insert l e))
  = if beq k (lkey e) then Some e else Spec.alookup k (assoc l).
Proof. intros l e k Hs. rewrite leaf_insert_assoc by exact Hs. apply alookup_ainsert. Qed.

(* ====================================================================== *)
(** * 3. [leaf_delete] *)

Theorem leaf_delete_assoc : forall l k, sorted_keys (map lkey l) = true ->
  assoc (leaf_delete l k) = Spec.aremove k (assoc l).
Proof.
  intros l k Hs. unfold leaf_delete.
  destruct (Engine.bsearch (map lkey l) k) as [[|] i] eqn:Eb.
  - destruct (ebsearch_found_ent l _ i Hs Eb) as (e0 & Hn & Hk).
    exact (remove_at_aremove lkey l _ e0 k Hs Hn Hk).
  - symmetry. apply (aremove_absent lkey l (N.to_nat i)). now apply ebsearch_ins_point.
Qed.

Theorem leaf_delete_sorted : forall l k, sorted_keys (map lkey l) = true ->
  sorted_keys (map lkey (leaf_delete l k)) = true.
Proof.
  intros l k Hs. rewrite <- assoc_keys, leaf_delete_assoc by exact Hs.
  apply aremove_sorted. now rewrite assoc_keys.
Qed.

Theorem leaf_delete_lookup : forall l k k', sorted_keys (map lkey l) = true ->
  Spec.alookup k' (assoc (leaf_delete l k))
  = if beq k' k then None else Spec.alookup k' (assoc l).
Proof.
  intros l k k' Hs. rewrite leaf_delete_assoc by exact Hs.
  apply alookup_aremove. now rewrite assoc_keys.
Qed.

(* ====================================================================== *)
(** * 4. Insertion sort and [merge_data] *)

Lemma sorted_keys_NoDup : forall l, sorted_keys l = true -> NoDup l.
Proof.
  induction l as [|a l IH]; intros Hs; [constructor|].
  destruct (sorted_keys_cons _ _ Hs) as [Hall Hs']. constructor; [|now apply IH].
  intros Hin. rewrite Forall_forall in Hall. specialize (Hall a Hin).
  now apply bcmp_lt_irrefl in Hall.
Qed.

Lemma sorted_keys_app_intro : forall a b, sorted_keys a = true -> sorted_keys b = true ->
  (forall x y, In x a -> In y b -> bcmp x y = Lt) -> sorted_keys (a ++ b) = true.
Proof.
  induction a as [|x a IH]; intros b Ha Hb Hab; [exact Hb|].
  destruct (sorted_keys_cons _ _ Ha) as [Hall Ha']. cbn [app].
  apply sorted_keys_cons_intro.
  - apply Forall_app. split; [exact Hall|]. apply Forall_forall. intros y Hy.
    apply Hab; [now left | exact Hy].
  - apply IH; auto. intros x' y Hx' Hy. apply Hab; [now right | exact Hy].
Qed.

Section Sort.
  Context {A : Type} (key : A -> bytes).

  (* the local [ins] of [isort_by], named *)
  Definition ins_by : A -> list A -> list A :=
    fix ins (x : A) (l : list A) : list A :=
      match l with
      | [] => [x]
      | y :: l' => match bcmp (key x) (key y) with Lt => x :: l | _ => y :: ins x l' end
      end.

  Lemma isort_by_cons : forall x l, isort_by key (x :: l) = ins_by x (isort_by key l).
  Proof. reflexivity. Qed.

  Lemma ins_by_perm : forall x l, Permutation (ins_by x l) (x :: l).
  Proof.
    intros x. induction l as [|y l IH]; cbn [ins_by]; [reflexivity|].
    destruct (bcmp (key x) (key y)); try reflexivity;
      (etransitivity; [apply perm_skip; exact IH | apply perm_swap]).
  Qed.

  Theorem isort_by_perm : forall l, Permutation (isort_by key l) l.
  Proof.
    induction l as [|x l IH]; [reflexivity|]. rewrite isort_by_cons.
    etransitivity; [apply ins_by_perm | now apply perm_skip].
  Qed.

  Lemma ins_by_sorted : forall x l, sorted_keys (map key l) = true -> ~ In (key x) (map key l) ->
    sorted_keys (map key (ins_by x l)) = true.
  Proof.
    intros x. induction l as [|y l IH]; intros Hs Hnin; [reflexivity|].
    cbn [map] in Hs. destruct (sorted_keys_cons _ _ Hs) as [Hall Hs'].
    cbn [ins_by]. destruct (bcmp (key x) (key y)) eqn:E.
    - exfalso. apply Hnin. left. symmetry. now apply bcmp_eq.
    - cbn [map]. apply sorted_keys_cons_intro; [|exact Hs]. constructor; [exact E|].
      eapply Forall_impl; [|exact Hall]. cbn. intros z Hz. eapply bcmp_lt_trans; eauto.
    - cbn [map]. apply sorted_keys_cons_intro.
      + apply Forall_forall. intros z Hz.
        apply (Permutation_in _ (Permutation_map key (ins_by_perm x l))) in Hz.
        cbn [map] in Hz. destruct Hz as [<- | Hz]; [now apply bcmp_gt_lt|].
        rewrite Forall_forall in Hall. now apply Hall.
      + apply IH; [exact Hs'|]. intros Hin. apply Hnin. now right.
  Qed.

  (* for ANY input with pairwise distinct keys: sorted *)
  Theorem isort_by_sorted : forall l, NoDup (map key l) ->
    sorted_keys (map key (isort_by key l)) = true.
  Proof.
    induction l as [|x l IH]; intros Hnd; [reflexivity|].
    cbn [map] in Hnd. inversion Hnd as [|? ? Hnin Hnd']; subst.
    rewrite isort_by_cons. apply ins_by_sorted; [now apply IH|].
    intros Hin. apply Hnin.
    exact (Permutation_in _ (Permutation_map key (isort_by_perm l)) Hin).
  Qed.

  (* identity on sorted input *)
  Theorem isort_by_id : forall l, sorted_keys (map key l) = true -> isort_by key l = l.
  Proof.
    induction l as [|x l IH]; intros Hs; [reflexivity|].
    cbn [map] in Hs. rewrite isort_by_cons, IH by (eapply sorted_keys_tl; eauto).
    destruct l as [|y l]; [reflexivity|]. cbn [ins_by].
    cbn [map] in Hs. rewrite sorted_keys_cons2 in Hs. apply andb_true_iff in Hs.
    destruct Hs as [Hxy _]. apply blt_true in Hxy. now rewrite Hxy.
  Qed.

  (* two key-sorted lists with the same elements are equal *)
  Lemma sorted_perm_eq : forall a b, sorted_keys (map key a) = true -> sorted_keys (map key b) = true ->
    Permutation a b -> a = b.
  Proof.
    induction a as [|x a IH]; intros b Ha Hb Hp.
    - apply Permutation_nil in Hp. now subst.
    - destruct b as [|y b]; [apply Permutation_sym, Permutation_nil in Hp; discriminate|].
      cbn [map] in Ha, Hb.
      destruct (sorted_keys_cons _ _ Ha) as [Halla Ha']. destruct (sorted_keys_cons _ _ Hb) as [Hallb Hb'].
      rewrite Forall_forall in Halla, Hallb.
      assert (Hxy : x = y).
      { assert (Hx : In x (y :: b)) by (eapply Permutation_in; [exact Hp | now left]).
        assert (Hy : In y (x :: a)) by (eapply Permutation_in; [apply Permutation_sym; exact Hp | now left]).
        destruct Hx as [-> | Hx]; [reflexivity|]. destruct Hy as [-> | Hy]; [reflexivity|].
        exfalso. apply (bcmp_lt_irrefl (key x)).
        eapply bcmp_lt_trans; [apply Halla | apply Hallb]; now apply in_map. }
      subst y. f_equal. apply IH; auto. eapply Permutation_cons_inv; eauto.
  Qed.

  Definition keys_below (l1 l2 : list A) : Prop :=
    forall a b, In a l1 -> In b l2 -> bcmp (key a) (key b) = Lt.

  Lemma sorted_app_below : forall l1 l2, sorted_keys (map key l1) = true -> sorted_keys (map key l2) = true ->
    keys_below l1 l2 -> sorted_keys (map key (l1 ++ l2)) = true.
  Proof.
    intros l1 l2 H1 H2 Hb. rewrite map_app. apply sorted_keys_app_intro; auto.
    intros x y Hx Hy. apply in_map_iff in Hx, Hy.
    destruct Hx as (a & <- & Ha). destruct Hy as (b & <- & Hb'). now apply Hb.
  Qed.

  (* the merged node is the RIGHT neighbour's left part: l1 ++ l2 is already in order *)
  Theorem isort_by_app_ordered : forall l1 l2,
    sorted_keys (map key l1) = true -> sorted_keys (map key l2) = true -> keys_below l1 l2 ->
    isort_by key (l1 ++ l2) = l1 ++ l2.
  Proof. intros l1 l2 H1 H2 Hb. apply isort_by_id. now apply sorted_app_below. Qed.

  (* the merged node is the LEFT neighbour: every key of l2 is below every key of l1 *)
  Theorem isort_by_app_swapped : forall l1 l2,
    sorted_keys (map key l1) = true -> sorted_keys (map key l2) = true -> keys_below l2 l1 ->
    isort_by key (l1 ++ l2) = l2 ++ l1.
  Proof.
    intros l1 l2 H1 H2 Hb.
    pose proof (sorted_app_below l2 l1 H2 H1 Hb) as Hs.
    apply sorted_perm_eq; [|exact Hs|].
    - apply isort_by_sorted.
      apply (Permutation_NoDup (l := map key (l2 ++ l1))); [|now apply sorted_keys_NoDup].
      apply Permutation_map, Permutation_app_comm.
    - etransitivity; [apply isort_by_perm | apply Permutation_app_comm].
  Qed.
End Sort.

Definition lkeys_below := keys_below lkey.
Definition bkeys_below := keys_below (@fst bytes N).

(* general: any two leaves whose keys are pairwise distinct merge into a sorted permutation *)
Theorem merge_data_leaves_gen : forall l1 l2, NoDup (map lkey (l1 ++ l2)) ->
  exists m, merge_data (Leaves l1) (Leaves l2) = Ok (Leaves m) /\
            sorted_keys (map lkey m) = true /\ Permutation m (l1 ++ l2).
Proof.
  intros l1 l2 Hnd. exists (isort_by lkey (l1 ++ l2)). split; [reflexivity|]. split.
  - now apply isort_by_sorted.
  - apply isort_by_perm.
Qed.

Theorem merge_data_branches_gen : forall e1 e2, NoDup (map fst (e1 ++ e2)) ->
  exists m, merge_data (Branches e1) (Branches e2) = Ok (Branches m) /\
            sorted_keys (map fst m) = true /\ Permutation m (e1 ++ e2).
Proof.
  intros e1 e2 Hnd. exists (isort_by fst (e1 ++ e2)). split; [reflexivity|]. split.
  - now apply isort_by_sorted.
  - apply isort_by_perm.
Qed.

(* [merge_data sibling node] with node the LEFT neighbour of sibling (keys of l2 below keys of l1) *)
Theorem merge_data_leaves_left : forall l1 l2,
  sorted_keys (map lkey l1) = true -> sorted_keys (map lkey l2) = true -> lkeys_below l2 l1 ->
  merge_data (Leaves l1) (Leaves l2) = Ok (Leaves (l2 ++ l1)) /\
  sorted_keys (map lkey (l2 ++ l1)) = true /\ Permutation (l2 ++ l1) (l1 ++ l2).
Proof.
  intros l1 l2 H1 H2 Hb. split; [|split].
  - cbn [merge_data]. now rewrite (isort_by_app_swapped lkey l1 l2 H1 H2 Hb).
  - now apply sorted_app_below.
  - apply Permutation_app_comm.
Qed.

(* ... with node the RIGHT neighbour of sibling (keys of l1 below keys of l2) *)
Theorem merge_data_leaves_right : forall l1 l2,
  sorted_keys (map lkey l1) = true -> sorted_keys (map lkey l2) = true -> lkeys_below l1 l2 ->
  merge_data (Leaves l1) (Leaves l2) = Ok (Leaves (l1 ++ l2)) /\
  sorted_keys (map lkey (l1 ++ l2)) = true /\ Permutation (l1 ++ l2) (l1 ++ l2).
Proof.
  intros l1 l2 H1 H2 Hb. split; [|split].
  - cbn [merge_data]. now rewrite (isort_by_app_ordered lkey l1 l2 H1 H2 Hb).
  - now apply sorted_app_below.
  - reflexivity.
Qed.

(* the statement as asked: either order *)
Theorem merge_data_leaves : forall l1 l2,
  sorted_keys (map lkey l1) = true -> sorted_keys (map lkey l2) = true ->
  lkeys_below l2 l1 \/ lkeys_below l1 l2 ->
  exists m, merge_data (Leaves l1) (Leaves l2) = Ok (Leaves m) /\
            sorted_keys (map lkey m) = true /\ Permutation m (l1 ++ l2) /\
            (lkeys_below l2 l1 -> m = l2 ++ l1) /\ (lkeys_below l1 l2 -> m = l1 ++ l2).
Proof.
  intros l1 l2 H1 H2 Hb. exists (isort_by lkey (l1 ++ l2)).
  assert (Hl : lkeys_below l2 l1 -> isort_by lkey (l1 ++ l2) = l2 ++ l1)
    by (intros; now apply isort_by_app_swapped).
  assert (Hr : lkeys_below l1 l2 -> isort_by lkey (l1 ++ l2) = l1 ++ l2)
    by (intros; now apply isort_by_app_ordered).
  split; [reflexivity|]. split; [|split; [apply isort_by_perm | split; assumption]].
  destruct Hb as [Hb | Hb]; [rewrite (Hl Hb) | rewrite (Hr Hb)]; now apply sorted_app_below.
Qed.

Theorem merge_data_branches_left : forall e1 e2,
  sorted_keys (map fst e1) = true -> sorted_keys (map fst e2) = true -> bkeys_below e2 e1 ->
  merge_data (Branches e1) (Branches e2) = Ok (Branches (e2 ++ e1)) /\
  sorted_keys (map fst (e2 ++ e1)) = true /\ Permutation (e2 ++ e1) (e1 ++ e2).
Proof.
  intros e1 e2 H1 H2 Hb. split; [|split].
  - cbn [merge_data]. now rewrite (isort_by_app_swapped fst e1 e2 H1 H2 Hb).
  - now apply sorted_app_below.
  - apply Permutation_app_comm.
Qed.

Theorem merge_data_branches_right : forall e1 e2,
  sorted_keys (map fst e1) = true -> sorted_keys (map fst e2) = true -> bkeys_below e1 e2 ->
  merge_data (Branches e1) (Branches e2) = Ok (Branches (e1 ++ e2)) /\
  sorted_keys (map fst (e1 ++ e2)) = true /\ Permutation (e1 ++ e2) (e1 ++ e2).
Proof.
  intros e1 e2 H1 H2 Hb. split; [|split].
  - cbn [merge_data]. now rewrite (isort_by_app_ordered fst e1 e2 H1 H2 Hb).
  - now apply sorted_app_below.
  - reflexivity.
Qed.

Theorem merge_data_branches : forall e1 e2,
  sorted_keys (map fst e1) = true -> sorted_keys (map fst e2) = true ->
  bkeys_below e2 e1 \/ bkeys_below e1 e2 ->
  exists m, merge_data (Branches e1) (Branches e2) = Ok (Branches m) /\
            sorted_keys (map fst m) = true /\ Permutation m (e1 ++ e2) /\
            (bkeys_below e2 e1 -> m = e2 ++ e1) /\ (bkeys_below e1 e2 -> m = e1 ++ e2).
Proof.
  intros e1 e2 H1 H2 Hb. exists (isort_by fst (e1 ++ e2)).
  assert (Hl : bkeys_below e2 e1 -> isort_by fst (e1 ++ e2) = e2 ++ e1)
    by (intros; now apply isort_by_app_swapped).
  assert (Hr : bkeys_below e1 e2 -> isort_by fst (e1 ++ e2) = e1 ++ e2)
    by (intros; now apply isort_by_app_ordered).
  split; [reflexivity|]. split; [|split; [apply isort_by_perm | split; assumption]].
  destruct Hb as [Hb | Hb]; [rewrite (Hl Hb) | rewrite (Hr Hb)]; now apply (sorted_app_below fst).
Qed.

(* mixing a leaf with a branch is the library's panic *)
Lemma merge_data_mixed : forall l es,
  merge_data (Leaves l) (Branches es) = Panic "incompatible data types"%string /\
  merge_data (Branches es) (Leaves l) = Panic "incompatible data types"%string.
Proof. split; reflexivity. Qed.

(* ====================================================================== *)
(** * 5. [split_idx] and [split] *)

(* one entry type for both kinds of node *)
Definition ent : Type := (leafent + bytes * N)%type.
Definition ents_of (d : ndata) : list ent :=
  match d with Leaves l => map inl l | Branches es => map inr es end.
Definition nents (d : ndata) : nat := length (ents_of d).

Lemma dlen_nents : forall d, dlen d = N.of_nat (nents d).
Proof. intros [l|es]; unfold nents; cbn [dlen ents_of]; unfold llen; now rewrite map_length. Qed.

Lemma dsplit_at_spec : forall d i a b, dsplit_at d i = (a, b) ->
  ents_of a = firstn i (ents_of d) /\ ents_of b = skipn i (ents_of d) /\
  is_leaf a = is_leaf d /\ is_leaf b = is_leaf d.
Proof.
  intros [l|es] i a b H; cbn [dsplit_at] in H; inversion H; subst; cbn [ents_of is_leaf];
    rewrite firstn_map, skipn_map; auto.
Qed.

(** ** the cut indices *)
(* [cuts_ok lo hi l]: l is strictly increasing, every index is at least 2 above its predecessor
   (lo for the first) and at most hi *)
Fixpoint cuts_ok (lo hi : nat) (l : list nat) : Prop :=
  match l with [] => True | i :: l' => lo + 2 <= i /\ i <= hi /\ cuts_ok i hi l' end.

(* KEY LEMMA. In state (i, cnt) the previous cut is at i - cnt. *)
Lemma split_idx_cuts : forall d thr n i cur cnt, N.to_nat cnt <= i ->
  cuts_ok (i - N.to_nat cnt) (i + n) (split_idx d thr i n cur cnt).
Proof.
  intros d thr. induction n as [|n IH]; intros i cur cnt Hc; cbn [split_idx]; [exact I|].
  cbv zeta. destruct ((2 <=? cnt + 1)%N && (thr <? cur + ent_size d i)%N) eqn:E.
  - cbn [cuts_ok]. split; [lia|]. split; [lia|].
    specialize (IH (S i) (40 + ent_size d i)%N 0%N ltac:(lia)).
    replace (S i - N.to_nat 0) with (S i) in IH by lia.
    replace (S i + n) with (i + S n) in IH by lia. exact IH.
  - specialize (IH (S i) (cur + ent_size d i)%N (cnt + 1)%N ltac:(lia)).
    replace (S i - N.to_nat (cnt + 1)) with (i - N.to_nat cnt) in IH by lia.
    replace (S i + n) with (i + S n) in IH by lia. exact IH.
Qed.

Lemma cuts_ok_Forall : forall l lo hi, cuts_ok lo hi l -> Forall (fun i => lo + 2 <= i <= hi) l.
Proof.
  induction l as [|i l IH]; intros lo hi H; [constructor|].
  destruct H as (H1 & H2 & H3). constructor; [lia|].
  eapply Forall_impl; [|apply (IH _ _ H3)]. cbn. intros j Hj. lia.
Qed.

Lemma cuts_ok_sorted : forall l lo hi, cuts_ok lo hi l -> Sorted.StronglySorted (fun a b => a + 2 <= b) l.
Proof.
  induction l as [|i l IH]; intros lo hi H; [constructor|].
  destruct H as (H1 & H2 & H3). constructor; [eapply IH; eauto|].
  eapply Forall_impl; [|apply (cuts_ok_Forall _ _ _ H3)]. cbn. intros j Hj. lia.
Qed.

(* the instance used by [split]: strictly increasing, gaps >= 2, all within [2, len - 2] *)
Theorem split_idx_spec : forall d thr len,
  let idxs := split_idx d thr 0 (len - 2) 40 0 in
  cuts_ok 0 (len - 2) idxs /\
  Sorted.StronglySorted (fun a b => a + 2 <= b) idxs /\
  Forall (fun i => 2 <= i <= len - 2) idxs.
Proof.
  intros d thr len idxs.
  assert (H : cuts_ok 0 (len - 2) idxs).
  { pose proof (split_idx_cuts d thr (len - 2) 0 40%N 0%N ltac:(lia)) as H. exact H. }
  split; [exact H|]. split; [eapply cuts_ok_sorted; eauto|].
  eapply Forall_impl; [|apply (cuts_ok_Forall _ _ _ H)]. cbn. intros j Hj. lia.
Qed.

(** ** cutting at a list of indices *)
Definition split_step (acc : ndata * list ndata) (i : nat) : ndata * list ndata :=
  let '(d0, rest) := acc in let '(a, b) := dsplit_at d0 i in (a, b :: rest).
Definition split_at_all (d : ndata) (idxs : list nat) : ndata * list ndata :=
  fold_left split_step (rev idxs) (d, []).

Lemma split_unfold : forall s d,
  split s d =
  if ((dlen d <=? 4) || (40 + dsize d <? psz s))%N then (d, [])
  else split_at_all d (split_idx d (psz s / 2)%N 0 (N.to_nat (dlen d) - 2) 40%N 0%N).
Proof. reflexivity. Qed.

Lemma split_at_all_cons : forall d i idxs,
  split_at_all d (i :: idxs) = split_step (split_at_all d idxs) i.
Proof. intros d i idxs. unfold split_at_all. cbn [rev]. now rewrite fold_left_app. Qed.

(* for ANY index list: nothing lost, nothing reordered, kinds preserved *)
Lemma split_at_all_concat : forall d idxs d0 rest, split_at_all d idxs = (d0, rest) ->
  concat (map ents_of (d0 :: rest)) = ents_of d /\
  Forall (fun p => is_leaf p = is_leaf d) (d0 :: rest) /\
  length rest = length idxs.
Proof.
  intros d. induction idxs as [|i idxs IH]; intros d0 rest H.
  - inversion H; subst. cbn [map concat]. rewrite app_nil_r. repeat split; auto.
  - rewrite split_at_all_cons in H. destruct (split_at_all d idxs) as [d1 rest1].
    destruct (IH d1 rest1 eq_refl) as (Hc & Hk & Hl). cbn [split_step] in H.
    destruct (dsplit_at d1 i) as [a b] eqn:Ed. inversion H; subst d0 rest.
    destruct (dsplit_at_spec _ _ _ _ Ed) as (Ha & Hb & Hla & Hlb).
    inversion Hk as [|? ? Hk1 Hkr]; subst. split; [|split].
    + cbn [map concat] in *. rewrite app_assoc, Ha, Hb, firstn_skipn. exact Hc.
    + constructor; [congruence|]. constructor; [congruence | exact Hkr].
    + cbn [length]. now rewrite Hl.
Qed.

Definition first_cut (idxs : list nat) (len : nat) : nat :=
  match idxs with [] => len | i :: _ => i end.

Lemma first_cut_bounds : forall idxs i hi len, cuts_ok i hi idxs -> i <= hi -> hi + 2 <= len ->
  i + 2 <= first_cut idxs len <= len.
Proof. intros [|j idxs] i hi len H Hi Hh; cbn [first_cut cuts_ok] in *; lia. Qed.

(* with good cut indices: every piece of the tail has at least 2 entries, the head is a prefix *)
Lemma split_at_all_sizes : forall d hi idxs lo d0 rest,
  cuts_ok lo hi idxs -> hi + 2 <= nents d -> split_at_all d idxs = (d0, rest) ->
  ents_of d0 = firstn (first_cut idxs (nents d)) (ents_of d) /\
  Forall (fun p => 2 <= nents p) rest.
Proof.
  intros d hi. induction idxs as [|i idxs IH]; intros lo d0 rest Hc Hh H.
  - inversion H; subst. cbn [first_cut]. unfold nents. rewrite firstn_all. auto.
  - destruct Hc as (H1 & H2 & H3).
    rewrite split_at_all_cons in H. destruct (split_at_all d idxs) as [d1 rest1].
    destruct (IH i d1 rest1 H3 Hh eq_refl) as (Hd1 & Hr1). cbn [split_step] in H.
    destruct (dsplit_at d1 i) as [a b] eqn:Ed. inversion H; subst d0 rest.
    destruct (dsplit_at_spec _ _ _ _ Ed) as (Ha & Hb & _ & _).
    pose proof (first_cut_bounds idxs i hi (nents d) H3 H2 Hh) as Hm.
    remember (first_cut idxs (nents d)) as m. split.
    + cbn [first_cut]. rewrite Ha, Hd1, firstn_firstn. f_equal. lia.
    + constructor; [|exact Hr1]. unfold nents. rewrite Hb, Hd1, skipn_length.
      rewrite firstn_length_le by (unfold nents in Hm; lia). lia.
Qed.

Lemma nents_concat : forall ps,
  N.of_nat (length (concat (map ents_of ps))) = fold_right N.add 0%N (map dlen ps).
Proof.
  induction ps as [|p ps IH]; [reflexivity|].
  cbn [map concat fold_right]. rewrite app_length, Nat2N.inj_add, IH, dlen_nents. reflexivity.
Qed.

(** ** the theorems about [split] *)

(* (c) small or under-full nodes are left alone *)
Theorem split_small : forall s d, (dlen d <= 4)%N \/ (40 + dsize d < psz s)%N -> split s d = (d, []).
Proof.
  intros s d H. rewrite split_unfold.
  assert (E : ((dlen d <=? 4) || (40 + dsize d <? psz s))%N = true) by lia.
  now rewrite E.
Qed.

(* (a) the pieces, concatenated in order, are the node; all pieces are of the node's kind *)
Theorem split_concat : forall s d d0 rest, split s d = (d0, rest) ->
  concat (map ents_of (d0 :: rest)) = ents_of d /\
  Forall (fun p => is_leaf p = is_leaf d) (d0 :: rest).
Proof.
  intros s d d0 rest H. rewrite split_unfold in H.
  destruct ((dlen d <=? 4) || (40 + dsize d <? psz s))%N.
  - inversion H; subst. cbn [map concat]. rewrite app_nil_r. auto.
  - apply split_at_all_concat in H. tauto.
Qed.

Lemma map_inj_eq : forall {X Y : Type} (f : X -> Y) (x y : list X),
  (forall a b, f a = f b -> a = b) -> map f x = map f y -> x = y.
Proof.
  intros X Y f. induction x as [|a x IH]; intros [|b y] Hf H; cbn [map] in H; try discriminate;
    [reflexivity|].
  inversion H. f_equal; auto.
Qed.

(* the same, per constructor *)
Corollary split_concat_leaves : forall s l d0 rest, split s (Leaves l) = (d0, rest) ->
  exists l0 ls, d0 = Leaves l0 /\ rest = map Leaves ls /\ concat (l0 :: ls) = l.
Proof.
  intros s l d0 rest H. destruct (split_concat _ _ _ _ H) as (Hc & Hk).
  assert (Hshape : forall ps, Forall (fun p => is_leaf p = true) ps ->
            exists ls, ps = map Leaves ls /\ concat (map ents_of ps) = map inl (concat ls)).
  { induction ps as [|p ps IH]; intros Hf; [exists []; auto|].
    inversion Hf as [|? ? Hp Hps]; subst. destruct (IH Hps) as (ls & -> & Hcs).
    destruct p as [lp|]; [|discriminate]. exists (lp :: ls). split; [reflexivity|].
    cbn [map concat ents_of] in *. now rewrite Hcs, map_app. }
  destruct (Hshape (d0 :: rest) Hk) as (ls & Hps & Hcs).
  destruct ls as [|l0 ls]; [discriminate|]. cbn [map] in Hps. inversion Hps; subst d0 rest.
  exists l0, ls. repeat split; auto.
  rewrite Hcs in Hc. cbn [ents_of] in Hc.
  apply (map_inj_eq (@inl leafent (bytes * N))) in Hc; [exact Hc|]. intros a b Hab. now inversion Hab.
Qed.

Corollary split_concat_branches : forall s es d0 rest, split s (Branches es) = (d0, rest) ->
  exists e0 ls, d0 = Branches e0 /\ rest = map Branches ls /\ concat (e0 :: ls) = es.
Proof.
  intros s es d0 rest H. destruct (split_concat _ _ _ _ H) as (Hc & Hk).
  assert (Hshape : forall ps, Forall (fun p => is_leaf p = false) ps ->
            exists ls, ps = map Branches ls /\ concat (map ents_of ps) = map inr (concat ls)).
  { induction ps as [|p ps IH]; intros Hf; [exists []; auto|].
    inversion Hf as [|? ? Hp Hps]; subst. destruct (IH Hps) as (ls & -> & Hcs).
    destruct p as [|ep]; [discriminate|]. exists (ep :: ls). split; [reflexivity|].
    cbn [map concat ents_of] in *. now rewrite Hcs, map_app. }
  destruct (Hshape (d0 :: rest) Hk) as (ls & Hps & Hcs).
  destruct ls as [|e0 ls]; [discriminate|]. cbn [map] in Hps. inversion Hps; subst d0 rest.
  exists e0, ls. repeat split; auto.
  rewrite Hcs in Hc. cbn [ents_of] in Hc.
  apply (map_inj_eq (@inr leafent (bytes * N))) in Hc; [exact Hc|]. intros a b Hab. now inversion Hab.
Qed.

(* (b), strong form: whenever the node is big enough to be considered for splitting *)
Theorem split_pieces_strong : forall s d d0 rest, split s d = (d0, rest) ->
  (4 < dlen d)%N -> (psz s <= 40 + dsize d)%N ->
  Forall (fun p => (2 <= dlen p)%N) (d0 :: rest) /\
  fold_right N.add 0%N (map dlen (d0 :: rest)) = dlen d.
Proof.
  intros s d d0 rest H Hlen Hsz. rewrite split_unfold in H.
  assert (E : ((dlen d <=? 4) || (40 + dsize d <? psz s))%N = false) by lia.
  rewrite E in H.
  destruct (split_at_all_concat _ _ _ _ H) as (Hc & _ & _).
  pose proof (dlen_nents d) as Hn.
  destruct (split_idx_spec d (psz s / 2)%N (N.to_nat (dlen d))) as (Hcuts & _ & _).
  cbv zeta in Hcuts.
  remember (split_idx d (psz s / 2)%N 0 (N.to_nat (dlen d) - 2) 40%N 0%N) as idxs.
  assert (Hh : N.to_nat (dlen d) - 2 + 2 <= nents d) by lia.
  destruct (split_at_all_sizes d _ idxs 0 d0 rest Hcuts Hh H) as (Hd0 & Hrest).
  split.
  - constructor.
    + pose proof (first_cut_bounds idxs 0 _ (nents d) Hcuts ltac:(lia) Hh) as Hm.
      rewrite dlen_nents. unfold nents in *. rewrite Hd0.
      rewrite firstn_length_le by lia. lia.
    + eapply Forall_impl; [|exact Hrest]. cbn. intros p Hp. rewrite dlen_nents. lia.
  - rewrite <- nents_concat, Hc. symmetry. apply dlen_nents.
Qed.

(* (b) as asked *)
Theorem split_pieces : forall s d d0 rest, split s d = (d0, rest) -> rest <> [] ->
  (4 < dlen d)%N /\
  Forall (fun p => (2 <= dlen p)%N) (d0 :: rest) /\
  fold_right N.add 0%N (map dlen (d0 :: rest)) = dlen d.
Proof.
  intros s d d0 rest H Hne.
  destruct ((dlen d <=? 4) || (40 + dsize d <? psz s))%N eqn:E.
  - rewrite split_unfold, E in H. inversion H; subst. congruence.
  - assert (Hlen : (4 < dlen d)%N) by lia. split; [exact Hlen|].
    eapply split_pieces_strong; eauto. lia.
Qed.

(* the entry count is preserved in every case *)
Theorem split_count : forall s d d0 rest, split s d = (d0, rest) ->
  fold_right N.add 0%N (map dlen (d0 :: rest)) = dlen d.
Proof.
  intros s d d0 rest H. destruct (split_concat _ _ _ _ H) as (Hc & _).
  rewrite <- nents_concat, Hc. symmetry. apply dlen_nents.
Qed.

(* ====================================================================== *)
(** * 6. Non-vacuity *)

Definition k300 (b : byte) : bytes := repeat x00 299 ++ [b].
Definition st1024 : txs :=
  {| free := []; pending := []; txid := 1; np := 10; psz := 1024; wr := []; flw := None; seqc := 1 |}.
Definition leaf6 : list leafent := map (fun b => LKv (k300 b) [b]) [x01; x02; x03; x04; x05; x06].
Definition leaf5 : list leafent := firstn 5 leaf6.

(* six entries with 300-byte keys at page size 1024: cut indices [2; 4], i.e. THREE pieces of two
   entries (every such leaf does: two entries already exceed the threshold 512) *)
Example split_leaf6 :
  sorted_keys (map lkey leaf6) = true /\
  dsize (Leaves leaf6) = 1998%N /\
  split_idx (Leaves leaf6) (psz st1024 / 2)%N 0 4 40%N 0%N = [2; 4] /\
  split st1024 (Leaves leaf6)
  = (Leaves (firstn 2 leaf6), [Leaves (firstn 2 (skipn 2 leaf6)); Leaves (skipn 4 leaf6)]).
Proof. repeat split; vm_compute; reflexivity. Qed.

(* five such entries: exactly two pieces (2 + 3) *)
Example split_leaf5 :
  split st1024 (Leaves leaf5) = (Leaves (firstn 2 leaf5), [Leaves (skipn 2 leaf5)]).
Proof. vm_compute; reflexivity. Qed.

(* the hypotheses of [split_pieces] are satisfiable, and its conclusion is what is computed *)
Example split_leaf6_pieces :
  let '(d0, rest) := split st1024 (Leaves leaf6) in
  rest <> [] /\ map dlen (d0 :: rest) = [2; 2; 2]%N /\ concat (map ents_of (d0 :: rest)) = ents_of (Leaves leaf6).
Proof. vm_compute. repeat split; try reflexivity. discriminate. Qed.

(* four entries are never split, however large *)
Example split_leaf4 : split st1024 (Leaves (firstn 4 leaf6)) = (Leaves (firstn 4 leaf6), []).
Proof. vm_compute; reflexivity. Qed.

(* leaf_insert / leaf_delete round trip: a new key, an overwrite, a delete, a delete of an absent key *)
Definition kA : bytes := ["a"%byte]. Definition kB : bytes := ["b"%byte].
Definition kC : bytes := ["c"%byte]. Definition kD : bytes := ["d"%byte].
Definition leaf3 : list leafent := [LKv kA [x01]; LKv kC [x03]; LBk kD 7 0].
Example leaf_round_trip :
  sorted_keys (map lkey leaf3) = true /\
  leaf_insert leaf3 (LKv kB [x02]) = [LKv kA [x01]; LKv kB [x02]; LKv kC [x03]; LBk kD 7 0] /\
  leaf_delete (leaf_insert leaf3 (LKv kB [x02])) kB = leaf3 /\
  leaf_insert leaf3 (LKv kC [x09]) = [LKv kA [x01]; LKv kC [x09]; LBk kD 7 0] /\
  leaf_delete leaf3 kB = leaf3 /\
  leaf_delete leaf3 kA = [LKv kC [x03]; LBk kD 7 0] /\
  Spec.alookup kB (assoc (leaf_insert leaf3 (LKv kB [x02]))) = Some (LKv kB [x02]) /\
  Spec.alookup kB (assoc (leaf_delete (leaf_insert leaf3 (LKv kB [x02])) kB)) = None.
Proof. repeat split; vm_compute; reflexivity. Qed.

(* merge_data in both orders *)
Example merge_both_orders :
  merge_data (Leaves [LKv kC []; LBk kD 7 0]) (Leaves [LKv kA []; LKv kB []])
    = Ok (Leaves [LKv kA []; LKv kB []; LKv kC []; LBk kD 7 0]) /\
  merge_data (Leaves [LKv kA []; LKv kB []]) (Leaves [LKv kC []; LBk kD 7 0])
    = Ok (Leaves [LKv kA []; LKv kB []; LKv kC []; LBk kD 7 0]) /\
  lkeys_below [LKv kA []; LKv kB []] [LKv kC []; LBk kD 7 0].
Proof.
  repeat split; try (vm_compute; reflexivity).
  intros a b Ha Hb. cbn in Ha, Hb.
  destruct Ha as [<-|[<-|[]]]; destruct Hb as [<-|[<-|[]]]; reflexivity.
Qed.

(* isort_by does NOT produce a strictly sorted list when two keys coincide (the distinctness
   hypothesis of [isort_by_sorted] is needed) *)
Example isort_dup_not_sorted :
  sorted_keys (map lkey (isort_by lkey [LKv kA [x01]; LKv kA [x02]])) = false.
Proof. vm_compute; reflexivity. Qed.

Print Assumptions bs_loop_sim.
Print Assumptions bsearch_agree.
Print Assumptions ebsearch_spec.
Print Assumptions alookup_ainsert.
Print Assumptions alookup_aremove.
Print Assumptions leaf_insert_assoc.
Print Assumptions leaf_insert_sorted.
Print Assumptions leaf_insert_lookup.
Print Assumptions leaf_delete_assoc.
Print Assumptions leaf_delete_sorted.
Print Assumptions leaf_delete_lookup.
Print Assumptions isort_by_perm.
Print Assumptions isort_by_sorted.
Print Assumptions isort_by_id.
Print Assumptions merge_data_leaves_gen.
Print Assumptions merge_data_leaves.
Print Assumptions merge_data_leaves_left.
Print Assumptions merge_data_leaves_right.
Print Assumptions merge_data_branches_gen.
Print Assumptions merge_data_branches.
Print Assumptions split_idx_cuts.
Print Assumptions split_idx_spec.
Print Assumptions split_small.
Print Assumptions split_concat.
Print Assumptions split_concat_leaves.
Print Assumptions split_concat_branches.
Print Assumptions split_pieces_strong.
Print Assumptions split_pieces.
Print Assumptions split_count.
Print Assumptions split_leaf6.
Print Assumptions split_leaf5.
Print Assumptions leaf_round_trip.
