(* Property C07 for the engine model: a write transaction reads its own uncommitted changes.

   1. [ovl_lookup d b path k]: the point read of key [k] in the bucket at [path], through the OVERLAY of the running
      write transaction (sub-buckets opened / created in this transaction shadow the stored (root, next) of their
      entry; everything else is read through the materialised nodes and the committed pages). It modifies nothing.
   2. [ref_lookup path m k]: the reference's answer on the nested map [m]; [ovl_lookup_refines]: on a well-formed
      overlay that means [m] the two agree ([rd_matches] / [ent_matches]); corollaries in terms of [Spec.get_at].
   3. [tx_reads]: after the operations [ops] of a write transaction, every lookup anywhere in the bucket tree answers
      what the reference answers in [sem_tx ops (abs_db st)]; [tx_reads_prefix]: the same after any prefix.
      Special cases: [tx_read_own_put], [tx_read_own_del], [tx_read_own_delb].
   4. Examples on [ex2_db].
   Everything is closed under the global context (see the [Print Assumptions] at the end). *)
From Coq Require Import List NArith Bool Arith Lia ZifyN ZifyNat ZifyBool.
From Coq.Strings Require Import Byte.
From Jamm Require Import Bytes Tree Spec Cursor SearchFacts Engine EngineFacts EngineModifyFacts EngineAbs
  EnginePathFacts.
From Jamm Require SpecPathFacts.
Import ListNotations.
Import Coq.Strings.String.StringSyntax. Delimit Scope string_scope with string.
Local Open Scope list_scope. Local Open Scope nat_scope.
Set Warnings "-abstract-large-number".
Arguments N.add : simpl never. Arguments N.sub : simpl never. Arguments N.mul : simpl never.
Arguments N.div : simpl never. Arguments N.ltb : simpl never. Arguments N.leb : simpl never.
Arguments N.eqb : simpl never.

(* ====================================================================== *)
(** * 1. The read through the overlay, and the reference's answer *)

(* get_bucket along [path] (an opened sub-bucket first, else the stored entry, opened read-only), then get.
   Structural in the path: no fuel. The errors are those of the library's get_bucket. *)
Fixpoint ovl_lookup (d : disk) (b : bucket) (path : list bytes) (k : bytes) {struct path} : res (option leafent) :=
  match path with
  | [] => b_lookup d b k
  | nm :: rest =>
      match sub_find nm (b_subs b) with
      | Some sb => ovl_lookup d sb rest k
      | None =>
          bind (b_lookup d b nm) (fun cur =>
            match cur with
            | Some (LBk _ r nx) => ovl_lookup d (Bucket r nx false None []) rest k
            | Some (LKv _ _) => Err "IncompatibleValue"%string
            | None => Err "BucketMissing"%string
            end)
      end
  end.

(* the reference: what the nested map answers *)
Inductive rd_ans := RdEnt (o : option snode) | RdMissing | RdIncompat.
Fixpoint ref_lookup (path : list bytes) (m : snode) (k : bytes) : rd_ans :=
  match path with
  | [] => RdEnt (Spec.alookup k (Spec.b_ents m))
  | nm :: rest =>
      match Spec.alookup nm (Spec.b_ents m) with
      | Some (SVal _) => RdIncompat
      | Some c => ref_lookup rest c k
      | None => RdMissing
      end
  end.

(* a stored / overlay entry under key [k] against the reference's entry *)
Inductive ent_matches (k : bytes) : option snode -> option leafent -> Prop :=
| EM_none : ent_matches k None None
| EM_val : forall v, ent_matches k (Some (SVal v)) (Some (LKv k v))
| EM_bucket : forall o x es r nx, ent_matches k (Some (SBucket o x es)) (Some (LBk k r nx)).

Definition rd_matches (k : bytes) (a : rd_ans) (r : res (option leafent)) : Prop :=
  match a with
  | RdEnt o => exists e, r = Ok e /\ ent_matches k o e
  | RdMissing => r = Err "BucketMissing"%string
  | RdIncompat => r = Err "IncompatibleValue"%string
  end.

(* what the API shows of an entry (Spec.item), and the two reads of the reference machine *)
Definition ent_item (e : leafent) : Spec.item := match e with LKv k v => Spec.IKv k v | LBk k _ _ => Spec.IBk k end.
Definition ent_kv (e : leafent) : option Spec.item :=
  match e with LKv k v => Some (Spec.IKv k v) | LBk _ _ _ => None end.

Lemma ent_matches_get : forall k o e, ent_matches k o e ->
  option_map ent_item e = option_map (fun c => Spec.to_item (k, c)) o.
Proof. intros k o e H. destruct H; reflexivity. Qed.

Lemma ent_matches_get_kv : forall k o e, ent_matches k o e ->
  match e with Some e0 => ent_kv e0 | None => None end =
  match o with Some (SVal v) => Some (Spec.IKv k v) | _ => None end.
Proof. intros k o e H. destruct H; reflexivity. Qed.

(* ====================================================================== *)
(** * 2. The overlay read refines the reference *)

(* one level: the final get *)
Lemma b_lookup_matches : forall d b m k, ovl_wf d b -> OvlAbs d b m ->
  exists e, b_lookup d b k = Ok e /\ ent_matches k (Spec.alookup k (Spec.b_ents m)) e.
Proof.
  intros d b m k Hw Ha.
  destruct (ovl_both d b m Hw Ha) as (l & ents & Em & Hbw & Hbv & Hs & Hnd & Hsubs & HF & Hroot).
  pose proof (F2_alookup _ (OvlEnt_key d (b_subs b)) l ents k HF) as Hlk.
  exists (Spec.alookup k (assoc l)). split; [apply b_lookup_refines; assumption|].
  subst m. cbn [Spec.b_ents].
  destruct (Spec.alookup k (assoc l)) as [[k0 v|k0 r nx]|] eqn:Hal.
  - destruct (alookup_assoc_key _ _ _ Hal) as [Ek _]. cbn [lkey] in Ek. subst k0.
    destruct Hlk as (x & Hx & He). apply OvlEnt_kv_inv in He. destruct He as [_ ->]. rewrite Hx. constructor.
  - destruct (alookup_assoc_key _ _ _ Hal) as [Ek _]. cbn [lkey] in Ek. subst k0.
    destruct Hlk as (x & Hx & He). destruct (OvlEnt_bk_bucket _ _ _ _ _ _ He) as (o & nx' & es & Ex).
    cbn [snd] in Ex. subst x. rewrite Hx. constructor.
  - rewrite Hlk. constructor.
Qed.

Theorem ovl_lookup_refines : forall d path b m k, ovl_wf d b -> OvlAbs d b m ->
  rd_matches k (ref_lookup path m k) (ovl_lookup d b path k).
Proof.
  intros d. induction path as [|nm rest IH]; intros b m k Hw Ha.
  - cbn [ref_lookup ovl_lookup rd_matches]. now apply b_lookup_matches.
  - cbn [ref_lookup ovl_lookup].
    destruct (sub_find nm (b_subs b)) as [sb|] eqn:Hsf.
    + (* opened in this transaction *)
      destruct (sub_meaning d b m nm sb Hw Ha Hsf) as (c & Hc & Hac & Hwc). rewrite Hc.
      destruct (OvlAbs_bucket _ _ _ Hac) as [es Ec]. rewrite Ec. rewrite <- Ec. now apply IH.
    + destruct (ovl_both d b m Hw Ha) as (l & ents & Em & Hbw & Hbv & Hs & Hnd & Hsubs & HF & Hroot).
      pose proof (F2_alookup _ (OvlEnt_key d (b_subs b)) l ents nm HF) as Hlk.
      rewrite (b_lookup_refines d b l nm Hbw Hbv). cbn [bind]. subst m. cbn [Spec.b_ents].
      destruct (Spec.alookup nm (assoc l)) as [[k0 v|k0 r nx]|] eqn:Hal.
      * destruct Hlk as (x & Hx & He). apply OvlEnt_kv_inv in He. destruct He as [_ ->]. rewrite Hx. reflexivity.
      * destruct (alookup_assoc_key _ _ _ Hal) as [Ek _]. cbn [lkey] in Ek. subst k0.
        destruct Hlk as (x & Hx & He). rewrite Hx. apply OvlEnt_bk_inv in He.
        destruct He as [_ [(sb' & Hsf' & _) | (_ & Hc)]]; [congruence|].
        destruct (open_committed d r nx x Hc) as [Hw0 Ha0].
        destruct (CAbs_bucket _ _ _ _ Hc) as [es Ec]. rewrite Ec. rewrite <- Ec. now apply IH.
      * rewrite Hlk. reflexivity.
Qed.

(* ---------- the same, in terms of [Spec.get_at] ---------- *)
Lemma ref_lookup_bucket : forall path m k o x es, Spec.get_at path m = Some (SBucket o x es) ->
  ref_lookup path m k = RdEnt (Spec.alookup k es).
Proof.
  induction path as [|nm rest IH]; intros m k o x es Hg; cbn [Spec.get_at ref_lookup] in *.
  - inversion Hg; subst. reflexivity.
  - destruct (Spec.alookup nm (Spec.b_ents m)) as [c|]; [|discriminate].
    destruct c as [v|o' x' es'].
    + destruct rest; cbn [Spec.get_at Spec.b_ents Spec.alookup] in Hg; discriminate.
    + eapply IH; eauto.
Qed.

Lemma ref_lookup_value : forall path m k v, SpecPathFacts.is_bucket m = true ->
  Spec.get_at path m = Some (SVal v) -> ref_lookup path m k = RdIncompat.
Proof.
  induction path as [|nm rest IH]; intros m k v Hb Hg; cbn [Spec.get_at ref_lookup] in *.
  - inversion Hg; subst. discriminate.
  - destruct (Spec.alookup nm (Spec.b_ents m)) as [c|]; [|discriminate].
    destruct c as [v'|o' x' es']; [reflexivity|]. eapply IH; eauto.
Qed.

Lemma ref_lookup_none : forall path m k, Spec.get_at path m = None ->
  ref_lookup path m k = RdMissing \/ ref_lookup path m k = RdIncompat.
Proof.
  induction path as [|nm rest IH]; intros m k Hg; cbn [Spec.get_at ref_lookup] in *; [discriminate|].
  destruct (Spec.alookup nm (Spec.b_ents m)) as [c|]; [|now left].
  destruct c as [v'|o' x' es']; [now right|]. now apply IH.
Qed.

Lemma OvlAbs_is_bucket : forall d b m, OvlAbs d b m -> SpecPathFacts.is_bucket m = true.
Proof. intros d b m H. destruct (OvlAbs_bucket _ _ _ H) as [es ->]. reflexivity. Qed.

(* the path leads to a bucket of the reference: the read answers the reference's entry *)
Corollary ovl_lookup_at_bucket : forall d b m path k o x es, ovl_wf d b -> OvlAbs d b m ->
  Spec.get_at path m = Some (SBucket o x es) ->
  exists e, ovl_lookup d b path k = Ok e /\ ent_matches k (Spec.alookup k es) e.
Proof.
  intros d b m path k o x es Hw Ha Hg. pose proof (ovl_lookup_refines d path b m k Hw Ha) as H.
  rewrite (ref_lookup_bucket path m k o x es Hg) in H. exact H.
Qed.

(* the path names a plain value: IncompatibleValue, as get_bucket *)
Corollary ovl_lookup_at_value : forall d b m path k v, ovl_wf d b -> OvlAbs d b m ->
  Spec.get_at path m = Some (SVal v) -> ovl_lookup d b path k = Err "IncompatibleValue"%string.
Proof.
  intros d b m path k v Hw Ha Hg. pose proof (ovl_lookup_refines d path b m k Hw Ha) as H.
  rewrite (ref_lookup_value path m k v (OvlAbs_is_bucket _ _ _ Ha) Hg) in H. exact H.
Qed.

(* the path leads nowhere: a name on it is absent (BucketMissing) or names a plain value (IncompatibleValue);
   which of the two is told by [ref_lookup] in [ovl_lookup_refines] *)
Corollary ovl_lookup_at_none : forall d b m path k, ovl_wf d b -> OvlAbs d b m ->
  Spec.get_at path m = None ->
  ovl_lookup d b path k = Err "BucketMissing"%string \/ ovl_lookup d b path k = Err "IncompatibleValue"%string.
Proof.
  intros d b m path k Hw Ha Hg. pose proof (ovl_lookup_refines d path b m k Hw Ha) as H.
  destruct (ref_lookup_none path m k Hg) as [E|E]; rewrite E in H; [now left | now right].
Qed.

(* ====================================================================== *)
(** * 3. C07: inside a write transaction every read sees the operations done so far *)

Theorem tx_reads : forall st ops root' s', db_pages_wf st -> Forall (op_ok (d_disk st)) ops ->
  tx_fold st ops (root_bucket st, begin_w st) = Ok (root', s') ->
  forall path k,
    rd_matches k (ref_lookup path (sem_tx ops (abs_db st)) k) (ovl_lookup (d_disk st) root' path k).
Proof.
  intros st ops root' s' Hdb Hok Hf path k.
  destruct (ops_refine st ops Hdb Hok) as (r1 & s1 & Hf1 & Hw & Ha & _).
  rewrite Hf in Hf1. inversion Hf1; subst r1 s1. now apply ovl_lookup_refines.
Qed.

Corollary tx_reads_get_at : forall st ops root' s', db_pages_wf st -> Forall (op_ok (d_disk st)) ops ->
  tx_fold st ops (root_bucket st, begin_w st) = Ok (root', s') ->
  forall path k,
    match Spec.get_at path (sem_tx ops (abs_db st)) with
    | Some (SBucket o x es) =>
        exists e, ovl_lookup (d_disk st) root' path k = Ok e /\ ent_matches k (Spec.alookup k es) e
    | Some (SVal _) => ovl_lookup (d_disk st) root' path k = Err "IncompatibleValue"%string
    | None => ovl_lookup (d_disk st) root' path k = Err "BucketMissing"%string \/
              ovl_lookup (d_disk st) root' path k = Err "IncompatibleValue"%string
    end.
Proof.
  intros st ops root' s' Hdb Hok Hf path k.
  destruct (ops_refine st ops Hdb Hok) as (r1 & s1 & Hf1 & Hw & Ha & _).
  rewrite Hf in Hf1. inversion Hf1; subst r1 s1.
  destruct (Spec.get_at path (sem_tx ops (abs_db st))) as [[v|o x es]|] eqn:Hg.
  - eapply ovl_lookup_at_value; eauto.
  - eapply ovl_lookup_at_bucket; eauto.
  - eapply ovl_lookup_at_none; eauto.
Qed.

(* the operation fold, split at any point *)
Lemma fold_res_app : forall {A B} (f : A -> B -> res A) l1 l2 a,
  fold_res f (l1 ++ l2) a = bind (fold_res f l1 a) (fun a' => fold_res f l2 a').
Proof.
  intros A B f. induction l1 as [|x l1 IH]; intros l2 a; cbn [fold_res app bind]; [reflexivity|].
  destruct (f a x) as [a'| |]; cbn [bind]; [apply IH | reflexivity | reflexivity].
Qed.

(* after ANY prefix ops1 of the transaction's operations the overlay exists, the rest of the fold continues from it,
   and every read through it answers the reference after ops1 *)
Theorem tx_reads_prefix : forall st ops1 ops2, db_pages_wf st -> Forall (op_ok (d_disk st)) (ops1 ++ ops2) ->
  exists root1 s1, tx_fold st ops1 (root_bucket st, begin_w st) = Ok (root1, s1) /\
    tx_fold st (ops1 ++ ops2) (root_bucket st, begin_w st) = tx_fold st ops2 (root1, s1) /\
    ovl_wf (d_disk st) root1 /\ OvlAbs (d_disk st) root1 (sem_tx ops1 (abs_db st)) /\
    forall path k,
      rd_matches k (ref_lookup path (sem_tx ops1 (abs_db st)) k) (ovl_lookup (d_disk st) root1 path k).
Proof.
  intros st ops1 ops2 Hdb Hok. apply Forall_app in Hok. destruct Hok as [Hok1 _].
  destruct (ops_refine st ops1 Hdb Hok1) as (r1 & s1 & Hf1 & Hw & Ha & _).
  exists r1, s1. split; [exact Hf1|]. split.
  - unfold tx_fold in *. rewrite fold_res_app, Hf1. reflexivity.
  - split; [exact Hw|]. split; [exact Ha|]. intros path k. now apply ovl_lookup_refines.
Qed.

(* ====================================================================== *)
(** * 4. The reference side: reading back one's own operation *)

(* the committed meaning is a bucket whose entries are sorted at every level; [sem_tx] keeps that *)
Lemma cwf_sorted : forall n d r nx, cwf n d r -> SpecPathFacts.sorted_rec (abs_bucket n d r nx) = true.
Proof.
  induction n as [|n IH]; intros d r nx H; [destruct H|].
  pose proof H as (Hw & l & Hv & Hall).
  rewrite (cwf_abs_bucket n d r nx l H Hv). apply SpecPathFacts.sorted_rec_bucket. split.
  - rewrite map_map. replace (map (fun x => fst (ent_abs n d x)) l) with (map lkey l).
    + eapply wf_page_sorted; eauto.
    + apply map_ext. intros [k v|k r' nx']; reflexivity.
  - intros k c Hin. apply in_map_iff in Hin. destruct Hin as (e & Ee & Hin).
    rewrite Forall_forall in Hall. specialize (Hall e Hin).
    destruct e as [k0 v|k0 r' nx']; cbn [ent_abs] in Ee; inversion Ee; subst; [reflexivity | now apply IH].
Qed.

Theorem abs_db_wf : forall st, db_pages_wf st -> SpecPathFacts.wf (abs_db st).
Proof.
  intros st H. split; [reflexivity|]. unfold abs_db. now apply cwf_sorted.
Qed.

Corollary sem_tx_wf : forall st ops, db_pages_wf st -> SpecPathFacts.wf (sem_tx ops (abs_db st)).
Proof. intros st ops H. apply SpecPathFacts.wf_sem_tx. now apply abs_db_wf. Qed.

(* the bucket a path-addressed WRITE operates on: buckets missing on the way are created (empty), a plain value on
   the way refuses the operation *)
Fixpoint tgt_at (path : list bytes) (m : snode) : option snode :=
  match path with
  | [] => Some m
  | nm :: rest =>
      match Spec.alookup nm (Spec.b_ents m) with
      | Some (SVal _) => None
      | Some c => tgt_at rest c
      | None => tgt_at rest (SBucket 0 0 [])
      end
  end.

Lemma tgt_at_fresh : forall p, tgt_at p (SBucket 0 0 []) = Some (SBucket 0 0 []).
Proof. induction p as [|nm rest IH]; [reflexivity|]. cbn [tgt_at Spec.b_ents Spec.alookup]. exact IH. Qed.

(* ... in terms of what a read answers before the operation *)
Lemma tgt_ref_lookup : forall path m k,
  match ref_lookup path m k with
  | RdIncompat => tgt_at path m = None
  | RdMissing => tgt_at path m = Some (SBucket 0 0 [])
  | RdEnt o => exists t, tgt_at path m = Some t /\ Spec.alookup k (Spec.b_ents t) = o
  end.
Proof.
  induction path as [|nm rest IH]; intros m k; cbn [ref_lookup tgt_at].
  - exists m. auto.
  - destruct (Spec.alookup nm (Spec.b_ents m)) as [[v|o x es]|]; [reflexivity | apply IH | apply tgt_at_fresh].
Qed.

Lemma tgt_at_sorted : forall path m t, SpecPathFacts.sorted_rec m = true -> tgt_at path m = Some t ->
  SpecPathFacts.sorted_rec t = true.
Proof.
  induction path as [|nm rest IH]; intros m t Hs Ht; cbn [tgt_at] in Ht.
  - inversion Ht; subst. exact Hs.
  - destruct (Spec.alookup nm (Spec.b_ents m)) as [[v|o x es]|] eqn:El; [discriminate| |].
    + apply (IH (SBucket o x es)); [|exact Ht]. destruct m as [v'|o' x' es']; [discriminate|].
      cbn [Spec.b_ents] in El. eapply SpecPathFacts.sorted_rec_child; eauto.
    + apply (IH (SBucket 0 0 [])); [reflexivity | exact Ht].
Qed.

Lemma op_fun_bucket : forall o b, SpecPathFacts.is_bucket b = true -> SpecPathFacts.is_bucket (op_fun o b) = true.
Proof.
  intros o [v|ob xb esb] Hb; [discriminate|].
  destruct o as [p k v|p k|p nm|p]; cbn [op_fun]; [| | |reflexivity].
  - unfold sem_put. cbn [Spec.b_ents]. destruct (Spec.alookup k esb) as [[old|? ? ?]|]; reflexivity.
  - unfold sem_del. cbn [Spec.b_ents]. destruct (Spec.alookup k esb) as [[old|? ? ?]|]; reflexivity.
  - unfold sem_delb. cbn [Spec.b_ents]. destruct (Spec.alookup nm esb) as [[old|? ? ?]|]; reflexivity.
Qed.

(* after the operation, the bucket at the path is [f] of the target *)
Lemma sem_at_target : forall path f m t,
  (forall b, SpecPathFacts.is_bucket b = true -> SpecPathFacts.is_bucket (f b) = true) ->
  SpecPathFacts.is_bucket m = true -> tgt_at path m = Some t ->
  SpecPathFacts.is_bucket t = true /\
  exists m', sem_at path f m = Some m' /\ SpecPathFacts.is_bucket m' = true /\ Spec.get_at path m' = Some (f t).
Proof.
  induction path as [|nm rest IH]; intros f m t Hf Hb Ht; cbn [tgt_at] in Ht.
  - inversion Ht; subst t. split; [exact Hb|]. exists (f m). cbn [sem_at Spec.get_at]. auto.
  - cbn [sem_at]. destruct (Spec.alookup nm (Spec.b_ents m)) as [[v|o x es]|] eqn:El; [discriminate| |].
    + destruct (IH f (SBucket o x es) t Hf eq_refl Ht) as (Hbt & c' & Hs & Hbc & Hg). split; [exact Hbt|].
      rewrite Hs. eexists. split; [reflexivity|]. split; [reflexivity|].
      cbn [Spec.get_at set_ents Spec.b_ents]. rewrite alookup_ainsert, beq_refl. exact Hg.
    + destruct (IH f (SBucket 0 0 []) t Hf eq_refl Ht) as (Hbt & c' & Hs & Hbc & Hg). split; [exact Hbt|].
      rewrite Hs. eexists. split; [reflexivity|]. split; [reflexivity|].
      cbn [Spec.get_at set_ents Spec.b_ents]. rewrite alookup_ainsert, beq_refl. exact Hg.
Qed.

Lemma sem_at_no_target : forall path f m, tgt_at path m = None -> sem_at path f m = None.
Proof.
  induction path as [|nm rest IH]; intros f m Ht; cbn [tgt_at] in Ht; [discriminate|]. cbn [sem_at].
  destruct (Spec.alookup nm (Spec.b_ents m)) as [[v|o x es]|]; [reflexivity| |].
  - now rewrite (IH f _ Ht).
  - rewrite tgt_at_fresh in Ht. discriminate.
Qed.

Lemma tgt_none_lookup : forall path m q k, tgt_at path m = None -> ref_lookup (path ++ q) m k = RdIncompat.
Proof.
  induction path as [|nm rest IH]; intros m q k Ht; cbn [tgt_at] in Ht; [discriminate|].
  cbn [app ref_lookup]. destruct (Spec.alookup nm (Spec.b_ents m)) as [[v|o x es]|]; [reflexivity| |].
  - now apply IH.
  - rewrite tgt_at_fresh in Ht. discriminate.
Qed.

Lemma ref_lookup_app : forall path m t q k, Spec.get_at path m = Some t -> SpecPathFacts.is_bucket t = true ->
  ref_lookup (path ++ q) m k = ref_lookup q t k.
Proof.
  induction path as [|nm rest IH]; intros m t q k Hg Hb; cbn [Spec.get_at app] in *.
  - inversion Hg; subst. reflexivity.
  - cbn [ref_lookup]. destruct (Spec.alookup nm (Spec.b_ents m)) as [c|]; [|discriminate].
    destruct c as [v|o' x' es'].
    + destruct rest; cbn [Spec.get_at Spec.b_ents Spec.alookup] in Hg; [|discriminate].
      inversion Hg; subst. discriminate.
    + eapply IH; eauto.
Qed.

(* a put / delete of [k] at [path] is carried out (not refused) iff a read of [k] at [path] BEFORE it does not
   answer IncompatibleValue (a plain value on the path) and does not answer a bucket entry ([k] names a bucket) *)
Definition kv_accepted (path : list bytes) (k : bytes) (m : snode) : Prop :=
  match ref_lookup path m k with
  | RdIncompat => False
  | RdEnt (Some (SBucket _ _ _)) => False
  | _ => True
  end.

Lemma kv_accepted_tgt : forall path k m, kv_accepted path k m ->
  exists t, tgt_at path m = Some t /\
    (Spec.alookup k (Spec.b_ents t) = None \/ exists v0, Spec.alookup k (Spec.b_ents t) = Some (SVal v0)).
Proof.
  intros path k m H. unfold kv_accepted in H. pose proof (tgt_ref_lookup path m k) as Ht.
  destruct (ref_lookup path m k) as [[[v0|o x es]|]| |]; try contradiction.
  - destruct Ht as (t & Ht & Hl). exists t. split; [exact Ht|]. right. eauto.
  - destruct Ht as (t & Ht & Hl). exists t. split; [exact Ht|]. now left.
  - exists (SBucket 0 0 []). split; [exact Ht|]. now left.
Qed.

Lemma ref_lookup_at : forall path m t k, Spec.get_at path m = Some t -> SpecPathFacts.is_bucket t = true ->
  ref_lookup path m k = RdEnt (Spec.alookup k (Spec.b_ents t)).
Proof.
  intros path m [v|o x es] k Hg Hb; [discriminate|]. cbn [Spec.b_ents]. eapply ref_lookup_bucket; eauto.
Qed.

Lemma sem_put_read : forall path k v m, SpecPathFacts.is_bucket m = true -> kv_accepted path k m ->
  ref_lookup path (sem_op (Put path k v) m) k = RdEnt (Some (SVal v)).
Proof.
  intros path k v m Hb Hacc. destruct (kv_accepted_tgt path k m Hacc) as (t & Ht & Hl).
  destruct (sem_at_target path (sem_put k v) m t (op_fun_bucket (Put path k v)) Hb Ht) as (Hbt & m' & Hs & Hbm & Hg).
  unfold sem_op. cbn [op_path op_fun]. rewrite Hs.
  rewrite (ref_lookup_at path m' _ k Hg (op_fun_bucket (Put path k v) t Hbt)). f_equal.
  unfold sem_put. destruct Hl as [Hl | [v0 Hl]]; rewrite Hl; cbn [set_ents Spec.b_ents];
    now rewrite alookup_ainsert, beq_refl.
Qed.

Lemma sem_del_read : forall path k m, SpecPathFacts.wf m -> kv_accepted path k m ->
  ref_lookup path (sem_op (Del path k) m) k = RdEnt None.
Proof.
  intros path k m [Hb Hsm] Hacc. destruct (kv_accepted_tgt path k m Hacc) as (t & Ht & Hl).
  destruct (sem_at_target path (sem_del k) m t (op_fun_bucket (Del path k)) Hb Ht) as (Hbt & m' & Hs & Hbm & Hg).
  pose proof (tgt_at_sorted path m t Hsm Ht) as Hst.
  unfold sem_op. cbn [op_path op_fun]. rewrite Hs.
  rewrite (ref_lookup_at path m' _ k Hg (op_fun_bucket (Del path k) t Hbt)). f_equal.
  unfold sem_del. destruct Hl as [Hl | [v0 Hl]]; rewrite Hl; [exact Hl|]. cbn [set_ents Spec.b_ents].
  destruct t as [v'|o x es]; [discriminate|]. apply SpecPathFacts.sorted_rec_bucket in Hst. destruct Hst as [Hst _].
  cbn [Spec.b_ents]. now rewrite (alookup_aremove es k k Hst), beq_refl.
Qed.

(* after delete_bucket [nm] at [path], the path [path ++ [nm]] does not lead to a bucket -- whether or not the
   operation was carried out; the error is the one a read BEFORE it tells *)
Lemma sem_delb_read : forall path nm m k', SpecPathFacts.wf m ->
  ref_lookup (path ++ [nm]) (sem_op (DelB path nm) m) k' =
  match ref_lookup path m nm with
  | RdIncompat | RdEnt (Some (SVal _)) => RdIncompat
  | _ => RdMissing
  end.
Proof.
  intros path nm m k' [Hb Hsm]. pose proof (tgt_ref_lookup path m nm) as Ht.
  unfold sem_op. cbn [op_path op_fun].
  assert (Hgen : forall t, tgt_at path m = Some t ->
            ref_lookup (path ++ [nm]) (match sem_at path (sem_delb nm) m with Some r => r | None => m end) k' =
            match Spec.alookup nm (Spec.b_ents t) with Some (SVal _) => RdIncompat | _ => RdMissing end).
  { intros t Htt.
    destruct (sem_at_target path (sem_delb nm) m t (op_fun_bucket (DelB path nm)) Hb Htt) as (Hbt & m' & Hs & Hbm & Hg).
    pose proof (tgt_at_sorted path m t Hsm Htt) as Hst. rewrite Hs.
    rewrite (ref_lookup_app path m' _ [nm] k' Hg (op_fun_bucket (DelB path nm) t Hbt)).
    cbn [ref_lookup op_fun]. unfold sem_delb.
    destruct (Spec.alookup nm (Spec.b_ents t)) as [[v0|o x es]|] eqn:El.
    - now rewrite El.
    - cbn [set_ents Spec.b_ents]. destruct t as [v'|ot xt est]; [discriminate|].
      apply SpecPathFacts.sorted_rec_bucket in Hst. destruct Hst as [Hst _]. cbn [Spec.b_ents].
      now rewrite (alookup_aremove est nm nm Hst), beq_refl.
    - now rewrite El. }
  destruct (ref_lookup path m nm) as [o| |].
  - destruct Ht as (t & Htt & Hl). rewrite (Hgen t Htt), Hl. destruct o as [[v0|? ? ?]|]; reflexivity.
  - rewrite (Hgen _ Ht). reflexivity.
  - rewrite (sem_at_no_target path (sem_delb nm) m Ht). now apply tgt_none_lookup.
Qed.

(* ====================================================================== *)
(** * 5. C07, the special cases: own put, own delete, own delete_bucket *)

Lemma sem_tx_snoc : forall ops o m, sem_tx (ops ++ [o]) m = sem_op o (sem_tx ops m).
Proof. intros ops o m. rewrite SpecPathFacts.sem_tx_app. reflexivity. Qed.

Theorem tx_read_own_put : forall st ops path k v root' s', db_pages_wf st ->
  Forall (op_ok (d_disk st)) (ops ++ [Put path k v]) ->
  tx_fold st (ops ++ [Put path k v]) (root_bucket st, begin_w st) = Ok (root', s') ->
  kv_accepted path k (sem_tx ops (abs_db st)) ->
  ovl_lookup (d_disk st) root' path k = Ok (Some (LKv k v)).
Proof.
  intros st ops path k v root' s' Hdb Hok Hf Hacc.
  pose proof (tx_reads st _ root' s' Hdb Hok Hf path k) as H.
  rewrite sem_tx_snoc, (sem_put_read path k v _ (proj1 (sem_tx_wf st ops Hdb)) Hacc) in H.
  destruct H as (e & He & Hm). rewrite He. inversion Hm; subst. reflexivity.
Qed.

Theorem tx_read_own_del : forall st ops path k root' s', db_pages_wf st ->
  Forall (op_ok (d_disk st)) (ops ++ [Del path k]) ->
  tx_fold st (ops ++ [Del path k]) (root_bucket st, begin_w st) = Ok (root', s') ->
  kv_accepted path k (sem_tx ops (abs_db st)) ->
  ovl_lookup (d_disk st) root' path k = Ok None.
Proof.
  intros st ops path k root' s' Hdb Hok Hf Hacc.
  pose proof (tx_reads st _ root' s' Hdb Hok Hf path k) as H.
  rewrite sem_tx_snoc, (sem_del_read path k _ (sem_tx_wf st ops Hdb) Hacc) in H.
  destruct H as (e & He & Hm). rewrite He. inversion Hm; subst. reflexivity.
Qed.

(* unconditional: [path ++ [nm]] is not a bucket afterwards (when the delete is refused because [nm] is a plain
   value or the path runs through one, it was not a bucket before either) *)
Theorem tx_read_own_delb : forall st ops path nm root' s', db_pages_wf st ->
  Forall (op_ok (d_disk st)) (ops ++ [DelB path nm]) ->
  tx_fold st (ops ++ [DelB path nm]) (root_bucket st, begin_w st) = Ok (root', s') ->
  forall k', ovl_lookup (d_disk st) root' (path ++ [nm]) k' =
    match ref_lookup path (sem_tx ops (abs_db st)) nm with
    | RdIncompat | RdEnt (Some (SVal _)) => Err "IncompatibleValue"%string
    | _ => Err "BucketMissing"%string
    end.
Proof.
  intros st ops path nm root' s' Hdb Hok Hf k'.
  pose proof (tx_reads st _ root' s' Hdb Hok Hf (path ++ [nm]) k') as H.
  rewrite sem_tx_snoc, (sem_delb_read path nm _ k' (sem_tx_wf st ops Hdb)) in H.
  destruct (ref_lookup path (sem_tx ops (abs_db st)) nm) as [[[v0|? ? ?]|]| |]; exact H.
Qed.

(* in particular: a bucket that existed is gone *)
Corollary tx_read_deleted_bucket : forall st ops path nm root' s' o x es o' x' es', db_pages_wf st ->
  Forall (op_ok (d_disk st)) (ops ++ [DelB path nm]) ->
  tx_fold st (ops ++ [DelB path nm]) (root_bucket st, begin_w st) = Ok (root', s') ->
  Spec.get_at path (sem_tx ops (abs_db st)) = Some (SBucket o x es) ->
  Spec.alookup nm es = Some (SBucket o' x' es') ->
  forall k', ovl_lookup (d_disk st) root' (path ++ [nm]) k' = Err "BucketMissing"%string.
Proof.
  intros st ops path nm root' s' o x es o' x' es' Hdb Hok Hf Hg Hl k'.
  rewrite (tx_read_own_delb st ops path nm root' s' Hdb Hok Hf k').
  rewrite (ref_lookup_bucket path _ nm o x es Hg), Hl. reflexivity.
Qed.

(* [kv_accepted] in the two common situations *)
Lemma kv_accepted_at_bucket : forall path k m o x es, Spec.get_at path m = Some (SBucket o x es) ->
  (forall o' x' es', Spec.alookup k es <> Some (SBucket o' x' es')) -> kv_accepted path k m.
Proof.
  intros path k m o x es Hg Hn. unfold kv_accepted. rewrite (ref_lookup_bucket path m k o x es Hg).
  destruct (Spec.alookup k es) as [[v|o' x' es']|]; [exact I | | exact I]. exact (Hn o' x' es' eq_refl).
Qed.

(* ====================================================================== *)
(** * 6. Examples on [ex2_db] (bucket "b" stored on disk with "e"; "c" created in the transaction) *)

(* the overlay after  put c/d := 03 ; put b/f := 04 *)
Example ex2_reads_computed :
  (* committed value, untouched *)
  ovl_lookup ex2_disk ex2_root1 [] kA = Ok (Some (LKv kA [x01])) /\
  (* own write into the bucket created in this transaction *)
  ovl_lookup ex2_disk ex2_root1 [kC] kD = Ok (Some (LKv kD [x03])) /\
  (* own write into the stored bucket, and its committed neighbour *)
  ovl_lookup ex2_disk ex2_root1 [kB] kF = Ok (Some (LKv kF [x04])) /\
  ovl_lookup ex2_disk ex2_root1 [kB] kE = Ok (Some (LKv kE [x02])) /\
  ovl_lookup ex2_disk ex2_root1 [kB] kA = Ok None /\
  (* bucket entries *)
  ovl_lookup ex2_disk ex2_root1 [] kB = Ok (Some (LBk kB 4 1)) /\
  ovl_lookup ex2_disk ex2_root1 [] kC = Ok (Some (LBk kC 0 0)) /\
  (* not buckets *)
  ovl_lookup ex2_disk ex2_root1 [kA] kA = Err "IncompatibleValue"%string /\
  ovl_lookup ex2_disk ex2_root1 [kG] kA = Err "BucketMissing"%string /\
  ovl_lookup ex2_disk ex2_root1 [kB; kE; kA] kA = Err "IncompatibleValue"%string /\
  (* a fresh transaction reads the stored bucket without opening it *)
  ovl_lookup ex2_disk (root_bucket ex2_db) [kB] kE = Ok (Some (LKv kE [x02])) /\
  ovl_lookup ex2_disk (root_bucket ex2_db) [kB] kF = Ok None.
Proof. vm_compute. repeat split; reflexivity. Qed.

Lemma ex2_ops_ok : Forall (op_ok ex2_disk) ex2_ops.
Proof. repeat constructor; cbn; try lia; exact ex2_free_tree_ok. Qed.

(* all four kinds of operation ([ex2_ops], meaning [ex2_m2]): the theorem applies, and what it says is observed *)
Example ex2_tx_reads :
  exists root' s', tx_fold ex2_db ex2_ops (root_bucket ex2_db, begin_w ex2_db) = Ok (root', s') /\
    (forall path k, rd_matches k (ref_lookup path ex2_m2 k) (ovl_lookup ex2_disk root' path k)) /\
    (* "a" was a value, deleted, then created as a bucket by put a/a := 07 *)
    ovl_lookup ex2_disk root' [] kA = Ok (Some (LBk kA 0 0)) /\
    ovl_lookup ex2_disk root' [kA] kA = Ok (Some (LKv kA [x07])) /\
    (* the stored bucket "b" was deleted and created again: its old keys are gone *)
    ovl_lookup ex2_disk root' [kB] kE = Ok None /\
    ovl_lookup ex2_disk root' [kB] kF = Ok None /\
    ovl_lookup ex2_disk root' [kB; kB] kB = Ok (Some (LKv kB [x09])) /\
    (* g/g was created by Touch and deleted by delete_bucket *)
    ovl_lookup ex2_disk root' [kG; kG] kA = Err "BucketMissing"%string /\
    ovl_lookup ex2_disk root' [kG] kG = Ok None /\
    (* c/d is a value: put c/d/a was refused *)
    ovl_lookup ex2_disk root' [kC; kD] kA = Err "IncompatibleValue"%string /\
    ovl_lookup ex2_disk root' [kC] kD = Ok (Some (LKv kD [x03])).
Proof.
  destruct (ops_refine ex2_db ex2_ops ex2_db_wf ex2_ops_ok) as (root' & s' & Hf & _).
  exists root', s'. split; [exact Hf|]. split.
  - exact (tx_reads ex2_db ex2_ops root' s' ex2_db_wf ex2_ops_ok Hf).
  - vm_compute in Hf. inversion Hf; subst root' s'. vm_compute. repeat split; reflexivity.
Qed.

(* the special cases, instantiated after [ex2_ops0] *)
Example ex2_own_ops :
  (* put b/g/a := 05: "b" is stored and open, "g" is created inside it by the put *)
  (exists root' s', tx_fold ex2_db (ex2_ops0 ++ [Put [kB; kG] kA [x05]]) (root_bucket ex2_db, begin_w ex2_db) = Ok (root', s') /\
     ovl_lookup ex2_disk root' [kB; kG] kA = Ok (Some (LKv kA [x05]))) /\
  (* delete b/e (a committed key of the stored bucket) *)
  (exists root' s', tx_fold ex2_db (ex2_ops0 ++ [Del [kB] kE]) (root_bucket ex2_db, begin_w ex2_db) = Ok (root', s') /\
     ovl_lookup ex2_disk root' [kB] kE = Ok None) /\
  (* delete_bucket b *)
  (exists root' s', tx_fold ex2_db (ex2_ops0 ++ [DelB [] kB]) (root_bucket ex2_db, begin_w ex2_db) = Ok (root', s') /\
     forall k', ovl_lookup ex2_disk root' [kB] k' = Err "BucketMissing"%string).
Proof.
  assert (Hok : forall o, op_ok ex2_disk o -> Forall (op_ok (d_disk ex2_db)) (ex2_ops0 ++ [o])).
  { intros o Ho. apply Forall_app. split; [exact ex2_ops0_ok | constructor; [exact Ho | constructor]]. }
  split; [|split].
  - assert (H : Forall (op_ok (d_disk ex2_db)) (ex2_ops0 ++ [Put [kB; kG] kA [x05]])) by (apply Hok; split; cbn; [lia | exact I]).
    destruct (ops_refine ex2_db _ ex2_db_wf H) as (root' & s' & Hf & _). exists root', s'. split; [exact Hf|].
    apply (tx_read_own_put ex2_db ex2_ops0 [kB; kG] kA [x05] root' s' ex2_db_wf H Hf). vm_compute. exact I.
  - assert (H : Forall (op_ok (d_disk ex2_db)) (ex2_ops0 ++ [Del [kB] kE])) by (apply Hok; split; cbn; [lia | exact I]).
    destruct (ops_refine ex2_db _ ex2_db_wf H) as (root' & s' & Hf & _). exists root', s'. split; [exact Hf|].
    apply (tx_read_own_del ex2_db ex2_ops0 [kB] kE root' s' ex2_db_wf H Hf). vm_compute. exact I.
  - assert (H : Forall (op_ok (d_disk ex2_db)) (ex2_ops0 ++ [DelB [] kB])) by (apply Hok; split; cbn; [lia | exact ex2_free_tree_ok]).
    destruct (ops_refine ex2_db _ ex2_db_wf H) as (root' & s' & Hf & _). exists root', s'. split; [exact Hf|].
    intros k'. exact (tx_read_own_delb ex2_db ex2_ops0 [] kB root' s' ex2_db_wf H Hf k').
Qed.

(* [kv_accepted] cannot be dropped from [tx_read_own_put]: a put on a key that names a bucket is refused
   (IncompatibleValue, absorbed by run_tx's [soft]) and the read still answers the bucket entry *)
Example ex2_put_refused :
  ~ kv_accepted [] kB (sem_tx [] (abs_db ex2_db)) /\
  exists root' s', tx_fold ex2_db ([] ++ [Put [] kB [x05]]) (root_bucket ex2_db, begin_w ex2_db) = Ok (root', s') /\
    ovl_lookup ex2_disk root' [] kB = Ok (Some (LBk kB 4 1)).
Proof.
  split; [vm_compute; intros H; exact H|]. eexists _, _. split; vm_compute; reflexivity.
Qed.

Print Assumptions ovl_lookup_refines.
Print Assumptions ovl_lookup_at_bucket.
Print Assumptions ovl_lookup_at_value.
Print Assumptions ovl_lookup_at_none.
Print Assumptions tx_reads.
Print Assumptions tx_reads_get_at.
Print Assumptions tx_reads_prefix.
Print Assumptions tx_read_own_put.
Print Assumptions tx_read_own_del.
Print Assumptions tx_read_own_delb.
Print Assumptions tx_read_deleted_bucket.
Print Assumptions abs_db_wf.
Print Assumptions ex2_reads_computed.
Print Assumptions ex2_tx_reads.
Print Assumptions ex2_own_ops.
Print Assumptions ex2_put_refused.
